// Package cli is the command line shared by the all-checks binary and the per-check binaries.
package cli

import (
	"flag"
	"fmt"
	"os"
	"strconv"

	"verif/internal/engine"
)

// Main runs the master, worker or replay mode according to os.Args.
func Main() {
	if len(os.Args) < 2 {
		fmt.Fprintln(os.Stderr, "usage: verif check <ID> [--tier quick|thorough] | worker <ID> <tier> <seed> | replay <file> | list")
		os.Exit(2)
	}
	if cmd, ok := engine.Commands[os.Args[1]]; ok {
		os.Exit(cmd(os.Args[2:]))
	}
	switch os.Args[1] {
	case "worker":
		seed, _ := strconv.ParseInt(os.Args[4], 10, 64)
		engine.WorkerMain(os.Args[2], os.Args[3], seed)
	case "list":
		for _, id := range engine.IDs() {
			fmt.Println(id)
		}
	case "replay":
		os.Exit(engine.Replay(os.Args[2]))
	case "check":
		fs := flag.NewFlagSet("check", flag.ExitOnError)
		tier := fs.String("tier", envOr("VERIF_TIER", "quick"), "quick|thorough")
		workers := fs.Int("workers", 16, "worker processes")
		budget := fs.Float64("budget", 0, "internal deadline in seconds (0 = tier default)")
		root := fs.String("root", "/verif", "verif root")
		id := os.Args[2]
		fs.Parse(os.Args[3:])
		seed, _ := strconv.ParseInt(envOr("VERIF_SEED", "0"), 10, 64)
		if w, err := strconv.Atoi(os.Getenv("VERIF_WORKERS")); err == nil && w > 0 {
			*workers = w
		}
		os.Exit(engine.RunCheck(engine.Options{ID: id, Tier: *tier, Seed: seed, Workers: *workers, Root: *root, BudgetS: *budget}))
	default:
		fmt.Fprintln(os.Stderr, "unknown mode", os.Args[1])
		os.Exit(2)
	}
}

func envOr(k, d string) string {
	if v := os.Getenv(k); v != "" {
		return v
	}
	return d
}
