// Package cssn converts css/parser tokens into a neutral textual form that records
// everything a token carries except comments and source positions.
package cssn

import (
	"fmt"
	"strings"

	pa "github.com/benoitkugler/webrender/css/parser"
)

// Options selects what goes into the neutral form.
type Options struct {
	KeepComments bool
	Positions    bool
	ErrorFlags   bool // string/url EOF flags and parse-error kinds
	MergeWS      bool // adjacent white-space tokens (left by a skipped comment) count as one, at every depth
}

func q(s string) string { return fmt.Sprintf("%q", s) }

// HasError reports whether the list contains a ParseError token at any depth.
func HasError(l []pa.Token) bool {
	for _, t := range l {
		switch t := t.(type) {
		case pa.ParseError:
			return true
		case pa.ParenthesesBlock:
			if HasError(t.Arguments) {
				return true
			}
		case pa.SquareBracketsBlock:
			if HasError(t.Arguments) {
				return true
			}
		case pa.CurlyBracketsBlock:
			if HasError(t.Arguments) {
				return true
			}
		case pa.FunctionBlock:
			if HasError(t.Arguments) {
				return true
			}
		}
	}
	return false
}

func List(l []pa.Token, o Options) string {
	var sb strings.Builder
	write(&sb, l, o)
	return sb.String()
}

func pos(t pa.Token, o Options) string {
	if !o.Positions {
		return ""
	}
	p := t.Pos()
	return fmt.Sprintf("@%d:%d", p.Line, p.Column)
}

func write(sb *strings.Builder, l []pa.Token, o Options) {
	prevWS := false
	for _, t := range l {
		if _, isC := t.(pa.Comment); isC && !o.KeepComments {
			continue
		}
		if _, isWS := t.(pa.Whitespace); isWS {
			if prevWS && o.MergeWS {
				continue
			}
			prevWS = true
		} else {
			prevWS = false
		}
		One(sb, t, o)
		sb.WriteByte(' ')
	}
}

func num(v string, isInt bool) string {
	if isInt {
		return v + ",int"
	}
	return v + ",num"
}

func One(sb *strings.Builder, t pa.Token, o Options) {
	switch t := t.(type) {
	case pa.Comment:
		if !o.KeepComments {
			return
		}
		sb.WriteString("comment(" + q(t.Value) + ")")
	case pa.Whitespace:
		sb.WriteString("ws")
	case pa.Literal:
		sb.WriteString("lit(" + q(t.Value) + ")")
	case pa.Ident:
		sb.WriteString("ident(" + q(t.Value) + ")")
	case pa.AtKeyword:
		sb.WriteString("at(" + q(t.Value) + ")")
	case pa.Hash:
		f := "unrestricted"
		if pa.VerifHashIsIdentifier(t) {
			f = "id"
		}
		sb.WriteString("hash(" + q(t.Value) + "," + f + ")")
	case pa.String:
		sb.WriteString("string(" + q(t.Value))
		if o.ErrorFlags && pa.VerifStringHasError(t) {
			sb.WriteString(",eof")
		}
		sb.WriteString(")")
	case pa.URL:
		sb.WriteString("url(" + q(t.Value))
		if o.ErrorFlags && pa.VerifURLHasError(t) {
			sb.WriteString(",eof")
		}
		sb.WriteString(")")
	case pa.UnicodeRange:
		fmt.Fprintf(sb, "urange(%x-%x)", t.Start, t.End)
	case pa.Number:
		sb.WriteString("number(" + num(t.Value, t.IsInt()) + ")")
	case pa.Percentage:
		sb.WriteString("percentage(" + num(t.Value, t.IsInt()) + ")")
	case pa.Dimension:
		sb.WriteString("dimension(" + num(t.Value, t.IsInt()) + "," + q(t.Unit) + ")")
	case pa.ParenthesesBlock:
		sb.WriteString("(")
		write(sb, t.Arguments, o)
		sb.WriteString(")")
	case pa.SquareBracketsBlock:
		sb.WriteString("[")
		write(sb, t.Arguments, o)
		sb.WriteString("]")
	case pa.CurlyBracketsBlock:
		sb.WriteString("{")
		write(sb, t.Arguments, o)
		sb.WriteString("}")
	case pa.FunctionBlock:
		sb.WriteString("fn(" + q(t.Name) + ")(")
		write(sb, t.Arguments, o)
		sb.WriteString(")")
	case pa.ParseError:
		if o.ErrorFlags {
			fmt.Fprintf(sb, "error(%c)", pa.VerifParseErrorKind(t))
		} else {
			sb.WriteString("error")
		}
	default:
		fmt.Fprintf(sb, "?%T", t)
	}
	sb.WriteString(pos(t, o))
}

// Compounds renders rules and declarations.
func Compounds(l []pa.Compound, o Options) string {
	var sb strings.Builder
	for _, c := range l {
		switch c := c.(type) {
		case pa.QualifiedRule:
			sb.WriteString("qrule[" + List(c.Prelude, o) + "]{" + List(c.Content, o) + "}")
		case pa.AtRule:
			sb.WriteString("atrule(" + q(c.AtKeyword) + ")[" + List(c.Prelude, o) + "]")
			if c.Content == nil {
				sb.WriteString(";")
			} else {
				sb.WriteString("{" + List(c.Content, o) + "}")
			}
		case pa.Declaration:
			sb.WriteString("decl(" + q(c.Name) + ")[" + List(c.Value, o) + "]")
			if c.Important {
				sb.WriteString("!")
			}
		case pa.ParseError:
			if o.ErrorFlags {
				fmt.Fprintf(&sb, "error(%c)", pa.VerifParseErrorKind(c))
			} else {
				sb.WriteString("error")
			}
		case pa.Whitespace:
			sb.WriteString("ws")
		case pa.Comment:
			if o.KeepComments {
				sb.WriteString("comment(" + q(c.Value) + ")")
			} else {
				continue
			}
		}
		if o.Positions {
			p := c.Pos()
			fmt.Fprintf(&sb, "@%d:%d", p.Line, p.Column)
		}
		sb.WriteByte('\n')
	}
	return sb.String()
}
