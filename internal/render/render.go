// Package render drives the real pipeline (tree.NewHTML → document.Render → Write) with
// harness-owned fonts, fetcher, loggers and recording backend.
package render

import (
	"bytes"
	"fmt"
	"io"
	"os"
	"regexp"
	"strconv"
	"sync"

	fc "github.com/benoitkugler/textprocessing/fontconfig"
	"github.com/benoitkugler/textprocessing/pango/fcfonts"
	"github.com/benoitkugler/webrender/html/boxes"
	"github.com/benoitkugler/webrender/html/document"
	"github.com/benoitkugler/webrender/html/layout"
	"github.com/benoitkugler/webrender/html/tree"
	"github.com/benoitkugler/webrender/logger"
	"github.com/benoitkugler/webrender/text"
	"github.com/benoitkugler/webrender/utils"
	"github.com/go-text/typesetting/fontscan"

	"verif/internal/rec"
)

const (
	AhemPath       = "/repo/resources_test/AHEM____.TTF"
	WeasyprintFont = "/repo/resources_test/weasyprint.otf"
)

var (
	fcOnce  sync.Once
	fcAhem  fc.Fontset
	ahemRaw []byte
)

func loadAhem() {
	fcOnce.Do(func() {
		fs, err := fc.Standard.Copy().ScanFontFile(AhemPath)
		if err != nil {
			panic("harness: cannot scan Ahem: " + err.Error())
		}
		fcAhem = fs
		ahemRaw, _ = os.ReadFile(AhemPath)
	})
}

// NewFontConfig returns a FRESH font configuration knowing only the Ahem font
// (family name "ahem"). engine is "pango" or "gotext". Note that every call copies the
// standard fontconfig configuration, which costs ~5 ms and ~0.5 MB that is never released:
// use it where a private configuration matters (C15), and LightFontConfig elsewhere.
func NewFontConfig(engine string) text.FontConfiguration {
	loadAhem()
	if engine == "gotext" {
		fm := fontscan.NewFontMap(nil)
		if err := fm.AddFont(bytes.NewReader(ahemRaw), "ahem", ""); err != nil {
			panic("harness: gotext cannot load Ahem: " + err.Error())
		}
		return text.NewFontConfigurationGotext(fm)
	}
	return text.NewFontConfigurationPango(fcfonts.NewFontMap(fc.Standard.Copy(), fcAhem))
}

var (
	sharedCfgOnce sync.Once
	sharedCfg     *fc.Config
)

// LightFontConfig returns a new font configuration (new font map, new caches) built on a
// per-process copy of the fontconfig configuration. Documents using @font-face mutate that
// configuration and must use NewFontConfig instead.
func LightFontConfig(engine string) text.FontConfiguration {
	if engine == "gotext" {
		return NewFontConfig(engine)
	}
	loadAhem()
	sharedCfgOnce.Do(func() { sharedCfg = fc.Standard.Copy() })
	return text.NewFontConfigurationPango(fcfonts.NewFontMap(sharedCfg, fcAhem))
}

// ErrTooManyPages is the panic value used to abort a page loop that exceeds its bound.
type ErrTooManyPages struct{ Page, Bound int }

func (e ErrTooManyPages) Error() string {
	return fmt.Sprintf("page loop exceeded its progress bound: page %d > %d", e.Page, e.Bound)
}

// VerifClause makes the engine report this sentinel as clause nonterminating-pages.
func (e ErrTooManyPages) VerifClause() string { return "nonterminating-pages" }

var pageRe = regexp.MustCompile(`Creating layout - Page (\d+)`)

type progressWriter struct{ bound, max int }

func (w *progressWriter) Write(p []byte) (int, error) {
	if m := pageRe.FindSubmatch(p); m != nil {
		n, _ := strconv.Atoi(string(m[1]))
		if n > w.max {
			w.max = n
		}
		if w.bound > 0 && n > w.bound {
			panic(ErrTooManyPages{n, w.bound})
		}
	}
	return len(p), nil
}

type warnWriter struct{ n int }

func (w *warnWriter) Write(p []byte) (int, error) { w.n++; return len(p), nil }

// Options of one render.
type Options struct {
	HTML       string
	UserCSS    []string // user style sheets
	Hints      bool     // presentational hints
	Engine     string   // pango | gotext
	Zoom       float32  // 0 = 1
	PageBound  int      // abort when the page loop goes beyond this page number (0 = 400)
	BaseURL    string
	Fetcher    utils.UrlFetcher
	FontConfig text.FontConfiguration // nil = LightFontConfig (or NewFontConfig when FreshFonts)
	FreshFonts bool                   // private copy of the fontconfig configuration (needed with @font-face)
	NoWrite    bool
	NoLogHook  bool // do not install per-render log writers (concurrent renders: the loggers are process-wide)
}

type Result struct {
	Doc      document.Document
	Rec      *rec.Doc
	Pages    []*boxes.PageBox
	Warnings int
	MaxPage  int
}

func init() {
	logger.ProgressLogger.SetOutput(io.Discard)
	logger.WarningLogger.SetOutput(io.Discard)
}

func parse(o *Options) (*tree.HTML, []tree.CSS, text.FontConfiguration, error) {
	fontConfig := o.FontConfig
	if fontConfig == nil {
		if o.FreshFonts {
			fontConfig = NewFontConfig(o.Engine)
		} else {
			fontConfig = LightFontConfig(o.Engine)
		}
	}
	html, err := tree.NewHTML(utils.InputString(o.HTML), o.BaseURL, o.Fetcher, "")
	if err != nil {
		return nil, nil, nil, err
	}
	var sheets []tree.CSS
	for _, s := range o.UserCSS {
		css, err := tree.NewCSSDefault(utils.InputString(s))
		if err != nil {
			return nil, nil, nil, err
		}
		sheets = append(sheets, css)
	}
	return html, sheets, fontConfig, nil
}

func bound(o *Options) *progressWriter {
	b := o.PageBound
	if b == 0 {
		b = 400
	}
	return &progressWriter{bound: b}
}

// Render runs the complete pipeline. It panics like the code under test does (callers
// guard it); an error is returned only when the HTML or a user sheet cannot be loaded.
func Render(o Options) (*Result, error) {
	pw, ww := bound(&o), &warnWriter{}
	if !o.NoLogHook {
		logger.ProgressLogger.SetOutput(pw)
		logger.WarningLogger.SetOutput(ww)
		defer logger.ProgressLogger.SetOutput(io.Discard)
		defer logger.WarningLogger.SetOutput(io.Discard)
	}
	html, sheets, fontConfig, err := parse(&o)
	if err != nil {
		return nil, err
	}
	res := &Result{}
	res.Doc = document.Render(html, sheets, o.Hints, fontConfig)
	for i := range res.Doc.Pages {
		res.Pages = append(res.Pages, res.Doc.Pages[i].VerifPageBox())
	}
	if !o.NoWrite {
		res.Rec = rec.New()
		zoom := o.Zoom
		if zoom == 0 {
			zoom = 1
		}
		res.Doc.Write(res.Rec, zoom, nil)
		res.Rec.Finish()
	}
	res.Warnings, res.MaxPage = ww.n, pw.max
	return res, nil
}

// Layout runs only tree building, styling, box building and layout.
func Layout(o Options) ([]*boxes.PageBox, error) {
	pw := bound(&o)
	logger.ProgressLogger.SetOutput(pw)
	defer logger.ProgressLogger.SetOutput(io.Discard)
	html, sheets, fontConfig, err := parse(&o)
	if err != nil {
		return nil, err
	}
	return layout.Layout(html, sheets, o.Hints, fontConfig), nil
}
