//go:build !verifrt

// Package maporder: stub used when the harness is built without the runtime overlay.
package maporder

const Available = false
const MaxDev = 2
const LogLen = 4096

func Begin(at, val []uint64) {}
func Count() int             { return 0 }
func B(i int) int            { return 0 }
