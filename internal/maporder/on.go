//go:build verifrt

// Package maporder gives the explorer control over the Go runtime's map iteration order.
// This file is compiled only when the harness is built with the generated runtime overlay
// (tag verifrt), which makes map seeds deterministic and routes the random start of every
// map iteration through runtime.verifIterRand.
package maporder

import _ "unsafe"

// Available reports whether the runtime overlay is linked in.
const Available = true

const MaxDev = 2
const LogLen = 4096

//go:linkname iterMode runtime.verifIterMode
var iterMode uint32

//go:linkname iterCount runtime.verifIterCount
var iterCount uint64

//go:linkname iterDevAt runtime.verifIterDevAt
var iterDevAt [MaxDev]uint64

//go:linkname iterDevVal runtime.verifIterDevVal
var iterDevVal [MaxDev]uint64

//go:linkname iterLogB runtime.verifIterLogB
var iterLogB [LogLen]uint8

// Begin resets the iteration counter and installs the deviations: the controlled iteration
// number at[i] (0-based, counting only iterations over maps with >= 2 entries) starts at
// the position encoded by val[i]; every other iteration starts at bucket 0, offset 0.
func Begin(at, val []uint64) {
	iterMode = 1
	for i := 0; i < MaxDev; i++ {
		iterDevAt[i] = ^uint64(0)
		iterDevVal[i] = 0
	}
	for i := range at {
		iterDevAt[i] = at[i]
		iterDevVal[i] = val[i]
	}
	iterCount = 0
}

// Count returns the number of controlled iterations since Begin.
func Count() int { return int(iterCount) }

// B returns log2 of the bucket count of the map of controlled iteration i (as recorded
// since the last Begin); only the first LogLen iterations are logged.
func B(i int) int {
	if i < LogLen {
		return int(iterLogB[i])
	}
	return 0
}
