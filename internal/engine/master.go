package engine

import (
	"errors"
	"bufio"
	"bytes"
	"crypto/sha1"
	"encoding/json"
	"fmt"
	"io"
	"os"
	"os/exec"
	"path/filepath"
	"sort"
	"strconv"
	"strings"
	"sync"
	"time"
)

// Featurer lets the master compute feature tags for a case that killed its worker.
type Featurer interface {
	FeaturesOf(desc string) []string
}

type tailBuf struct {
	mu   sync.Mutex
	head []byte
	tail []byte
}

func (t *tailBuf) Write(p []byte) (int, error) {
	t.mu.Lock()
	defer t.mu.Unlock()
	n := len(p)
	if len(t.head) < 64<<10 {
		k := 64<<10 - len(t.head)
		if k > len(p) {
			k = len(p)
		}
		t.head = append(t.head, p[:k]...)
		p = p[k:]
	}
	t.tail = append(t.tail, p...)
	if len(t.tail) > 128<<10 {
		t.tail = t.tail[len(t.tail)-64<<10:]
	}
	return n, nil
}
func (t *tailBuf) String() string {
	t.mu.Lock()
	defer t.mu.Unlock()
	return string(t.head) + string(t.tail)
}

type proc struct {
	cmd    *exec.Cmd
	in     io.WriteCloser
	out    *bufio.Reader
	stderr *tailBuf
}

func spawn(id, tier string, seed int64) (*proc, error) {
	cmd := exec.Command(os.Args[0], "worker", id, tier, strconv.FormatInt(seed, 10))
	// madvdontneed=0: in this kind of VM page faults are very expensive and serialised across
	// processes; MADV_FREE lets the runtime reuse returned pages without faulting them in again.
	cmd.Env = append(os.Environ(), "GOMAXPROCS=1", "GOTRACEBACK=single", "GODEBUG=madvdontneed=0")
	in, _ := cmd.StdinPipe()
	out, _ := cmd.StdoutPipe()
	tb := &tailBuf{}
	cmd.Stderr = tb
	if err := cmd.Start(); err != nil {
		return nil, err
	}
	return &proc{cmd: cmd, in: in, out: bufio.NewReaderSize(out, 1<<20), stderr: tb}, nil
}

func (p *proc) kill() {
	p.in.Close()
	p.cmd.Process.Kill()
	p.cmd.Wait()
}

func classifyFatal(stderr string) (clause, site, msg string) {
	clause = "fatal"
	msg = "worker died"
	for _, line := range strings.Split(stderr, "\n") {
		if strings.HasPrefix(line, "fatal error:") || strings.HasPrefix(line, "runtime: goroutine stack exceeds") || strings.HasPrefix(line, "panic:") {
			msg = NormMsg(line)
			break
		}
	}
	if strings.Contains(stderr, "stack overflow") || strings.Contains(stderr, "stack exceeds") {
		msg = "stack overflow"
	}
	if strings.Contains(stderr, "out of memory") || strings.Contains(stderr, "cannot allocate memory") {
		clause, msg = "oom", "out of memory"
	}
	site = "-"
	fr := repoFrames(stderr)
	if len(fr) > 0 {
		site = fr[0]
	}
	return
}

// runRange executes one range on worker *pp (restarting it when it dies) and returns the
// aggregated result plus failures for cases that killed the worker.
func runRange(ck Check, id, tier string, seed int64, pp **proc, lo, hi int64, forceMark bool) (rangeRes, []Failure, error) {
	var poison []string
	var extra []Failure
	mark := forceMark
	feat := func(desc string) []string {
		if f, ok := ck.(Featurer); ok {
			return f.FeaturesOf(desc)
		}
		return nil
	}
	for attempt := 0; attempt < 200; attempt++ {
		if *pp == nil {
			p, err := spawn(id, tier, seed)
			if err != nil {
				return rangeRes{}, nil, err
			}
			*pp = p
		}
		p := *pp
		req, _ := json.Marshal(rangeReq{Lo: lo, Hi: hi, Mark: mark, Poison: poison})
		p.in.Write(append(req, '\n'))
		lastAT := ""
		lastUnit := lo
		hang := ""
		var res *rangeRes
		for {
			line, err := p.out.ReadBytes('\n')
			if len(line) > 4 {
				switch {
				case bytes.HasPrefix(line, []byte("RES ")):
					var r rangeRes
					if e := json.Unmarshal(line[4:], &r); e != nil {
						return rangeRes{}, nil, fmt.Errorf("bad RES: %v", e)
					}
					res = &r
				case bytes.HasPrefix(line, []byte("AT ")):
					var at struct {
						Unit int64
						Desc string
					}
					if json.Unmarshal(bytes.TrimSpace(line[3:]), &at) == nil {
						lastAT, lastUnit = at.Desc, at.Unit
					}
				case bytes.HasPrefix(line, []byte("HANG ")):
					hang = string(bytes.TrimSpace(line[5:]))
				}
			}
			if res != nil || err != nil {
				break
			}
		}
		if res != nil {
			if res.SysMB > 1200 {
				// recycle a worker whose memory keeps growing (caches of the code under test)
				p.kill()
				*pp = nil
			}
			return *res, extra, nil
		}
		// worker died
		p.cmd.Wait()
		stderr := p.stderr.String()
		p.in.Close()
		*pp = nil
		if hang != "" {
			var h struct {
				Desc, Site string
				Unit       int64
			}
			json.Unmarshal([]byte(hang), &h)
			extra = append(extra, Failure{Clause: "cpu-budget", Site: h.Site, Features: feat(h.Desc), Case: h.Desc, Detail: "case exceeded its CPU budget", Unit: h.Unit})
			poison = append(poison, h.Desc)
			continue
		}
		if !mark {
			mark = true
			continue
		}
		if lastAT == "" {
			return rangeRes{}, extra, fmt.Errorf("worker died outside any guarded case on range [%d,%d): %s", lo, hi, firstLines(stderr, 12))
		}
		clause, site, msg := classifyFatal(stderr)
		extra = append(extra, Failure{Clause: clause, Site: site, Features: feat(lastAT), Case: lastAT, Detail: msg, Unit: lastUnit})
		poison = append(poison, lastAT)
	}
	if len(extra) > 0 {
		// every death was located in a guarded case: the range is full of fatal cases. That is a finding, not a
		// harness error: report what was located and leave the rest of the range unexplored.
		return rangeRes{}, extra, errAbandoned
	}
	return rangeRes{}, extra, fmt.Errorf("too many worker deaths on range [%d,%d)", lo, hi)
}

// errAbandoned: a range was given up after 200 located fatal cases (its remaining units are not explored).
var errAbandoned = errors.New("range abandoned after too many fatal cases")

func firstLines(s string, n int) string {
	l := strings.Split(s, "\n")
	if len(l) > n {
		l = l[:n]
	}
	return strings.Join(l, "\n")
}

// ---- known findings -------------------------------------------------------------------

type Known struct {
	Property string
	Clause   string
	Site     string
	Features []string
	Text     string
	hit      int64
	example  string
}

func LoadKnown(path, property string) []*Known {
	b, err := os.ReadFile(path)
	if err != nil {
		return nil
	}
	var out []*Known
	for _, line := range strings.Split(string(b), "\n") {
		line = strings.TrimSpace(line)
		if !strings.HasPrefix(line, "known:") {
			continue
		}
		body := strings.TrimSpace(strings.TrimPrefix(line, "known:"))
		text := ""
		if i := strings.Index(body, " :: "); i >= 0 {
			text = body[i+4:]
			body = body[:i]
		}
		k := &Known{Text: text, Site: "-"}
		for _, f := range strings.Fields(body) {
			kv := strings.SplitN(f, "=", 2)
			if len(kv) != 2 {
				continue
			}
			switch kv[0] {
			case "property":
				k.Property = kv[1]
			case "clause":
				k.Clause = kv[1]
			case "site":
				k.Site = kv[1]
			case "features":
				if kv[1] != "-" && kv[1] != "" {
					k.Features = strings.Split(kv[1], ",")
				}
			}
		}
		if k.Property == property {
			out = append(out, k)
		}
	}
	return out
}

func (k *Known) covers(f *Failure) bool {
	if k.Clause != f.Clause {
		return false
	}
	if k.Site != "-" && k.Site != f.Site {
		return false
	}
	have := map[string]bool{}
	for _, x := range f.Features {
		have[x] = true
	}
	for _, x := range k.Features {
		if !have[x] {
			return false
		}
	}
	return true
}

// ---- master ---------------------------------------------------------------------------

type Options struct {
	ID      string
	Tier    string
	Seed    int64
	Workers int
	Root    string // /verif
	BudgetS float64
}

type agg struct {
	States, Nontrivial, Transitions, Validated int64
	Outcomes                                   map[uint64]struct{}
	Fails                                      map[string][]Failure
	FailCounts                                 map[string]int64
	Counters                                   map[string]int64
	UnitsDone                                  int64
}

// RunCheck is the master: returns the process exit code.
func RunCheck(o Options) int {
	t0 := time.Now()
	ck := Get(o.ID)
	if ck == nil {
		fmt.Fprintln(os.Stderr, "unknown check", o.ID)
		return 2
	}
	sp := ck.Init(o.Tier, o.Seed)
	if sp.Chunk <= 0 {
		sp.Chunk = 1
	}
	budget := sp.BudgetS
	if o.BudgetS > 0 {
		budget = o.BudgetS
	}
	if budget == 0 {
		if o.Tier == "quick" {
			budget = 150 // quick tiers are sized for ≤ 100 s on 16 idle cores; the margin is for a busy machine
		} else {
			budget = 1500
		}
	}
	deadline := t0.Add(time.Duration(budget * float64(time.Second)))
	a := &agg{Outcomes: map[uint64]struct{}{}, Fails: map[string][]Failure{}, FailCounts: map[string]int64{}, Counters: map[string]int64{}}
	var mu sync.Mutex
	var next int64
	var harnessErr error
	abandoned := 0 // ranges given up after 200 located fatal cases
	cut := false
	var wg sync.WaitGroup
	for w := 0; w < o.Workers; w++ {
		wg.Add(1)
		go func() {
			defer wg.Done()
			var p *proc
			defer func() {
				if p != nil {
					p.kill()
				}
			}()
			for {
				mu.Lock()
				if next >= sp.Units || harnessErr != nil {
					mu.Unlock()
					return
				}
				if time.Now().After(deadline) {
					cut = true
					mu.Unlock()
					return
				}
				lo := next
				hi := lo + sp.Chunk
				if hi > sp.Units {
					hi = sp.Units
				}
				next = hi
				mu.Unlock()
				tr := time.Now()
				res, extra, err := runRange(ck, o.ID, o.Tier, o.Seed, &p, lo, hi, false)
				if el := time.Since(tr); el > 5*time.Second && os.Getenv("VERIF_DEBUG") != "" {
					fmt.Fprintf(os.Stderr, "slow range [%d,%d): %.1fs extra=%d\n", lo, hi, el.Seconds(), len(extra))
				}
				mu.Lock()
				abandonedRange := false
				if err == errAbandoned {
					abandoned++
					abandonedRange = true
					err = nil
				}
				if err != nil {
					harnessErr = err
					mu.Unlock()
					return
				}
				a.States += res.States
				a.Nontrivial += res.Nontrivial
				a.Transitions += res.Transitions
				a.Validated += res.Validated
				if !abandonedRange {
					a.UnitsDone += hi - lo
				}
				for _, h := range res.Outcomes {
					if len(a.Outcomes) < 1<<22 {
						a.Outcomes[h] = struct{}{}
					}
				}
				for k, v := range res.Counters {
					a.Counters[k] += v
				}
				for k, v := range res.FailCounts {
					a.FailCounts[k] += v
				}
				for _, f := range append(res.Fails, extra...) {
					s := f.Sig()
					if len(a.Fails[s]) < 3 {
						a.Fails[s] = append(a.Fails[s], f)
					}
				}
				for _, f := range extra {
					a.FailCounts[f.Sig()]++
					a.States++
				}
				mu.Unlock()
			}
		}()
	}
	wg.Wait()
	if harnessErr != nil {
		fmt.Fprintln(os.Stderr, "HARNESS ERROR:", harnessErr)
		return 2
	}
	exhaustive := !cut && a.UnitsDone == sp.Units

	// triage aid: every failure signature with its count and first example (not evidence)
	{
		var sb strings.Builder
		var all []string
		for sg := range a.Fails {
			all = append(all, sg)
		}
		sort.Slice(all, func(i, j int) bool { return a.FailCounts[all[i]] > a.FailCounts[all[j]] })
		for _, sg := range all {
			fmt.Fprintf(&sb, "%6d  %s\n        e.g. %s\n        %s\n", a.FailCounts[sg], sg, trunc(a.Fails[sg][0].Case, 300), trunc(strings.ReplaceAll(a.Fails[sg][0].Detail, "\n", " ⏎ "), 300))
		}
		os.MkdirAll(filepath.Join(o.Root, ".work"), 0o755)
		os.WriteFile(filepath.Join(o.Root, ".work", o.ID+"-failures.txt"), []byte(sb.String()), 0o644)
	}

	// classify failures
	knownPath := filepath.Join(o.Root, "KNOWN_FINDINGS.txt")
	if p := os.Getenv("VERIF_KNOWN"); p != "" {
		knownPath = p // development only: an alternative known-findings file
	}
	known := LoadKnown(knownPath, o.ID)
	var sigs []string
	for s := range a.Fails {
		sigs = append(sigs, s)
	}
	sort.Strings(sigs)
	var violations []Failure
	for _, s := range sigs {
		fs := a.Fails[s]
		sort.Slice(fs, func(i, j int) bool { return fs[i].Unit < fs[j].Unit })
		f := fs[0]
		covered := false
		for _, k := range known {
			if k.covers(&f) {
				k.hit += a.FailCounts[s]
				if k.example == "" {
					k.example = f.Case
				}
				covered = true
				break
			}
		}
		if !covered {
			violations = append(violations, f)
		}
	}
	// group the uncovered failures by (clause, site): one report per group, represented by its
	// simplest member (fewest feature tags, then lowest unit), and reproduce it twice in fresh workers
	groups := map[string][]Failure{}
	var gkeys []string
	for _, f := range violations {
		k := f.Clause + "|" + f.Site
		if _, ok := groups[k]; !ok {
			gkeys = append(gkeys, k)
		}
		groups[k] = append(groups[k], f)
	}
	sort.Strings(gkeys)
	groupCount := map[string]int64{}
	groupSigs := map[string]int{}
	var confirmed []Failure
	var flaky []Failure
	for _, k := range gkeys {
		g := groups[k]
		sort.SliceStable(g, func(i, j int) bool {
			if len(g[i].Features) != len(g[j].Features) {
				return len(g[i].Features) < len(g[j].Features)
			}
			return g[i].Unit < g[j].Unit
		})
		for _, f := range g {
			groupCount[k] += a.FailCounts[f.Sig()]
		}
		groupSigs[k] = len(g)
		// try up to 3 members until one reproduces
		reproduced := false
		for i := 0; i < len(g) && i < 3 && !reproduced; i++ {
			f := g[i]
			ok := true
			for rep := 0; rep < 2 && ok; rep++ {
				var p *proc
				res, extra, err := runRange(ck, o.ID, o.Tier, o.Seed, &p, f.Unit, f.Unit+1, false)
				if p != nil {
					p.kill()
				}
				found := false
				if err != nil {
					// the reproduction could not run at all (e.g. the binary vanished): a broken harness, not a flaky failure
					fmt.Fprintln(os.Stderr, "HARNESS ERROR while reproducing a failure:", err)
					return 2
				}
				if err == nil {
					for _, h := range append(res.Fails, extra...) {
						if h.Sig() == f.Sig() {
							found = true
						}
					}
				}
				ok = found
			}
			if ok {
				confirmed = append(confirmed, f)
				reproduced = true
			} else {
				flaky = append(flaky, f)
			}
		}
	}

	// output
	var knownHit []string
	var masked []string
	for _, k := range known {
		if k.hit > 0 {
			fmt.Printf("KNOWN-FINDING: property=%s %s [clause=%s site=%s features=%s cases=%d e.g. %s]\n", o.ID, k.Text, k.Clause, k.Site, strings.Join(k.Features, ","), k.hit, trunc(k.example, 200))
			knownHit = append(knownHit, fmt.Sprintf("clause=%s site=%s features=%s cases=%d", k.Clause, k.Site, strings.Join(k.Features, ","), k.hit))
		}
		masked = append(masked, fmt.Sprintf("clause=%s site=%s features⊇{%s}", k.Clause, k.Site, strings.Join(k.Features, ",")))
	}
	for _, f := range flaky {
		fmt.Printf("HARNESS-DIAGNOSTIC: non-reproducible failure property=%s clause=%s case=%s\n", o.ID, f.Clause, trunc(f.Case, 200))
	}
	os.MkdirAll(filepath.Join(o.Root, "replays"), 0o755)
	for _, f := range confirmed {
		rp := map[string]any{"property": o.ID, "tier": o.Tier, "seed": o.Seed, "unit": f.Unit, "case": f.Case, "clause": f.Clause,
			"site": f.Site, "features": f.Features, "detail": f.Detail, "count": groupCount[f.Clause+"|"+f.Site], "signatures": groupSigs[f.Clause+"|"+f.Site]}
		b, _ := json.MarshalIndent(rp, "", " ")
		h := sha1.Sum([]byte(f.Clause + "|" + f.Site))
		path := filepath.Join(o.Root, "replays", fmt.Sprintf("%s-%x.json", o.ID, h[:5]))
		os.WriteFile(path, b, 0o644)
		fmt.Printf("VIOLATION property=%s replay=%s\n", o.ID, path)
		fmt.Printf("  clause=%s site=%s cases=%d feature-signatures=%d simplest: features=%s\n  case: %s\n  detail: %s\n", f.Clause, f.Site, groupCount[f.Clause+"|"+f.Site], groupSigs[f.Clause+"|"+f.Site], strings.Join(f.Features, ","), trunc(f.Case, 400), trunc(f.Detail, 400))
	}

	// evidence
	samples := []any{}
	if sp.Units > 0 {
		samples = append(samples, ck.Describe(0))
		if sp.Units > 2 {
			samples = append(samples, ck.Describe((sp.Units/2+o.Seed)%sp.Units))
		}
		if sp.Units > 1 {
			samples = append(samples, ck.Describe(sp.Units-1))
		}
	}
	for _, k := range known {
		if k.hit > 0 {
			samples = append(samples, map[string]any{"known_finding": k.Text, "case": k.example})
		}
	}
	for _, f := range confirmed {
		samples = append(samples, map[string]any{"violation": f.Clause, "case": f.Case})
	}
	level := sp.Level
	if level == "" {
		level = "model_checking"
	}
	wall := time.Since(t0).Seconds()
	cov := map[string]any{
		"states":                        a.States,
		"transitions":                   a.Transitions,
		"traces_validated_against_impl": a.Validated,
		"evaluations":                   a.States,
		"distinct_nontrivial":           a.Nontrivial,
		"rule":                          sp.Rule,
		"samples":                       samples,
		"exhaustive":                    exhaustive,
		"units_total":                   sp.Units,
		"units_done":                    a.UnitsDone,
		"bounds":                        sp.Bounds,
		"distinct_outcomes":             len(a.Outcomes),
		"reach_counters":                a.Counters,
		"known_findings_hit":            knownHit,
		"masked_region":                 masked,
		"workers":                       o.Workers,
	}
	if abandoned > 0 {
		cov["abandoned_ranges"] = fmt.Sprintf("%d range(s) given up after 200 located fatal cases each; their remaining units are not explored", abandoned)
	}
	if cut {
		cov["cap"] = fmt.Sprintf("internal deadline of %.0fs reached after %d of %d units; everything below unit %d was fully covered", budget, a.UnitsDone, sp.Units, a.UnitsDone)
	}
	ev := map[string]any{
		"property_id": o.ID, "tier": o.Tier, "seed": o.Seed, "level": level, "coverage": cov,
		"assumptions": sp.Assumptions, "wall_s": wall, "violations": len(confirmed),
	}
	if sp.Assumptions == nil {
		ev["assumptions"] = []string{}
	}
	b, _ := json.MarshalIndent(ev, "", " ")
	os.MkdirAll(filepath.Join(o.Root, "evidence"), 0o755)
	if err := os.WriteFile(filepath.Join(o.Root, "evidence", o.ID+".json"), b, 0o644); err != nil {
		fmt.Fprintln(os.Stderr, "cannot write evidence:", err)
		return 2
	}
	fmt.Printf("%s tier=%s states=%d transitions=%d nontrivial=%d outcomes=%d units=%d/%d exhaustive=%v known=%d violations=%d wall=%.1fs\n",
		o.ID, o.Tier, a.States, a.Transitions, a.Nontrivial, len(a.Outcomes), a.UnitsDone, sp.Units, exhaustive, len(knownHit), len(confirmed), wall)
	ks := make([]string, 0, len(a.Counters))
	for k := range a.Counters {
		ks = append(ks, k)
	}
	sort.Strings(ks)
	for _, k := range ks {
		fmt.Printf("  reach %-40s %d\n", k, a.Counters[k])
	}
	if len(confirmed) > 0 {
		return 1
	}
	minOut := sp.MinOutcomes
	if minOut == 0 {
		minOut = 2
	}
	if len(a.Outcomes) < minOut || a.Nontrivial < 2 {
		fmt.Fprintf(os.Stderr, "VACUOUS CHECK: distinct outcomes %d (< %d) or nontrivial %d < 2\n", len(a.Outcomes), minOut, a.Nontrivial)
		return 2
	}
	return 0
}

func trunc(s string, n int) string {
	if len(s) > n {
		return s[:n] + "…"
	}
	return s
}

// Replay re-executes the unit of a replay file and reports whether the recorded failure
// still occurs.
func Replay(path string) int {
	b, err := os.ReadFile(path)
	if err != nil {
		fmt.Fprintln(os.Stderr, err)
		return 2
	}
	var rp struct {
		Property, Tier, Case, Clause, Site string
		Seed, Unit                         int64
	}
	if err := json.Unmarshal(b, &rp); err != nil {
		fmt.Fprintln(os.Stderr, err)
		return 2
	}
	ck := Get(rp.Property)
	if ck == nil {
		return 2
	}
	ck.Init(rp.Tier, rp.Seed)
	var p *proc
	res, extra, err := runRange(ck, rp.Property, rp.Tier, rp.Seed, &p, rp.Unit, rp.Unit+1, false)
	if p != nil {
		p.kill()
	}
	if err != nil {
		fmt.Fprintln(os.Stderr, "HARNESS ERROR:", err)
		return 2
	}
	for _, f := range append(res.Fails, extra...) {
		if f.Clause == rp.Clause && (f.Case == rp.Case) {
			fmt.Printf("VIOLATION property=%s replay=%s\n  still fails: clause=%s site=%s case=%s\n  detail: %s\n", rp.Property, path, f.Clause, f.Site, trunc(f.Case, 400), trunc(f.Detail, 400))
			return 1
		}
	}
	fmt.Printf("replay %s: the recorded case no longer fails (clause %s)\n", path, rp.Clause)
	return 0
}
