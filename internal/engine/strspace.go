package engine

import "strings"

// StrSpace is the prefix tree of all strings of length <= MaxLen over Alphabet
// (symbols may be multi-byte "macro" symbols). Index-addressable, shortest first.
type StrSpace struct {
	Name     string
	Alphabet []string
	MaxLen   int
	MinLen   int
	Prefix   string // fixed text put before every string
	Suffix   string
	offsets  []int64 // offsets[l] = number of strings of length < l (counting from MinLen)
}

func (s *StrSpace) init() {
	if s.offsets != nil {
		return
	}
	n := int64(len(s.Alphabet))
	s.offsets = make([]int64, s.MaxLen+2)
	var tot, p int64 = 0, 1
	for l := 0; l <= s.MaxLen; l++ {
		s.offsets[l] = tot
		if l >= s.MinLen {
			tot += p
		}
		p *= n
	}
	s.offsets[s.MaxLen+1] = tot
}

func (s *StrSpace) Count() int64 { s.init(); return s.offsets[s.MaxLen+1] }

// Symbols returns the symbol indices of string i.
func (s *StrSpace) Symbols(i int64, buf []int) []int {
	s.init()
	l := s.MinLen
	for l < s.MaxLen && s.offsets[l+1] <= i {
		l++
	}
	i -= s.offsets[l]
	buf = buf[:0]
	n := int64(len(s.Alphabet))
	for k := 0; k < l; k++ {
		buf = append(buf, 0)
	}
	for k := l - 1; k >= 0; k-- {
		buf[k] = int(i % n)
		i /= n
	}
	return buf
}

func (s *StrSpace) At(i int64) string {
	var sb strings.Builder
	sb.WriteString(s.Prefix)
	for _, k := range s.Symbols(i, nil) {
		sb.WriteString(s.Alphabet[k])
	}
	sb.WriteString(s.Suffix)
	return sb.String()
}

// MultiStr concatenates several string spaces and groups their strings into units of
// Batch consecutive strings.
type MultiStr struct {
	Spaces []*StrSpace
	Batch  int64
	starts []int64 // first unit of each space
}

func (m *MultiStr) Units() int64 {
	m.starts = m.starts[:0]
	var u int64
	for _, s := range m.Spaces {
		m.starts = append(m.starts, u)
		u += (s.Count() + m.Batch - 1) / m.Batch
	}
	return u
}

// Unit returns the space and the index range of unit u.
func (m *MultiStr) Unit(u int64) (sp *StrSpace, lo, hi int64) {
	if m.starts == nil {
		m.Units()
	}
	k := len(m.Spaces) - 1
	for k > 0 && m.starts[k] > u {
		k--
	}
	sp = m.Spaces[k]
	lo = (u - m.starts[k]) * m.Batch
	hi = lo + m.Batch
	if c := sp.Count(); hi > c {
		hi = c
	}
	return
}

func (m *MultiStr) Total() int64 {
	var t int64
	for _, s := range m.Spaces {
		t += s.Count()
	}
	return t
}

func (m *MultiStr) Bounds() map[string]any {
	b := map[string]any{}
	for _, s := range m.Spaces {
		b[s.Name] = map[string]any{"alphabet": s.Alphabet, "max_len": s.MaxLen, "strings": s.Count(), "prefix": s.Prefix, "suffix": s.Suffix}
	}
	return b
}
