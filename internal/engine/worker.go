package engine

import (
	"bufio"
	"bytes"
	"encoding/json"
	"fmt"
	"os"
	"runtime"
	"runtime/debug"
	"strings"
	"syscall"
	"time"
)

type rangeReq struct {
	Lo, Hi int64
	Mark   bool
	Poison []string
}

type rangeRes struct {
	Lo, Hi      int64
	States      int64
	Nontrivial  int64
	Transitions int64
	Validated   int64
	Outcomes    []uint64
	Fails       []Failure
	FailCounts  map[string]int64
	Counters    map[string]int64
	SysMB       int64 // memory obtained from the OS by the worker (recycling threshold)
}

func cpuNow() int64 {
	var ru syscall.Rusage
	syscall.Getrusage(syscall.RUSAGE_SELF, &ru)
	return ru.Utime.Nano() + ru.Stime.Nano() + 1
}

var workerOut *bufio.Writer

func markOut(unit int64, desc string) {
	b, _ := json.Marshal(map[string]any{"unit": unit, "desc": desc})
	workerOut.WriteString("AT ")
	workerOut.Write(b)
	workerOut.WriteByte('\n')
	workerOut.Flush()
}

func repoFrames(stack string) []string {
	var out []string
	for _, line := range strings.Split(stack, "\n") {
		if strings.HasPrefix(line, "github.com/benoitkugler/webrender/") {
			if i := strings.LastIndex(line, "("); i > 0 {
				line = line[:i]
			}
			out = append(out, strings.TrimPrefix(line, "github.com/benoitkugler/webrender/"))
		}
	}
	return out
}

// mainGoroutineStack returns the stack of the goroutine that contains repo frames.
func stackWithRepoFrames() string {
	buf := make([]byte, 8<<20)
	n := runtime.Stack(buf, true)
	for _, g := range bytes.Split(buf[:n], []byte("\n\n")) {
		if bytes.Contains(g, []byte("engine.(*Ctx).Guard")) {
			return string(g)
		}
	}
	return string(buf[:n])
}

func watchdog() {
	for {
		time.Sleep(100 * time.Millisecond)
		st := curStartCPU.Load()
		if st == 0 {
			continue
		}
		if cpuNow()-st > curBudget.Load() {
			// take two dumps; site = deepest repo frame common to both
			s1 := repoFrames(stackWithRepoFrames())
			time.Sleep(200 * time.Millisecond)
			s2 := repoFrames(stackWithRepoFrames())
			if curStartCPU.Load() != st {
				continue // case finished meanwhile
			}
			site := "-"
			in2 := map[string]bool{}
			for _, f := range s2 {
				in2[f] = true
			}
			for _, f := range s1 {
				if in2[f] {
					site = f
					break
				}
			}
			desc, _ := curDesc.Load().(string)
			b, _ := json.Marshal(map[string]any{"desc": desc, "site": site, "unit": curUnit.Load()})
			os.Stdout.Write([]byte("HANG " + string(b) + "\n"))
			os.Exit(3)
		}
	}
}

// WorkerMain is the entry point of a worker process.
func WorkerMain(id, tier string, seed int64) {
	debug.SetMaxStack(64 << 20)
	debug.SetGCPercent(100)
	// hard cap on the address space: a runaway allocation kills this worker, not the machine
	lim := syscall.Rlimit{Cur: 6 << 30, Max: 6 << 30}
	syscall.Setrlimit(syscall.RLIMIT_AS, &lim)
	ck := Get(id)
	if ck == nil {
		fmt.Fprintln(os.Stderr, "unknown check", id)
		os.Exit(2)
	}
	sp := ck.Init(tier, seed)
	budget := sp.CaseCPUs
	if budget == 0 {
		budget = 20
	}
	curBudget.Store(int64(budget * 1e9))
	go watchdog()
	in := bufio.NewReaderSize(os.Stdin, 1<<20)
	workerOut = bufio.NewWriterSize(os.Stdout, 1<<20)
	for {
		line, err := in.ReadBytes('\n')
		if err != nil {
			return
		}
		var req rangeReq
		if err := json.Unmarshal(line, &req); err != nil {
			fmt.Fprintln(os.Stderr, "bad request", err)
			os.Exit(2)
		}
		c := newCtx()
		c.mark = req.Mark
		if len(req.Poison) > 0 {
			c.poison = map[string]bool{}
			for _, p := range req.Poison {
				c.poison[p] = true
			}
		}
		for u := req.Lo; u < req.Hi; u++ {
			c.Unit = u
			ck.Run(u, c)
		}
		res := rangeRes{Lo: req.Lo, Hi: req.Hi, States: c.States, Nontrivial: c.Nontrivial, Transitions: c.Transitions,
			Validated: c.Validated, Fails: c.Fails, FailCounts: c.FailCounts, Counters: c.Counters}
		for h := range c.Outcomes {
			res.Outcomes = append(res.Outcomes, h)
		}
		var ms runtime.MemStats
		runtime.ReadMemStats(&ms)
		res.SysMB = int64(ms.Sys >> 20)
		b, _ := json.Marshal(res)
		workerOut.WriteString("RES ")
		workerOut.Write(b)
		workerOut.WriteByte('\n')
		workerOut.Flush()
	}
}
