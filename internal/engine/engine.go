// Package engine is the shared explorer: index-addressable exhaustive enumeration,
// crash-isolated worker processes, failure classification, known-finding matching,
// replay files and evidence.
package engine

import (
	"fmt"
	"hash/fnv"
	"regexp"
	"runtime/debug"
	"sort"
	"strings"
	"sync/atomic"
)

// Failure is one violated oracle clause on one explored case.
type Failure struct {
	Clause   string   `json:"clause"`             // oracle clause, or panic|fatal|cpu-budget|nonterminating-pages|oom
	Site     string   `json:"site,omitempty"`     // call site for crashes (function of first repo frame)
	Features []string `json:"features,omitempty"` // feature tags computed from the input alone
	Case     string   `json:"case"`               // decoded input, enough to reproduce by hand
	Detail   string   `json:"detail,omitempty"`   // expected / got / message
	Unit     int64    `json:"unit"`               // unit index (tier dependent)
}

func (f *Failure) Sig() string {
	fs := append([]string(nil), f.Features...)
	sort.Strings(fs)
	return f.Clause + "|" + f.Site + "|" + strings.Join(fs, ",")
}

// Space describes the enumerated space of a check for one tier.
type Space struct {
	Units       int64          // number of index-addressable units
	Chunk       int64          // units handed to a worker at once
	Level       string         // evidence level
	Rule        string         // how cases are enumerated and what makes one non-trivial
	Bounds      map[string]any // alphabet, depth ...
	Assumptions []string
	BudgetS     float64 // internal deadline in seconds (0 = default per tier)
	CaseCPUs    float64 // per-case CPU budget in seconds (0 = 20)
	MinOutcomes int     // minimal number of distinct outcomes (non-vacuity), default 2
}

// Check is one property's explorer.
type Check interface {
	ID() string
	Init(tier string, seed int64) Space
	// Run explores unit u (one case or a batch of cases), reporting through c.
	Run(u int64, c *Ctx)
	// Describe returns a human readable rendering of unit u for evidence samples.
	Describe(u int64) any
}

var registry = map[string]Check{}

// Commands are extra sub-commands of the harness binary registered by checks (e.g. child
// processes that must start from a fresh process state).
var Commands = map[string]func(args []string) int{}

func Register(c Check)    { registry[c.ID()] = c }
func Get(id string) Check { return registry[id] }
func IDs() []string {
	var l []string
	for k := range registry {
		l = append(l, k)
	}
	sort.Strings(l)
	return l
}

// Ctx accumulates the results of a range of units inside a worker.
type Ctx struct {
	Unit        int64
	States      int64
	Nontrivial  int64
	Transitions int64
	Validated   int64
	Outcomes    map[uint64]struct{}
	Fails       []Failure
	Counters    map[string]int64
	mark        bool
	poison      map[string]bool
	nfail       map[string]int
	FailCounts  map[string]int64
}

func newCtx() *Ctx {
	return &Ctx{Outcomes: map[uint64]struct{}{}, Counters: map[string]int64{}, nfail: map[string]int{}, FailCounts: map[string]int64{}}
}

const maxOutcomesPerRange = 1 << 16

// Case records one explored case (= one state). outcome is a canonical form of the
// observable result; nontrivial says whether the case reached the clause under test.
func (c *Ctx) Case(nontrivial bool, outcome string) {
	c.States++
	c.Validated++
	if nontrivial {
		c.Nontrivial++
	}
	if len(c.Outcomes) < maxOutcomesPerRange {
		h := fnv.New64a()
		h.Write([]byte(outcome))
		c.Outcomes[h.Sum64()] = struct{}{}
	}
}

func (c *Ctx) Trans(n int64)              { c.Transitions += n }
func (c *Ctx) Count(name string, n int64) { c.Counters[name] += n }

// Fail records a failure. Only the first few examples per signature are kept per range,
// all are counted.
func (c *Ctx) Fail(f Failure) {
	f.Unit = c.Unit
	s := f.Sig()
	c.FailCounts[s]++
	if c.nfail[s] < 3 {
		c.nfail[s]++
		if len(f.Detail) > 600 {
			f.Detail = f.Detail[:600] + "…"
		}
		c.Fails = append(c.Fails, f)
	}
}

// current guarded case, read by the watchdog.
var (
	curDesc     atomic.Value // string
	curUnit     atomic.Int64
	curStartCPU atomic.Int64 // ns of process CPU time at start of the case; 0 = idle
	curBudget   atomic.Int64 // ns
)

// PanicInfo is what Guard returns when the guarded call panicked.
type PanicInfo struct {
	Clause string // "panic", or the clause named by the panic value (harness sentinels)
	Site   string
	Msg    string
}

// Claused is implemented by harness sentinel panic values (e.g. the page-progress bound)
// that stand for a clause of their own.
type Claused interface{ VerifClause() string }

var (
	frameRe = regexp.MustCompile(`(github\.com/benoitkugler/webrender/[^\s(]+(?:\(\*?[A-Za-z0-9_]+\)\.[A-Za-z0-9_.]+)?)`)
	numRe   = regexp.MustCompile(`0x[0-9a-f]+|\d+`)
)

// SiteOf extracts the first repo function below the panic frame of a stack dump.
func SiteOf(stack string) string {
	idx := strings.LastIndex(stack, "panic(")
	if idx >= 0 {
		stack = stack[idx:]
	}
	for _, line := range strings.Split(stack, "\n") {
		if strings.HasPrefix(line, "github.com/benoitkugler/webrender/") {
			// function line: pkg.func(args)
			if i := strings.LastIndex(line, "("); i > 0 {
				line = line[:i]
			}
			line = strings.TrimPrefix(line, "github.com/benoitkugler/webrender/")
			return line
		}
	}
	return "-"
}

func NormMsg(m string) string {
	m = numRe.ReplaceAllString(m, "N")
	if len(m) > 160 {
		m = m[:160]
	}
	return m
}

// Guard runs f under recover. desc identifies the case (for fatal errors and hangs).
// It returns nil when f returned normally. Poisoned cases (known to kill the process)
// are not run: skipped is true.
func (c *Ctx) Guard(desc string, f func()) (pi *PanicInfo, skipped bool) {
	if c.poison[desc] {
		return nil, true
	}
	if c.mark {
		markOut(c.Unit, desc)
	}
	curDesc.Store(desc)
	curUnit.Store(c.Unit)
	curStartCPU.Store(cpuNow())
	defer func() {
		curStartCPU.Store(0)
		if r := recover(); r != nil {
			st := string(debug.Stack())
			pi = &PanicInfo{Clause: "panic", Site: SiteOf(st), Msg: NormMsg(fmt.Sprint(r))}
			if cl, ok := r.(Claused); ok {
				pi.Clause = cl.VerifClause()
				pi.Site = "-"
			}
		}
	}()
	f()
	return nil, false
}

// SetCaseBudget changes the CPU budget (seconds) of the cases guarded from now on in this
// worker (used to spend less on inputs inside a known non-terminating region).
func (c *Ctx) SetCaseBudget(seconds float64) { curBudget.Store(int64(seconds * 1e9)) }

// GuardFail is Guard plus the standard reporting of a panic as a failure.
// It returns true when f completed normally.
func (c *Ctx) GuardFail(desc string, features []string, f func()) bool {
	pi, skipped := c.Guard(desc, f)
	if skipped {
		return false
	}
	if pi != nil {
		c.Fail(Failure{Clause: pi.Clause, Site: pi.Site, Features: features, Case: desc, Detail: pi.Msg})
		return false
	}
	return true
}
