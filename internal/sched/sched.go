//go:build verifrt

// Package sched is a cooperative scheduler and a stateless schedule explorer with iterative
// preemption bounding (CHESS style) for code instrumented with verifrt.Point and the
// verifrt.Mutex shim. Exactly one thread runs at any time; every hand-off happens at a
// scheduling point; waiting on a shimmed mutex is visible (a blocked thread is not enabled).
package sched

import (
	"fmt"
	"runtime/debug"
	"strings"

	"github.com/benoitkugler/webrender/verifrt"
)

// PointInfo describes one scheduling decision of an execution.
type PointInfo struct {
	Label          string // label of the point at which the running thread yielded
	Running        int    // thread that was running (-1 at the start)
	RunningEnabled bool   // the running thread could have continued
	Enabled        []int  // canonical order: running thread first if enabled, then ascending ids
	Choice         int    // index into Enabled that was taken
}

// Execution is the record of one complete run.
type Execution struct {
	Points     []PointInfo
	Deadlock   bool
	Blocked    []int    // threads blocked at the deadlock
	Panics     []string // per thread, "" if none
	Horizon    bool     // aborted: more than MaxPoints points
	Diverged   string   // non-empty: the prefix could not be replayed (hard error)
	ThreadDone []bool
	Races      []string // lockset violations on instrumented package-level variables
}

// access is one instrumented access to a package-level variable.
type access struct {
	thread int
	write  bool
	locks  map[*verifrt.Mutex]bool
	label  string
}

const MaxPoints = 20000

type evKind int

const (
	evPoint evKind = iota
	evBlocked
	evDone
)

type event struct {
	thread int
	kind   evKind
	label  string
	mu     *verifrt.Mutex
}

type thread struct {
	id      int
	resume  chan struct{}
	status  int // 0 ready, 1 blocked, 2 done
	waiting *verifrt.Mutex
	held    map[*verifrt.Mutex]bool
}

type scheduler struct {
	threads []*thread
	ev      chan event
	cur     int
}

func (s *scheduler) yield(e event) {
	t := s.threads[s.cur]
	e.thread = t.id
	s.ev <- e
	<-t.resume
}

// Run executes the bodies as threads under the scheduler, following prefix and then always
// taking choice 0 (continue the running thread; at a switch, the lowest enabled id).
func Run(bodies []func(), prefix []int) *Execution {
	verifrt.ResetAll() // every execution starts from the initial state of the instrumented globals
	s := &scheduler{ev: make(chan event), cur: -1}
	x := &Execution{Panics: make([]string, len(bodies)), ThreadDone: make([]bool, len(bodies))}
	for i := range bodies {
		s.threads = append(s.threads, &thread{id: i, resume: make(chan struct{}), held: map[*verifrt.Mutex]bool{}})
	}
	// lockset discipline (Eraser) on the instrumented variables: two accesses to the same variable
	// from different threads, at least one of them a write, with no common shimmed mutex held.
	accesses := map[string][]access{}
	reported := map[string]bool{}
	record := func(label string) {
		if len(label) < 3 || (label[:2] != "R:" && label[:2] != "W:") {
			return
		}
		name := label[2:]
		if i := strings.Index(name, "@"); i >= 0 {
			name = name[:i]
		}
		t := s.threads[s.cur]
		a := access{thread: t.id, write: label[0] == 'W', label: label, locks: map[*verifrt.Mutex]bool{}}
		for m := range t.held {
			a.locks[m] = true
		}
		for _, b := range accesses[name] {
			if b.thread == a.thread || !(a.write || b.write) {
				continue
			}
			common := false
			for m := range a.locks {
				if b.locks[m] {
					common = true
				}
			}
			if !common && !reported[name] {
				reported[name] = true
				x.Races = append(x.Races, fmt.Sprintf("%s: %s (thread %d) and %s (thread %d) hold no common lock", name, b.label, b.thread, a.label, a.thread))
			}
		}
		if len(accesses[name]) < 64 {
			accesses[name] = append(accesses[name], a)
		}
	}
	verifrt.PointHook = func(label string) { record(label); s.yield(event{kind: evPoint, label: label}) }
	verifrt.LockHook = func(m *verifrt.Mutex) {
		s.yield(event{kind: evPoint, label: "lock"})
		for m.Held {
			s.yield(event{kind: evBlocked, mu: m, label: "lock-wait"})
		}
		m.Held = true
		s.threads[s.cur].held[m] = true
	}
	verifrt.UnlockHook = func(m *verifrt.Mutex) {
		m.Held = false
		delete(s.threads[s.cur].held, m)
		for _, t := range s.threads {
			if t.status == 1 && t.waiting == m {
				t.status, t.waiting = 0, nil
			}
		}
		s.yield(event{kind: evPoint, label: "unlock"})
	}
	defer func() { verifrt.PointHook, verifrt.LockHook, verifrt.UnlockHook = nil, nil, nil }()

	for i, b := range bodies {
		t, body := s.threads[i], b
		go func() {
			<-t.resume
			defer func() {
				if r := recover(); r != nil {
					x.Panics[t.id] = fmt.Sprintf("%v\n%s", r, debug.Stack())
				}
				s.ev <- event{thread: t.id, kind: evDone}
			}()
			body()
		}()
	}

	running, runningLabel := -1, "start"
	for step := 0; ; step++ {
		var enabled []int
		runningEnabled := running >= 0 && s.threads[running].status == 0
		if runningEnabled {
			enabled = append(enabled, running)
		}
		alive := 0
		for _, t := range s.threads {
			if t.status != 2 {
				alive++
			}
			if t.status == 0 && t.id != running {
				enabled = append(enabled, t.id)
			}
		}
		if len(enabled) == 0 {
			if alive > 0 {
				x.Deadlock = true
				for _, t := range s.threads {
					if t.status == 1 {
						x.Blocked = append(x.Blocked, t.id)
					}
				}
				// the blocked goroutines are abandoned (they wait on their resume channel forever)
			}
			return x
		}
		if step >= MaxPoints {
			x.Horizon = true
			return x
		}
		choice := 0
		if step < len(prefix) {
			choice = prefix[step]
			if choice >= len(enabled) {
				x.Diverged = fmt.Sprintf("step %d: prefix asks for choice %d of %d enabled threads", step, choice, len(enabled))
				return x
			}
		}
		x.Points = append(x.Points, PointInfo{Label: runningLabel, Running: running, RunningEnabled: runningEnabled, Enabled: enabled, Choice: choice})
		next := enabled[choice]
		s.cur = next
		s.threads[next].resume <- struct{}{}
		e := <-s.ev
		t := s.threads[e.thread]
		switch e.kind {
		case evDone:
			t.status = 2
			x.ThreadDone[t.id] = true
		case evBlocked:
			t.status, t.waiting = 1, e.mu
		}
		running, runningLabel = e.thread, e.label
	}
}

// Choices returns the choice sequence of an execution.
func (x *Execution) Choices() []int {
	out := make([]int, len(x.Points))
	for i, p := range x.Points {
		out[i] = p.Choice
	}
	return out
}

func (x *Execution) preemptionsBefore(i int) int {
	n := 0
	for k := 0; k < i; k++ {
		p := x.Points[k]
		if p.RunningEnabled && p.Choice != 0 {
			n++
		}
	}
	return n
}

// Explorer enumerates every schedule with at most Bound preemptions (depth-first over choice
// prefixes; every execution runs to completion).
type Explorer struct {
	Bound    int
	Bodies   func() []func()       // fresh bodies for every execution
	Check    func(x *Execution)    // oracle, called once per execution
	Filter   func(i, alt int) bool // optional: restrict the children of the ROOT execution (sharding)
	Execs    int64
	Steps    int64
	MaxExecs int64 // 0 = unlimited
	Capped   bool
}

func (e *Explorer) run(prefix []int) *Execution {
	x := Run(e.Bodies(), prefix)
	e.Execs++
	e.Steps += int64(len(x.Points))
	e.Check(x)
	return x
}

// Explore runs the whole bounded search.
func (e *Explorer) Explore() { e.explore(nil, true) }

func (e *Explorer) explore(prefix []int, root bool) {
	if e.MaxExecs > 0 && e.Execs >= e.MaxExecs {
		e.Capped = true
		return
	}
	x := e.run(prefix)
	if x.Diverged != "" {
		return
	}
	for i := len(prefix); i < len(x.Points); i++ {
		p := x.Points[i]
		cost := x.preemptionsBefore(i)
		if p.RunningEnabled {
			cost++ // switching away from a runnable thread is a preemption
		}
		if cost > e.Bound {
			continue
		}
		for alt := 1; alt < len(p.Enabled); alt++ {
			if root && e.Filter != nil && !e.Filter(i, alt) {
				continue
			}
			np := append(append([]int{}, x.Choices()[:i]...), alt)
			e.explore(np, false)
		}
	}
}
