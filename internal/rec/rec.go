// Package rec is a recording implementation of backend.Document: it produces a canonical
// trace of every call with every argument, and runs a protocol monitor that flags illegal
// calls at the moment they happen.
package rec

import (
	"crypto/sha1"
	"fmt"
	"io"
	"math"
	"strings"
	"time"

	"github.com/benoitkugler/webrender/backend"
	"github.com/benoitkugler/webrender/css/parser"
	"github.com/benoitkugler/webrender/matrix"
)

type Fl = backend.Fl

// Event is one backend call.
type Event struct {
	Page  int    // 0-based page index, -1 for document-level calls
	Depth int    // nesting depth (OnNewStack / groups)
	Op    string // method name
	Args  string // canonical arguments
	// decoded payloads for the oracles
	Nums  []Fl
	Text  string
	Color parser.RGBA
	Mat   matrix.Transform
	Sub   []Event // for group consumers: the inlined trace of the group
}

type Doc struct {
	Events     []Event // document-level events, in order (AddPage, metadata, anchors...)
	Pages      []*Page
	Violations []string // protocol monitor

	Anchors      [][]backend.Anchor
	Bookmarks    []backend.BookmarkNode
	Title        string
	Desc         string
	Creator      string
	Authors      []string
	Keywords     []string
	HasTitle     bool
	gotAnchors   int
	gotBookmarks int
	fonts        map[backend.Font]int
	fontList     []backend.Font
}

func New() *Doc { return &Doc{fonts: map[backend.Font]int{}} }

func (d *Doc) violate(format string, args ...any) {
	if len(d.Violations) < 50 {
		d.Violations = append(d.Violations, fmt.Sprintf(format, args...))
	}
}

func ff(v Fl) string {
	f := float64(v)
	if math.IsNaN(f) {
		return "NaN"
	}
	if math.IsInf(f, 0) {
		if f > 0 {
			return "+Inf"
		}
		return "-Inf"
	}
	s := fmt.Sprintf("%.4f", f)
	if s == "-0.0000" {
		s = "0.0000"
	}
	return s
}

func fs(vs ...Fl) string {
	var sb strings.Builder
	for i, v := range vs {
		if i > 0 {
			sb.WriteByte(' ')
		}
		sb.WriteString(ff(v))
	}
	return sb.String()
}

func (d *Doc) checkFinite(op string, vs ...Fl) {
	for _, v := range vs {
		f := float64(v)
		if math.IsNaN(f) || math.IsInf(f, 0) {
			d.violate("non-finite:%s(%s)", op, fs(vs...))
			return
		}
	}
}

func (d *Doc) docEvent(op, args string) {
	d.Events = append(d.Events, Event{Page: -1, Op: op, Args: args})
}

// ---- backend.Document ---------------------------------------------------------------------

func (d *Doc) AddPage(left, top, right, bottom Fl) backend.Page {
	d.checkFinite("AddPage", left, top, right, bottom)
	p := &Page{canvas: canvas{doc: d}, Index: len(d.Pages), Box: [4]Fl{left, top, right, bottom}}
	p.canvas.page = p
	p.canvas.root = &p.canvas
	p.canvas.ctm = matrix.Identity()
	d.Pages = append(d.Pages, p)
	d.docEvent("AddPage", fs(left, top, right, bottom))
	if d.gotAnchors > 0 {
		d.violate("order:AddPage after CreateAnchors")
	}
	return p
}

func (d *Doc) CreateAnchors(anchors [][]backend.Anchor) {
	d.gotAnchors++
	if d.gotAnchors > 1 {
		d.violate("order:CreateAnchors called %d times", d.gotAnchors)
	}
	d.Anchors = anchors
	var sb strings.Builder
	for i, pa := range anchors {
		fmt.Fprintf(&sb, "[p%d:", i)
		for _, a := range pa {
			d.checkFinite("CreateAnchors", a.X, a.Y)
			fmt.Fprintf(&sb, " %q@%s,%s", a.Name, ff(a.X), ff(a.Y))
		}
		sb.WriteString("]")
	}
	d.docEvent("CreateAnchors", sb.String())
}

func (d *Doc) SetAttachments(as []backend.Attachment) {
	var sb strings.Builder
	for _, a := range as {
		fmt.Fprintf(&sb, "{%q %q %x}", a.Title, a.Description, sha1.Sum(a.Content))
	}
	d.docEvent("SetAttachments", sb.String())
}

func (d *Doc) EmbedFile(fileID string, a backend.Attachment) {
	d.docEvent("EmbedFile", fmt.Sprintf("%q %q %q %x", fileID, a.Title, a.Description, sha1.Sum(a.Content)))
}

func (d *Doc) SetTitle(title string) {
	d.Title, d.HasTitle = title, true
	d.docEvent("SetTitle", fmt.Sprintf("%q", title))
}
func (d *Doc) SetDescription(s string) {
	d.Desc = s
	d.docEvent("SetDescription", fmt.Sprintf("%q", s))
}
func (d *Doc) SetCreator(s string)   { d.Creator = s; d.docEvent("SetCreator", fmt.Sprintf("%q", s)) }
func (d *Doc) SetAuthors(s []string) { d.Authors = s; d.docEvent("SetAuthors", fmt.Sprintf("%q", s)) }
func (d *Doc) SetKeywords(s []string) {
	d.Keywords = s
	d.docEvent("SetKeywords", fmt.Sprintf("%q", s))
}
func (d *Doc) SetProducer(s string) { d.docEvent("SetProducer", fmt.Sprintf("%q", s)) }
func (d *Doc) SetDateCreation(t time.Time) {
	d.docEvent("SetDateCreation", t.UTC().Format(time.RFC3339))
}
func (d *Doc) SetDateModification(t time.Time) {
	d.docEvent("SetDateModification", t.UTC().Format(time.RFC3339))
}

func bookmarkString(sb *strings.Builder, l []backend.BookmarkNode) {
	for _, b := range l {
		fmt.Fprintf(sb, "(%q p%d %s,%s open=%v", b.Label, b.PageIndex, ff(b.X), ff(b.Y), b.Open)
		if len(b.Children) > 0 {
			sb.WriteString(" ")
			bookmarkString(sb, b.Children)
		}
		sb.WriteString(")")
	}
}

func (d *Doc) SetBookmarks(root []backend.BookmarkNode) {
	d.gotBookmarks++
	d.Bookmarks = root
	var sb strings.Builder
	bookmarkString(&sb, root)
	d.docEvent("SetBookmarks", sb.String())
}

// ---- pages and canvases --------------------------------------------------------------------

type canvas struct {
	doc    *Doc
	page   *Page
	root   *canvas // page canvas at the root of the group chain
	Events []Event
	depth  int

	pathN    int  // number of path construction calls since the last Paint/Clip
	hasPoint bool // current point defined
	ctm      matrix.Transform
	bbox     [4]Fl
	fonts    map[backend.Font]bool
	consumed bool
	isGroup  bool
}

type Page struct {
	canvas
	Index int
	Box   [4]Fl
}

func (c *canvas) ev(e Event) {
	e.Depth = c.depth
	if c.page != nil {
		e.Page = c.page.Index
	}
	c.Events = append(c.Events, e)
}

func (c *canvas) num(op string, vs ...Fl) {
	c.doc.checkFinite(op, vs...)
	c.ev(Event{Op: op, Args: fs(vs...), Nums: append([]Fl(nil), vs...)})
}

func (p *Page) AddInternalLink(xMin, yMin, xMax, yMax Fl, anchorName string) {
	p.doc.checkFinite("AddInternalLink", xMin, yMin, xMax, yMax)
	p.ev(Event{Op: "AddInternalLink", Args: fs(xMin, yMin, xMax, yMax) + fmt.Sprintf(" %q", anchorName), Text: anchorName, Nums: []Fl{xMin, yMin, xMax, yMax}})
}

func (p *Page) AddExternalLink(xMin, yMin, xMax, yMax Fl, url string) {
	p.doc.checkFinite("AddExternalLink", xMin, yMin, xMax, yMax)
	p.ev(Event{Op: "AddExternalLink", Args: fs(xMin, yMin, xMax, yMax) + fmt.Sprintf(" %q", url), Text: url, Nums: []Fl{xMin, yMin, xMax, yMax}})
}

func (p *Page) AddFileAnnotation(xMin, yMin, xMax, yMax Fl, fileID string) {
	p.doc.checkFinite("AddFileAnnotation", xMin, yMin, xMax, yMax)
	p.ev(Event{Op: "AddFileAnnotation", Args: fs(xMin, yMin, xMax, yMax) + fmt.Sprintf(" %q", fileID), Text: fileID})
}

func (p *Page) SetMediaBox(l, t, r, b Fl) { p.num("SetMediaBox", l, t, r, b) }
func (p *Page) SetTrimBox(l, t, r, b Fl)  { p.num("SetTrimBox", l, t, r, b) }
func (p *Page) SetBleedBox(l, t, r, b Fl) { p.num("SetBleedBox", l, t, r, b) }

// Canvas

func (c *canvas) GetBoundingBox() (left, top, right, bottom Fl) {
	if c.isGroup {
		return c.bbox[0], c.bbox[1], c.bbox[2], c.bbox[3]
	}
	if c.page != nil && c == &c.page.canvas {
		return c.page.Box[0], c.page.Box[1], c.page.Box[2], c.page.Box[3]
	}
	return c.bbox[0], c.bbox[1], c.bbox[2], c.bbox[3]
}

func (c *canvas) SetBoundingBox(l, t, r, b Fl) {
	c.bbox = [4]Fl{l, t, r, b}
	c.num("SetBoundingBox", l, t, r, b)
}

func (c *canvas) OnNewStack(f func()) {
	c.ev(Event{Op: "Save"})
	c.depth++
	saved := c.ctm
	balanced := false
	defer func() {
		// when f panics the monitor must not hide the panic; just restore
		c.depth--
		c.ctm = saved
		if balanced {
			c.ev(Event{Op: "Restore"})
		}
	}()
	f()
	balanced = true
}

func (c *canvas) State() backend.GraphicState { return c }

func (c *canvas) NewGroup(x, y, width, height Fl) backend.Canvas {
	c.doc.checkFinite("NewGroup", x, y, width, height)
	g := &canvas{doc: c.doc, page: c.page, root: c.root, ctm: matrix.Identity(), isGroup: true, bbox: [4]Fl{x, y, x + width, y + height}}
	g.ev(Event{Op: "Group", Args: fs(x, y, width, height), Nums: []Fl{x, y, width, height}})
	return g
}

func (c *canvas) sub(group backend.Canvas, op string) []Event {
	g, ok := group.(*canvas)
	if !ok {
		if p, isPage := group.(*Page); isPage {
			g = &p.canvas
		} else {
			c.doc.violate("foreign-canvas:%s got %T", op, group)
			return nil
		}
	}
	g.consumed = true
	return g.Events
}

func (c *canvas) DrawWithOpacity(opacity Fl, group backend.Canvas) {
	c.doc.checkFinite("DrawWithOpacity", opacity)
	c.ev(Event{Op: "DrawWithOpacity", Args: ff(opacity), Nums: []Fl{opacity}, Sub: c.sub(group, "DrawWithOpacity")})
}

func (c *canvas) Paint(op backend.PaintOp) {
	if c.pathN == 0 && op != 0 {
		// Paint(0) is the documented "end the path without painting" operation
		c.doc.violate("empty-path:Paint(%s) with an empty current path", op)
	}
	c.pathN, c.hasPoint = 0, false
	c.ev(Event{Op: "Paint", Args: op.String()})
}

func (c *canvas) Rectangle(x, y, w, h Fl) {
	c.pathN++
	c.hasPoint = true
	c.num("Rectangle", x, y, w, h)
}

func (c *canvas) MoveTo(x, y Fl) {
	c.pathN++
	c.hasPoint = true
	c.num("MoveTo", x, y)
}

func (c *canvas) LineTo(x, y Fl) {
	if !c.hasPoint {
		c.doc.violate("no-current-point:LineTo")
	}
	c.pathN++
	c.num("LineTo", x, y)
}

func (c *canvas) CubicTo(x1, y1, x2, y2, x3, y3 Fl) {
	if !c.hasPoint {
		c.doc.violate("no-current-point:CubicTo")
	}
	c.pathN++
	c.num("CubicTo", x1, y1, x2, y2, x3, y3)
}

func (c *canvas) ClosePath() {
	if !c.hasPoint {
		c.doc.violate("no-current-point:ClosePath")
	}
	c.ev(Event{Op: "ClosePath"})
}

func (c *canvas) fontOrdinal(f backend.Font) int {
	d := c.doc
	if n, ok := d.fonts[f]; ok {
		return n
	}
	n := len(d.fontList)
	d.fonts[f] = n
	d.fontList = append(d.fontList, f)
	return n
}

func (c *canvas) AddFont(font backend.Font, content []byte) *backend.FontChars {
	r := c.root
	if r == nil {
		r = c
	}
	if r.fonts == nil {
		r.fonts = map[backend.Font]bool{}
	}
	first := !r.fonts[font]
	r.fonts[font] = true
	if c.fonts == nil {
		c.fonts = map[backend.Font]bool{}
	}
	c.fonts[font] = true
	n := c.fontOrdinal(font)
	if first {
		desc := font.Description()
		c.ev(Event{Op: "AddFont", Args: fmt.Sprintf("f%d %v %q size=%d content=%x", n, font.Origin(), desc.Family, desc.Size, sha1.Sum(content))})
	}
	return &backend.FontChars{Cmap: map[backend.GID][]rune{}, Extents: map[backend.GID]backend.GlyphExtents{}}
}

func (c *canvas) DrawText(texts []backend.TextDrawing) {
	for _, t := range texts {
		c.doc.checkFinite("DrawText", t.FontSize, t.ScaleX, t.X, t.Y, t.Angle)
		var sb strings.Builder
		fmt.Fprintf(&sb, "%q at %s size=%s scalex=%s angle=%s", string(t.Text), fs(t.X, t.Y), ff(t.FontSize), ff(t.ScaleX), ff(t.Angle))
		for _, run := range t.Runs {
			known := c.fonts[run.Font] || (c.root != nil && c.root.fonts[run.Font])
			if !known {
				c.doc.violate("font-not-registered:DrawText %q uses a font never passed to AddFont on this canvas chain", string(t.Text))
			}
			fmt.Fprintf(&sb, " run(f%d", c.fontOrdinal(run.Font))
			for _, g := range run.Glyphs {
				c.doc.checkFinite("DrawText.glyph", g.Offset, g.Rise, g.XAdvance)
				fmt.Fprintf(&sb, " g%d:%d:%s:%s:%s:%d+%d", g.Glyph, g.Kerning, ff(g.Offset), ff(g.Rise), ff(g.XAdvance), g.TextOffset, g.TextLength)
			}
			sb.WriteString(")")
		}
		c.ev(Event{Op: "DrawText", Args: sb.String(), Text: string(t.Text), Nums: []Fl{t.X, t.Y, t.FontSize}})
	}
}

func (c *canvas) DrawRasterImage(image backend.RasterImage, width, height Fl) {
	c.doc.checkFinite("DrawRasterImage", width, height)
	h := sha1.New()
	if image.Content != nil {
		if s, ok := image.Content.(io.Seeker); ok {
			s.Seek(0, io.SeekStart)
		}
		io.Copy(h, image.Content)
	}
	c.ev(Event{Op: "DrawRasterImage", Args: fmt.Sprintf("%s %q id=%d content=%x %s", image.MimeType, image.Rendering, image.ID, h.Sum(nil), fs(width, height)), Nums: []Fl{width, height}})
}

func (c *canvas) DrawGradient(g backend.GradientLayout, width, height Fl) {
	c.doc.checkFinite("DrawGradient", width, height, g.ScaleY)
	c.doc.checkFinite("DrawGradient.positions", g.Positions...)
	c.doc.checkFinite("DrawGradient.coords", g.Coords[:]...)
	var sb strings.Builder
	fmt.Fprintf(&sb, "%s coords=%s scaley=%s repeating=%v pos=%s colors=", g.Kind, fs(g.Coords[:]...), ff(g.ScaleY), g.Reapeating, fs(g.Positions...))
	for _, col := range g.Colors {
		c.doc.checkFinite("DrawGradient.color", col.R, col.G, col.B, col.A)
		sb.WriteString(fs(col.R, col.G, col.B, col.A) + ";")
	}
	sb.WriteString(" " + fs(width, height))
	c.ev(Event{Op: "DrawGradient", Args: sb.String(), Nums: []Fl{width, height}})
}

// GraphicState

func (c *canvas) SetAlphaMask(mask backend.Canvas) {
	c.ev(Event{Op: "SetAlphaMask", Sub: c.sub(mask, "SetAlphaMask")})
}

func (c *canvas) Clip(evenOdd bool) {
	if c.pathN == 0 {
		c.doc.violate("empty-path:Clip with an empty current path")
	}
	c.pathN, c.hasPoint = 0, false
	c.ev(Event{Op: "Clip", Args: fmt.Sprint(evenOdd)})
}

func sf(stroke bool) string {
	if stroke {
		return "stroke"
	}
	return "fill"
}

func (c *canvas) SetAlpha(alpha Fl, stroke bool) {
	c.doc.checkFinite("SetAlpha", alpha)
	c.ev(Event{Op: "SetAlpha", Args: sf(stroke) + " " + ff(alpha), Nums: []Fl{alpha}})
}

func (c *canvas) SetColorRgba(color parser.RGBA, stroke bool) {
	c.doc.checkFinite("SetColorRgba", color.R, color.G, color.B, color.A)
	c.ev(Event{Op: "SetColorRgba", Args: sf(stroke) + " " + fs(color.R, color.G, color.B, color.A), Color: color, Text: sf(stroke)})
}

func (c *canvas) SetColorPattern(pattern backend.Canvas, contentWidth, contentHeight Fl, mat matrix.Transform, stroke bool) {
	c.doc.checkFinite("SetColorPattern", contentWidth, contentHeight, mat.A, mat.B, mat.C, mat.D, mat.E, mat.F)
	c.ev(Event{Op: "SetColorPattern", Args: sf(stroke) + " " + fs(contentWidth, contentHeight, mat.A, mat.B, mat.C, mat.D, mat.E, mat.F),
		Mat: mat, Sub: c.sub(pattern, "SetColorPattern"), Text: sf(stroke)})
}

func (c *canvas) SetBlendingMode(mode string) { c.ev(Event{Op: "SetBlendingMode", Args: mode}) }
func (c *canvas) SetLineWidth(w Fl)           { c.num("SetLineWidth", w) }

func (c *canvas) SetDash(dashes []Fl, offset Fl) {
	c.doc.checkFinite("SetDash", append(append([]Fl(nil), dashes...), offset)...)
	c.ev(Event{Op: "SetDash", Args: "[" + fs(dashes...) + "] " + ff(offset), Nums: append(append([]Fl(nil), dashes...), offset)})
}

func (c *canvas) SetStrokeOptions(o backend.StrokeOptions) {
	c.doc.checkFinite("SetStrokeOptions", o.MiterLimit)
	c.ev(Event{Op: "SetStrokeOptions", Args: fmt.Sprintf("%s %s %s", o.LineCap, o.LineJoin, ff(o.MiterLimit))})
}

func (c *canvas) GetTransform() matrix.Transform { return c.ctm }

func (c *canvas) Transform(mt matrix.Transform) {
	c.doc.checkFinite("Transform", mt.A, mt.B, mt.C, mt.D, mt.E, mt.F)
	c.ctm = matrix.Mul(c.ctm, mt)
	c.ev(Event{Op: "Transform", Args: fs(mt.A, mt.B, mt.C, mt.D, mt.E, mt.F), Mat: mt})
}

func (c *canvas) SetTextPaint(op backend.PaintOp) { c.ev(Event{Op: "SetTextPaint", Args: op.String()}) }

// ---- canonical trace -------------------------------------------------------------------------

func writeEvents(sb *strings.Builder, evs []Event, indent int) {
	for _, e := range evs {
		sb.WriteString(strings.Repeat(" ", indent+e.Depth))
		sb.WriteString(e.Op)
		if e.Args != "" {
			sb.WriteByte(' ')
			sb.WriteString(e.Args)
		}
		if e.Sub != nil {
			sb.WriteString(" {\n")
			writeEvents(sb, e.Sub, indent+e.Depth+2)
			sb.WriteString(strings.Repeat(" ", indent+e.Depth))
			sb.WriteString("}")
		}
		sb.WriteByte('\n')
	}
}

// Trace returns the canonical trace of the whole document.
func (d *Doc) Trace() string {
	var sb strings.Builder
	writeEvents(&sb, d.Events, 0)
	for _, p := range d.Pages {
		fmt.Fprintf(&sb, "== page %d\n", p.Index)
		writeEvents(&sb, p.Events, 1)
	}
	return sb.String()
}

// Flat returns the events of a page with the group traces inlined at their consumer, in
// paint order.
func Flat(evs []Event) []Event {
	var out []Event
	for _, e := range evs {
		out = append(out, e)
		if e.Sub != nil {
			out = append(out, Event{Op: "GroupBegin", Depth: e.Depth, Page: e.Page})
			out = append(out, Flat(e.Sub)...)
			out = append(out, Event{Op: "GroupEnd", Depth: e.Depth, Page: e.Page})
		}
	}
	return out
}

// Finish runs the end-of-document monitor clauses.
func (d *Doc) Finish() {
	for _, p := range d.Pages {
		if p.depth != 0 {
			d.violate("unbalanced-stack:page %d depth %d", p.Index, p.depth)
		}
	}
}
