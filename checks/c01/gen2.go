package c01

// Second generation of the C01 space. Its cases are appended after all the first-generation cases, so
// that the unit numbers (and the replay files) of the first generation are undisturbed:
//
//   - @import graphs: style sheets served by the harness fetcher, each importing nothing, itself, another
//     sheet or a missing one, reached from a <style> or a <link>;
//   - the skeletons after nGen1 with their context menus: one flex line in shrink mode, multi-layer
//     backgrounds with list-valued longhands of different lengths, grid items placed on named lines,
//     a running element with pseudo-elements (element() of itself, of another running element), preserved tabs.
//
// A second-generation skeleton is enumerated at levels 0 and 1 with the whole menu (global + context) on
// the default configuration (thorough: on all configurations), with its context menu on a few more
// configurations, and at level 2 with its context menu and a few listed partners from the global menu.
// Declarations marked solo run into a hang or into memory exhaustion on the unchanged tree (every case
// that contains one costs its whole CPU budget): they are enumerated at level 1 only, in the quick tier on
// the default configuration only.

import (
	"bytes"
	"fmt"
	"sort"
	"strings"

	"github.com/benoitkugler/webrender/utils"
)

// dl is a context declaration whose text contains spaces or commas: the feature tag replaces them
// (known-finding lines are split on spaces and commas).
func dl(css string) decl {
	return decl{css: css, tag: strings.NewReplacer(" ", "_", ",", "+").Replace(css)}
}

// solo: hangs take the whole budget (2 s is enough to tell), memory exhaustion needs time to get there.
func solo(m decl, cpu float64) decl { m.solo, m.cpu = true, cpu; return m }

// placed marks an explicit grid placement; named, one that uses a line name (of the grid or unknown to it).
func placed(m decl) decl { m.also = append(m.also, "grid-placement"); return m }
func named(m decl) decl  { m.also = append(m.also, "grid-line-name"); return placed(m) }

var (
	flexMenu = []decl{
		d("min-width:0"), d("min-height:0"), d("flex:none"), dl("flex:0 0 0"), d("flex-shrink:0"), d("flex-grow:0"), d("flex-basis:200px"),
		d("flex-direction:column"), d("flex-direction:row-reverse"), d("flex-wrap:wrap"), d("max-width:10px"), d("order:-1"), d("margin-left:auto"), d("gap:200px"),
	}
	backgroundMenu = []decl{
		dl("background-origin:border-box,content-box"), dl("background-origin:content-box,padding-box,border-box"),
		dl("background-position:1px 2px,right bottom"), d("background-position:50%"),
		dl("background-size:5px,auto 200%,cover"), dl("background-repeat:no-repeat,space round"),
		dl("background-clip:content-box,border-box"), dl("background-attachment:fixed,scroll"),
		dl("background-image:none,linear-gradient(red,blue)"), d("background-image:none"),
		dl("background:repeating-linear-gradient(red 3px,blue 3px)"), dl("background:radial-gradient(circle 0px,red,blue)"),
		dl("padding:3px;border:2px solid"),
		// a repeating gradient whose period is far below the resolution of the output
		solo(decl{css: "background:repeating-linear-gradient(red 0px,blue .00001px);height:500px", tag: "repeating-linear-gradient:tiny-period"}, 2),
		solo(decl{css: "background:repeating-radial-gradient(red 0px,blue .00001px);height:500px", tag: "repeating-radial-gradient:tiny-period"}, 2),
	}
	gridLineMenu = []decl{
		named(dl("grid-column:span foo")), named(dl("grid-column:span a")), named(d("grid-column:foo")), named(dl("grid-column:2 / span foo")), named(dl("grid-column:span foo / 2")),
		named(dl("grid-column:a 2 / b")), placed(dl("grid-column:-1 / span 2")), named(dl("grid-row:span foo")), named(dl("grid-row:span 2 / r")), named(d("grid-area:foo")),
		placed(dl("grid-column:span 3")), placed(d("grid-column:5")), dl("grid-auto-flow:column dense"),
	}
	elementMenu = append(append([]decl{}, contentMenu...),
		d("content:element(g)"), d("position:running(g)"), d("content:none"))
	tabMenu = []decl{
		d("tab-size:0"), d("tab-size:3"), d("tab-size:7px"), d("tab-size:.4px"), d("white-space:pre-line"), d("white-space:break-spaces"),
		d("letter-spacing:2px"), d("word-spacing:-5px"), d("width:30px"),
		d("tab-size:100000000px"), solo(decl{css: "tab-size:2000000000", tag: "tab-size:huge"}, 10),
	}
)

// gen2Opt: how a second-generation skeleton is enumerated.
type gen2Opt struct {
	with  []string // declarations of the global menu that join the context menu at level 2
	cfgs  []int    // quick tier: configurations (besides the default one) on which the context menu is enumerated
	l2ctx bool     // level 2 also on the context slots
}

var gen2Opts = map[string]gen2Opt{
	"flex-line":      {with: []string{"width:0", "display:none", "min-width:500px", "position:absolute"}, cfgs: []int{1, 2, 7}},
	"backgrounds":    {with: []string{"display:none", "width:0", "box-decoration-break:clone;border:1px solid"}, cfgs: []int{1, 2, 7}},
	"grid-lines":     {with: []string{"display:none", "position:absolute"}, cfgs: []int{7}},
	"running-before": {with: []string{"display:none"}, cfgs: []int{4, 7}, l2ctx: true},
	"pre-tabs":       {with: []string{"text-align:justify", "direction:rtl", "display:inline-block"}, cfgs: []int{1, 2, 7}},
}

func menuIndex(css string) int {
	for i, m := range menu {
		if m.css == css {
			return i
		}
	}
	panic("c01: not in the global menu: " + css)
}

func appendGen2(cases []caseT, tier string, geoms []int) []caseT {
	thorough := tier == "thorough"
	for sk := nGen1; sk < len(skeletons); sk++ {
		opt := gen2Opts[skeletons[sk].name]
		// levels 0 and 1
		for cfg := range configs {
			localOnly := false
			if !thorough && cfg != 0 {
				listed := false
				for _, x := range opt.cfgs {
					listed = listed || x == cfg
				}
				if !listed {
					continue
				}
				localOnly = true
			}
			cases = append(cases, caseT{fam: 's', sk: sk, cfg: cfg})
			for _, slot := range slotsOf(sk, true) {
				for di := 0; di < nDecls(sk); di++ {
					if localOnly && di < len(menu) {
						continue
					}
					if declAt(sk, di).solo && !thorough && cfg != 0 {
						continue
					}
					cases = append(cases, caseT{fam: 's', sk: sk, cfg: cfg, devs: []dev{{slot, di}}})
				}
			}
		}
		// level 2: context menu + partners, without the solo declarations
		var dis []int
		for _, css := range opt.with {
			dis = append(dis, menuIndex(css))
		}
		for di := len(menu); di < nDecls(sk); di++ {
			if !declAt(sk, di).solo {
				dis = append(dis, di)
			}
		}
		slots := []int{0, 1, 2, 3}
		if opt.l2ctx || thorough {
			slots = slotsOf(sk, false)
		}
		var ds []dev
		for _, slot := range slots {
			for _, di := range dis {
				ds = append(ds, dev{slot, di})
			}
		}
		for _, cfg := range geoms {
			for i := range ds {
				for j := i + 1; j < len(ds); j++ {
					cases = append(cases, caseT{fam: 's', sk: sk, cfg: cfg, devs: []dev{ds[i], ds[j]}})
				}
			}
		}
	}
	return cases
}

func gen2Bounds(tier string) map[string]any {
	out := map[string]any{}
	for sk := nGen1; sk < len(skeletons); sk++ {
		opt := gen2Opts[skeletons[sk].name]
		var cf, soloDecls []string
		for _, x := range opt.cfgs {
			cf = append(cf, configs[x].name)
		}
		for _, m := range skeletons[sk].local {
			if m.solo {
				soloDecls = append(soloDecls, m.css)
			}
		}
		out[skeletons[sk].name] = map[string]any{"level2_partners": opt.with, "quick_context_menu_configurations": cf, "level2_context_slots": opt.l2ctx || tier == "thorough", "solo": soloDecls}
	}
	return out
}

// ---- @import graphs ----

const impBase = "http://t/"

// impDoc is a document plus the style sheets the fetcher serves under impBase.
type impDoc struct {
	html   string
	sheets map[string]string
	feats  []string
}

func (d impDoc) sheetsDesc() string {
	var names []string
	for n := range d.sheets {
		names = append(names, n)
	}
	sort.Strings(names)
	var b strings.Builder
	for _, n := range names {
		fmt.Fprintf(&b, "[%s: %s]", n, d.sheets[n])
	}
	return b.String()
}

// fetcher serves the sheets of the document; data: URLs go to the default fetcher, anything else is missing.
func (d impDoc) fetcher() utils.UrlFetcher {
	return func(url string) (utils.RemoteRessource, error) {
		if strings.HasPrefix(url, impBase) {
			if src, ok := d.sheets[strings.TrimPrefix(url, impBase)]; ok {
				return utils.RemoteRessource{Content: bytes.NewReader([]byte(src)), MimeType: "text/css", RedirectedUrl: url}, nil
			}
			return utils.RemoteRessource{}, fmt.Errorf("not found: %s", url)
		}
		if strings.HasPrefix(strings.ToLower(url), "data:") {
			return utils.DefaultUrlFetcher(url)
		}
		return utils.RemoteRessource{}, fmt.Errorf("no network: %s", url)
	}
}

// importDocs enumerates the import graphs on n style sheets (2, thorough: 3): every sheet starts with
// one @import of nothing, itself, another sheet or a missing sheet (thorough: also a second @import),
// followed by a rule; the document reaches sheet a from a <style> element or from a <link>.
func importDocs(three bool) []impDoc {
	n := 2
	if three {
		n = 3
	}
	names := []string{"a.css", "b.css", "c.css"}[:n]
	targets := append([]string{""}, names...)
	targets = append(targets, "zz.css")
	total := 1
	for i := 0; i < n; i++ {
		total *= len(targets)
	}
	const prelude = `<style>@page{size:100px 60px;margin:5px} html,body{font-family:ahem;font-size:10px;line-height:1}</style>`
	var out []impDoc
	for g := 0; g < total; g++ {
		sheets := map[string]string{}
		feats := []string{"css-import"}
		x := g
		cyclic := false
		next := map[string]string{}
		for i := 0; i < n; i++ {
			t := targets[x%len(targets)]
			x /= len(targets)
			src := ""
			if t != "" {
				src = `@import "` + t + `"; `
				next[names[i]] = t
			}
			sheets[names[i]] = src + fmt.Sprintf("p.%c{color:red}", 'a'+i)
		}
		// the chain that starts at a.css
		seen := map[string]bool{}
		for at := "a.css"; at != ""; at = next[at] {
			if seen[at] {
				cyclic = true
				break
			}
			seen[at] = true
			if at == "zz.css" {
				feats = append(feats, "import-missing")
			}
		}
		if cyclic {
			feats = append(feats, "import-cycle")
		}
		body := `<p class="a">ab</p><p class="b">cd</p>`
		out = append(out, impDoc{prelude + `<style>@import "a.css";</style>` + body, sheets, append([]string{"from-style"}, feats...)})
		if g%3 == 0 || three {
			out = append(out, impDoc{prelude + `<link rel="stylesheet" href="a.css">` + body, sheets, append([]string{"from-link"}, feats...)})
		}
		if three && g%5 == 0 { // two imports in the first sheet: a diamond or a second way into a cycle
			s2 := map[string]string{}
			for k, v := range sheets {
				s2[k] = v
			}
			s2["a.css"] = `@import url(b.css); ` + s2["a.css"]
			f2 := append([]string{"from-style", "two-imports"}, feats...)
			if !cyclic && (next["b.css"] == "a.css" || next["b.css"] == "b.css" || (next["b.css"] == "c.css" && (next["c.css"] == "b.css" || next["c.css"] == "a.css" || next["c.css"] == "c.css"))) {
				f2 = append(f2, "import-cycle")
			}
			out = append(out, impDoc{prelude + `<style>@import "a.css";</style>` + body, s2, f2})
		}
	}
	return out
}
