// Package c01: rendering any document terminates without crashing; invalid constructs are
// skipped and the rest of the document is rendered identically.
//
// Families, all through tree.NewHTML → document.Render → Write(recording backend):
// markup shapes (prefix tree of HTML tokens); SVG reference graphs and SVG nesting (every container
// element × every short sequence of child kinds); styled skeletons × deviation lattice of
// declarations (levels 0, 1, 2) on the style slots of the elements, of html and body, and on the
// skeleton's context slots (pseudo-elements, page-margin boxes, footnote area); render
// configurations (page geometry, hints, engine, zoom). Second generation (gen2.go, appended after all of
// the above): @import graphs among style sheets served by the harness fetcher; skeletons with context
// menus for one flex line in shrink mode, multi-layer backgrounds, grid placement on named lines, a
// running element with pseudo-elements, preserved tabs.
package c01

import (
	"encoding/base64"
	"fmt"
	"os"
	"sort"
	"strings"

	"verif/internal/engine"
	"verif/internal/render"
)

type dev struct{ slot, decl int }

type caseT struct {
	fam  byte // 'm' markup, 's' skeleton, 'g' SVG reference graph, 'n' SVG nesting, 'i' @import graph
	sk   int
	devs []dev
	cfg  int
	mi   int64 // markup index
}

type check struct {
	markup engine.StrSpace
	cases  []caseT
	nMark  int64
	tier   string
	svgs   []string  // SVG documents with reference graphs among their definitions
	nests  []svgNest // SVG documents with every container holding every short sequence of child kinds
	imps   []impDoc  // documents whose style sheets form every @import graph on a few sheets
}

func init() { engine.Register(&check{}) }

func (c *check) ID() string { return "C01" }

var pngData = func() string {
	b, err := os.ReadFile("/repo/resources_test/pattern.png")
	if err != nil {
		return ""
	}
	return "data:image/png;base64," + base64.StdEncoding.EncodeToString(b)
}()

var markupTokens = []string{
	"<!--c-->", "<!doctype html>", "<html>", "</html>", "<head>", "<body>", "<p>", "</p>", "<table>", "<td>", "<li>",
	"<svg><rect width=\"5\" height=\"5\"/></svg>", "<img src=\"" + pngData + "\">", "<style>p{color:red}</style>", "x", "&#x5d0;",
}

// skeletons: {k} is the style slot k (appended to the slot's base style); slots 4 and 5 are html and body.
//
// A skeleton may declare extra slots (indices 6, 7, …; placeholders {6}, {7}, … in its style sheet): the
// declaration blocks of pseudo-elements, page-margin boxes and the footnote area, i.e. the places where
// `content:` functions, @footnote properties … have an effect. A skeleton may also have a local menu:
// declarations that only mean something in its context, enumerated on its slots only.
type skeleton struct {
	name  string
	css   string
	body  string
	slots int
	extra []string // names of the extra slots (feature tag "in:<name>")
	local []decl   // context menu, indexed after the global menu
}

var skeletons = []skeleton{
	{"block", "", `<div style="{0}"><p style="{1}">ab cd</p><p style="{2}">ef gh ij</p></div><p style="{3}">kl mn</p>`, 4, nil, nil},
	{"inline", "", `<p style="{0}">ab <span style="{1}">cd <b style="{2}">ef</b> gh</span> ij <em style="{3}">kl</em> mn</p>`, 4, nil, nil},
	{"float", "", `<div style="{0}"><div style="float:left;width:30px;{1}">ab cd</div><p style="{2}">ef gh ij kl</p></div><p style="clear:both;{3}">mn</p>`, 4, nil, nil},
	{"abs", "", `<div style="position:relative;{0}"><div style="position:absolute;top:5px;left:5px;{1}">ab</div><p style="{2}">cd ef</p><div style="position:fixed;bottom:0;{3}">gh</div></div>`, 4, nil, nil},
	{"table", "", `<table style="{0}"><tr style="{1}"><td style="{2}">ab</td><td style="{3}">cd ef</td></tr><tr><td>gh</td><td>ij</td></tr></table>`, 4, nil, nil},
	{"list", "", `<ul style="{0}"><li style="{1}">ab</li><li style="{2}">cd<ol><li style="{3}">ef</li></ol></li></ul>`, 4, nil, nil},
	{"flex", "", `<div style="display:flex;{0}"><div style="{1}">ab</div><div style="{2}">cd ef</div><span style="{3}">gh</span></div>`, 4, nil, nil},
	{"grid", "", `<div style="display:grid;grid-template-columns:1fr 1fr;{0}"><div style="{1}">ab</div><div style="{2}">cd ef</div><span style="{3}">gh</span></div>`, 4, nil, nil},
	{"columns", "", `<div style="columns:2;{0}"><p style="{1}">ab cd ef gh</p><p style="{2}">ij kl mn</p></div><p style="{3}">op</p>`, 4, nil, nil},
	{"footnote", `@page{@footnote{{6}}}`, `<p style="{0}">ab<span style="float:footnote;{1}">cd ef</span> gh</p><p style="{2}">ij <span style="{3}">kl</span></p>`, 4,
		[]string{"@footnote"}, footnoteMenu},
	{"running", `@page{@top-center{content:element(h);{6}} @bottom-right{content:counter(page) "/" counter(pages)}}`,
		`<div style="position:running(h);{0}">hd</div><p style="{1}">ab cd</p><p style="string-set:t content();{2}">ef</p><p style="{3}">gh</p>`, 4,
		[]string{"@top-center"}, contentMenu},
	{"inline-block", "", `<p style="{0}">ab <span style="display:inline-block;{1}">cd <i style="{2}">ef</i></span> gh <span style="{3}">ij</span></p>`, 4, nil, nil},
	{"replaced", "", `<p style="{0}">ab <img style="{1}" src="` + pngData + `"> cd <svg style="{2}" width="10" height="10"><rect width="5" height="5"/></svg> <span style="{3}">ef</span></p>`, 4, nil, nil},
	{"pseudo", `.q::before{content:"b" counter(c);{6}} .q::after{content:"a";{7}} li::marker{content:"m";{8}} .q{counter-increment:c}`,
		`<div class="q" style="{0}">ab<ul><li class="q" style="{1}">cd</li></ul></div><p class="q" style="{2}">ef</p><p style="{3}">gh</p>`, 4,
		[]string{"::before", "::after", "::marker"}, contentMenu},
	// table of contents: leader(), target-counter() and target-text() in the pseudo-elements of links to later headings
	{"toc", `a::after{content:leader('.') target-counter(attr(href),page);{6}} a::before{content:target-text(attr(href)) " ";{7}} h2{string-set:t content()}`,
		`<ul style="{0}"><li style="{1}"><a href="#t" style="{2}">ab</a></li><li><a href="#u">cd</a></li></ul><h2 id="t" style="{3}">ef</h2><p id="u">gh</p>`, 4,
		[]string{"::after", "::before"}, contentMenu},
	// five footnote calls on one line, the footnote area and the call / marker pseudo-elements
	{"footnotes", `.f{float:footnote} @page{@footnote{{6}}} .f::footnote-call{{7}} .f::footnote-marker{{8}}`,
		`<p style="{0}">ab<span class="f" style="{1}">cd</span><span class="f">ef</span><span class="f" style="{2}">gh</span><span class="f">ij</span><span class="f">kl</span> mn</p><p style="{3}">op</p>`, 4,
		[]string{"@footnote", "::footnote-call", "::footnote-marker"}, footnoteMenu},
	// a running element that is a subtree (block children, inline grandchild) placed in a margin box
	{"running-tree", `@page{@top-center{content:element(h);{6}}}`,
		`<div style="position:running(h);{0}"><p style="{1}">hd</p><p style="{2}">he <span style="{3}">hf</span></p></div><p>ab</p><p>cd</p>`, 4,
		[]string{"@top-center"}, nil},
	// language-tagged paragraphs with automatic / manual hyphenation: one-letter word, long words, soft hyphens
	{"hyphens", "", `<p lang="en" style="hyphens:auto;{0}">hyphen a</p><p lang="en" style="hyphens:auto;{1}">cd <span style="{2}">extra&shy;ordinary</span> hyphenation</p><p lang="zz" style="hyphens:manual;{3}">ef&shy;gh ij</p>`, 4,
		nil, hyphenMenu},
	// a collapsed-border table with a header group, long enough to be split over several pages on the small geometries
	// (the border grid of the whole table is indexed per page fragment when it is drawn)
	{"table-pages", "", `<table style="border-collapse:collapse;{0}"><thead style="{1}"><tr><th style="border:1px solid">ab</th><th>cd</th></tr></thead><tbody><tr style="{2}"><td style="border:2px solid;{3}">ef</td><td>gh</td></tr>` +
		strings.Repeat(`<tr><td style="border:1px solid">ij</td><td>kl</td></tr>`, 7) + `</tbody></table>`, 4, nil, tableMenu},

	// ---- second generation (gen2.go): enumerated after all the cases of the skeletons above ----
	// one flex line in shrink mode: a rigid item wider than the container, two flexible items with a zero flex basis
	{"flex-line", "", `<div style="display:flex;width:100px;{0}"><div style="flex:none;width:150px;{1}">ab</div><div style="flex:1;{2}">cd ef</div><div style="flex:1;{3}">gh</div></div>`, 4,
		nil, flexMenu},
	// boxes with two and three background layers: the list-valued background longhands are cycled per layer
	{"backgrounds", "", `<div style="background-image:linear-gradient(red,blue),url(` + pngData + `);{0}"><p style="background-image:url(` + pngData + `),linear-gradient(red,blue),radial-gradient(red,blue);{1}">ab cd</p></div>` +
		`<p style="background:linear-gradient(red,blue);{2}">ef <span style="background-image:linear-gradient(red,blue),linear-gradient(blue,red);{3}">gh ij</span></p>`, 4,
		nil, backgroundMenu},
	// grid items placed by line number, line name and span on a grid with named lines
	{"grid-lines", "", `<div style="display:grid;grid-template-columns:[a] 1fr [b] 1fr [a];grid-template-rows:[r] auto;{0}"><div style="{1}">ab</div><div style="{2}">cd ef</div><span style="{3}">gh</span></div>`, 4,
		nil, gridLineMenu},
	// a running element with its own pseudo-elements, placed in a margin box: element() of itself / of another running element in them
	{"running-before", `.r{position:running(h)} .r::before{content:"b";{6}} .r::after{content:"a";{7}} @page{@top-center{content:element(h);{8}}}`,
		`<div class="r" style="{0}">hd <span style="{1}">he</span></div><p style="{2}">ab</p><p style="{3}">cd</p>`, 4,
		[]string{"::before", "::after", "@top-center"}, elementMenu},
	// preserved tabs: <pre>, pre-wrap, and a paragraph that collapses them
	{"pre-tabs", "", `<pre style="{0}">a&#9;b <span style="{1}">c&#9;&#9;d</span></pre><p style="white-space:pre-wrap;{2}">e&#9;f g</p><p style="{3}">h&#9;i</p>`, 4,
		nil, tabMenu},
}

// nGen1 is the number of first-generation skeletons: their cases come first and keep their unit numbers.
const nGen1 = 19

// context menus
var (
	contentMenu = []decl{
		d("content:leader('.') 'x'"), d("content:target-text(attr(href))"), d("content:target-counters(attr(href),c,'.')"), d("content:counters(c,'.') string(t,last) attr(href)"),
		d("content:open-quote close-quote no-close-quote"), d("content:target-counter('#zz',page)"),
	}
	footnoteMenu = []decl{d("footnote-display:inline"), d("footnote-display:compact"), d("footnote-policy:line"), d("footnote-policy:block")}
	tableMenu    = []decl{d("border-collapse:separate;border-spacing:3px"), d("caption-side:bottom"), d("empty-cells:hide"), d("table-layout:fixed;width:80px"), d("display:table-footer-group")}
	hyphenMenu   = []decl{
		d("hyphenate-limit-chars:2 1 1"), {css: "hyphenate-limit-chars:0 0 0", tag: "hyphenate-limit-chars:0"}, d("hyphenate-limit-zone:50%"), d("hyphenate-character:'ab'"),
		d("hyphens:none"), d("overflow-wrap:anywhere"), d("word-break:break-all"), d("letter-spacing:-3px"),
	}
)

var skTags = map[string][]string{
	"float": {"float:left"}, "abs": {"position:absolute", "position:fixed"}, "table": {"display:table"}, "list": {"display:list-item"},
	"flex": {"display:flex"}, "grid": {"display:grid"}, "columns": {"columns:2"}, "footnote": {"float:footnote"},
	"running": {"position:running(h)"}, "inline-block": {"display:inline-block"},
	"toc": {"content:leader('.')", "text-decoration:underline"}, "footnotes": {"float:footnote"}, "running-tree": {"position:running(h)"}, "hyphens": {"hyphens:auto"},
	"table-pages": {"display:table", "border-collapse:collapse"},
	"flex-line":   {"display:flex"}, "backgrounds": {"background-layers"}, "grid-lines": {"display:grid"}, "running-before": {"position:running(h)"}, "pre-tabs": {"white-space:pre"},
}

type decl struct {
	css     string
	tag     string // feature tag when the declaration text cannot be one (known-finding lines are split on spaces and commas)
	invalid bool
	core    bool     // member of the reduced menu explored at level 2 in the quick tier
	also    []string // more feature tags: the classes of the declaration
	cpu     float64  // CPU budget (seconds) of the cases that contain a solo declaration
	solo    bool     // expensive on the unchanged tree (a case that contains it runs into a hang / memory exhaustion): level 1 only, reduced CPU budget
}

func d(css string) decl  { return decl{css: css} }
func dc(css string) decl { return decl{css: css, core: true} }
func di(css string) decl { return decl{css: css, invalid: true} }

// feature is the tag of the declaration in the case's feature list.
func (m decl) feature() string {
	if m.tag != "" {
		return m.tag
	}
	return m.css
}

var menu = []decl{
	dc("display:block"), dc("display:inline"), dc("display:inline-block"), d("display:list-item"), dc("display:none"),
	dc("display:table"), d("display:inline-table"), dc("display:table-row"), d("display:table-row-group"), d("display:table-header-group"),
	d("display:table-footer-group"), dc("display:table-cell"), d("display:table-column"), d("display:table-column-group"), d("display:table-caption"),
	dc("display:flex"), d("display:inline-flex"), dc("display:grid"), d("display:inline-grid"), dc("display:contents"), d("display:flow-root"),
	dc("float:left"), d("float:right"), dc("position:absolute"), d("position:fixed"), d("position:relative;top:3px"),
	d("width:0"), dc("font-size:0"), d("line-height:0"), dc("height:0"), d("margin:-20px"), dc("min-width:500px"), dc("width:200%"), d("height:15px"),
	dc("break-before:page"), d("break-before:left"), d("break-after:avoid"), dc("break-inside:avoid"), d("break-after:page"), d("break-before:avoid"),
	dc("columns:2"), d("column-span:all"), dc("overflow:hidden"), d("direction:rtl"), d("white-space:pre"), d("white-space:nowrap"), d("hyphens:auto"),
	d("text-align:justify"), d("content:counter(c)"), d("content:target-counter(attr(href),page)"), d("content:string(t)"), d("content:element(h)"),
	d("content:leader('.')"), d("counter-reset:c 3"), d("counter-increment:c -2"), dc("position:running(h)"), dc("float:footnote"),
	d("transform:rotate(30deg) scale(0)"), d("opacity:.5"), d("page:n"), d("--a:var(--b);--b:1px;margin-top:var(--a)"),
	d("font-weight:lighter"), d("border:3px dashed red;border-radius:50%"), d("padding:40px"), d("box-decoration-break:clone;border:1px solid"),
	d("vertical-align:top"), d("text-indent:-30px"), d("margin:auto"), d("orphans:5;widows:5"), d("bookmark-level:1"), d("z-index:-1;position:relative"),
	di("no-such-property:1"), di("color:notacolor"), di("width:10xx"), di("margin:1px 2px 3px 4px 5px"), di("transform:rotate("),
	di("display:"), di("font:"), di("background:url("), di(":red"), di("width:calc(1px +"),
	// sub-pixel font size (text narrower than 1px), bounded height
	d("font-size:.5px"), d("max-height:20px"),
}

// declAt returns declaration i of the menu of skeleton sk: the global menu followed by the skeleton's context menu.
func declAt(sk, i int) decl {
	if i < len(menu) {
		return menu[i]
	}
	return skeletons[sk].local[i-len(menu)]
}

func nDecls(sk int) int { return len(menu) + len(skeletons[sk].local) }

// slotsOf lists the slot indices of skeleton sk: 4 element slots, html, body, then the context slots.
func slotsOf(sk int, withRoot bool) []int {
	out := []int{0, 1, 2, 3}
	if withRoot {
		out = append(out, 4, 5)
	}
	for k := range skeletons[sk].extra {
		out = append(out, 6+k)
	}
	return out
}

type config struct {
	name   string
	page   string
	hints  bool
	engine string
	zoom   float32
}

var configs = []config{
	{"100x60m5", "@page{size:100px 60px;margin:5px}", false, "pango", 1},
	{"10x10", "@page{size:10px 10px;margin:0}", false, "pango", 1},
	{"0x0", "@page{size:0 0}", false, "pango", 1},
	{"margin>page", "@page{size:50px 50px;margin:40px}", false, "pango", 1},
	{"named", "@page{size:100px 60px;margin:5px} @page n{size:40px 30px;margin:2px}", false, "pango", 1},
	{"landscape", "@page{size:A7 landscape;margin:1cm}", false, "pango", 1},
	{"hints", "@page{size:100px 60px;margin:5px}", true, "pango", 1},
	{"gotext", "@page{size:100px 60px;margin:5px}", false, "gotext", 1},
	{"zoom.5", "@page{size:100px 60px;margin:5px}", false, "pango", 0.5},
}

const nGeom = 6 // configs[0:6] are page geometries; the rest are single deviations of the render configuration

func (c *check) Init(tier string, seed int64) engine.Space {
	c.tier = tier
	mlen := 3
	if tier == "thorough" {
		mlen = 4
	}
	c.markup = engine.StrSpace{Name: "markup", Alphabet: markupTokens, MaxLen: mlen}
	c.nMark = c.markup.Count()
	c.cases = c.cases[:0]
	// SVG reference graphs: every graph on 2 ids (thorough: 3) for each referencing construct,
	// embedded inline and as an <img>
	c.svgs = svgRefDocs(tier == "thorough")
	for i := range c.svgs {
		c.cases = append(c.cases, caseT{fam: 'g', sk: i})
	}
	// SVG nesting: every container element holding every short sequence of child kinds
	c.nests = svgNestDocs(tier == "thorough")
	for i := range c.nests {
		c.cases = append(c.cases, caseT{fam: 'n', sk: i})
	}
	// level 0 and 1 on every configuration: every declaration of the skeleton's menu on every slot
	for cfg := range configs {
		for sk := range skeletons[:nGen1] {
			c.cases = append(c.cases, caseT{fam: 's', sk: sk, cfg: cfg})
			for _, slot := range slotsOf(sk, true) {
				for di := 0; di < nDecls(sk); di++ {
					c.cases = append(c.cases, caseT{fam: 's', sk: sk, cfg: cfg, devs: []dev{{slot, di}}})
				}
			}
		}
	}
	// level 2: quick = core menu on the element slots, default geometry; thorough = full menu (with the
	// context menu and the context slots), 3 geometries
	geoms := []int{0}
	if tier == "thorough" {
		geoms = []int{0, 1, 4}
	}
	for _, cfg := range geoms {
		for sk := range skeletons[:nGen1] {
			var ds []dev
			slots := []int{0, 1, 2, 3}
			if tier == "thorough" {
				slots = slotsOf(sk, false)
			}
			for _, slot := range slots {
				for di := 0; di < nDecls(sk); di++ {
					if tier == "thorough" || declAt(sk, di).core {
						ds = append(ds, dev{slot, di})
					}
				}
			}
			for i := range ds {
				for j := i + 1; j < len(ds); j++ {
					if ds[i].slot == ds[j].slot && ds[i].decl == ds[j].decl {
						continue
					}
					c.cases = append(c.cases, caseT{fam: 's', sk: sk, cfg: cfg, devs: []dev{ds[i], ds[j]}})
				}
			}
		}
	}
	// second generation: @import graphs, then the skeletons after nGen1
	c.imps = importDocs(tier == "thorough")
	gen2 := len(c.cases)
	for i := range c.imps {
		c.cases = append(c.cases, caseT{fam: 'i', sk: i})
	}
	c.cases = appendGen2(c.cases, tier, geoms)
	if os.Getenv("C01_DEV_GEN2") != "" { // development aid: the second generation alone
		c.cases = append([]caseT(nil), c.cases[gen2:]...)
		c.nMark = 0
	}
	budget := 260.0
	if tier == "thorough" {
		budget = 1500
	}
	var menuNames []string
	for _, m := range menu {
		menuNames = append(menuNames, m.css)
	}
	var cfgNames, skNames []string
	for _, x := range configs {
		cfgNames = append(cfgNames, x.name)
	}
	ctxSlots, ctxMenus := map[string][]string{}, map[string][]string{}
	for _, x := range skeletons {
		skNames = append(skNames, x.name)
		if len(x.extra) > 0 {
			ctxSlots[x.name] = x.extra
		}
		for _, m := range x.local {
			ctxMenus[x.name] = append(ctxMenus[x.name], m.css)
		}
	}
	return engine.Space{
		Units: c.nMark + int64(len(c.cases)), Chunk: 24, Level: "model_checking", BudgetS: budget, CaseCPUs: 10,
		Rule: "markup: every sequence of HTML tokens up to the length bound; SVG: every reference graph among definitions, and every container element holding every sequence of child kinds up to the length bound; @import: every import graph among a few style sheets served by the harness fetcher (each sheet imports nothing, itself, another sheet or a missing one), loaded from a <style> or a <link>; skeletons: every document with 0, 1 (all configurations) and 2 (listed geometries; quick: reduced menu, element slots) declarations from the menu (global menu + the skeleton's context menu) placed on the style slots of the skeletons (4 elements, html, body, and the skeleton's context slots: pseudo-elements, margin boxes, footnote area); every case is rendered and written by the real code; second-generation skeletons (listed under second_generation): 0 and 1 declarations with the whole menu on the default configuration (thorough: all), the context menu on the listed configurations, 2 declarations from the context menu (+ listed partners), declarations marked solo at level 1 only; a case is non-trivial when the document produced at least one page with at least one drawing call",
		Bounds: map[string]any{"markup_tokens": markupTokens, "markup_max_len": mlen, "skeletons": skNames, "declaration_menu": menuNames,
			"configurations": cfgNames, "deviation_levels": "0,1 on all configurations; 2 on geometries " + fmt.Sprint(geoms), "slots_per_skeleton": "4 element slots + html + body + context slots", "context_slots": ctxSlots, "context_menus": ctxMenus,
			"second_generation": gen2Bounds(tier), "import_graphs": fmt.Sprintf("%d documents", len(c.imps)),
			"svg_nesting": fmt.Sprintf("%d documents (17 containers x child sequences of length <= %d over 11 kinds)", len(c.nests), map[bool]int{false: 2, true: 3}[tier == "thorough"])},
		Assumptions: []string{
			"documents larger than 4 slots / 2 deviations, and fonts other than Ahem, are not explored",
			"'never loops forever' is decided up to a page-progress bound (page number > 60, for documents of at most ~12 lines) and a CPU budget of 10 s per case (≈ 1000× the median render)",
			"all URLs are data: URLs, or URLs under http://t/ served from memory by the harness fetcher; no network fetches",
		},
	}
}

func (c *check) build(cs *caseT) (html string, o render.Options, features []string) {
	cfg := configs[cs.cfg]
	o = render.Options{Hints: cfg.hints, Engine: cfg.engine, Zoom: cfg.zoom, PageBound: 60}
	features = []string{"cfg:" + cfg.name}
	if cs.fam == 'g' {
		html = "<style>" + cfg.page + " html,body{font-family:ahem;font-size:10px;line-height:1}</style><p>ab " + c.svgs[cs.sk] + " cd</p>"
		o.HTML = html
		features = append(features, "svg-refs")
		return
	}
	if cs.fam == 'n' {
		n := c.nests[cs.sk]
		html = "<style>" + cfg.page + " html,body{font-family:ahem;font-size:10px;line-height:1}</style><p>ab " + n.doc + " cd</p>"
		o.HTML = html
		features = append(features, n.feats...)
		sort.Strings(features)
		features = uniq(features)
		return
	}
	if cs.fam == 'i' {
		d := c.imps[cs.sk]
		html = d.html
		o.HTML, o.BaseURL, o.Fetcher = html, impBase, d.fetcher()
		features = append(features, d.feats...)
		sort.Strings(features)
		features = uniq(features)
		return
	}
	if cs.fam == 'm' {
		html = "<style>" + cfg.page + " html,body{font-family:ahem;font-size:10px;line-height:1}</style>" + c.markup.At(cs.mi)
		o.HTML = html
		features = append(features, "markup")
		return
	}
	sk := skeletons[cs.sk]
	features = append(features, "sk:"+sk.name)
	features = append(features, skTags[sk.name]...)
	styles := make([]string, 6+len(sk.extra))
	for _, dv := range cs.devs {
		m := declAt(cs.sk, dv.decl)
		styles[dv.slot] += m.css + ";"
		features = append(features, m.feature())
		if m.solo {
			features = append(features, "solo")
		}
		features = append(features, m.also...)
		if dv.slot == 4 || dv.slot == 5 {
			features = append(features, "on-root-or-body")
		}
		if dv.slot >= 6 {
			features = append(features, "in:"+sk.extra[dv.slot-6])
		}
	}
	body, css := sk.body, sk.css
	for k := range styles {
		if k == 4 || k == 5 {
			continue
		}
		ph := fmt.Sprintf("{%d}", k)
		body = strings.ReplaceAll(body, ph, styles[k])
		css = strings.ReplaceAll(css, ph, styles[k])
	}
	html = fmt.Sprintf(`<html style="%s"><head><style>%s html,body{margin:0;font-family:ahem;font-size:10px;line-height:1} %s</style></head><body style="%s">%s</body></html>`,
		styles[4], cfg.page, css, styles[5], body)
	o.HTML = html
	sort.Strings(features)
	features = uniq(features)
	return
}

func uniq(l []string) []string {
	out := l[:0]
	for i, x := range l {
		if i == 0 || x != l[i-1] {
			out = append(out, x)
		}
	}
	return out
}

func (c *check) caseOf(u int64) caseT {
	if u < c.nMark {
		return caseT{fam: 'm', mi: u}
	}
	return c.cases[u-c.nMark]
}

// soloBudget is the CPU budget of a case that contains a solo declaration (0: none).
func soloBudget(cs *caseT) float64 {
	if cs.fam != 's' {
		return 0
	}
	for _, dv := range cs.devs {
		if m := declAt(cs.sk, dv.decl); m.solo {
			return m.cpu
		}
	}
	return 0
}

func hasGrid(f []string) bool {
	for _, x := range f {
		if x == "display:grid" || x == "display:inline-grid" || x == "sk:grid" {
			return true
		}
	}
	return false
}

func (c *check) Run(u int64, ctx *engine.Ctx) {
	cs := c.caseOf(u)
	html, o, feats := c.build(&cs)
	desc := fmt.Sprintf("F{%s} hints=%v engine=%s zoom=%g html=%s", strings.Join(feats, "|"), o.Hints, o.Engine, o.Zoom, html)
	if cs.fam == 'i' {
		desc += " sheets=" + c.imps[cs.sk].sheetsDesc()
	}
	if b := soloBudget(&cs); b > 0 {
		ctx.SetCaseBudget(b) // a declaration known to hang or to exhaust the memory on the unchanged tree
	} else if hasGrid(feats) {
		ctx.SetCaseBudget(2) // inside the known non-terminating region: the verdict cannot change the outcome
	} else {
		ctx.SetCaseBudget(10)
	}
	ctx.Trans(int64(len(cs.devs)))
	var res *render.Result
	var err error
	ok := ctx.GuardFail(desc, feats, func() { res, err = render.Render(o) })
	if !ok {
		ctx.Case(true, "abnormal")
		return
	}
	if err != nil {
		ctx.Case(false, "load-error")
		ctx.Fail(engine.Failure{Clause: "load-error", Features: feats, Case: desc, Detail: err.Error()})
		return
	}
	drew := 0
	for _, p := range res.Rec.Pages {
		drew += len(p.Events)
	}
	ctx.Case(len(res.Pages) > 0 && drew > 0, fmt.Sprintf("ok pages=%d warn=%v", len(res.Pages), res.Warnings > 0))
	if len(res.Pages) == 0 {
		ctx.Fail(engine.Failure{Clause: "no-page", Features: feats, Case: desc, Detail: "rendering returned no page"})
	}
	// skipping clause: an invalid declaration is dropped with a warning and the rest renders identically
	onSVG := cs.fam == 's' && skeletons[cs.sk].name == "replaced" && len(cs.devs) == 1 && cs.devs[0].slot == 2
	// (in a style sheet an unbalanced function legitimately swallows the rules that follow: not asserted on the context slots)
	if len(cs.devs) == 1 && cs.devs[0].slot >= 6 && strings.Count(declAt(cs.sk, cs.devs[0].decl).css, "(") != strings.Count(declAt(cs.sk, cs.devs[0].decl).css, ")") {
		onSVG = true
	}
	if len(cs.devs) == 1 && declAt(cs.sk, cs.devs[0].decl).invalid && !onSVG {
		base := cs
		base.devs = nil
		_, bo, _ := c.build(&base)
		var bres *render.Result
		if ctx.GuardFail(desc+" [base]", feats, func() { bres, _ = render.Render(bo) }) && bres != nil {
			ctx.Count("skip-invalid-comparisons", 1)
			if bres.Rec.Trace() != res.Rec.Trace() {
				ctx.Fail(engine.Failure{Clause: "invalid-not-skipped", Features: feats, Case: desc, Detail: "the backend trace differs from the trace of the same document without the invalid declaration"})
			}
			if res.Warnings <= bres.Warnings {
				ctx.Fail(engine.Failure{Clause: "invalid-not-warned", Features: feats, Case: desc, Detail: fmt.Sprintf("no additional warning logged (%d vs %d)", res.Warnings, bres.Warnings)})
			}
		}
	}
}

// FeaturesOf lets the master tag cases that killed their worker: the tags are in the description.
func (c *check) FeaturesOf(desc string) []string {
	i, j := strings.Index(desc, "F{"), strings.Index(desc, "} hints=")
	if i != 0 || j < 0 {
		return nil
	}
	return strings.Split(desc[2:j], "|")
}

func (c *check) Describe(u int64) any {
	cs := c.caseOf(u)
	html, o, feats := c.build(&cs)
	out := map[string]any{"html": html, "hints": o.Hints, "engine": o.Engine, "zoom": o.Zoom, "features": feats}
	if cs.fam == 'i' {
		out["base_url"], out["sheets"] = impBase, c.imps[cs.sk].sheets
	}
	return out
}

// svgRefDocs enumerates reference graphs among SVG definitions: each of n nodes refers to
// nothing, itself, another node or a missing id, for every referencing construct.
func svgRefDocs(three bool) []string {
	n := 2
	if three {
		n = 3
	}
	ids := []string{"a", "b", "c"}[:n]
	type kind struct{ name, open, attr, body, use string }
	kinds := []kind{
		{"linearGradient", "linearGradient", "href", `<stop offset="0" stop-color="red"/>`, `<rect width="8" height="8" fill="url(#a)"/>`},
		{"radialGradient", "radialGradient", "href", `<stop offset="1" stop-color="blue"/>`, `<rect width="8" height="8" fill="url(#a)"/>`},
		{"pattern", "pattern width=\"4\" height=\"4\"", "href", `<rect width="2" height="2"/>`, `<rect width="8" height="8" fill="url(#a)"/>`},
		{"clipPath", "clipPath", "clip-path", `<rect width="4" height="4"/>`, `<rect width="8" height="8" clip-path="url(#a)"/>`},
		{"mask", "mask", "mask", `<rect width="4" height="4" fill="white"/>`, `<rect width="8" height="8" mask="url(#a)"/>`},
		{"marker", "marker markerWidth=\"2\" markerHeight=\"2\"", "marker-start", `<path d="M0 0L2 1L0 2z"/>`, `<path d="M1 1L7 7" stroke="black" marker-start="url(#a)"/>`},
		{"use", "g", "", `<rect width="3" height="3"/>`, `<use href="#a"/>`},
	}
	targets := append([]string{""}, ids...)
	targets = append(targets, "zz")
	var out []string
	total := 1
	for i := 0; i < n; i++ {
		total *= len(targets)
	}
	for _, k := range kinds {
		for g := 0; g < total; g++ {
			var defs strings.Builder
			x := g
			for i := 0; i < n; i++ {
				t := targets[x%len(targets)]
				x /= len(targets)
				ref, inner := "", k.body
				if t != "" {
					if k.name == "use" {
						inner += `<use href="#` + t + `"/>`
					} else if k.attr == "href" {
						ref = ` href="#` + t + `"`
					} else {
						ref = ` ` + k.attr + `="url(#` + t + `)"`
					}
				}
				tag := strings.Fields(k.open)[0]
				fmt.Fprintf(&defs, `<%s id="%s"%s>%s</%s>`, k.open, ids[i], ref, inner, tag)
			}
			svg := `<svg xmlns="http://www.w3.org/2000/svg" xmlns:xlink="http://www.w3.org/1999/xlink" width="10" height="10"><defs>` + defs.String() + `</defs>` + k.use + `</svg>`
			out = append(out, svg)
			if g%3 == 0 { // also as an image resource
				out = append(out, `<img src="data:image/svg+xml;base64,`+base64.StdEncoding.EncodeToString([]byte(svg))+`">`)
			}
		}
	}
	return out
}

// svgNest is one document of the SVG nesting family.
type svgNest struct {
	doc   string
	feats []string
}

// svgNestDocs enumerates, for every SVG container element (text containers inside and outside <text>,
// structural containers, definitions that are rendered through a reference), every sequence of at most
// maxLen children taken from a menu of child kinds (character data, shapes, groups, text spans, text
// roots, <use> of a shape / of a text, gradient stops, nested <svg>): children of the expected and of
// the wrong kind, in first and later position.
func svgNestDocs(three bool) []svgNest {
	const txt = ` x="1" y="8" font-family="ahem" font-size="4"`
	containers := []struct{ name, tmpl string }{
		{"text", `<text` + txt + `>%s</text>`},
		{"text[text-anchor=middle]", `<text text-anchor="middle"` + txt + `>%s</text>`},
		{"text>tspan", `<text` + txt + `><tspan>%s</tspan></text>`},
		{"tspan", `<tspan` + txt + `>%s</tspan>`},
		{"text>textPath", `<defs><path id="p" d="M0 5L9 5"/></defs><text` + txt + `><textPath href="#p">%s</textPath></text>`},
		{"a", `<a href="#x">%s</a>`},
		{"g", `<g>%s</g>`},
		{"svg", `<svg width="8" height="8">%s</svg>`},
		{"switch", `<switch>%s</switch>`},
		{"defs", `<defs>%s</defs>`},
		{"use>text", `<defs><text id="u"` + txt + `>%s</text></defs><use href="#u"/>`},
		{"use>symbol", `<symbol id="u">%s</symbol><use href="#u"/>`},
		{"marker", `<defs><marker id="m" markerWidth="2" markerHeight="2">%s</marker></defs><path d="M1 1L7 7" stroke="black" marker-start="url(#m)"/>`},
		{"pattern", `<defs><pattern id="m" width="4" height="4">%s</pattern></defs><rect width="8" height="8" fill="url(#m)"/>`},
		{"mask", `<defs><mask id="m">%s</mask></defs><rect width="8" height="8" mask="url(#m)"/>`},
		{"clipPath", `<defs><clipPath id="m">%s</clipPath></defs><rect width="8" height="8" clip-path="url(#m)"/>`},
		{"linearGradient", `<defs><linearGradient id="m">%s</linearGradient></defs><rect width="8" height="8" fill="url(#m)"/>`},
	}
	kids := []struct{ name, src string }{
		{"chars", "x"},
		{"rect", `<rect width="3" height="3"/>`},
		{"g", `<g><rect width="2" height="2"/></g>`},
		{"tspan", `<tspan>y</tspan>`},
		{"tspan-empty", `<tspan/>`},
		{"text", `<text x="1" y="4" font-family="ahem" font-size="4">z</text>`},
		{"use-rect", `<use href="#r"/>`},
		{"use-text", `<use href="#t"/>`},
		{"stop", `<stop offset="0" stop-color="red"/>`},
		{"svg", `<svg width="4" height="4"/>`},
		{"marker", `<marker id="k"><rect width="1" height="1"/></marker>`},
	}
	maxLen := 2
	if three {
		maxLen = 3
	}
	const pre = `<svg xmlns="http://www.w3.org/2000/svg" xmlns:xlink="http://www.w3.org/1999/xlink" width="10" height="10"><defs><rect id="r" width="2" height="2"/><text id="t" font-family="ahem" font-size="4">w</text></defs>`
	var out []svgNest
	// shortest child sequences first, over all containers
	for l := 0; l <= maxLen; l++ {
		total := 1
		for i := 0; i < l; i++ {
			total *= len(kids)
		}
		for g := 0; g < total; g++ {
			var inner strings.Builder
			var kf []string
			x := g
			for i := 0; i < l; i++ {
				k := kids[x%len(kids)]
				x /= len(kids)
				inner.WriteString(k.src)
				kf = append(kf, "svg-child:"+k.name)
			}
			if l == 0 {
				kf = append(kf, "svg-child:none")
			}
			for _, ct := range containers {
				svg := pre + fmt.Sprintf(ct.tmpl, inner.String()) + `</svg>`
				feats := append([]string{"svg-nest", "svg:" + ct.name}, kf...)
				out = append(out, svgNest{svg, feats})
				if l <= 1 { // also as an image resource
					out = append(out, svgNest{`<img src="data:image/svg+xml;base64,` + base64.StdEncoding.EncodeToString([]byte(svg)) + `">`, append([]string{"svg-as-image"}, feats...)})
				}
			}
		}
	}
	return out
}
