package c02

import (
	"regexp"
	"sort"
	"strings"

	bo "github.com/benoitkugler/webrender/html/boxes"
	"golang.org/x/net/html"

	"verif/internal/rec"
)

var digitRuns = regexp.MustCompile(`[0-9]+`)

// obsText is one laid-out TextBox.
type obsText struct {
	Page   int
	Elem   string // id of the originating element ("" when none carries an id)
	Pseudo string // pseudo element type ("marker" for list markers): generated content
	Text   string
	Seq    int // value of the line/block boundary counter when the box was met
	X, Y   float64
	// FloatLetter: the text of a floated ::first-letter: "similar to a floated element" (CSS 2.1
	// §5.12.2), it is placed like a float, away from the rest of its word
	FloatLetter bool
}

func elemID(n *html.Node) string {
	for ; n != nil; n = n.Parent {
		for _, a := range n.Attr {
			if a.Key == "id" {
				return a.Val
			}
		}
	}
	return ""
}

// collectTexts walks the laid-out pages in page order, then box-tree order.
func collectTexts(pages []*bo.PageBox) []obsText {
	var out []obsText
	seq, frozen := 0, 0
	// pseudo: the pseudo-element the box belongs to (the TextBox of a ::footnote-marker carries no
	// pseudo type itself: it is inherited from the enclosing boxes of the same element)
	var walk func(b bo.Box, page int, parent *html.Node, pseudo string)
	walk = func(b bo.Box, page int, parent *html.Node, pseudo string) {
		if bf := b.Box(); bf.Element != parent {
			pseudo = bf.PseudoType
		} else if bf.PseudoType != "" {
			pseudo = bf.PseudoType
		}
		if tb, ok := b.(*bo.TextBox); ok {
			out = append(out, obsText{Page: page, Elem: elemID(tb.Element), Pseudo: pseudo, Text: tb.TextS(), Seq: seq, X: float64(tb.PositionX), Y: float64(tb.PositionY), FloatLetter: frozen > 0})
			return
		}
		_, inline := b.(*bo.InlineBox)
		// a float, an absolutely positioned box, a footnote call... inside a line is not part of the
		// text of the line: the words on both sides of it touch (its own text belongs to another flow,
		// or, for a floated ::first-letter, to the word that follows)
		saved, oof := seq, b.Box().Style != nil && !b.Box().IsInNormalFlow()
		if oof && pseudo == "first-letter" {
			// the boxes of a floated first letter are no line boundaries of the flow
			frozen++
			defer func() { frozen-- }()
		}
		if !inline && frozen == 0 {
			seq++ // entering a line box, a block, an atomic inline...: a line boundary
		}
		for _, c := range b.Box().Children {
			walk(c, page, b.Box().Element, pseudo)
		}
		if !inline && frozen == 0 {
			seq++
		}
		if oof {
			seq = saved
		}
	}
	for i, p := range pages {
		seq++
		walk(p, i, nil, "")
	}
	return out
}

// flowText is the observed text of one flow on one page: the TextBox texts of a line are
// concatenated, every line/block boundary is written as a space, then runs of spaces are
// collapsed (the trailing space of a wrapped line was removed by the line breaker, the
// boundary stands for it).
type flowObs struct {
	perPage map[int]string
	pages   []int
	// floated first letters of the flow, per page (they are floats: their place among the
	// words of the flow is not asserted)
	floated map[int]string
}

func groupFlows(texts []obsText, fm *flowMap) (map[string]*flowObs, []obsText) {
	type acc struct {
		sb, floated strings.Builder
		lastSeq     int
	}
	accs := map[[2]interface{}]*acc{}
	obs := map[string]*flowObs{}
	var strangers []obsText // text that no element of the document accounts for
	var keys [][2]interface{}
	for _, t := range texts {
		switch t.Pseudo {
		case "", "first-letter", "first-line": // text of the element
		case "before", "after": // generated text of the element: part of its flow
		default:
			continue // list markers, footnote calls and markers: counters, no document text
		}
		key, ok := fm.ofElem[t.Elem]
		if !ok {
			if strings.TrimSpace(t.Text) != "" {
				strangers = append(strangers, t)
			}
			continue
		}
		if t.Pseudo == "first-letter" && !strings.Contains(fm.flows[key].Want, pagesMark) && strings.Trim(t.Text, "0123456789. ") == "" {
			// a counter promoted to first letter (the footnote call that starts a paragraph): the words have no digits
			continue
		}
		k := [2]interface{}{key, t.Page}
		a := accs[k]
		if a == nil {
			a = &acc{lastSeq: t.Seq}
			accs[k] = a
			keys = append(keys, k)
		}
		if t.FloatLetter {
			a.floated.WriteString(t.Text)
			continue
		}
		if a.lastSeq != t.Seq {
			a.sb.WriteByte(' ')
			a.lastSeq = t.Seq
		}
		a.sb.WriteString(t.Text)
	}
	for _, k := range keys {
		key, page := k[0].(string), k[1].(int)
		o := obs[key]
		if o == nil {
			o = &flowObs{perPage: map[int]string{}, floated: map[int]string{}}
			obs[key] = o
		}
		txt, fl := accs[k].sb.String(), accs[k].floated.String()
		if strings.Contains(fm.flows[key].Want, pagesMark) {
			// the value of counter(pages): any number
			txt, fl = digitRuns.ReplaceAllString(txt, pagesMark), digitRuns.ReplaceAllString(fl, pagesMark)
		}
		o.floated[page] = letters(fl)
		o.perPage[page] = unhyphenate(strings.Join(strings.Fields(txt), " "))
		o.pages = append(o.pages, page)
	}
	for _, o := range obs {
		sort.Ints(o.pages)
	}
	return obs, strangers
}

// unhyphenate undoes the breaks inside words: a line that ends with the hyphenate-character of the
// document (a character of no source text) continues its last word on the next line of the flow
// (CSS Text 3 §5.4: the hyphenate-character is shown at the end of the line, it is no document text).
// The mark anywhere else (or at the end of a flow whose word does not continue) stays: an extra letter.
func unhyphenate(s string) string {
	return strings.ReplaceAll(s, hyphenMark+" ", "")
}

// allFloated joins the floated first letters in page order.
func (o *flowObs) allFloated() string {
	if o == nil {
		return ""
	}
	var sb strings.Builder
	for _, p := range o.pages {
		sb.WriteString(o.floated[p])
	}
	return sb.String()
}

// all joins the per-page texts in page order.
func (o *flowObs) all() string {
	if o == nil {
		return ""
	}
	var parts []string
	for _, p := range o.pages {
		if s := o.perPage[p]; s != "" {
			parts = append(parts, s)
		}
	}
	// a word hyphenated at the end of a page continues on the next page of the flow
	return unhyphenate(strings.Join(parts, " "))
}

// drawnTexts returns the texts of the DrawText calls of a page (groups flattened).
func drawnTexts(p *rec.Page) []string {
	var out []string
	for _, e := range rec.Flat(p.Events) {
		if e.Op == "DrawText" {
			out = append(out, e.Text)
		}
	}
	return out
}

// multiset difference helpers ------------------------------------------------------------

func counts(l []string) map[string]int {
	m := map[string]int{}
	for _, s := range l {
		m[s]++
	}
	return m
}

// minus returns the elements of a (with multiplicity) that b lacks, sorted.
func minus(a, b []string) []string {
	cb := counts(b)
	var out []string
	for _, s := range a {
		if cb[s] > 0 {
			cb[s]--
		} else {
			out = append(out, s)
		}
	}
	sort.Strings(out)
	return out
}

func letters(s string) string { return strings.Join(strings.Fields(s), "") }
