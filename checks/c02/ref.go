package c02

import (
	"fmt"
	"strings"
)

// lineBoundary marks, in the raw text of a flow, a place where a line necessarily starts
// or ends (the edge of a block-level box).
const lineBoundary = "\x00"

// collapse is the reference white space processor for `white-space: normal`
// (CSS Text 3 §4.1.1 phase I and §4.1.2 phase II), applied to the raw text of one flow:
//
//	phase I : collapsible spaces and tabs around a segment break are removed, the segment
//	          break becomes a space, tabs become spaces, and every space directly following
//	          another space is removed (inline element boundaries do not interrupt a run);
//	phase II: a sequence of collapsible spaces at the beginning of a line is removed and
//	          the one at the end of a line hangs/is removed.
//
// Where soft wraps fall is the line breaker's business; a wrap replaces exactly one
// inter-word space by a line boundary. The canonical form therefore writes every line
// boundary (forced or soft) as a single space: words separated by single spaces.
func collapse(raw string) string {
	var lines []string
	for _, seg := range strings.Split(raw, lineBoundary) {
		// phase I
		var sb strings.Builder
		prevSpace := false
		for _, r := range seg {
			if r == ' ' || r == '\t' || r == '\n' || r == '\r' || r == '\f' {
				if !prevSpace {
					sb.WriteByte(' ')
				}
				prevSpace = true
				continue
			}
			prevSpace = false
			sb.WriteRune(r)
		}
		// phase II at the forced line boundaries
		s := strings.Trim(sb.String(), " ")
		if s != "" {
			lines = append(lines, s)
		}
	}
	return strings.Join(lines, " ")
}

// refSelfTest runs the specification examples of the collapser.
func refSelfTest() error {
	cases := [][2]string{
		{"a  b", "a b"},
		{" a\tb ", "a b"},
		{"a \n b", "a b"},
		{"a\n\nb", "a b"},
		{"a" + lineBoundary + " b ", "a b"},
		{lineBoundary + " \n " + lineBoundary, ""},
		{"ab " + "cd" + "ef", "ab cdef"},
		{"A " + " B", "A B"}, // <span>A </span><span> B</span>: the second space collapses
	}
	for _, c := range cases {
		if got := collapse(c[0]); got != c[1] {
			return fmt.Errorf("collapse(%q) = %q, want %q", c[0], got, c[1])
		}
	}
	return nil
}
