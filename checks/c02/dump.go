package c02

import (
	"fmt"
	"os"
	"runtime/debug"
	"strings"

	"verif/internal/render"
)

// Dump renders one document and prints what the oracle observes (development aid).
func Dump(src string) (out string) {
	var sb strings.Builder
	defer func() {
		if r := recover(); r != nil {
			out = sb.String() + fmt.Sprintf("PANIC: %v\n", r)
			if os.Getenv("C02_STACK") != "" {
				out += string(debug.Stack())
			}
		}
	}()
	res, err := render.Render(render.Options{HTML: src, Engine: "pango", PageBound: 150, FontConfig: fontConfig()})
	if err != nil {
		return "error: " + err.Error() + "\n"
	}
	texts := collectTexts(res.Pages)
	for i := range res.Pages {
		fmt.Fprintf(&sb, "page %d\n", i+1)
		for _, t := range texts {
			if t.Page == i {
				fmt.Fprintf(&sb, "  text box %-8q elem=%-4s %s seq=%d at (%g,%g)\n", t.Text, t.Elem, t.Pseudo, t.Seq, t.X, t.Y)
			}
		}
		if res.Rec != nil && i < len(res.Rec.Pages) {
			fmt.Fprintf(&sb, "  drawn %q\n", drawnTexts(res.Rec.Pages[i]))
		}
	}
	return sb.String()
}

// EvalDesc re-evaluates the case of a description header (see caseDesc).
func EvalDesc(desc string) (out string) {
	d, c, ok := parseDesc(desc)
	if !ok {
		return "cannot parse the description header\n"
	}
	var sb strings.Builder
	defer func() {
		if r := recover(); r != nil {
			out = sb.String() + fmt.Sprintf("PANIC: %v\n", r)
		}
	}()
	src := d.html(c)
	fm := d.flowsOf()
	fmt.Fprintf(&sb, "%s\nfeatures: %v\n", src, d.features(c))
	for _, k := range fm.order {
		fmt.Fprintf(&sb, "flow %-5s site=%-11s repeat=%-5v want %q\n", k, fm.flows[k].Site, fm.flows[k].Repeat, fm.flows[k].Want)
	}
	sb.WriteString(Dump(src))
	res, err := render.Render(render.Options{HTML: src, Engine: "pango", PageBound: 150, FontConfig: fontConfig()})
	if err != nil {
		return sb.String() + "error: " + err.Error() + "\n"
	}
	v := evaluate(res, fm)
	for _, f := range v.Findings {
		fmt.Fprintf(&sb, "FAIL %s site=%s: %s\n", f.Clause, f.Site, f.Detail)
	}
	if len(v.Findings) == 0 {
		sb.WriteString("ok\n")
	}
	return sb.String()
}
