package c02

import (
	"fmt"
	"os"
	"runtime/debug"
	"sort"
	"strings"

	"verif/internal/engine"
)

// census reporter: aggregates failures by signature (development aid, not used by the check).
type censusRep struct {
	states int
	sigs   map[string]int
	ex     map[string]engine.Failure
}

func (r *censusRep) Case(bool, string)   { r.states++ }
func (r *censusRep) Trans(int64)         {}
func (r *censusRep) Count(string, int64) {}
func (r *censusRep) Fail(f engine.Failure) {
	s := f.Sig()
	r.sigs[s]++
	if _, ok := r.ex[s]; !ok {
		r.ex[s] = f
	}
}

func (r *censusRep) GuardFail(desc string, features []string, f func()) (ok bool) {
	defer func() {
		if e := recover(); e != nil {
			cl, site := "panic", engine.SiteOf(string(debug.Stack()))
			if c, isC := e.(engine.Claused); isC {
				cl, site = c.VerifClause(), "-"
			}
			r.Fail(engine.Failure{Clause: cl, Site: site, Features: features, Case: desc, Detail: engine.NormMsg(fmt.Sprint(e))})
			ok = false
		}
	}()
	f()
	return true
}

// Census explores the units u ≡ shard (mod of) of a tier in this process and prints one line
// per failure signature: count, clause|site|features, first case and detail.
func Census(tier string, shard, of int, groupFilter string) string {
	c := &check{}
	c.Init(tier, 0)
	r := &censusRep{sigs: map[string]int{}, ex: map[string]engine.Failure{}}
	for u := int64(shard); u < c.units; u += int64(of) {
		g, d := c.decode(u)
		if groupFilter != "" && !strings.Contains(g.Name, groupFilter) {
			continue
		}
		if need := os.Getenv("C02_CENSUS_DEV"); need != "" && !d.hasDev(need) {
			continue
		}
		c.run(u, r)
	}
	var keys []string
	for k := range r.sigs {
		keys = append(keys, k)
	}
	sort.Strings(keys)
	var sb strings.Builder
	fmt.Fprintf(&sb, "STATES\t%d\n", r.states)
	for _, k := range keys {
		f := r.ex[k]
		hdr := f.Case
		if i := strings.Index(hdr, "] "); i > 0 {
			hdr = hdr[:i+1]
		}
		fmt.Fprintf(&sb, "SIG\t%d\t%s\t%s\t%s\n", r.sigs[k], k, hdr, strings.ReplaceAll(f.Detail, "\n", " "))
	}
	return sb.String()
}

// Plan prints the size of every group of a tier (development aid).
func Plan(tier string) string {
	c := &check{}
	c.Init(tier, 0)
	var sb strings.Builder
	var total int64
	for _, g := range c.groups {
		r := g.count * int64(len(g.Sweep)+1)
		total += r
		fmt.Fprintf(&sb, "%-18s skeletons=%-4d widths=%v level=%d menu=%d docs=%-6d renders=%d\n", g.Name, len(g.Skeletons), g.Widths, g.Level, len(g.Menu), g.count, r)
	}
	fmt.Fprintf(&sb, "units=%d renders=%d\n", c.units, total)
	return sb.String()
}
