package c02

import (
	"fmt"
	"strings"
)

// caseDesc is the description of one render: a header that encodes the generator's
// parameters (so that feature tags can be recomputed from the description alone) followed by
// the complete HTML source (enough to reproduce the case by hand).
func caseDesc(d *docSpec, c pageCfg) string {
	var sb strings.Builder
	sb.WriteString("[blocks=")
	for i, b := range d.Blocks {
		if i > 0 {
			sb.WriteByte(',')
		}
		fmt.Fprintf(&sb, "%s:%d", kindName[b.Kind], b.N)
	}
	sb.WriteString(" devs=")
	for i, v := range d.Devs {
		if i > 0 {
			sb.WriteByte(',')
		}
		fmt.Fprintf(&sb, "%d:%s", v.Slot, menu[v.D].Name)
	}
	fmt.Fprintf(&sb, " W=%d H=%d orphans=%d widows=%d] ", d.W, c.H, c.Orphans, c.Widows)
	sb.WriteString(d.html(c))
	return sb.String()
}

func parseDesc(desc string) (d docSpec, c pageCfg, ok bool) {
	end := strings.Index(desc, "] ")
	if !strings.HasPrefix(desc, "[blocks=") || end < 0 {
		return d, c, false
	}
	for _, f := range strings.Fields(desc[1:end]) {
		kv := strings.SplitN(f, "=", 2)
		if len(kv) != 2 {
			return d, c, false
		}
		switch kv[0] {
		case "blocks":
			for _, b := range strings.Split(kv[1], ",") {
				var n int
				p := strings.SplitN(b, ":", 2)
				if len(p) != 2 {
					return d, c, false
				}
				fmt.Sscan(p[1], &n)
				k := -1
				for i, name := range kindName {
					if name == p[0] {
						k = i
					}
				}
				if k < 0 {
					return d, c, false
				}
				d.Blocks = append(d.Blocks, blockSpec{k, n})
			}
		case "devs":
			if kv[1] == "" {
				continue
			}
			for _, b := range strings.Split(kv[1], ",") {
				var s int
				p := strings.SplitN(b, ":", 2)
				if len(p) != 2 {
					return d, c, false
				}
				fmt.Sscan(p[0], &s)
				m := menuIndex(p[1])
				if m < 0 || s >= maxSlots {
					return d, c, false
				}
				d.Devs = append(d.Devs, dev{s, m})
			}
		case "W":
			fmt.Sscan(kv[1], &d.W)
		case "H":
			fmt.Sscan(kv[1], &c.H)
		case "orphans":
			fmt.Sscan(kv[1], &c.Orphans)
		case "widows":
			fmt.Sscan(kv[1], &c.Widows)
		}
	}
	for _, v := range d.Devs {
		if v.Slot >= len(d.Blocks) {
			return d, c, false
		}
	}
	return d, c, len(d.Blocks) > 0
}

func featuresFromDesc(desc string) []string {
	d, c, ok := parseDesc(desc)
	if !ok {
		return nil
	}
	return d.features(c)
}
