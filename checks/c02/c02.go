// Package c02: pagination and line breaking conserve content.
//
// Deviation-bounded exhaustive enumeration of small documents (flows of 1–3 blocks whose
// text is made of distinct two-letter words) × page width × the full sweep of page heights ×
// orphans × widows. Every document is rendered by the real pipeline; the TextBoxes of the
// laid-out pages are grouped per flow through their originating element and compared with
// the white-space collapsed source text of the flow; the DrawText calls of each page are
// compared with the TextBoxes of that page; the same document on one 10 000 px page is the
// differential reference.
//
// Second generation of the space (same lattice): inline structures as block kinds (a span glued
// to a word on both sides, a footnote call), deviations on the first inner element of a block
// (float / absolute / relative / opacity / inline-block / block on a <span>, <p>, <li> or cell),
// pseudo-element rules (::first-letter, floated ::first-letter, ::first-line, ::before, ::after,
// counter(pages) in the flow, which forces several pagination rounds) and a flow of four blocks
// under the break × out-of-flow sub-menu. Generated text is rendered text of its element's flow;
// a floated first letter and a footnote body are flows of their own.
//
// Third generation (same lattice): block kinds for table rows that are split between pages while the
// continuing cell is not at its grid column (it follows a colspan cell, or stands beside a rowspan cell
// of the row above), and for automatic hyphenation (hyphens:auto, lang=en: dictionary words with
// punctuation glued to them, a soft hyphen, a word inside a span). A line that ends with the
// hyphenate-character continues its word on the next line of the flow.
//
// Fourth generation (same lattice): a forced break on the first inner element of a block (inner <p>,
// first <li>, the row of the first cell) combined with every entry of the block menu, among them the four
// atomic inline-level displays (inline-block, inline-table, inline-flex, inline-grid): a forced break
// inside a box that is not in the normal flow of the page (groups L1-/L2-inner-breaks).
package c02

import (
	"fmt"
	"sort"
	"strings"

	"github.com/benoitkugler/webrender/text"

	"verif/internal/engine"
	"verif/internal/render"
)

type check struct {
	groups []*group
	units  int64
	tier   string
}

func init() { engine.Register(&check{}) }

func (c *check) ID() string { return "C02" }

// group = a family of units: skeletons × widths × all deviation sets of exactly Level
// deviations taken from Menu (at least one of them from Need when Need is not empty), each swept
// over Sweep.
type group struct {
	Name      string
	Skeletons [][]blockSpec
	Widths    []int
	Level     int
	Menu      []int // menu entries used
	Need      []int // when not empty: every deviation set has at least one entry of Need
	Sweep     []pageCfg
	devsets   [][][]dev // by skeleton
	first     int64
	count     int64
	perSkel   []int64
}

// devSets enumerates all sets of exactly level deviations over the blocks of a skeleton: sorted by
// (slot, menu index), at most one entry of a group per block; entries for the inner element only on
// blocks that have one.
func devSets(sk []blockSpec, level int, m, need []int) [][]dev {
	var all []dev
	for s, b := range sk {
		for _, d := range m {
			if menu[d].Target == tInner && !hasInner(b) {
				continue
			}
			all = append(all, dev{s, d})
		}
	}
	needed := map[int]bool{}
	for _, d := range need {
		needed[d] = true
	}
	var out [][]dev
	var rec func(start int, cur []dev)
	rec = func(start int, cur []dev) {
		if len(cur) == level {
			if len(need) > 0 {
				ok := false
				for _, p := range cur {
					ok = ok || needed[p.D]
				}
				if !ok {
					return
				}
			}
			out = append(out, append([]dev(nil), cur...))
			return
		}
		for i := start; i < len(all); i++ {
			ok := true
			for _, p := range cur {
				if p.Slot == all[i].Slot && menu[p.D].Group == menu[all[i].D].Group {
					ok = false
				}
			}
			if ok {
				rec(i+1, append(cur, all[i]))
			}
		}
	}
	rec(0, nil)
	return out
}

var (
	heightsAll = []int{10, 20, 30, 40, 50, 45}
	widthsAll  = []int{30, 50, 120}
	// 80px: a float of one word fits beside two words (50px: it has to wait for the next line)
	widthsExt  = []int{30, 50, 80, 120}
	wordCounts = []int{1, 3, 5, 9}
)

func sweep(heights []int, ow [][2]int) []pageCfg {
	var out []pageCfg
	for _, h := range heights {
		for _, p := range ow {
			out = append(out, pageCfg{h, p[0], p[1]})
		}
	}
	return out
}

var (
	owFull = [][2]int{{1, 1}, {1, 2}, {1, 3}, {2, 1}, {2, 2}, {2, 3}, {3, 1}, {3, 2}, {3, 3}}
	owLite = [][2]int{{1, 1}, {2, 2}, {1, 3}, {3, 1}}
)

// skeletonLists builds the skeleton families over the kinds [k0,k1) × the kinds [0,k1) (every
// skeleton has at least one block of a kind >= k0).
func skeletonLists(k0, k1 int) (one, two, three [][]blockSpec) {
	for k := k0; k < k1; k++ {
		for _, n := range wordCounts {
			one = append(one, []blockSpec{{k, n}})
		}
	}
	for ka := 0; ka < k1; ka++ {
		for kb := 0; kb < k1; kb++ {
			if ka < k0 && kb < k0 {
				continue
			}
			for _, nn := range [][2]int{{3, 5}, {9, 3}, {1, 9}, {5, 1}} {
				two = append(two, []blockSpec{{ka, nn[0]}, {kb, nn[1]}})
			}
		}
	}
	for k := k0; k < k1; k++ {
		three = append(three, []blockSpec{{kP, 3}, {k, 5}, {kP, 3}}, []blockSpec{{k, 9}, {kDivP, 3}, {k, 1}})
	}
	return
}

func (c *check) plan(tier string) {
	full := sweep(heightsAll, owFull)
	lite := sweep(heightsAll, owLite)
	one, two, three := skeletonLists(0, nKinds)
	all := append(append(one, two...), three...)
	one, two, three = skeletonLists(nKinds, nKindsAll)
	allExt := append(append(one, two...), three...)
	primary := [][]blockSpec{{{kP, 5}, {kDivP, 5}}}
	secondary := [][]blockSpec{{{kP, 3}, {kTable, 9}}}
	kinds := [][]blockSpec{{{kP, 5}, {kDivP, 5}}, {{kP, 3}, {kTable, 9}}, {{kUL, 5}, {kP, 3}}, {{kSpans, 9}, {kP, 3}}, {{kP, 9}}, {{kTable, 5}},
		{{kP, 1}, {kP, 5}, {kDivP, 3}}, {{kDivP, 9}}, {{kUL, 9}}, {{kTable, 9}, {kP, 3}}}
	kindsT := append(append([][]blockSpec(nil), kinds...), []blockSpec{{kUL, 5}, {kSpans, 5}})
	// second generation: inline structures (glued spans, footnotes, a span that ends with a span)
	kindsExt := [][]blockSpec{{{kGlue, 5}, {kP, 3}}, {{kP, 3}, {kGlue, 9}}, {{kGlue, 3}}, {{kNote, 3}, {kNote, 3}}, {{kP, 3}, {kNote, 5}}, {{kNote, 9}}}
	spansExt := [][]blockSpec{{{kSpans, 3}, {kP, 3}}, {{kSpans, 1}}}
	// the skeletons the pseudo-element / inner-element entries are applied to
	kindsGen2 := [][]blockSpec{{{kP, 5}, {kDivP, 5}}, {{kP, 3}, {kTable, 9}}, {{kUL, 5}, {kP, 3}}, {{kSpans, 9}, {kP, 3}}, {{kP, 1}, {kP, 5}, {kDivP, 3}}}
	kindsGen2 = append(append(kindsGen2, kindsExt...), spansExt...)
	primaryExt := [][]blockSpec{{{kGlue, 5}, {kDivP, 5}}}
	// a flow of four blocks: room for an out-of-flow block between two in-flow siblings, before a block with an avoided break
	sandwich := [][]blockSpec{{{kP, 1}, {kP, 1}, {kP, 1}, {kP, 3}}}
	menuSandwich := menuNamed("break-before-page", "break-before-avoid", "break-before-left", "break-after-page", "break-after-avoid",
		"break-after-left", "break-inside-avoid", "float", "absolute", "fixed")
	menuQ := append(append([]int(nil), menuGen1Quick...), menuGen2...)
	// thinner lists of the inline skeletons (two of the four word-count pairs)
	var extQ [][]blockSpec
	for _, sk := range allExt {
		if len(sk) == 2 && (sk[0].N == 1 || sk[0].N == 5) {
			continue
		}
		extQ = append(extQ, sk)
	}
	// third generation: tables with spanning cells and a long cell (split rows), hyphenated blocks
	var gen3, gen3One [][]blockSpec
	for k := nKindsAll; k < nKinds3; k++ {
		for _, n := range wordCounts {
			gen3One = append(gen3One, []blockSpec{{k, n}})
		}
		// the block starts at every offset of the page, ends before another block, sits beside each table kind
		gen3 = append(gen3, []blockSpec{{kP, 3}, {k, 5}}, []blockSpec{{kP, 1}, {k, 9}}, []blockSpec{{k, 9}, {kP, 3}}, []blockSpec{{k, 5}, {kP, 1}},
			[]blockSpec{{kDivP, 3}, {k, 9}}, []blockSpec{{k, 5}, {kTable, 5}}, []blockSpec{{kP, 3}, {k, 5}, {kP, 3}})
	}
	gen3 = append(append([][]blockSpec(nil), gen3One...), gen3...)
	gen3 = append(gen3, []blockSpec{{kColspan, 5}, {kRowspan, 9}}, []blockSpec{{kRowspan, 5}, {kHyph, 3}}, []blockSpec{{kHyph, 5}, {kColspan, 9}})
	// the skeletons the deviation menus are applied to
	kindsGen3 := [][]blockSpec{{{kColspan, 5}}, {{kColspan, 9}}, {{kRowspan, 5}}, {{kRowspan, 9}}, {{kHyph, 3}}, {{kHyph, 5}}, {{kP, 3}, {kColspan, 5}}}
	kindsGen3T := append(append([][]blockSpec(nil), kindsGen3...), []blockSpec{{kHyph, 9}}, []blockSpec{{kP, 3}, {kRowspan, 5}}, []blockSpec{{kP, 1}, {kHyph, 5}}, []blockSpec{{kColspan, 3}}, []blockSpec{{kRowspan, 3}}, []blockSpec{{kHyph, 1}},
		[]blockSpec{{kRowspan, 9}, {kP, 3}}, []blockSpec{{kColspan, 9}, {kP, 3}})
	// fourth generation: a forced break on the first inner element (inner <p>, first <li>, first row) of a block
	// that is an atomic inline-level box of every display, a float, a positioned box, a multi-column box...
	innerBreakSk := [][]blockSpec{{{kDivP, 5}}, {{kUL, 5}}, {{kColspan, 5}}, {{kRowspan, 5}}, {{kTable, 9}}, {{kSpans, 5}}, {{kP, 3}, {kDivP, 3}}}
	innerBreakSkT := append(append([][]blockSpec(nil), innerBreakSk...), []blockSpec{{kDivP, 9}}, []blockSpec{{kUL, 9}}, []blockSpec{{kColspan, 9}}, []blockSpec{{kRowspan, 9}},
		[]blockSpec{{kTable, 5}}, []blockSpec{{kP, 3}, {kColspan, 5}}, []blockSpec{{kUL, 5}, {kP, 3}}, []blockSpec{{kGlue, 5}})
	menuInner := append(append(append([]int(nil), menuGen1Quick...), menuNamed("in-float", "in-absolute", "in-relative", "in-opacity", "in-inline-block", "in-block")...), menuGen4...)
	if tier == "quick" {
		c.groups = []*group{
			{Name: "L0-all", Skeletons: all, Widths: widthsAll, Level: 0, Menu: menuGen1Quick, Sweep: full},
			{Name: "L0-inline", Skeletons: extQ, Widths: widthsExt, Level: 0, Menu: menuGen1Quick, Sweep: full},
			{Name: "L0-spans-hyphens", Skeletons: gen3, Widths: widthsExt, Level: 0, Menu: menuGen1Quick, Sweep: full},
			{Name: "L1-kinds", Skeletons: kinds, Widths: widthsAll, Level: 1, Menu: menuGen1Quick, Sweep: full},
			{Name: "L1-inline-kinds", Skeletons: kindsExt, Widths: []int{30, 50, 80}, Level: 1, Menu: menuGen1Quick, Sweep: full},
			{Name: "L1-pseudo-inner", Skeletons: kindsGen2, Widths: []int{30, 50, 80}, Level: 1, Menu: menuGen2, Sweep: full},
			{Name: "L1-spans-hyphens", Skeletons: kindsGen3, Widths: []int{30, 50, 80}, Level: 1, Menu: menuGen1Quick, Sweep: full},
			{Name: "L1-spans-hyphens-pseudo-inner", Skeletons: kindsGen3, Widths: []int{30, 50, 80}, Level: 1, Menu: menuGen2, Sweep: lite},
			{Name: "L2-primary", Skeletons: primary, Widths: []int{50}, Level: 2, Menu: menuGen1Quick, Sweep: full},
			{Name: "L2-secondary", Skeletons: secondary, Widths: []int{50}, Level: 2, Menu: menuGen1Quick, Sweep: full},
			{Name: "L2-pseudo-inner", Skeletons: primaryExt, Widths: []int{50}, Level: 2, Menu: menuQ, Need: menuGen2, Sweep: lite},
			{Name: "L2-four-blocks", Skeletons: sandwich, Widths: []int{50}, Level: 2, Menu: menuSandwich, Sweep: lite},
			{Name: "L1-inner-breaks", Skeletons: innerBreakSk, Widths: []int{50, 120}, Level: 1, Menu: menuInnerBreaks, Sweep: full},
			{Name: "L2-inner-breaks", Skeletons: innerBreakSk, Widths: []int{50, 120}, Level: 2, Menu: menuInner, Need: menuInnerBreaks, Sweep: lite},
		}
	} else {
		one, _, three := skeletonLists(0, nKinds)
		gen2T := append(append(append([][]blockSpec(nil), one...), three...), kindsT...)
		gen2T = append(gen2T, spansExt...)
		l2Ext := [][]blockSpec{primaryExt[0], primary[0], secondary[0], {{kNote, 3}, {kNote, 3}}, {{kSpans, 3}, {kP, 3}}, {{kUL, 5}, {kP, 3}}}
		c.groups = []*group{
			{Name: "L0-all", Skeletons: all, Widths: widthsAll, Level: 0, Menu: menuGen1, Sweep: full},
			{Name: "L0-inline", Skeletons: allExt, Widths: widthsExt, Level: 0, Menu: menuGen1, Sweep: full},
			{Name: "L0-spans-hyphens", Skeletons: gen3, Widths: widthsExt, Level: 0, Menu: menuGen1, Sweep: full},
			{Name: "L1-spans-hyphens", Skeletons: kindsGen3T, Widths: widthsExt, Level: 1, Menu: menuGen1, Sweep: full},
			{Name: "L1-spans-hyphens-pseudo-inner", Skeletons: kindsGen3T, Widths: []int{30, 50, 80}, Level: 1, Menu: menuGen2, Sweep: full},
			{Name: "L1-all", Skeletons: all, Widths: widthsAll, Level: 1, Menu: menuGen1, Sweep: full},
			{Name: "L1-inline-all", Skeletons: extQ, Widths: []int{30, 50, 80}, Level: 1, Menu: menuGen1, Sweep: full},
			{Name: "L1-pseudo-inner", Skeletons: gen2T, Widths: widthsAll, Level: 1, Menu: menuGen2, Sweep: full},
			{Name: "L1-pseudo-inner-inline", Skeletons: extQ, Widths: []int{50, 80}, Level: 1, Menu: menuGen2, Sweep: full},
			{Name: "L2-kinds", Skeletons: kindsT, Widths: widthsAll, Level: 2, Menu: menuGen1, Sweep: full},
			{Name: "L2-pseudo-inner", Skeletons: l2Ext, Widths: []int{50, 80}, Level: 2, Menu: menuAll, Need: menuGen2, Sweep: lite},
			{Name: "L2-four-blocks", Skeletons: sandwich, Widths: widthsAll, Level: 2, Menu: menuSandwich, Sweep: full},
			{Name: "L3-primary", Skeletons: primary, Widths: []int{50}, Level: 3, Menu: menuGen1Quick, Sweep: full},
			{Name: "L1-inner-breaks", Skeletons: innerBreakSkT, Widths: widthsExt, Level: 1, Menu: menuInnerBreaks, Sweep: full},
			{Name: "L2-inner-breaks", Skeletons: innerBreakSkT, Widths: widthsAll, Level: 2, Menu: menuInner, Need: menuInnerBreaks, Sweep: full},
		}
	}
	var n int64
	cache := map[string][][]dev{}
	for _, g := range c.groups {
		g.first = n
		for _, s := range g.Skeletons {
			key := fmt.Sprint(len(s))
			for _, b := range s {
				if hasInner(b) {
					key += "i"
				} else {
					key += "-"
				}
			}
			ds, ok := cache[g.Name+key]
			if !ok {
				ds = devSets(s, g.Level, g.Menu, g.Need)
				cache[g.Name+key] = ds
			}
			g.devsets = append(g.devsets, ds)
			k := int64(len(ds) * len(g.Widths))
			g.perSkel = append(g.perSkel, k)
			g.count += k
		}
		n += g.count
	}
	c.units = n
}

func (c *check) Init(tier string, seed int64) engine.Space {
	c.tier = tier
	c.plan(tier)
	ref := "ok"
	if err := refSelfTest(); err != nil {
		ref = err.Error()
	}
	var gs []map[string]any
	for _, g := range c.groups {
		gs = append(gs, map[string]any{"group": g.Name, "skeletons": len(g.Skeletons), "widths_px": g.Widths, "deviations_exactly": g.Level,
			"menu_entries": len(g.Menu), "page_configs_per_document": len(g.Sweep), "documents": g.count, "renders": g.count * int64(len(g.Sweep)+1)})
	}
	var mn []string
	for _, m := range menu {
		mn = append(mn, m.where())
	}
	return engine.Space{
		Units: c.units, Chunk: 2, Level: "model_checking", CaseCPUs: 10,
		Rule: "one unit = one document (block skeleton × page width × set of deviations) rendered on one 10000px page and on every page configuration of the group's sweep (page height × orphans × widows); one state = one render; groups are ordered by deviation level (simplest first); a state is non-trivial when the paged render produced at least 2 pages, so that content actually crossed a page break",
		Bounds: map[string]any{"groups": gs, "block_kinds": kindName, "words_per_block": wordCounts, "page_heights_px": heightsAll,
			"page_widths_px": widthsExt, "orphans_widows": owFull, "deviation_menu": mn, "reference_selftest": ref},
		Assumptions: []string{
			"all block sizes are automatic; explicit heights and RTL are outside the alphabet; hyphenation: hyphens:auto with the English dictionary and soft hyphens in the blocks of kind hyph only",
			"text is made of distinct two-letter ASCII words in the Ahem font (10px/1): every letter occurs once in a document (the blocks of kind hyph add dictionary words with punctuation glued to them; the hyphenate-character is a character of no source text and a line that ends with it continues its word on the next line)",
			"order is asserted inside a flow only (main flow; each float, absolutely positioned box, running/fixed element, table cell, footnote body and floated ::first-letter is a flow of its own)",
			"a footnote called from a running element is not compared (page-margin boxes have no footnote area: the specifications leave its place open)",
			"list markers, footnote calls and footnote markers are counters: they take part in the draw-call clauses only; ::before/::after text is rendered text of its element's flow (a counter(pages) value is compared as a number of any value)",
		},
	}
}

func (c *check) decode(u int64) (*group, docSpec) {
	for _, g := range c.groups {
		if u >= g.first+g.count {
			continue
		}
		r := u - g.first
		for i, k := range g.perSkel {
			if r >= k {
				r -= k
				continue
			}
			sk := g.Skeletons[i]
			ds := g.devsets[i]
			wi := int(r) % len(g.Widths)
			di := int(r) / len(g.Widths)
			return g, docSpec{Blocks: sk, Devs: ds[di], W: g.Widths[wi]}
		}
	}
	panic("unit out of range")
}

func (c *check) Describe(u int64) any {
	g, d := c.decode(u)
	var devs []string
	for _, v := range d.Devs {
		devs = append(devs, fmt.Sprintf("block %d: %s", v.Slot, menu[v.D].where()))
	}
	var bl []string
	for _, b := range d.Blocks {
		bl = append(bl, fmt.Sprintf("%s(%d words)", kindName[b.Kind], b.N))
	}
	return map[string]any{"group": g.Name, "blocks": bl, "page_width_px": d.W, "deviations": devs,
		"page_configs": len(g.Sweep), "example_html": d.html(g.Sweep[0])}
}

// One font configuration per process: the documents have no @font-face, so nothing ever
// mutates it; a fresh configuration per render costs twice the time and retains ~100 KB.
var sharedFonts text.FontConfiguration

func fontConfig() text.FontConfiguration {
	if sharedFonts == nil {
		sharedFonts = render.NewFontConfig("pango")
	}
	return sharedFonts
}

// ---- oracle ---------------------------------------------------------------------------------

type finding struct {
	Clause, Site, Detail string
}

type verdict struct {
	Findings []finding
	Pages    int
	Outcome  string
	FlowText map[string]string // per flow text with the CSS-defined repetitions removed
	Laid     int               // TextBoxes compared with draw calls
	Repeats  int               // repeated flows seen on >= 2 pages
	Split    int               // non repeated, non main flows seen on >= 2 pages
}

const floatedMark = "letters:"

func sortedLetters(s string) string {
	if strings.HasPrefix(s, floatedMark) {
		return s
	}
	l := strings.Split(letters(s), "")
	sort.Strings(l)
	return floatedMark + strings.Join(l, "")
}

// compareFlow classifies the difference between the expected and observed text of a flow.
// floated = the letters observed in floated ::first-letter boxes of the flow: they count for
// conservation, their place is not asserted (a float is a flow of its own).
func compareFlow(f *flow, where, got, floated string, add func(clause, site, detail string)) {
	key, want, site := f.Key, f.Want, "flow:"+f.Site
	wl, gl := letters(want), letters(got)+floated
	if floated != "" {
		// the expected text of the rest of the flow: without the floated letters
		for _, r := range floated {
			if i := strings.IndexRune(want, r); i >= 0 {
				want = want[:i] + want[i+len(string(r)):]
			}
		}
		want = strings.Join(strings.Fields(want), " ")
		if strings.Contains(floated, pagesMark) {
			// a counter(pages) value of several digits whose first digit floats: the digits are not told apart
			strip := func(s string) string { return strings.Join(strings.Fields(strings.ReplaceAll(s, pagesMark, "")), " ") }
			want, got, wl, gl = strip(want), strip(got), strip(wl), strip(gl)
		}
	}
	if want == got && len(wl) == len(gl) {
		return
	}
	lost := minus(strings.Split(wl, ""), strings.Split(gl, ""))
	dup := minus(strings.Split(gl, ""), strings.Split(wl, ""))
	d := fmt.Sprintf("flow %s%s: want %q got %q", key, where, f.Want, got)
	if floated != "" {
		d += fmt.Sprintf(" and floated first letter(s) %q", floated)
	}
	if len(lost) > 0 {
		add("text-lost", site, d+" lost letters "+strings.Join(lost, ""))
	}
	if len(dup) > 0 {
		add("text-duplicated", site, d+" extra letters "+strings.Join(dup, ""))
	}
	if len(lost) == 0 && len(dup) == 0 {
		if letters(want) != letters(got) {
			add("text-reordered", site, d)
		} else {
			add("space-changed", site, d)
		}
	}
}

func evaluate(res *render.Result, fm *flowMap) verdict {
	v := verdict{Pages: len(res.Pages), FlowText: map[string]string{}}
	seen := map[string]bool{}
	add := func(clause, site, detail string) {
		if !seen[clause+"|"+site] {
			seen[clause+"|"+site] = true
			v.Findings = append(v.Findings, finding{clause, site, detail})
		}
	}
	texts := collectTexts(res.Pages)
	obs, strangers := groupFlows(texts, fm)
	var ob strings.Builder
	for _, key := range fm.order {
		f := fm.flows[key]
		o := obs[key]
		if f.Open {
			continue
		}
		if !f.Repeat {
			got := o.all()
			v.FlowText[key] = got
			if fl := o.allFloated(); fl != "" {
				// which letters float is a matter of style: the differential clause compares the letters
				l := strings.Split(letters(got)+fl, "")
				sort.Strings(l)
				v.FlowText[key] = floatedMark + strings.Join(l, "")
			}
			compareFlow(f, "", got, o.allFloated(), add)
			if o != nil && len(o.pages) >= 2 && key != "main" {
				v.Split++
			}
		} else {
			// CSS defines repetitions: at most one whole copy per page, at least one copy
			n := 0
			if o != nil {
				for _, p := range o.pages {
					if o.perPage[p] == "" {
						continue
					}
					n++
					compareFlow(f, fmt.Sprintf(" (repeated) on page %d", p+1), o.perPage[p], o.floated[p], add)
				}
			}
			if n == 0 {
				compareFlow(f, " (repeated) on all pages", "", "", add)
			} else {
				v.FlowText[key] = f.Want
			}
			if n >= 2 {
				v.Repeats++
			}
		}
		if o != nil {
			for _, p := range o.pages {
				fmt.Fprintf(&ob, "%s@%d=%s|", key, p, o.perPage[p])
			}
		}
	}
	for _, s := range strangers {
		add("text-foreign", "-", fmt.Sprintf("page %d: text %q comes from no element of the document (element id %q)", s.Page+1, s.Text, s.Elem))
	}
	// second half: every laid-out text run reaches the backend exactly once, on its page
	if res.Rec != nil {
		np := len(res.Pages)
		if len(res.Rec.Pages) > np {
			np = len(res.Rec.Pages)
		}
		for i := 0; i < np; i++ {
			var laid, drawn []string
			for _, t := range texts {
				if t.Page == i && strings.TrimSpace(t.Text) != "" {
					laid = append(laid, strings.TrimSpace(t.Text))
				}
			}
			if i < len(res.Rec.Pages) {
				for _, s := range drawnTexts(res.Rec.Pages[i]) {
					// the text of a draw call keeps the collapsible space that hangs at the end of the line
					drawn = append(drawn, strings.TrimSpace(s))
				}
			}
			v.Laid += len(laid)
			if nd := minus(laid, drawn); len(nd) > 0 {
				add("text-not-drawn", "draw", fmt.Sprintf("page %d: laid out %q drawn %q: not drawn %q", i+1, laid, drawn, nd))
			}
			if tw := minus(drawn, laid); len(tw) > 0 {
				add("text-drawn-twice", "draw", fmt.Sprintf("page %d: laid out %q drawn %q: drawn without a text box of its own %q", i+1, laid, drawn, tw))
			}
		}
	}
	fmt.Fprintf(&ob, "pages=%d", v.Pages)
	v.Outcome = ob.String()
	return v
}

func (c *check) runOne(ctx reporter, d *docSpec, cfg pageCfg, fm *flowMap) *verdict {
	src := d.html(cfg)
	desc := caseDesc(d, cfg)
	feats := d.features(cfg)
	var res *render.Result
	var err error
	ok := ctx.GuardFail(desc, feats, func() {
		res, err = render.Render(render.Options{HTML: src, Engine: "pango", PageBound: 150, FontConfig: fontConfig()})
	})
	ctx.Trans(int64(len(d.Devs)))
	inRegion := false
	for _, f := range feats {
		if isRegionTag(f) {
			ctx.Count("renders-in-known-region:"+f, 1)
			inRegion = true
		}
	}
	if !inRegion {
		ctx.Count("renders-outside-every-known-region", 1)
	}
	if !ok {
		ctx.Case(cfg.H != 0, "panic")
		ctx.Count("renders-aborted(panic/page-bound)", 1)
		return nil
	}
	if err != nil {
		ctx.Fail(engine.Failure{Clause: "load-error", Features: feats, Case: desc, Detail: err.Error()})
		ctx.Case(false, "error")
		return nil
	}
	v := evaluate(res, fm)
	for _, f := range v.Findings {
		ctx.Fail(engine.Failure{Clause: f.Clause, Site: f.Site, Features: feats, Case: desc, Detail: f.Detail})
	}
	ctx.Case(cfg.H != 0 && v.Pages >= 2, v.Outcome)
	if cfg.H != 0 {
		if v.Pages >= 2 {
			ctx.Count("paged-renders-with->=2-pages", 1)
			if !inRegion {
				ctx.Count("paged-renders-with->=2-pages-outside-every-known-region", 1)
			}
		}
		if v.Pages >= 3 {
			ctx.Count("paged-renders-with->=3-pages", 1)
		}
	}
	ctx.Count("text-boxes-compared-with-draw-calls", int64(v.Laid))
	if v.Repeats > 0 {
		ctx.Count("renders-with-a-repeated-flow-on->=2-pages", 1)
	}
	if v.Split > 0 {
		ctx.Count("renders-with-a-float/cell/abs-flow-split-over-pages", 1)
	}
	if len(fm.order) > 1 {
		ctx.Count("renders-with->=2-flows", 1)
	}
	return &v
}

// isRegionTag: the tags that delimit the regions of the known layout defects.
func isRegionTag(f string) bool {
	return strings.HasSuffix(f, "-overflows-page") || f == "page-break-in-columns" || f == "table-header-footer-crowd-page"
}

// reporter is the part of *engine.Ctx the check uses (the census tool has its own).
type reporter interface {
	Case(nontrivial bool, outcome string)
	Trans(n int64)
	Count(name string, n int64)
	Fail(f engine.Failure)
	GuardFail(desc string, features []string, f func()) bool
}

func (c *check) Run(u int64, ctx *engine.Ctx) { c.run(u, ctx) }

func (c *check) run(u int64, ctx reporter) {
	if u == 0 {
		// the reference model runs its specification examples before exploring
		if err := refSelfTest(); err != nil {
			ctx.Fail(engine.Failure{Clause: "reference-selftest", Site: "-", Case: "white space collapser", Detail: err.Error()})
		}
	}
	g, d := c.decode(u)
	fm := d.flowsOf()
	tall := c.runOne(ctx, &d, pageCfg{0, 2, 2}, fm)
	for _, cfg := range g.Sweep {
		v := c.runOne(ctx, &d, cfg, fm)
		if v == nil || tall == nil {
			continue
		}
		// differential cross-check: same per-flow text as on one tall page
		same := true
		var diff []string
		for _, k := range fm.order {
			a, b := v.FlowText[k], tall.FlowText[k]
			if strings.HasPrefix(a, floatedMark) != strings.HasPrefix(b, floatedMark) {
				a, b = sortedLetters(a), sortedLetters(b)
			}
			if a != b {
				same = false
				diff = append(diff, fmt.Sprintf("%s: paged %q single page %q", k, v.FlowText[k], tall.FlowText[k]))
			}
		}
		if same {
			ctx.Count("differential:paged==single-page", 1)
		} else {
			ctx.Count("differential:paged!=single-page", 1)
			if len(v.Findings) == 0 && len(tall.Findings) == 0 {
				sort.Strings(diff)
				ctx.Fail(engine.Failure{Clause: "paged-differs-from-single-page", Features: d.features(cfg), Case: caseDesc(&d, cfg), Detail: strings.Join(diff, "; ")})
			}
		}
	}
}

// FeaturesOf lets the master tag a case that killed its worker (the description carries the generator parameters).
func (c *check) FeaturesOf(desc string) []string {
	return featuresFromDesc(desc)
}
