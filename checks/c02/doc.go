package c02

import (
	"fmt"
	"sort"
	"strings"
)

// ---- document model -----------------------------------------------------------------------

// node is an element (tag != "") or a text node (tag == "").
type node struct {
	tag   string
	id    string
	attr  string // further attributes, written as they are (colspan=2, lang=en)
	style string
	text  string
	kids  []*node
	// generated content of the ::before / ::after pseudo-elements ("" = none); pagesMark stands
	// for the value of counter(pages)
	before, after string
}

// pagesMark is the canonical form of a counter(pages) value in the expected and observed text.
const pagesMark = "#"

// block kinds of the grammar.
const (
	kP     = iota // <p>words</p>
	kDivP         // <div><p>words</p>words</div>
	kTable        // <table><thead>..<tbody>..<tfoot>..</table>
	kUL           // <ul><li>words</li>...</ul>
	kSpans        // <p>w <span>w <span>w w</span>w</span> w</p>
	nKinds        // the kinds of the first generation (the L0/L1 skeleton lists are built from them)
)

// kinds of the second generation: inline structures
const (
	kGlue = nKinds + iota // <p>w w<span>w</span>w w</p>: the span touches a word on both sides
	kNote                 // <p>w <span style="float:footnote">w</span> w</p>
	nKindsAll
)

// kinds of the third generation: cells that span columns / rows in a row with a long cell (the row is
// split between pages and the continuing cell is not at its grid column), and automatic hyphenation
// (a line broken inside a dictionary word that punctuation is glued to)
const (
	kColspan = nKindsAll + iota // <table><tr><td colspan=2>w</td><td>w w w</td>...
	kRowspan                    // <table><tr><td rowspan=2>w</td><td>w</td></tr><tr><td>w w w</td>...
	kHyph                       // <p lang=en>w (hyphenation) w</p> with hyphens:auto
	nKinds3
)

var kindName = [...]string{"p", "divp", "table", "ul", "spans", "glue", "note", "colspan", "rowspan", "hyph"}

// hyphenMark is the hyphenate-character of the hyphenated blocks: a character of no source text.
// (No "-" is glued to a word: UAX #14 allows a break after it, a line boundary that replaces no space.)
const hyphenMark = "~"

// longWords: words of the English hyphenation dictionary (un-der-stand-ing, hy-phen-ation...); block
// slot uses them from index slot on.
var longWords = []string{"hyphenation", "understanding", "fundamental", "representation"}

func longWord(slot, i int) string { return longWords[(slot+i)%len(longWords)] }

type blockSpec struct {
	Kind, N int
}

// deviation = (slot, menu index); slot = index of the top level block.
type dev struct {
	Slot, D int
}

type docSpec struct {
	Blocks []blockSpec
	Devs   []dev
	W      int // page width in px
}

// page configuration of one render of a document. H == 0 stands for the single tall page
// of the differential cross-check.
type pageCfg struct {
	H, Orphans, Widows int
}

const tallPage = 10000

// menu entry of the per-block deviation menu.
type menuEntry struct {
	Name  string // feature tag
	Group string // two entries of the same group are never put on the same block
	CSS   string
	// Target: where the declarations go. tBlock: style attribute of the top level block;
	// tInner: style attribute of the first inner element of the block (id <block>1: inner <p>, first
	// cell, first <li>, outer <span>); tPseudo: a rule `#id::Pseudo{CSS}` of the style sheet, id =
	// the block (the first cell for a table).
	Target int
	Pseudo string
	// Row (tInner entries): when the first inner element is a table cell the declarations go to its row
	Row bool
}

// where describes the entry: the declarations and what they apply to.
func (m menuEntry) where() string {
	switch m.Target {
	case tInner:
		return "first inner element{" + m.CSS + "}"
	case tPseudo:
		return "::" + m.Pseudo + "{" + m.CSS + "}"
	}
	return m.CSS
}

const (
	tBlock = iota
	tInner
	tPseudo
)

var menu = []menuEntry{
	{Name: "break-before-page", Group: "break-before", CSS: "break-before:page"},
	{Name: "break-before-avoid", Group: "break-before", CSS: "break-before:avoid"},
	{Name: "break-before-left", Group: "break-before", CSS: "break-before:left"},
	{Name: "break-after-page", Group: "break-after", CSS: "break-after:page"},
	{Name: "break-after-avoid", Group: "break-after", CSS: "break-after:avoid"},
	{Name: "break-after-left", Group: "break-after", CSS: "break-after:left"},
	{Name: "break-inside-avoid", Group: "break-inside", CSS: "break-inside:avoid"},
	{Name: "margin", Group: "margin", CSS: "margin:7px 0"},
	{Name: "padding", Group: "padding", CSS: "padding:3px 0"},
	{Name: "border", Group: "border", CSS: "border:solid;border-width:2px 0"},
	{Name: "clone", Group: "clone", CSS: "box-decoration-break:clone;padding-top:2px;padding-bottom:2px"},
	{Name: "inline-block", Group: "display", CSS: "display:inline-block"},
	{Name: "display-table", Group: "display", CSS: "display:table"},
	{Name: "relative", Group: "position", CSS: "position:relative;top:2px"},
	{Name: "float", Group: "float", CSS: "float:left;width:30px"},
	{Name: "absolute", Group: "position", CSS: "position:absolute"},
	{Name: "columns", Group: "columns", CSS: "columns:2"},
	{Name: "running", Group: "position", CSS: "position:running(hS)"}, // S = slot number: one name per block
	{Name: "fixed", Group: "position", CSS: "position:fixed"},
	// thorough only
	{Name: "float-right", Group: "float", CSS: "float:right;width:60%"},
	// second generation: pseudo-elements (generated boxes and generated text)
	{Name: "first-letter", Group: "pseudo-letter", CSS: "color:red", Target: tPseudo, Pseudo: "first-letter"},
	{Name: "first-letter-float", Group: "pseudo-letter", CSS: "float:left", Target: tPseudo, Pseudo: "first-letter"},
	{Name: "first-line", Group: "pseudo-line", CSS: "color:red", Target: tPseudo, Pseudo: "first-line"},
	{Name: "before", Group: "pseudo-before", CSS: `content:"BEFORE "`, Target: tPseudo, Pseudo: "before"}, // BEFORE = a word of its own per block
	{Name: "after", Group: "pseudo-after", CSS: `content:" AFTER"`, Target: tPseudo, Pseudo: "after"},
	{Name: "before-pages", Group: "pseudo-before", CSS: `content:counter(pages) " "`, Target: tPseudo, Pseudo: "before"},
	// second generation: the first inner element of the block
	{Name: "in-float", Group: "in-float", CSS: "float:left", Target: tInner},
	{Name: "in-absolute", Group: "in-position", CSS: "position:absolute", Target: tInner},
	{Name: "in-relative", Group: "in-position", CSS: "position:relative;top:2px", Target: tInner},
	{Name: "in-opacity", Group: "in-opacity", CSS: "opacity:.5", Target: tInner},
	{Name: "in-inline-block", Group: "in-display", CSS: "display:inline-block", Target: tInner},
	{Name: "in-block", Group: "in-display", CSS: "display:block", Target: tInner},
	// fourth generation: the other atomic inline-level displays of the block, and a forced break on the
	// first inner element of the block (inner <p>, first <li>, the row of the first cell): a forced break
	// inside a box that is not in the normal flow of the page (atomic inline, float, positioned box…)
	{Name: "inline-table", Group: "display", CSS: "display:inline-table"},
	{Name: "inline-flex", Group: "display", CSS: "display:inline-flex"},
	{Name: "inline-grid", Group: "display", CSS: "display:inline-grid"},
	{Name: "in-break-before-page", Group: "in-break-before", CSS: "break-before:page", Target: tInner, Row: true},
	{Name: "in-break-after-page", Group: "in-break-after", CSS: "break-after:page", Target: tInner, Row: true},
}

const nMenuQuick = 19

// nMenuGen2: end of the entries of the second generation
const nMenuGen2 = 32

// menu subsets (indices)
func menuRange(from, to int) []int {
	var out []int
	for i := from; i < to; i++ {
		out = append(out, i)
	}
	return out
}

func menuNamed(names ...string) []int {
	var out []int
	for _, n := range names {
		i := menuIndex(n)
		if i < 0 {
			panic("no menu entry " + n)
		}
		out = append(out, i)
	}
	return out
}

var (
	menuGen1Quick = menuRange(0, nMenuQuick)
	menuGen1      = menuRange(0, nMenuQuick+1)
	menuGen2      = menuRange(nMenuQuick+1, nMenuGen2)
	menuAll       = menuRange(0, nMenuGen2)
	// fourth generation
	menuInnerBreaks = menuNamed("in-break-before-page", "in-break-after-page")
	menuGen4        = menuRange(nMenuGen2, len(menu))
)

// hasInner: the blocks that have an inner element <block>1.
func hasInner(b blockSpec) bool { return b.Kind != kP && !(b.Kind == kHyph && b.N < 5) }

// generated words of block slot: taken from the end of the upper-case words, which no skeleton reaches.
func beforeWord(slot int) string { return words[25-2*slot] }
func afterWord(slot int) string  { return words[24-2*slot] }

const maxSlots = 4
const maxWordsPerDoc = 18 // words[18..25] are the generated words of the four slots

func menuIndex(name string) int {
	for i, m := range menu {
		if m.Name == name {
			return i
		}
	}
	return -1
}

// 31 distinct two-letter words, no letter used twice.
var words = strings.Fields("ab cd ef gh ij kl mn op qr st uv wx yz AB CD EF GH IJ KL MN OP QR ST UV WX YZ 01 23 45 67 89")

// separators between the words of a text node: every form of collapsible white space.
var seps = []string{" ", "\n", "  ", " \t", "\n ", " "}

type wordSrc struct{ next int }

func (w *wordSrc) take(n int) []string {
	out := words[w.next : w.next+n]
	w.next += n
	return out
}

// text joins words with varied collapsible white space (deterministic in the first word index).
func textOf(ws []string, salt int) string {
	var sb strings.Builder
	for i, w := range ws {
		if i > 0 {
			sb.WriteString(seps[(salt+i)%len(seps)])
		}
		sb.WriteString(w)
	}
	return sb.String()
}

func txt(s string) *node { return &node{text: s} }

func el(tag, id string, kids ...*node) *node { return &node{tag: tag, id: id, kids: kids} }

// buildBlock builds top level block number slot.
func buildBlock(slot int, b blockSpec, src *wordSrc) *node {
	id := string(rune('a' + slot))
	sub := func(i int) string { return fmt.Sprintf("%s%d", id, i) }
	salt := src.next
	ws := src.take(b.N)
	switch b.Kind {
	case kP:
		// leading and trailing white space is part of the source
		return el("p", id, txt("\n"+textOf(ws, salt)+" "))
	case kDivP:
		h := (b.N + 1) / 2
		d := el("div", id, el("p", sub(1), txt(textOf(ws[:h], salt))))
		if h < b.N {
			d.kids = append(d.kids, txt(" "+textOf(ws[h:], salt+1)+"\n"))
		}
		return d
	case kTable:
		cell := func(i int, w []string) *node { return el("td", sub(i), txt(textOf(w, salt+i))) }
		row := func(cells ...*node) *node { return el("tr", "", cells...) }
		t := el("table", id)
		switch b.N {
		case 1:
			t.kids = []*node{el("tbody", "", row(cell(1, ws)))}
		case 3:
			t.kids = []*node{el("thead", "", row(cell(1, ws[:1]))), el("tbody", "", row(cell(2, ws[1:2]))), el("tfoot", "", row(cell(3, ws[2:])))}
		case 5:
			t.kids = []*node{el("thead", "", row(cell(1, ws[:1]))),
				el("tbody", "", row(cell(2, ws[1:3])), row(cell(3, ws[3:4]))),
				el("tfoot", "", row(cell(4, ws[4:])))}
		default:
			t.kids = []*node{el("thead", "", row(cell(1, ws[:1]))),
				el("tbody", "", row(cell(2, ws[1:3]), cell(3, ws[3:4])), row(cell(4, ws[4:6])), row(cell(5, ws[6:b.N-1]))),
				el("tfoot", "", row(cell(6, ws[b.N-1:])))}
		}
		return t
	case kUL:
		var parts [][]string
		switch b.N {
		case 1:
			parts = [][]string{ws}
		case 3:
			parts = [][]string{ws[:2], ws[2:]}
		case 5:
			parts = [][]string{ws[:3], ws[3:]}
		default:
			parts = [][]string{ws[:4], ws[4:7], ws[7:]}
		}
		u := el("ul", id)
		for i, p := range parts {
			u.kids = append(u.kids, el("li", sub(i+1), txt(textOf(p, salt+i))))
		}
		return u
	case kSpans:
		p := el("p", id)
		switch b.N {
		case 1:
			p.kids = []*node{el("span", sub(1), el("span", sub(2), txt(ws[0])))}
		case 3:
			p.kids = []*node{txt(ws[0] + " "), el("span", sub(1), txt(ws[1]+"\n"), el("span", sub(2), txt(ws[2])))}
		case 5:
			p.kids = []*node{txt(ws[0] + " "), el("span", sub(1), txt(ws[1]+" "), el("span", sub(2), txt(ws[2]+"  "+ws[3])), txt(" "+ws[4]))}
		default:
			// "gh" and "ij" (4th and 5th word) are glued across a span boundary: one unbreakable word
			p.kids = []*node{txt(ws[0] + " "), el("span", sub(1), txt(ws[1]+" "), el("span", sub(2), txt(ws[2]+" "+ws[3])), txt(ws[4]+"\t"+ws[5])),
				txt(" " + textOf(ws[6:], salt))}
		}
		return p
	case kGlue:
		// the span touches a word on both sides: no break opportunity at its edges
		p := el("p", id)
		sp := func(w ...string) *node { return el("span", sub(1), txt(strings.Join(w, " "))) }
		switch b.N {
		case 1:
			p.kids = []*node{sp(ws[0])}
		case 3:
			p.kids = []*node{txt(ws[0]), sp(ws[1]), txt(ws[2])}
		case 5:
			p.kids = []*node{txt(ws[0] + " " + ws[1]), sp(ws[2]), txt(ws[3] + " " + ws[4])}
		default:
			p.kids = []*node{txt(textOf(ws[:3], salt)), sp(ws[3], ws[4]), txt(textOf(ws[5:], salt+1))}
		}
		return p
	case kColspan, kRowspan:
		// a row with a long cell (split between pages when it does not fit) whose index in the row is
		// not its grid column: it follows a colspan cell, or stands beside a rowspan cell of the row above
		n := 0
		cell := func(attr string, w ...string) *node {
			n++
			c := el("td", sub(n), txt(textOf(w, salt+n)))
			c.attr = attr
			return c
		}
		row := func(cells ...*node) *node { return el("tr", "", cells...) }
		var rows []*node
		if b.Kind == kColspan {
			switch b.N {
			case 1:
				rows = []*node{row(cell("colspan=2", ws[0]))}
			case 3:
				rows = []*node{row(cell("colspan=2", ws[0]), cell("", ws[1:]...))}
			case 5:
				rows = []*node{row(cell("colspan=2", ws[0]), cell("", ws[1:4]...)), row(cell("", ws[4]))}
			default:
				// two continuing cells after the colspan: the grid column of the first is the index of the second
				rows = []*node{row(cell("colspan=2", ws[0]), cell("", ws[1:4]...), cell("", ws[4:8]...)), row(cell("", ws[8:]...))}
			}
		} else {
			switch b.N {
			case 1:
				rows = []*node{row(cell("rowspan=2", ws[0]))}
			case 3:
				rows = []*node{row(cell("rowspan=2", ws[0]), cell("", ws[1])), row(cell("", ws[2]))}
			case 5:
				rows = []*node{row(cell("rowspan=2", ws[0]), cell("", ws[1])), row(cell("", ws[2:]...))}
			default:
				// the spanning cell is long too
				rows = []*node{row(cell("rowspan=2", ws[:3]...), cell("", ws[3])), row(cell("", ws[4:8]...)), row(cell("", ws[8:]...))}
			}
		}
		return el("table", id, el("tbody", "", rows...))
	case kHyph:
		// dictionary words that punctuation is glued to: the hyphenated word does not start the text that
		// is left for the next line; a soft hyphen; a word followed by punctuation; a word in a span
		p := el("p", id)
		p.attr = "lang=en"
		L := func(i int) string { return longWord(slot, i) }
		switch b.N {
		case 1:
			p.kids = []*node{txt("(" + L(0) + ") " + ws[0])}
		case 3:
			p.kids = []*node{txt(ws[0] + " (" + L(0) + ") " + ws[1] + "\n" + ws[2])}
		case 5:
			p.kids = []*node{txt(ws[0] + " " + ws[1] + " \"" + L(0) + "\" " + ws[2] + " "), el("span", sub(1), txt(L(1)+", "+ws[3])), txt(" " + ws[4])}
		default:
			l2 := L(2)
			p.kids = []*node{txt(textOf(ws[:3], salt) + " [" + L(0) + "] " + ws[3] + " "), el("span", sub(1), txt("("+L(1)+")")),
				txt(" " + ws[4] + " " + l2[:4] + "\u00ad" + l2[4:] + " " + textOf(ws[5:], salt+1) + " (\"" + L(3) + "\")")}
		}
		return p
	case kNote:
		p := el("p", id)
		note := func(w ...string) *node {
			n := el("span", sub(1), txt(strings.Join(w, " ")))
			n.style = "float:footnote"
			return n
		}
		switch b.N {
		case 1:
			p.kids = []*node{note(ws[0])}
		case 3:
			p.kids = []*node{txt(ws[0] + " "), note(ws[1]), txt(" " + ws[2])}
		case 5:
			p.kids = []*node{txt(ws[0] + " " + ws[1] + " "), note(ws[2], ws[3]), txt(" " + ws[4])}
		default:
			p.kids = []*node{txt(textOf(ws[:3], salt) + " "), note(ws[3:6]...), txt(" " + textOf(ws[6:], salt+1))}
		}
		return p
	}
	panic("bad kind")
}

// find returns the element with the given id.
func (n *node) find(id string) *node {
	if n.tag != "" && n.id == id {
		return n
	}
	for _, k := range n.kids {
		if r := k.find(id); r != nil {
			return r
		}
	}
	return nil
}

// parentOf returns the parent of element c in the subtree of n.
func (n *node) parentOf(c *node) *node {
	for _, k := range n.kids {
		if k == c {
			return n
		}
		if r := k.parentOf(c); r != nil {
			return r
		}
	}
	return nil
}

// pseudoTarget is the id of the element the pseudo-element rules of block slot select.
func pseudoTarget(slot, kind int) string {
	id := string(rune('a' + slot))
	if kind == kTable || kind == kColspan || kind == kRowspan {
		return id + "1"
	}
	return id
}

func (d *docSpec) hasDev(name string) bool {
	for _, v := range d.Devs {
		if menu[v.D].Name == name {
			return true
		}
	}
	return false
}

func (d *docSpec) slotHas(slot int, name string) bool {
	for _, v := range d.Devs {
		if v.Slot == slot && menu[v.D].Name == name {
			return true
		}
	}
	return false
}

// effKind is the way block slot is taken out of the flow, after the CSS 2.1 §9.7 fix-ups
// (position:absolute/fixed and running() force float:none): running | fixed | absolute | float | "".
func (d *docSpec) effKind(slot int) string {
	for _, k := range []string{"running", "fixed", "absolute"} {
		if d.slotHas(slot, k) {
			return k
		}
	}
	if d.slotHas(slot, "float") || d.slotHas(slot, "float-right") {
		return "float"
	}
	return ""
}

// tree builds the body children of the document.
func (d *docSpec) tree() []*node {
	src := &wordSrc{}
	var out []*node
	for i, b := range d.Blocks {
		n := buildBlock(i, b, src)
		var st []string
		for _, v := range d.Devs {
			if v.Slot != i {
				continue
			}
			m := menu[v.D]
			switch m.Target {
			case tBlock:
				st = append(st, strings.ReplaceAll(m.CSS, "(hS)", fmt.Sprintf("(h%d)", i)))
			case tInner:
				in := n.find(n.id + "1")
				if in != nil && m.Row && in.tag == "td" {
					in = n.parentOf(in)
				}
				if in != nil {
					if in.style != "" {
						in.style += ";"
					}
					in.style += m.CSS
				}
			case tPseudo:
				t := n.find(pseudoTarget(i, b.Kind))
				switch m.Name {
				case "before":
					t.before = beforeWord(i) + " "
				case "before-pages":
					t.before = pagesMark + " "
				case "after":
					t.after = " " + afterWord(i)
				}
			}
		}
		n.style = strings.Join(st, ";")
		out = append(out, n)
	}
	return out
}

func writeNode(sb *strings.Builder, n *node) {
	if n.tag == "" {
		sb.WriteString(n.text)
		return
	}
	sb.WriteString("<" + n.tag)
	if n.id != "" {
		sb.WriteString(" id=" + n.id)
	}
	if n.attr != "" {
		sb.WriteString(" " + n.attr)
	}
	if n.style != "" {
		sb.WriteString(` style="` + n.style + `"`)
	}
	sb.WriteString(">")
	for _, k := range n.kids {
		writeNode(sb, k)
	}
	sb.WriteString("</" + n.tag + ">")
}

const runningMargin = 20

// html renders the document for one page configuration.
func (d *docSpec) html(c pageCfg) string {
	var sb strings.Builder
	h := c.H
	if h == 0 {
		h = tallPage
	}
	if d.hasDev("running") {
		// one margin box per running block (each has a name of its own)
		mb := ""
		for i, pos := range []string{"@top-left", "@top-center", "@top-right"} {
			if d.slotHas(i, "running") {
				mb += fmt.Sprintf("%s{content:element(h%d)}", pos, i)
			}
		}
		fmt.Fprintf(&sb, "<style>@page{size:%dpx %dpx;margin:%dpx 0 0 0;%s}", d.W, h+runningMargin, runningMargin, mb)
	} else {
		fmt.Fprintf(&sb, "<style>@page{size:%dpx %dpx;margin:0}", d.W, h)
	}
	fmt.Fprintf(&sb, "html,body{margin:0;font-family:ahem;font-size:10px;line-height:1;orphans:%d;widows:%d}", c.Orphans, c.Widows)
	sb.WriteString("p,div,ul,table{margin:0}ul{padding:0 0 0 10px}table{border-spacing:0}td{padding:0}")
	for _, b := range d.Blocks {
		if b.Kind == kNote {
			sb.WriteString("@page{@footnote{margin:0}}") // the default is margin-top:1em
			break
		}
	}
	for _, b := range d.Blocks {
		if b.Kind == kHyph {
			sb.WriteString(`[lang]{hyphens:auto;hyphenate-character:"` + hyphenMark + `"}`)
			break
		}
	}
	for _, v := range d.Devs {
		if m := menu[v.D]; m.Target == tPseudo {
			css := strings.ReplaceAll(strings.ReplaceAll(m.CSS, "BEFORE", beforeWord(v.Slot)), "AFTER", afterWord(v.Slot))
			fmt.Fprintf(&sb, "#%s::%s{%s}", pseudoTarget(v.Slot, d.Blocks[v.Slot].Kind), m.Pseudo, css)
		}
	}
	sb.WriteString("</style>")
	for i, n := range d.tree() {
		if i > 0 {
			sb.WriteString("\n") // inter-element white space
		}
		writeNode(&sb, n)
	}
	return sb.String()
}

// ---- flows (computed from the input alone) ------------------------------------------------

type flow struct {
	Key    string // "main" or the id of the element that establishes the flow
	Repeat bool   // CSS defines repetitions: thead/tfoot cell, running element, position:fixed (or inside one)
	Want   string // expected text: white-space collapsed source text of the flow
	// Site locates a failure of this flow: main | cell | thead-tfoot, or, for everything
	// inside an out-of-flow block, the kind of that block: float | absolute | fixed | running.
	Site string
	// Open: the specifications do not say where this text goes (a footnote called from a running
	// element: page-margin boxes have no footnote area): not compared
	Open bool
}

type flowMap struct {
	flows  map[string]*flow
	order  []string
	ofElem map[string]string // element id -> flow key
	// elements whose ::before is the value of counter(pages)
	pagesBefore map[string]bool
}

func isBlockTag(tag string) bool { return tag != "span" }

// lineBreaker: the box of the element is not part of the text of a line: its edges are line
// boundaries (block-level box, or atomic inline: CSS Text 3 §5.1 puts a wrap opportunity on both sides).
func lineBreaker(n *node) bool {
	return isBlockTag(n.tag) || strings.Contains(n.style, "display:inline-block") || strings.Contains(n.style, "display:block")
}

// oofKind: the way the declarations of a style attribute take the element out of the flow, after the
// CSS 2.1 §9.7 fix-ups: running | fixed | absolute | footnote | float | "".
func oofKind(style string) string {
	for _, k := range [][2]string{{"position:running", "running"}, {"position:fixed", "fixed"}, {"position:absolute", "absolute"}} {
		if strings.Contains(style, k[0]) {
			return k[1]
		}
	}
	// the last float declaration wins
	if i := strings.LastIndex(style, "float:"); i >= 0 {
		if strings.HasPrefix(style[i:], "float:footnote") {
			return "footnote"
		}
		return "float"
	}
	return ""
}

// flowsOf computes the flows of the document and the expected text of each one with the
// reference white space collapser.
func (d *docSpec) flowsOf() *flowMap {
	fm := &flowMap{flows: map[string]*flow{}, ofElem: map[string]string{}, pagesBefore: map[string]bool{}}
	raw := map[string]*strings.Builder{}
	get := func(key string, repeat bool, site string) *flow {
		f := fm.flows[key]
		if f == nil {
			f = &flow{Key: key, Repeat: repeat, Site: site}
			fm.flows[key] = f
			fm.order = append(fm.order, key)
			raw[key] = &strings.Builder{}
		}
		return f
	}
	get("main", false, "main")
	var walk func(n *node, cur *flow, inRepeatGroup, item bool)
	// item: the element is a child of a flex or grid container: it is blockified (CSS Flexbox §4, Grid §6.1),
	// its edges are line boundaries
	walk = func(n *node, cur *flow, inRepeatGroup, item bool) {
		outer := "" // kind of the enclosing out-of-flow block
		if cur.Site != "main" && cur.Site != "cell" && cur.Site != "thead-tfoot" {
			outer = cur.Site
		}
		if n.tag == "" {
			raw[cur.Key].WriteString(n.text)
			return
		}
		if n.tag == "thead" || n.tag == "tfoot" {
			inRepeatGroup = true
		}
		own := cur
		if n.tag == "td" {
			site := outer
			if site == "" {
				site = "cell"
				if inRepeatGroup {
					site = "thead-tfoot"
				}
			}
			own = get(n.id, cur.Repeat || inRepeatGroup, site)
		} else if n.style != "" {
			kind := oofKind(n.style)
			if kind != "" {
				site := outer
				if site == "" {
					site = kind
				}
				own = get(n.id, cur.Repeat || kind == "running" || kind == "fixed", site)
				if kind == "footnote" && outer == "running" {
					own.Open = true
				}
			}
		}
		if n.id != "" {
			fm.ofElem[n.id] = own.Key
			if strings.HasPrefix(n.before, pagesMark) {
				fm.pagesBefore[n.id] = true
			}
		}
		breaker := item || lineBreaker(n)
		if breaker {
			raw[own.Key].WriteString(lineBoundary) // a block boundary is a line boundary
		}
		raw[own.Key].WriteString(n.before) // generated content is rendered text of the element
		container := strings.Contains(n.style, "display:inline-flex") || strings.Contains(n.style, "display:inline-grid")
		for _, k := range n.kids {
			walk(k, own, inRepeatGroup, container)
		}
		raw[own.Key].WriteString(n.after)
		if breaker {
			raw[own.Key].WriteString(lineBoundary)
		}
	}
	for _, n := range d.tree() {
		raw["main"].WriteString("\n") // the inter-element white space of the source
		walk(n, fm.flows["main"], false, false)
	}
	for k, f := range fm.flows {
		f.Want = collapse(raw[k].String())
	}
	return fm
}

// ---- feature tags (computed from the input alone) -----------------------------------------

// greedyLines is the number of lines of a word list broken greedily at width px (10px per
// character, words of 2 letters; a word wider than the line gets a line of its own).
func greedyLines(lens []int, width int) int {
	lines, cur := 0, 0
	for _, l := range lens {
		w := l * 10
		if l >= 5 {
			// a dictionary word of a hyphenated block (all other words have two letters): at most one line
			// per two letters, and the next word may have to start a line
			lines += (l + 1) / 2
			cur = width
			continue
		}
		if cur == 0 {
			lines++
			cur = w
		} else if cur+10+w <= width {
			cur += 10 + w
		} else {
			lines++
			cur = w
		}
	}
	return lines
}

func wordLens(s string) []int {
	var out []int
	for _, w := range strings.Fields(s) {
		out = append(out, len(w))
	}
	return out
}

// estLines estimates the number of 10px lines the content of a block needs when laid out
// in a box of the given width (tables: one line per word of the tallest cell of each row,
// the narrowest possible layout; the estimate is only used for feature tags).
func estLines(n *node, width int) int {
	if width < 10 {
		width = 10
	}
	switch n.tag {
	case "table":
		total := 0
		for _, g := range n.kids {
			for _, r := range g.kids {
				mx := 0
				for _, c := range r.kids {
					cw := width / len(r.kids)
					if n.find(n.id+"1").attr != "" {
						cw = 10 // a table with spanning cells: one word per line, the whole spanning cell in its first row
					}
					if l := greedyLines(wordLens(plainText(c)), cw); l > mx {
						mx = l
					}
				}
				total += mx
			}
		}
		return total
	case "ul":
		total := 0
		for _, li := range n.kids {
			total += greedyLines(wordLens(plainText(li)), width-10)
		}
		return total
	case "div":
		total := 0
		for _, k := range n.kids {
			if k.tag == "" {
				total += greedyLines(wordLens(k.text), width)
			} else {
				total += estLines(k, width)
			}
		}
		return total
	}
	// inline content: a display:block / inline-block child starts and ends a line (upper bound)
	total, cur := 0, ""
	flush := func() {
		total += greedyLines(wordLens(cur), width)
		cur = ""
	}
	cur = strings.ReplaceAll(n.before, pagesMark, "00")
	for _, k := range n.kids {
		if k.tag != "" && lineBreaker(k) {
			flush()
			total += estLines(k, width)
			continue
		}
		cur += plainText(k)
	}
	cur += n.after
	flush()
	return total
}

// columnLines is the smallest height (in lines) of two columns holding n lines when the first
// column needs at least orphans lines and the second at least widows lines (or nothing).
func columnLines(n, orphans, widows int) int {
	best := n
	for k := orphans; n-k >= widows; k++ {
		h := k
		if n-k > h {
			h = n - k
		}
		if h < best {
			best = h
		}
	}
	return best
}

// generatedLines: upper bound of the lines the generated content of a subtree adds.
func generatedLines(n *node) int {
	if n.tag == "" {
		return 0
	}
	c := 0
	if n.before != "" {
		c++
	}
	if n.after != "" {
		c++
	}
	for _, k := range n.kids {
		c += generatedLines(k)
	}
	return c
}

// plainText: the text of a subtree, generated text included (a counter(pages) value: two digits).
func plainText(n *node) string {
	if n.tag == "" {
		return n.text
	}
	var sb strings.Builder
	sb.WriteString(strings.ReplaceAll(n.before, pagesMark, "00"))
	for _, k := range n.kids {
		sb.WriteString(plainText(k))
	}
	sb.WriteString(n.after)
	return sb.String()
}

// extraHeight is the vertical margin+padding+border a block's deviations add (px).
func (d *docSpec) extraHeight(slot int) int {
	x := 0
	pad := 0
	for _, v := range d.Devs {
		if v.Slot != slot {
			continue
		}
		switch menu[v.D].Name {
		case "margin":
			x += 14
		case "padding":
			pad = 6
		case "clone":
			if pad == 0 {
				pad = 4
			}
		case "border":
			x += 4
		}
	}
	return x + pad
}

func (d *docSpec) features(c pageCfg) []string {
	set := map[string]bool{}
	tr := d.tree()
	for _, b := range d.Blocks {
		if b.Kind != kP {
			set[kindName[b.Kind]] = true
		}
	}
	for _, v := range d.Devs {
		set[menu[v.D].Name] = true
		set[menu[v.D].Name+">"+kindName[d.Blocks[v.Slot].Kind]] = true
		if menu[v.D].Name == "in-float" && d.slotHas(v.Slot, "columns") {
			set["in-float-in-columns"] = true // a float that a column break may split, on any page height
		}
	}
	for i := range d.Blocks {
		if !d.slotHas(i, "in-break-after-page") {
			continue
		}
		// a forced break after the first inner element of the block (never its last child), on any page height
		switch eff := d.effKind(i); {
		case eff == "running":
		case eff != "":
			// the out-of-flow box cannot be on one page: it is broken, as a box that does not fit
			set[eff] = true
			set["forced-break-in-"+eff] = true
			set[eff+"-overflows-page"] = true
		case d.slotHas(i, "inline-block") || d.slotHas(i, "inline-table") || d.slotHas(i, "inline-flex") || d.slotHas(i, "inline-grid"):
			set["forced-break-in-atomic-inline"] = true
		}
	}
	if c.H == 0 {
		set["single-page"] = true
	} else {
		set["paged"] = true
		// natural height of the in-flow content and of every block
		total := 0
		slack := 0 // a collapsed margin can shift the static position of an out-of-flow box
		if d.hasDev("margin") {
			slack = 7
		}
		// footnotes take room at the bottom of the page they are called from, and a line with a
		// footnote call (a superscript) is taller than 10px: the pages are at least this much shorter
		pageH := c.H
		for i, n := range tr {
			if d.Blocks[i].Kind == kNote {
				if fn := n.find(n.id + "1"); fn != nil {
					// the footnote body starts with its marker "1. "
					pageH -= greedyLines(append([]int{2}, wordLens(plainText(fn))...), d.W)*10 + 5
				}
			}
		}
		for i, n := range tr {
			eff := d.effKind(i)
			if eff != "" {
				set[eff] = true // float | absolute | fixed | running, after the position/float fix-ups
			}
			w := d.W
			if d.slotHas(i, "float") { // the width declared with the float applies even when position wins
				w = 30
			} else if d.slotHas(i, "float-right") {
				w = d.W * 6 / 10
			}
			hgt := estLines(n, w)*10 + d.extraHeight(i) + generatedLines(n)*10
			if d.slotHas(i, "columns") && eff != "running" {
				colLines := estLines(n, (w-10)/2)
				hgt = (colLines+1)/2*10 + d.extraHeight(i)
				// orphans and widows restrict where the lines can be split between the two columns
				constrained := columnLines(colLines, c.Orphans, c.Widows)*10 + d.extraHeight(i)
				if constrained > pageH || total+constrained > pageH {
					set["page-break-in-columns"] = true
				}
				if eff != "" {
					// out of flow: the columns are not necessarily balanced, take the tallest outcome
					if h2 := colLines*10 + d.extraHeight(i); h2 > hgt {
						hgt = h2
					}
				}
			}
			oofSlack := slack
			if d.slotHas(i, "clone") {
				oofSlack += 8 // cloned decorations are reserved at every potential break
			}
			if eff != "" && eff != "running" && (hgt > pageH || total+hgt+oofSlack > pageH) {
				// the box does not fit between its naive static position and the bottom of a page
				set[eff+"-overflows-page"] = true
			}
			innerSlack := 0
			if d.slotHas(i, "in-inline-block") || d.slotHas(i, "in-relative") {
				innerSlack = 2 // the line box of an inline-block cell is 11px high; a shifted float makes its row 12px high
			}
			if in := n.find(n.id + "1"); in != nil && in.tag != "td" && eff != "running" {
				// an inner float / absolutely positioned box of several lines may be broken when it does not
				// fit between its static position (a line of the block) and the bottom of the first page: the
				// regions of the top level boxes extend to it. It is shrunk to fit at its static position:
				// at worst one word per line.
				if k := oofKind(in.style); k == "float" || k == "absolute" {
					ih := greedyLines(wordLens(plainText(in)), 10) * 10 // (a hyphenated word: several lines)
					if eff != "" && total+hgt+ih+oofSlack > pageH {
						// inside an out-of-flow block (shrunk or narrow) the inner box can take a line of its own
						set[eff+"-overflows-page"] = true
					}
					if ih > 10 && (hgt > pageH || total+hgt+oofSlack > pageH || total+hgt-10+ih+oofSlack > pageH) {
						if eff != "" {
							k = eff // the site of a flow nested in an out-of-flow block is the kind of that block
						}
						set[k] = true
						set[k+"-overflows-page"] = true
					}
				}
			}
			if n.tag == "table" && eff != "running" && tableCrowdsPage(n, w, pageH-d.extraHeight(i)-innerSlack) {
				set["table-header-footer-crowd-page"] = true
			}
			if eff == "running" && d.slotHas(i, "inline-block") {
				total += 10 // the line box that held the inline-level running element may stay in the flow
			}
			if eff == "float" && d.W-w < 20 {
				total += hgt // no room for a word beside the float: the in-flow content goes below it
			}
			if eff == "" {
				total += hgt
				if d.slotHas(i, "columns") {
					// orphans/widows can keep all lines in one column: count the unbalanced height,
					// so that the position of the following boxes is never under-estimated
					if h2 := estLines(n, (w-10)/2)*10 + d.extraHeight(i); h2 > hgt {
						total += h2 - hgt
					}
				}
			}
		}
		if total > c.H {
			set["content-exceeds-page"] = true
		}
	}
	var out []string
	for k := range set {
		out = append(out, k)
	}
	sort.Strings(out)
	return out
}

// tableCrowdsPage says whether the header group, the footer group and some body row of the
// table cannot be on one page of height h together (upper bound of the row heights: a cell
// has one line when the max-content widths of all columns fit in w, otherwise at most one
// line per word).
func tableCrowdsPage(t *node, w, h int) bool {
	var colMax []int
	for _, g := range t.kids {
		for _, r := range g.kids {
			for ci, c := range r.kids {
				for len(colMax) <= ci {
					colMax = append(colMax, 0)
				}
				l := wordLens(plainText(c))
				mc := -10
				for _, x := range l {
					mc += 10 + x*10
				}
				if mc > colMax[ci] {
					colMax[ci] = mc
				}
			}
		}
	}
	sum := 0
	for _, x := range colMax {
		sum += x
	}
	rowLines := func(r *node) int {
		mx := 0
		for _, c := range r.kids {
			n := len(wordLens(plainText(c)))
			if sum <= w {
				n = 1
			}
			if n > mx {
				mx = n
			}
		}
		return mx
	}
	hf, body := 0, 0
	for _, g := range t.kids {
		for _, r := range g.kids {
			if g.tag == "tbody" {
				if l := rowLines(r); l > body {
					body = l
				}
			} else {
				hf += rowLines(r)
			}
		}
	}
	return hf > 0 && (hf+body)*10 > h
}
