package c02

import (
	"fmt"
	"sort"
	"strings"
)

// ---- document model -----------------------------------------------------------------------

// node is an element (tag != "") or a text node (tag == "").
type node struct {
	tag   string
	id    string
	style string
	text  string
	kids  []*node
}

// block kinds of the grammar.
const (
	kP     = iota // <p>words</p>
	kDivP         // <div><p>words</p>words</div>
	kTable        // <table><thead>..<tbody>..<tfoot>..</table>
	kUL           // <ul><li>words</li>...</ul>
	kSpans        // <p>w <span>w <span>w w</span>w</span> w</p>
	nKinds
)

var kindName = [...]string{"p", "divp", "table", "ul", "spans"}

type blockSpec struct {
	Kind, N int
}

// deviation = (slot, menu index); slot = index of the top level block.
type dev struct {
	Slot, D int
}

type docSpec struct {
	Blocks []blockSpec
	Devs   []dev
	W      int // page width in px
}

// page configuration of one render of a document. H == 0 stands for the single tall page
// of the differential cross-check.
type pageCfg struct {
	H, Orphans, Widows int
}

const tallPage = 10000

// menu entry of the per-block deviation menu.
type menuEntry struct {
	Name  string // feature tag
	Group string // two entries of the same group are never put on the same block
	CSS   string
}

var menu = []menuEntry{
	{"break-before-page", "break-before", "break-before:page"},
	{"break-before-avoid", "break-before", "break-before:avoid"},
	{"break-before-left", "break-before", "break-before:left"},
	{"break-after-page", "break-after", "break-after:page"},
	{"break-after-avoid", "break-after", "break-after:avoid"},
	{"break-after-left", "break-after", "break-after:left"},
	{"break-inside-avoid", "break-inside", "break-inside:avoid"},
	{"margin", "margin", "margin:7px 0"},
	{"padding", "padding", "padding:3px 0"},
	{"border", "border", "border:solid;border-width:2px 0"},
	{"clone", "clone", "box-decoration-break:clone;padding-top:2px;padding-bottom:2px"},
	{"inline-block", "display", "display:inline-block"},
	{"display-table", "display", "display:table"},
	{"relative", "position", "position:relative;top:2px"},
	{"float", "float", "float:left;width:30px"},
	{"absolute", "position", "position:absolute"},
	{"columns", "columns", "columns:2"},
	{"running", "position", "position:running(hS)"}, // S = slot number: one name per block
	{"fixed", "position", "position:fixed"},
	// thorough only
	{"float-right", "float", "float:right;width:60%"},
}

const nMenuQuick = 19

func menuIndex(name string) int {
	for i, m := range menu {
		if m.Name == name {
			return i
		}
	}
	return -1
}

// 31 distinct two-letter words, no letter used twice.
var words = strings.Fields("ab cd ef gh ij kl mn op qr st uv wx yz AB CD EF GH IJ KL MN OP QR ST UV WX YZ 01 23 45 67 89")

// separators between the words of a text node: every form of collapsible white space.
var seps = []string{" ", "\n", "  ", " \t", "\n ", " "}

type wordSrc struct{ next int }

func (w *wordSrc) take(n int) []string {
	out := words[w.next : w.next+n]
	w.next += n
	return out
}

// text joins words with varied collapsible white space (deterministic in the first word index).
func textOf(ws []string, salt int) string {
	var sb strings.Builder
	for i, w := range ws {
		if i > 0 {
			sb.WriteString(seps[(salt+i)%len(seps)])
		}
		sb.WriteString(w)
	}
	return sb.String()
}

func txt(s string) *node { return &node{text: s} }

func el(tag, id string, kids ...*node) *node { return &node{tag: tag, id: id, kids: kids} }

// buildBlock builds top level block number slot.
func buildBlock(slot int, b blockSpec, src *wordSrc) *node {
	id := string(rune('a' + slot))
	sub := func(i int) string { return fmt.Sprintf("%s%d", id, i) }
	salt := src.next
	ws := src.take(b.N)
	switch b.Kind {
	case kP:
		// leading and trailing white space is part of the source
		return el("p", id, txt("\n"+textOf(ws, salt)+" "))
	case kDivP:
		h := (b.N + 1) / 2
		d := el("div", id, el("p", sub(1), txt(textOf(ws[:h], salt))))
		if h < b.N {
			d.kids = append(d.kids, txt(" "+textOf(ws[h:], salt+1)+"\n"))
		}
		return d
	case kTable:
		cell := func(i int, w []string) *node { return el("td", sub(i), txt(textOf(w, salt+i))) }
		row := func(cells ...*node) *node { return el("tr", "", cells...) }
		t := el("table", id)
		switch b.N {
		case 1:
			t.kids = []*node{el("tbody", "", row(cell(1, ws)))}
		case 3:
			t.kids = []*node{el("thead", "", row(cell(1, ws[:1]))), el("tbody", "", row(cell(2, ws[1:2]))), el("tfoot", "", row(cell(3, ws[2:])))}
		case 5:
			t.kids = []*node{el("thead", "", row(cell(1, ws[:1]))),
				el("tbody", "", row(cell(2, ws[1:3])), row(cell(3, ws[3:4]))),
				el("tfoot", "", row(cell(4, ws[4:])))}
		default:
			t.kids = []*node{el("thead", "", row(cell(1, ws[:1]))),
				el("tbody", "", row(cell(2, ws[1:3]), cell(3, ws[3:4])), row(cell(4, ws[4:6])), row(cell(5, ws[6:b.N-1]))),
				el("tfoot", "", row(cell(6, ws[b.N-1:])))}
		}
		return t
	case kUL:
		var parts [][]string
		switch b.N {
		case 1:
			parts = [][]string{ws}
		case 3:
			parts = [][]string{ws[:2], ws[2:]}
		case 5:
			parts = [][]string{ws[:3], ws[3:]}
		default:
			parts = [][]string{ws[:4], ws[4:7], ws[7:]}
		}
		u := el("ul", id)
		for i, p := range parts {
			u.kids = append(u.kids, el("li", sub(i+1), txt(textOf(p, salt+i))))
		}
		return u
	case kSpans:
		p := el("p", id)
		switch b.N {
		case 1:
			p.kids = []*node{el("span", sub(1), el("span", sub(2), txt(ws[0])))}
		case 3:
			p.kids = []*node{txt(ws[0] + " "), el("span", sub(1), txt(ws[1]+"\n"), el("span", sub(2), txt(ws[2])))}
		case 5:
			p.kids = []*node{txt(ws[0] + " "), el("span", sub(1), txt(ws[1]+" "), el("span", sub(2), txt(ws[2]+"  "+ws[3])), txt(" "+ws[4]))}
		default:
			// "gh" and "ij" (4th and 5th word) are glued across a span boundary: one unbreakable word
			p.kids = []*node{txt(ws[0] + " "), el("span", sub(1), txt(ws[1]+" "), el("span", sub(2), txt(ws[2]+" "+ws[3])), txt(ws[4]+"\t"+ws[5])),
				txt(" " + textOf(ws[6:], salt))}
		}
		return p
	}
	panic("bad kind")
}

func (d *docSpec) hasDev(name string) bool {
	for _, v := range d.Devs {
		if menu[v.D].Name == name {
			return true
		}
	}
	return false
}

func (d *docSpec) slotHas(slot int, name string) bool {
	for _, v := range d.Devs {
		if v.Slot == slot && menu[v.D].Name == name {
			return true
		}
	}
	return false
}

// effKind is the way block slot is taken out of the flow, after the CSS 2.1 §9.7 fix-ups
// (position:absolute/fixed and running() force float:none): running | fixed | absolute | float | "".
func (d *docSpec) effKind(slot int) string {
	for _, k := range []string{"running", "fixed", "absolute"} {
		if d.slotHas(slot, k) {
			return k
		}
	}
	if d.slotHas(slot, "float") || d.slotHas(slot, "float-right") {
		return "float"
	}
	return ""
}

// tree builds the body children of the document.
func (d *docSpec) tree() []*node {
	src := &wordSrc{}
	var out []*node
	for i, b := range d.Blocks {
		n := buildBlock(i, b, src)
		var st []string
		for _, v := range d.Devs {
			if v.Slot == i {
				st = append(st, strings.ReplaceAll(menu[v.D].CSS, "(hS)", fmt.Sprintf("(h%d)", i)))
			}
		}
		n.style = strings.Join(st, ";")
		out = append(out, n)
	}
	return out
}

func writeNode(sb *strings.Builder, n *node) {
	if n.tag == "" {
		sb.WriteString(n.text)
		return
	}
	sb.WriteString("<" + n.tag)
	if n.id != "" {
		sb.WriteString(" id=" + n.id)
	}
	if n.style != "" {
		sb.WriteString(` style="` + n.style + `"`)
	}
	sb.WriteString(">")
	for _, k := range n.kids {
		writeNode(sb, k)
	}
	sb.WriteString("</" + n.tag + ">")
}

const runningMargin = 20

// html renders the document for one page configuration.
func (d *docSpec) html(c pageCfg) string {
	var sb strings.Builder
	h := c.H
	if h == 0 {
		h = tallPage
	}
	if d.hasDev("running") {
		// one margin box per running block (each has a name of its own)
		mb := ""
		for i, pos := range []string{"@top-left", "@top-center", "@top-right"} {
			if d.slotHas(i, "running") {
				mb += fmt.Sprintf("%s{content:element(h%d)}", pos, i)
			}
		}
		fmt.Fprintf(&sb, "<style>@page{size:%dpx %dpx;margin:%dpx 0 0 0;%s}", d.W, h+runningMargin, runningMargin, mb)
	} else {
		fmt.Fprintf(&sb, "<style>@page{size:%dpx %dpx;margin:0}", d.W, h)
	}
	fmt.Fprintf(&sb, "html,body{margin:0;font-family:ahem;font-size:10px;line-height:1;orphans:%d;widows:%d}", c.Orphans, c.Widows)
	sb.WriteString("p,div,ul,table{margin:0}ul{padding:0 0 0 10px}table{border-spacing:0}td{padding:0}</style>")
	for i, n := range d.tree() {
		if i > 0 {
			sb.WriteString("\n") // inter-element white space
		}
		writeNode(&sb, n)
	}
	return sb.String()
}

// ---- flows (computed from the input alone) ------------------------------------------------

type flow struct {
	Key    string // "main" or the id of the element that establishes the flow
	Repeat bool   // CSS defines repetitions: thead/tfoot cell, running element, position:fixed (or inside one)
	Want   string // expected text: white-space collapsed source text of the flow
	// Site locates a failure of this flow: main | cell | thead-tfoot, or, for everything
	// inside an out-of-flow block, the kind of that block: float | absolute | fixed | running.
	Site string
}

type flowMap struct {
	flows  map[string]*flow
	order  []string
	ofElem map[string]string // element id -> flow key
}

func isBlockTag(tag string) bool { return tag != "span" }

// flowsOf computes the flows of the document and the expected text of each one with the
// reference white space collapser.
func (d *docSpec) flowsOf() *flowMap {
	fm := &flowMap{flows: map[string]*flow{}, ofElem: map[string]string{}}
	raw := map[string]*strings.Builder{}
	get := func(key string, repeat bool, site string) *flow {
		f := fm.flows[key]
		if f == nil {
			f = &flow{Key: key, Repeat: repeat, Site: site}
			fm.flows[key] = f
			fm.order = append(fm.order, key)
			raw[key] = &strings.Builder{}
		}
		return f
	}
	get("main", false, "main")
	var walk func(n *node, cur *flow, inRepeatGroup bool)
	walk = func(n *node, cur *flow, inRepeatGroup bool) {
		outer := "" // kind of the enclosing out-of-flow block
		if cur.Site != "main" && cur.Site != "cell" && cur.Site != "thead-tfoot" {
			outer = cur.Site
		}
		if n.tag == "" {
			raw[cur.Key].WriteString(n.text)
			return
		}
		if n.tag == "thead" || n.tag == "tfoot" {
			inRepeatGroup = true
		}
		own := cur
		if n.tag == "td" {
			site := outer
			if site == "" {
				site = "cell"
				if inRepeatGroup {
					site = "thead-tfoot"
				}
			}
			own = get(n.id, cur.Repeat || inRepeatGroup, site)
		} else if n.style != "" {
			kind := ""
			for _, k := range [][2]string{{"position:running", "running"}, {"position:fixed", "fixed"}, {"position:absolute", "absolute"}, {"float:", "float"}} {
				if strings.Contains(n.style, k[0]) {
					kind = k[1]
					break
				}
			}
			if kind != "" {
				site := outer
				if site == "" {
					site = kind
				}
				own = get(n.id, cur.Repeat || kind == "running" || kind == "fixed", site)
			}
		}
		if n.id != "" {
			fm.ofElem[n.id] = own.Key
		}
		if isBlockTag(n.tag) {
			raw[own.Key].WriteString(lineBoundary) // a block boundary is a line boundary
		}
		for _, k := range n.kids {
			walk(k, own, inRepeatGroup)
		}
		if isBlockTag(n.tag) {
			raw[own.Key].WriteString(lineBoundary)
		}
	}
	for _, n := range d.tree() {
		raw["main"].WriteString("\n") // the inter-element white space of the source
		walk(n, fm.flows["main"], false)
	}
	for k, f := range fm.flows {
		f.Want = collapse(raw[k].String())
	}
	return fm
}

// ---- feature tags (computed from the input alone) -----------------------------------------

// greedyLines is the number of lines of a word list broken greedily at width px (10px per
// character, words of 2 letters; a word wider than the line gets a line of its own).
func greedyLines(lens []int, width int) int {
	lines, cur := 0, 0
	for _, l := range lens {
		w := l * 10
		if cur == 0 {
			lines++
			cur = w
		} else if cur+10+w <= width {
			cur += 10 + w
		} else {
			lines++
			cur = w
		}
	}
	return lines
}

func wordLens(s string) []int {
	var out []int
	for _, w := range strings.Fields(s) {
		out = append(out, len(w))
	}
	return out
}

// estLines estimates the number of 10px lines the content of a block needs when laid out
// in a box of the given width (tables: one line per word of the tallest cell of each row,
// the narrowest possible layout; the estimate is only used for feature tags).
func estLines(n *node, width int) int {
	if width < 10 {
		width = 10
	}
	switch n.tag {
	case "table":
		total := 0
		for _, g := range n.kids {
			for _, r := range g.kids {
				mx := 0
				for _, c := range r.kids {
					if l := greedyLines(wordLens(plainText(c)), width/len(r.kids)); l > mx {
						mx = l
					}
				}
				total += mx
			}
		}
		return total
	case "ul":
		total := 0
		for _, li := range n.kids {
			total += greedyLines(wordLens(plainText(li)), width-10)
		}
		return total
	case "div":
		total := 0
		for _, k := range n.kids {
			if k.tag == "" {
				total += greedyLines(wordLens(k.text), width)
			} else {
				total += estLines(k, width)
			}
		}
		return total
	}
	return greedyLines(wordLens(plainText(n)), width)
}

func plainText(n *node) string {
	if n.tag == "" {
		return n.text
	}
	var sb strings.Builder
	for _, k := range n.kids {
		sb.WriteString(plainText(k))
	}
	return sb.String()
}

// extraHeight is the vertical margin+padding+border a block's deviations add (px).
func (d *docSpec) extraHeight(slot int) int {
	x := 0
	pad := 0
	for _, v := range d.Devs {
		if v.Slot != slot {
			continue
		}
		switch menu[v.D].Name {
		case "margin":
			x += 14
		case "padding":
			pad = 6
		case "clone":
			if pad == 0 {
				pad = 4
			}
		case "border":
			x += 4
		}
	}
	return x + pad
}

func (d *docSpec) features(c pageCfg) []string {
	set := map[string]bool{}
	tr := d.tree()
	for _, b := range d.Blocks {
		if b.Kind != kP {
			set[kindName[b.Kind]] = true
		}
	}
	for _, v := range d.Devs {
		set[menu[v.D].Name] = true
		set[menu[v.D].Name+">"+kindName[d.Blocks[v.Slot].Kind]] = true
	}
	if c.H == 0 {
		set["single-page"] = true
	} else {
		set["paged"] = true
		// natural height of the in-flow content and of every block
		total := 0
		slack := 0 // a collapsed margin can shift the static position of an out-of-flow box
		if d.hasDev("margin") {
			slack = 7
		}
		for i, n := range tr {
			eff := d.effKind(i)
			if eff != "" {
				set[eff] = true // float | absolute | fixed | running, after the position/float fix-ups
			}
			w := d.W
			if d.slotHas(i, "float") { // the width declared with the float applies even when position wins
				w = 30
			} else if d.slotHas(i, "float-right") {
				w = d.W * 6 / 10
			}
			hgt := estLines(n, w)*10 + d.extraHeight(i)
			if d.slotHas(i, "columns") && eff != "running" {
				colLines := estLines(n, (w-10)/2)
				hgt = (colLines+1)/2*10 + d.extraHeight(i)
				if hgt > c.H || total+hgt > c.H {
					set["page-break-in-columns"] = true
				}
				if eff != "" {
					// out of flow: the columns are not necessarily balanced, take the tallest outcome
					if h2 := colLines*10 + d.extraHeight(i); h2 > hgt {
						hgt = h2
					}
				}
			}
			oofSlack := slack
			if d.slotHas(i, "clone") {
				oofSlack += 8 // cloned decorations are reserved at every potential break
			}
			if eff != "" && eff != "running" && (hgt > c.H || total+hgt+oofSlack > c.H) {
				// the box does not fit between its naive static position and the bottom of a page
				set[eff+"-overflows-page"] = true
			}
			if n.tag == "table" && eff != "running" && tableCrowdsPage(n, w, c.H-d.extraHeight(i)) {
				set["table-header-footer-crowd-page"] = true
			}
			if eff == "running" && d.slotHas(i, "inline-block") {
				total += 10 // the line box that held the inline-level running element may stay in the flow
			}
			if eff == "" {
				total += hgt
				if d.slotHas(i, "columns") {
					// orphans/widows can keep all lines in one column: count the unbalanced height,
					// so that the position of the following boxes is never under-estimated
					if h2 := estLines(n, (w-10)/2)*10 + d.extraHeight(i); h2 > hgt {
						total += h2 - hgt
					}
				}
			}
		}
		if total > c.H {
			set["content-exceeds-page"] = true
		}
	}
	var out []string
	for k := range set {
		out = append(out, k)
	}
	sort.Strings(out)
	return out
}

// tableCrowdsPage says whether the header group, the footer group and some body row of the
// table cannot be on one page of height h together (upper bound of the row heights: a cell
// has one line when the max-content widths of all columns fit in w, otherwise at most one
// line per word).
func tableCrowdsPage(t *node, w, h int) bool {
	var colMax []int
	for _, g := range t.kids {
		for _, r := range g.kids {
			for ci, c := range r.kids {
				for len(colMax) <= ci {
					colMax = append(colMax, 0)
				}
				l := wordLens(plainText(c))
				mc := -10
				for _, x := range l {
					mc += 10 + x*10
				}
				if mc > colMax[ci] {
					colMax[ci] = mc
				}
			}
		}
	}
	sum := 0
	for _, x := range colMax {
		sum += x
	}
	rowLines := func(r *node) int {
		mx := 0
		for _, c := range r.kids {
			n := len(wordLens(plainText(c)))
			if sum <= w {
				n = 1
			}
			if n > mx {
				mx = n
			}
		}
		return mx
	}
	hf, body := 0, 0
	for _, g := range t.kids {
		for _, r := range g.kids {
			if g.tag == "tbody" {
				if l := rowLines(r); l > body {
					body = l
				}
			} else {
				hf += rowLines(r)
			}
		}
	}
	return hf > 0 && (hf+body)*10 > h
}
