package c05

import (
	"bytes"
	"fmt"
	"sort"
	"strings"

	"golang.org/x/net/html"
	"golang.org/x/net/html/atom"
)

// ---- document trees -------------------------------------------------------------------------
//
// Skeleton: <!DOCTYPE html><html><head></head><body> FOREST </body></html>.
// FOREST: an ordered forest of k element nodes over two tags. Deviations from the bare forest:
//   * a label (a set of attributes) on a node, at most one label per node;
//   * a filler sequence (white-space text, text, comment, ...) in a gap; gaps are the positions
//     before/between/after the children of <body> and of every forest element.
// A tree space is: all forests with k <= MaxK nodes x all tag assignments x all sets of
// deviations within the budgets of that k.

type label struct {
	name  string
	attrs []html.Attribute
}

func lab(kv ...string) label {
	var l label
	var parts []string
	for i := 0; i+1 < len(kv); i += 2 {
		l.attrs = append(l.attrs, html.Attribute{Key: kv[i], Val: kv[i+1]})
		parts = append(parts, fmt.Sprintf("%s=%q", kv[i], kv[i+1]))
	}
	l.name = strings.Join(parts, " ")
	return l
}

type fillerKind uint8

const (
	fiSpace   fillerKind = iota // " "
	fiNewline                   // "\n\t "
	fiText                      // "t"
	fiComment                   // <!--c-->
	fiNbsp                      // U+00A0 (not document white space)
	fiFF                        // "\f"
)

func (f fillerKind) isText() bool { return f != fiComment }
func (f fillerKind) data() string {
	switch f {
	case fiSpace:
		return " "
	case fiNewline:
		return "\n\t "
	case fiText:
		return "t"
	case fiComment:
		return "c"
	case fiNbsp:
		return "\u00a0"
	case fiFF:
		return "\f"
	}
	panic("c05: filler")
}
func (f fillerKind) String() string {
	return [...]string{"space", "newline-tab", "text", "comment", "nbsp", "formfeed"}[f]
}

type fseq []fillerKind // a filler sequence put in one gap; cost = len

// fillerSeqs returns all sequences of length <= maxLen over kinds that an HTML parser can
// produce (no two adjacent text nodes).
func fillerSeqs(kinds []fillerKind, maxLen int) []fseq {
	var out []fseq
	for _, k := range kinds {
		out = append(out, fseq{k})
	}
	if maxLen >= 2 {
		for _, a := range kinds {
			for _, b := range kinds {
				if a.isText() && b.isText() {
					continue
				}
				out = append(out, fseq{a, b})
			}
		}
	}
	return out
}

type budget struct{ labels, fillers, total int }

type dev struct {
	gap    bool  // false: label on node slot; true: filler sequence in gap slot
	slot   uint8 // node index (preorder) or gap index
	choice uint16
}

type shapeEntry struct {
	parent []int8  // preorder parent vector, -1 = <body>
	gapOf  [][]int // gapOf[c+1][j] = gap index of position j among the children of container c
	ngaps  int
	combos [][]dev
	offset int64 // index of the first tree of this shape
	count  int64 // len(Tags)^k * len(combos)
}

type treeSpace struct {
	Tags    []string
	Labels  []label
	Fillers []fseq
	Budget  []budget // per k = 0..MaxK
	shapes  []shapeEntry
	total   int64
	atoms   []atom.Atom
}

func forests(k int) [][]int8 {
	var out [][]int8
	cur := make([]int8, 0, k)
	var rec func()
	rec = func() {
		if len(cur) == k {
			out = append(out, append([]int8(nil), cur...))
			return
		}
		i := len(cur)
		// the parent of node i is <body> or a node on the rightmost path
		cands := []int8{-1}
		if i > 0 {
			var path []int8
			for p := int8(i - 1); p >= 0; p = cur[p] {
				path = append(path, p)
			}
			for j := len(path) - 1; j >= 0; j-- { // shallowest first
				cands = append(cands, path[j])
			}
		}
		for _, p := range cands {
			cur = append(cur, p)
			rec()
			cur = cur[:len(cur)-1]
		}
	}
	rec()
	return out
}

func (ts *treeSpace) build() {
	ts.atoms = make([]atom.Atom, len(ts.Tags))
	for i, t := range ts.Tags {
		ts.atoms[i] = atom.Lookup([]byte(t))
	}
	maxK := len(ts.Budget) - 1
	var off int64
	for k := 0; k <= maxK; k++ {
		for _, par := range forests(k) {
			e := shapeEntry{parent: par}
			nchild := make([]int, k+1)
			for _, p := range par {
				nchild[p+1]++
			}
			e.gapOf = make([][]int, k+1)
			for c := 0; c <= k; c++ {
				e.gapOf[c] = make([]int, nchild[c]+1)
				for j := range e.gapOf[c] {
					e.gapOf[c][j] = e.ngaps
					e.ngaps++
				}
			}
			e.combos = ts.combos(k, e.ngaps, ts.Budget[k])
			e.offset = off
			e.count = int64(len(e.combos))
			for i := 0; i < k; i++ {
				e.count *= int64(len(ts.Tags))
			}
			off += e.count
			ts.shapes = append(ts.shapes, e)
		}
	}
	ts.total = off
}

// combos enumerates every set of deviations within the budget, cheapest first.
func (ts *treeSpace) combos(k, ngaps int, b budget) [][]dev {
	type slot struct {
		gap bool
		idx uint8
	}
	var slots []slot
	for i := 0; i < k; i++ {
		slots = append(slots, slot{false, uint8(i)})
	}
	for g := 0; g < ngaps; g++ {
		slots = append(slots, slot{true, uint8(g)})
	}
	type item struct {
		devs []dev
		cost int
	}
	var all []item
	var cur []dev
	var rec func(si, lab, fil int)
	rec = func(si, lab, fil int) {
		if si == len(slots) {
			all = append(all, item{append([]dev(nil), cur...), lab + fil})
			return
		}
		rec(si+1, lab, fil) // default
		s := slots[si]
		if !s.gap {
			if lab+1 <= b.labels && lab+fil+1 <= b.total {
				for c := range ts.Labels {
					cur = append(cur, dev{false, s.idx, uint16(c)})
					rec(si+1, lab+1, fil)
					cur = cur[:len(cur)-1]
				}
			}
		} else {
			for c, fs := range ts.Fillers {
				if fil+len(fs) <= b.fillers && lab+fil+len(fs) <= b.total {
					cur = append(cur, dev{true, s.idx, uint16(c)})
					rec(si+1, lab, fil+len(fs))
					cur = cur[:len(cur)-1]
				}
			}
		}
	}
	rec(0, 0, 0)
	sort.SliceStable(all, func(i, j int) bool { return all[i].cost < all[j].cost })
	out := make([][]dev, len(all))
	for i := range all {
		out[i] = all[i].devs
	}
	return out
}

// ---- building one tree ----------------------------------------------------------------------

const (
	tSibGap   = 1 << iota // a text/comment node lies between two element siblings
	tWsLeaf               // an element whose children are only white space text / comments (>= 1 child)
	tMixedSib             // an element has children of both tags
	tText
	tComment
	tNbsp
)

type tree struct {
	doc        *html.Node
	elems      []*html.Node // all element nodes in document order
	flags      uint32
	afterGap   uint16 // bit j: elems[j] has an earlier element sibling and a non-element node right before it
	wsOnlyLeaf uint16 // bit j: elems[j] has >= 1 child, all of them white space text or comments
	index      int64
	arena      []html.Node // reused between trees built into the same slot
}

func (ts *treeSpace) locate(i int64) (*shapeEntry, uint32, []dev) {
	lo, hi := 0, len(ts.shapes)
	for hi-lo > 1 {
		m := (lo + hi) / 2
		if ts.shapes[m].offset <= i {
			lo = m
		} else {
			hi = m
		}
	}
	e := &ts.shapes[lo]
	r := i - e.offset
	nc := int64(len(e.combos))
	return e, uint32(r / nc), e.combos[r%nc]
}

func (ts *treeSpace) at(i int64, t *tree) {
	e, tags, devs := ts.locate(i)
	k := len(e.parent)
	nfill := 0
	for _, d := range devs {
		if d.gap {
			nfill += len(ts.Fillers[d.choice])
		}
	}
	need := 5 + k + nfill
	if cap(t.arena) < need {
		t.arena = make([]html.Node, 32)
	}
	arena := t.arena[:need]
	for i := range arena {
		arena[i] = html.Node{}
	}
	next := 0
	alloc := func(typ html.NodeType, data string, a atom.Atom) *html.Node {
		n := &arena[next]
		next++
		n.Type, n.Data, n.DataAtom = typ, data, a
		return n
	}
	doc := alloc(html.DocumentNode, "", 0)
	doc.AppendChild(alloc(html.DoctypeNode, "html", 0))
	root := alloc(html.ElementNode, "html", atom.Html)
	doc.AppendChild(root)
	head := alloc(html.ElementNode, "head", atom.Head)
	root.AppendChild(head)
	body := alloc(html.ElementNode, "body", atom.Body)
	root.AppendChild(body)

	var gapFill [32]int32 // filler choice + 1 per gap
	for _, d := range devs {
		if d.gap {
			gapFill[d.slot] = int32(d.choice) + 1
		}
	}
	var nodes [8]*html.Node
	for i := 0; i < k; i++ {
		tg := tags % uint32(len(ts.Tags))
		tags /= uint32(len(ts.Tags))
		nodes[i] = alloc(html.ElementNode, ts.Tags[tg], ts.atoms[tg])
	}
	for _, d := range devs {
		if !d.gap {
			nodes[d.slot].Attr = ts.Labels[d.choice].attrs
		}
	}
	container := func(c int) *html.Node {
		if c == 0 {
			return body
		}
		return nodes[c-1]
	}
	var nplaced [9]int
	fill := func(c int) {
		g := e.gapOf[c][nplaced[c]]
		if f := gapFill[g]; f != 0 {
			for _, fk := range ts.Fillers[f-1] {
				if fk == fiComment {
					container(c).AppendChild(alloc(html.CommentNode, fk.data(), 0))
				} else {
					container(c).AppendChild(alloc(html.TextNode, fk.data(), 0))
				}
			}
		}
	}
	// preorder: a node is appended to its parent after everything before it; the gap before
	// child j of container c is filled right before that child is appended, the last gap when
	// the container is closed.
	open := []int{0} // stack of open containers (container ids)
	closeTop := func() {
		c := open[len(open)-1]
		fill(c)
		open = open[:len(open)-1]
	}
	for i := 0; i < k; i++ {
		pc := int(e.parent[i]) + 1
		for open[len(open)-1] != pc {
			closeTop()
		}
		fill(pc)
		container(pc).AppendChild(nodes[i])
		nplaced[pc]++
		open = append(open, i+1)
	}
	for len(open) > 0 {
		closeTop()
	}

	t.doc = doc
	t.index = i
	t.elems = append(t.elems[:0], root, head, body)
	// document order of the forest = preorder = index order
	for i := 0; i < k; i++ {
		t.elems = append(t.elems, nodes[i])
	}
	t.flags, t.afterGap, t.wsOnlyLeaf = 0, 0, 0
	for j, n := range t.elems {
		if p := n.PrevSibling; p != nil && p.Type != html.ElementNode {
			for q := p; q != nil; q = q.PrevSibling {
				if q.Type == html.ElementNode {
					t.afterGap |= 1 << uint(j)
					t.flags |= tSibGap
					break
				}
			}
		}
		if n.FirstChild != nil {
			ws := true
			first := ""
			for c := n.FirstChild; c != nil; c = c.NextSibling {
				switch c.Type {
				case html.ElementNode:
					ws = false
					if first == "" {
						first = c.Data
					} else if c.Data != first {
						t.flags |= tMixedSib
					}
				case html.TextNode:
					t.flags |= tText
					if strings.Trim(c.Data, wsChars) != "" {
						ws = false
					}
					if c.Data == "\u00a0" {
						t.flags |= tNbsp
					}
				case html.CommentNode:
					t.flags |= tComment
				}
			}
			if ws {
				t.wsOnlyLeaf |= 1 << uint(j)
				t.flags |= tWsLeaf
			}
		}
	}
}

// treeTags: feature tags of a tree (computed from the tree alone), used for failures.
func (t *tree) tags() []string {
	set := map[string]bool{}
	if t.flags&tSibGap != 0 {
		set["tree:non-element-between-siblings"] = true
	}
	if t.flags&tWsLeaf != 0 {
		set["tree:ws-or-comment-only-element"] = true
	}
	if t.flags&tNbsp != 0 {
		set["tree:nbsp-text"] = true
	}
	if t.flags&tComment != 0 {
		set["tree:comment"] = true
	}
	if t.flags&tText != 0 {
		set["tree:text"] = true
	}
	for _, n := range t.elems {
		for _, a := range n.Attr {
			switch {
			case a.Val == "":
				set["tree-attr:empty"] = true
			case strings.Trim(a.Val, wsChars) == "":
				set["tree-attr:ws-only"] = true
			case strings.ContainsAny(a.Val, wsChars):
				set["tree-attr:ws-in-value"] = true
			}
			if !isASCII(a.Val) {
				set["tree-attr:non-ascii"] = true
			}
		}
	}
	out := make([]string, 0, len(set))
	for k := range set {
		out = append(out, k)
	}
	sort.Strings(out)
	return out
}

func (t *tree) html() string {
	var b bytes.Buffer
	html.Render(&b, t.doc)
	return b.String()
}

// nodePath names element j of the tree, e.g. "html>body>div[2]".
func (t *tree) nodePath(j int) string {
	var parts []string
	for n := t.elems[j]; n != nil && n.Type == html.ElementNode; n = n.Parent {
		idx := 1
		for p := n.PrevSibling; p != nil; p = p.PrevSibling {
			if p.Type == html.ElementNode {
				idx++
			}
		}
		parts = append([]string{fmt.Sprintf("%s[%d]", n.Data, idx)}, parts...)
	}
	return strings.Join(parts, ">")
}

// dump is a neutral structural form used to check that a built tree is exactly what the HTML
// parser produces from its serialization.
func dump(n *html.Node, b *strings.Builder) {
	switch n.Type {
	case html.DocumentNode:
		b.WriteString("doc(")
	case html.DoctypeNode:
		fmt.Fprintf(b, "doctype:%s(", n.Data)
	case html.ElementNode:
		fmt.Fprintf(b, "<%s|%d|%s", n.Data, n.DataAtom, n.Namespace)
		for _, a := range n.Attr {
			fmt.Fprintf(b, " %s|%s=%q", a.Namespace, a.Key, a.Val)
		}
		b.WriteString(">(")
	case html.TextNode:
		fmt.Fprintf(b, "text:%q(", n.Data)
	case html.CommentNode:
		fmt.Fprintf(b, "comment:%q(", n.Data)
	default:
		fmt.Fprintf(b, "other:%d(", n.Type)
	}
	for c := n.FirstChild; c != nil; c = c.NextSibling {
		dump(c, b)
	}
	b.WriteString(")")
}

func (ts *treeSpace) bounds() map[string]any {
	var labs []string
	for _, l := range ts.Labels {
		labs = append(labs, l.name)
	}
	var fills []string
	for _, f := range ts.Fillers {
		var p []string
		for _, k := range f {
			p = append(p, k.String())
		}
		fills = append(fills, strings.Join(p, "+"))
	}
	var bud []string
	for k, b := range ts.Budget {
		bud = append(bud, fmt.Sprintf("k=%d: labels<=%d fillers<=%d total<=%d", k, b.labels, b.fillers, b.total))
	}
	return map[string]any{"tags": ts.Tags, "max_forest_elements": len(ts.Budget) - 1, "labels": labs, "gap_fillers": fills,
		"deviation_budget": bud, "trees": ts.total}
}
