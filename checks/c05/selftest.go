package c05

import (
	"fmt"
	"strings"

	"golang.org/x/net/html"
)

// refSelfTest runs examples taken from Selectors Level 4 (and CSS 2.1 / Selectors 3 where the
// text is unchanged) through the reference before anything is explored. A failure is a broken
// check, not a verdict: it panics.

func stParse(src string) map[string]*html.Node {
	doc, err := html.Parse(strings.NewReader(src))
	if err != nil {
		panic(err)
	}
	out := map[string]*html.Node{}
	var walk func(n *html.Node)
	walk = func(n *html.Node) {
		if n.Type == html.ElementNode {
			if v, ok := attrOf(n, "n"); ok {
				out[v] = n
			}
			out["<"+n.Data+">"] = n
		}
		for c := n.FirstChild; c != nil; c = c.NextSibling {
			walk(c)
		}
	}
	walk(doc)
	return out
}

func refSelfTest() {
	fail := func(format string, a ...any) { panic("c05: reference self-test failed: " + fmt.Sprintf(format, a...)) }
	expect := func(what string, got, want bool) {
		if got != want {
			fail("%s: got %v want %v", what, got, want)
		}
	}
	m := func(c complexSel, n *html.Node) bool { return refComplex(&c, n, nil) }

	// --- an+b (Selectors 4 §13.4 / CSS Syntax "An+B"): which 1-based indices are selected
	type nthCase struct {
		a, b int
		want []int // among 1..10
	}
	for _, t := range []nthCase{
		{2, 1, []int{1, 3, 5, 7, 9}}, {2, 0, []int{2, 4, 6, 8, 10}}, {4, 1, []int{1, 5, 9}}, {-1, 6, []int{1, 2, 3, 4, 5, 6}},
		{-4, 10, []int{2, 6, 10}}, {0, 5, []int{5}}, {1, 0, []int{1, 2, 3, 4, 5, 6, 7, 8, 9, 10}}, {2, -1, []int{1, 3, 5, 7, 9}},
		{3, -2, []int{1, 4, 7, 10}}, {-1, -1, nil}, {-2, -1, nil}, {0, 0, nil}, {0, -1, nil}, {-1, 0, nil}, {-2, 4, []int{2, 4}}, {1, -1, []int{1, 2, 3, 4, 5, 6, 7, 8, 9, 10}},
	} {
		var got []int
		for i := 1; i <= 10; i++ {
			if inAnPlusB(t.a, t.b, i) {
				got = append(got, i)
			}
		}
		if fmt.Sprint(got) != fmt.Sprint(t.want) {
			fail("%dn+%d selects %v, want %v", t.a, t.b, got, t.want)
		}
	}

	// --- structure
	d := stParse(`<!DOCTYPE html><html><head></head><body>` +
		`<ul n=ul><li n=l1 class="a b">one</li> <!--c--> <li n=l2 id=two>two</li>text<p n=p1></p><li n=l3 lang="en-US"> </li><li n=l4><!--c--></li></ul>` +
		`<div n=d1><span n=s1></span></div></body></html>`)
	li, p := sTag("li"), sTag("p")
	expect("li:first-child l1", m(c1(li, sPseudo("first-child")), d["l1"]), true)
	expect("li:first-child l2", m(c1(li, sPseudo("first-child")), d["l2"]), false)
	expect("li:last-child l4", m(c1(li, sPseudo("last-child")), d["l4"]), true)
	expect("li:nth-child(2) l2 (text and comments are not counted)", m(c1(li, sNth(0, 2, false, false)), d["l2"]), true)
	expect("li:nth-child(4) l3", m(c1(li, sNth(0, 4, false, false)), d["l3"]), true)
	expect("li:nth-of-type(3) l3", m(c1(li, sNth(0, 3, false, true)), d["l3"]), true)
	expect("li:nth-last-of-type(2) l3", m(c1(li, sNth(0, 2, true, true)), d["l3"]), true)
	expect("p:only-of-type p1", m(c1(p, sPseudo("only-of-type")), d["p1"]), true)
	expect("p:only-child p1", m(c1(p, sPseudo("only-child")), d["p1"]), false)
	expect("span:only-child s1", m(c1(sTag("span"), sPseudo("only-child")), d["s1"]), true)
	expect("li + li across white space and a comment", m(cx("+", cp(li), cp(li)), d["l2"]), true)
	expect("li + p across text", m(cx("+", cp(li), cp(p)), d["p1"]), true)
	expect("li + li l3 (previous element is p)", m(cx("+", cp(li), cp(li)), d["l3"]), false)
	expect("li ~ li l3", m(cx("~", cp(li), cp(li)), d["l3"]), true)
	expect("p ~ li l2", m(cx("~", cp(p), cp(li)), d["l2"]), false)
	expect("ul > li", m(cx(">", cp(sTag("ul")), cp(li)), d["l1"]), true)
	expect("body > li", m(cx(">", cp(sTag("body")), cp(li)), d["l1"]), false)
	expect("body li", m(cx(" ", cp(sTag("body")), cp(li)), d["l1"]), true)
	expect("html > body span (mixed)", m(cx("> ", cp(sTag("html")), cp(sTag("body")), cp(sTag("span"))), d["s1"]), true)
	expect("div > body span", m(cx("> ", cp(sTag("div")), cp(sTag("body")), cp(sTag("span"))), d["s1"]), false)
	expect(":root html", m(c1(sPseudo("root")), d["<html>"]), true)
	expect(":root body", m(c1(sPseudo("root")), d["<body>"]), false)
	// :empty, Selectors 4 §13.2: white space does not count, comments do not count
	expect(":empty p1", m(c1(sPseudo("empty")), d["p1"]), true)
	expect(":empty l3 (white space only)", m(c1(sPseudo("empty")), d["l3"]), true)
	expect(":empty l4 (comment only)", m(c1(sPseudo("empty")), d["l4"]), true)
	expect(":empty l1 (text)", m(c1(sPseudo("empty")), d["l1"]), false)
	expect(":empty d1 (element child)", m(c1(sPseudo("empty")), d["d1"]), false)
	// type selectors: case-insensitive in HTML; class: white-space separated, case-sensitive
	expect("LI l1", m(c1(sTag("LI")), d["l1"]), true)
	expect(".b l1", m(c1(sClass("b")), d["l1"]), true)
	expect(".B l1", m(c1(sClass("B")), d["l1"]), false)
	expect(".a.b l1", m(c1(sClass("a"), sClass("b")), d["l1"]), true)
	expect("#two l2", m(c1(sID("two")), d["l2"]), true)
	expect("#Two l2", m(c1(sID("Two")), d["l2"]), false)
	// attribute selectors §6
	at := func(op, v string, ci bool) complexSel { return c1(sAttr("lang", op, v, ci)) }
	expect(`[lang|="en"] en-US`, m(at("|=", "en", false), d["l3"]), true)
	expect(`[lang|="en-U"]`, m(at("|=", "en-U", false), d["l3"]), false)
	expect(`[lang^="en"]`, m(at("^=", "en", false), d["l3"]), true)
	expect(`[lang$="US"]`, m(at("$=", "US", false), d["l3"]), true)
	expect(`[lang$="us"]`, m(at("$=", "us", false), d["l3"]), false)
	expect(`[lang$="us" i]`, m(at("$=", "us", true), d["l3"]), true)
	expect(`[lang*="-"]`, m(at("*=", "-", false), d["l3"]), true)
	expect(`[lang^=""] (empty value matches nothing)`, m(at("^=", "", false), d["l3"]), false)
	expect(`[lang$=""]`, m(at("$=", "", false), d["l3"]), false)
	expect(`[lang*=""]`, m(at("*=", "", false), d["l3"]), false)
	expect(`[lang~=""]`, m(at("~=", "", false), d["l3"]), false)
	expect(`[lang="EN-us" i]`, m(at("=", "EN-us", true), d["l3"]), true)
	expect(`[lang="EN-us"]`, m(at("=", "EN-us", false), d["l3"]), false)
	expect(`[class~="b"] l1`, m(c1(sAttr("class", "~=", "b", false)), d["l1"]), true)
	expect(`[class~="a b"] l1 (value with white space matches nothing)`, m(c1(sAttr("class", "~=", "a b", false)), d["l1"]), false)
	expect(`[class="a b"] l1`, m(c1(sAttr("class", "=", "a b", false)), d["l1"]), true)
	expect(`[LANG]`, m(c1(sAttrE("LANG")), d["l3"]), true)
	expect(`[id] l1`, m(c1(sAttrE("id")), d["l1"]), false)
	// :not / :is / :has
	expect(":not(.a, #two) l3", m(c1(sFn(kNot, c1(sClass("a")), c1(sID("two")))), d["l3"]), true)
	expect(":not(.a, #two) l2", m(c1(sFn(kNot, c1(sClass("a")), c1(sID("two")))), d["l2"]), false)
	expect(":is(.a, #two) l2", m(c1(sFn(kIs, c1(sClass("a")), c1(sID("two")))), d["l2"]), true)
	expect(":is(ul > li) l1", m(c1(sFn(kIs, cx(">", cp(sTag("ul")), cp(li)))), d["l1"]), true)
	expect(":not(body > li) l1", m(c1(sFn(kNot, cx(">", cp(sTag("body")), cp(li)))), d["l1"]), true)
	expect("ul:has(p)", m(c1(sTag("ul"), sFn(kHas, c1(p))), d["ul"]), true)
	expect("body:has(span)", m(c1(sTag("body"), sFn(kHas, c1(sTag("span")))), d["<body>"]), true)
	expect("div:has(li)", m(c1(sTag("div"), sFn(kHas, c1(li))), d["d1"]), false)
	expect("span:has(span) (the anchor itself is not a descendant)", m(c1(sFn(kHas, c1(sTag("span")))), d["s1"]), false)
	expect("body:has(div > span)", m(c1(sFn(kHas, cx(">", cp(sTag("div")), cp(sTag("span"))))), d["<body>"]), true)
	// relative selector ":scope div > span": the div must be a descendant of the anchor
	expect("div:has(div > span) (anchored: div is the anchor, not a descendant)", m(c1(sFn(kHas, cx(">", cp(sTag("div")), cp(sTag("span"))))), d["d1"]), false)
	expect("div:has(body span)", m(c1(sFn(kHas, cx(" ", cp(sTag("body")), cp(sTag("span"))))), d["d1"]), false)
	expect("ul:has(li + p)", m(c1(sFn(kHas, cx("+", cp(li), cp(p)))), d["ul"]), true)
	expect(":hover never matches a static document", m(c1(sDyn("hover")), d["l1"]), false)

	// --- specificity examples of Selectors 4 §17 (and Selectors 3 §9)
	sc := func(what string, c complexSel, want spec) {
		if got := specComplex(&c); got != want {
			fail("specificity of %s (%s): got %v want %v", what, c.String(), got, want)
		}
	}
	ol, ul, h1, em, strong := sTag("OL"), sTag("UL"), sTag("H1"), sTag("em"), sTag("strong")
	sc("*", c1(sUniv()), spec{0, 0, 0})
	sc("LI", c1(sTag("LI")), spec{0, 0, 1})
	sc("UL LI", cx(" ", cp(ul), cp(li)), spec{0, 0, 2})
	sc("UL OL+LI", cx(" +", cp(ul), cp(ol), cp(li)), spec{0, 0, 3})
	sc("H1 + *[REL=up]", cx("+", cp(h1), cp(sUniv(), sAttr("REL", "=", "up", false))), spec{0, 1, 1})
	sc("UL OL LI.red", cx("  ", cp(ul), cp(ol), cp(li, sClass("red"))), spec{0, 1, 3})
	sc("LI.red.level", c1(li, sClass("red"), sClass("level")), spec{0, 2, 1})
	sc("#x34y", c1(sID("x34y")), spec{1, 0, 0})
	sc("#s12:not(FOO)", c1(sID("s12"), sFn(kNot, c1(sTag("FOO")))), spec{1, 0, 1})
	sc(".foo :is(.bar, #baz)", cx(" ", cp(sClass("foo")), cp(sFn(kIs, c1(sClass("bar")), c1(sID("baz"))))), spec{1, 1, 0})
	sc(":is(em, #foo)", c1(sFn(kIs, c1(em), c1(sID("foo")))), spec{1, 0, 0})
	sc(":not(em, strong#foo)", c1(sFn(kNot, c1(em), c1(strong, sID("foo")))), spec{1, 0, 1})
	sc("div:has(> p.x) ~ :has(a b)", c1(sTag("div"), sFn(kHas, cx(" ", cp(sTag("a")), cp(sTag("b"))))), spec{0, 0, 3})
	sc("li:nth-child(2n+1)", c1(li, sNth(2, 1, false, false)), spec{0, 1, 1})
	sc("li::first-line", c1pe("first-line", li), spec{0, 0, 2})
	sc("a:hover", c1(sTag("a"), sDyn("hover")), spec{0, 1, 1})
	sc("a:not(:hover)", c1(sTag("a"), sFn(kNot, c1(sDyn("hover")))), spec{0, 1, 1})

	// --- printer
	for _, t := range []struct{ got, want string }{
		{c1(sClass("1x")).String(), `.\31 x`}, {c1(sID("x.y")).String(), `#x\.y`}, {c1(sAttr("t", "=", `v"w`, true)).String(), `[t="v\"w" i]`},
		{c1(sNth(-2, -1, true, true)).String(), ":nth-last-of-type(-2n-1)"}, {c1(sNth(0, 2, false, false)).String(), ":nth-child(0n+2)"},
		{cx(" >", cp(sTag("a")), cp(sUniv()), cpPE("before", sClass("x"))).String(), "a * > .x::before"},
		{selList{c1(sFn(kNot, c1(sTag("a")), cx("~", cp(sTag("a")), cp(sTag("b"))))), c1pe("after")}.String(), ":not(a, a ~ b), ::after"},
	} {
		if t.got != t.want {
			fail("printer: got %q want %q", t.got, t.want)
		}
	}
}
