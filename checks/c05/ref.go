package c05

import (
	"golang.org/x/net/html"
)

// Reference matcher written from Selectors Level 4 (structural recursion over the AST).
// It is only ever called with element nodes.

func isWS(c byte) bool { return c == ' ' || c == '\t' || c == '\n' || c == '\f' || c == '\r' }

func lowerASCII(s string) string {
	for i := 0; i < len(s); i++ {
		if s[i] >= 'A' && s[i] <= 'Z' {
			b := []byte(s)
			for j := i; j < len(b); j++ {
				if b[j] >= 'A' && b[j] <= 'Z' {
					b[j] += 'a' - 'A'
				}
			}
			return string(b)
		}
	}
	return s
}

func attrOf(n *html.Node, key string) (string, bool) {
	for i := range n.Attr {
		if n.Attr[i].Namespace == "" && n.Attr[i].Key == key {
			return n.Attr[i].Val, true
		}
	}
	return "", false
}

// hasWord: v, split on white space, contains the word w.
func hasWord(v, w string) bool {
	i := 0
	for i < len(v) {
		for i < len(v) && isWS(v[i]) {
			i++
		}
		j := i
		for j < len(v) && !isWS(v[j]) {
			j++
		}
		if j > i && v[i:j] == w {
			return true
		}
		i = j
	}
	return false
}

func hasPrefix(v, p string) bool { return len(v) >= len(p) && v[:len(p)] == p }
func hasSuffix(v, p string) bool { return len(v) >= len(p) && v[len(v)-len(p):] == p }
func contains(v, p string) bool {
	for i := 0; i+len(p) <= len(v); i++ {
		if v[i:i+len(p)] == p {
			return true
		}
	}
	return false
}

func refAttr(s *simple, n *html.Node) bool {
	// attribute names of HTML elements in HTML documents are matched ASCII case-insensitively
	v, ok := attrOf(n, lowerASCII(s.name))
	if !ok {
		return false
	}
	if s.op == "" {
		return true
	}
	val := s.val
	if s.ci {
		v, val = lowerASCII(v), lowerASCII(val)
	}
	switch s.op {
	case "=":
		return v == val
	case "~=":
		// "If val contains white space it will never represent anything; also if it is the empty string"
		if val == "" {
			return false
		}
		for i := 0; i < len(val); i++ {
			if isWS(val[i]) {
				return false
			}
		}
		return hasWord(v, val)
	case "|=":
		return v == val || hasPrefix(v, val+"-")
	case "^=":
		return val != "" && hasPrefix(v, val)
	case "$=":
		return val != "" && hasSuffix(v, val)
	case "*=":
		return val != "" && contains(v, val)
	}
	panic("c05: unknown attribute operator " + s.op)
}

// siblingIndex returns the 1-based index of n among its element siblings (of the same type if
// ofType), counted from the start or, if last, from the end.
func siblingIndex(n *html.Node, last, ofType bool) int {
	idx := 1
	if !last {
		for c := n.PrevSibling; c != nil; c = c.PrevSibling {
			if c.Type == html.ElementNode && (!ofType || (c.Data == n.Data && c.Namespace == n.Namespace)) {
				idx++
			}
		}
	} else {
		for c := n.NextSibling; c != nil; c = c.NextSibling {
			if c.Type == html.ElementNode && (!ofType || (c.Data == n.Data && c.Namespace == n.Namespace)) {
				idx++
			}
		}
	}
	return idx
}

// inAnPlusB: exists an integer k >= 0 with a*k + b == idx.
func inAnPlusB(a, b, idx int) bool {
	d := idx - b
	if a == 0 {
		return d == 0
	}
	if d%a != 0 {
		return false
	}
	return d/a >= 0
}

func refSimple(s *simple, n *html.Node) bool {
	switch s.kind {
	case kUniv:
		return true
	case kTag:
		return n.Data == lowerASCII(s.name)
	case kClass:
		v, ok := attrOf(n, "class")
		return ok && hasWord(v, s.name)
	case kID:
		v, ok := attrOf(n, "id")
		return ok && v == s.name
	case kAttr:
		return refAttr(s, n)
	case kDyn:
		return false
	case kPseudo:
		switch s.name {
		case "root":
			return n.Parent != nil && n.Parent.Type == html.DocumentNode
		case "empty":
			for c := n.FirstChild; c != nil; c = c.NextSibling {
				switch c.Type {
				case html.ElementNode:
					return false
				case html.TextNode:
					for i := 0; i < len(c.Data); i++ {
						if !isWS(c.Data[i]) {
							return false
						}
					}
				}
			}
			return true
		case "first-child":
			return siblingIndex(n, false, false) == 1
		case "last-child":
			return siblingIndex(n, true, false) == 1
		case "only-child":
			return siblingIndex(n, false, false) == 1 && siblingIndex(n, true, false) == 1
		case "first-of-type":
			return siblingIndex(n, false, true) == 1
		case "last-of-type":
			return siblingIndex(n, true, true) == 1
		case "only-of-type":
			return siblingIndex(n, false, true) == 1 && siblingIndex(n, true, true) == 1
		}
		panic("c05: unknown pseudo-class " + s.name)
	case kNth:
		return inAnPlusB(s.a, s.b, siblingIndex(n, s.last, s.ofType))
	case kNot:
		for i := range s.args {
			if refComplex(&s.args[i], n, nil) {
				return false
			}
		}
		return true
	case kIs:
		for i := range s.args {
			if refComplex(&s.args[i], n, nil) {
				return true
			}
		}
		return false
	case kHas:
		// each argument is a relative selector with an implied leading descendant combinator,
		// i.e. ":scope ARG" with :scope = n: every compound of ARG is matched by a proper
		// descendant of n.
		return refHasWalk(s, n, n)
	}
	panic("c05: unknown simple kind")
}

func refHasWalk(s *simple, anchor, p *html.Node) bool {
	for c := p.FirstChild; c != nil; c = c.NextSibling {
		if c.Type != html.ElementNode {
			continue
		}
		for i := range s.args {
			if refComplex(&s.args[i], c, anchor) {
				return true
			}
		}
		if refHasWalk(s, anchor, c) {
			return true
		}
	}
	return false
}

func refCompound(c *compound, n *html.Node) bool {
	for i := range c.parts {
		if !refSimple(&c.parts[i], n) {
			return false
		}
	}
	return true
}

// refComplex: does n match c? With scope != nil, every element used to match a compound
// must be a proper descendant of scope (relative selector anchored at scope).
func refComplex(c *complexSel, n *html.Node, scope *html.Node) bool {
	return refFrom(c, len(c.comps)-1, n, scope)
}

func refFrom(c *complexSel, i int, n *html.Node, scope *html.Node) bool {
	if !refCompound(&c.comps[i], n) {
		return false
	}
	if i == 0 {
		return true
	}
	switch c.combs[i-1] {
	case ' ':
		for p := n.Parent; p != nil && p != scope; p = p.Parent {
			if p.Type == html.ElementNode && refFrom(c, i-1, p, scope) {
				return true
			}
		}
		return false
	case '>':
		p := n.Parent
		return p != nil && p != scope && p.Type == html.ElementNode && refFrom(c, i-1, p, scope)
	case '+':
		for p := n.PrevSibling; p != nil; p = p.PrevSibling {
			if p.Type == html.ElementNode {
				return refFrom(c, i-1, p, scope)
			}
		}
		return false
	case '~':
		for p := n.PrevSibling; p != nil; p = p.PrevSibling {
			if p.Type == html.ElementNode && refFrom(c, i-1, p, scope) {
				return true
			}
		}
		return false
	}
	panic("c05: unknown combinator")
}
