// Package c05: selectors match and weigh elements as the Selectors spec defines.
//
// Bounded exhaustive exploration of (selector AST) x (document tree) x (element): every selector
// of the enumerated grammar is printed, parsed by css/selector, and evaluated on every element
// of every enumerated golang.org/x/net/html tree; the result is compared with a reference
// matcher written from Selectors Level 4. Specificity, pseudo-element and the print/parse
// round trip (parse, match-equivalence on all trees, equal specificity) are compared as well.
package c05

import (
	"fmt"
	"strconv"
	"strings"

	"github.com/benoitkugler/webrender/css/selector"
	"golang.org/x/net/html"

	"verif/internal/engine"
)

type check struct {
	tier    string
	spaces  []*space
	unitOff []int64 // unitOff[i] = first unit of space i; len = len(spaces)+1
	featIdx map[string][]string
}

func init() { engine.Register(&check{}) }

// ballast: every case costs two tiny allocations inside engine.Ctx.Case (the outcome hash); with
// a live heap of ~2 MB the collector would run every few MB, i.e. millions of times per run. A
// never-touched (hence non-resident) block raises the heap goal so that collections are rare.
var ballast []byte

func (c *check) ID() string { return "C05" }

func ceilDiv(a, b int64) int64 { return (a + b - 1) / b }

func (s *space) nSelBatches() int64 { return ceilDiv(int64(len(s.sels)), int64(s.batch)) }
func (s *space) nTreeBlocks() int64 { return ceilDiv(s.trees.total, s.block) }
func (s *space) units() int64       { return s.nSelBatches() * s.nTreeBlocks() }
func (s *space) cases() int64       { return int64(len(s.sels)) * s.trees.total }
func (s *space) selRange(sb int64) (int, int) {
	lo := int(sb) * s.batch
	hi := lo + s.batch
	if hi > len(s.sels) {
		hi = len(s.sels)
	}
	return lo, hi
}
func (s *space) treeRange(tb int64) (int64, int64) {
	lo := tb * s.block
	hi := lo + s.block
	if hi > s.trees.total {
		hi = s.trees.total
	}
	return lo, hi
}

func (c *check) Init(tier string, seed int64) engine.Space {
	c.tier = tier
	if ballast == nil {
		ballast = make([]byte, 48<<20)
	}
	c.spaces = buildSpaces(tier)
	refSelfTest()
	c.unitOff = make([]int64, len(c.spaces)+1)
	bounds := map[string]any{}
	var totalCases int64
	for i, s := range c.spaces {
		c.unitOff[i+1] = c.unitOff[i] + s.units()
		b := s.trees.bounds()
		b["selector_lists"] = len(s.sels)
		b["cases"] = s.cases()
		b["about"] = s.about
		bounds["space:"+s.name] = b
		totalCases += s.cases()
	}
	bounds["cases_total"] = totalCases
	bounds["tags"] = []string{tagA + " (known to x/net/html/atom)", tagB + " (unknown to the atom table)", "space types: + span (atom), yy (non-atom)"}
	bounds["skeleton"] = "<!DOCTYPE html><html><head></head><body>FOREST</body></html>; every element (html, head, body, forest) is evaluated"
	budget := 100.0
	if tier == "thorough" {
		budget = 1500
	}
	return engine.Space{
		Units: c.unitOff[len(c.spaces)], Chunk: 4, Level: "model_checking",
		Rule: "seven spaces, each = a list of selector ASTs x a tree space (all ordered forests of <= k elements under <body> x all tag assignments x all sets of label/gap-filler deviations within the budget of that k); " +
			"unit = 8 selector lists x a block of <= 16384 trees; a case (state) is one (selector list, tree) pair evaluated on every element of the tree; transitions = element evaluations compared with the reference; " +
			"a case is non-trivial when the reference matches at least one and misses at least one element of the tree",
		Bounds: bounds,
		Assumptions: []string{
			"tags, class/id/attribute names and values outside the menus behave like their class representatives",
			"functional pseudo-classes nest once; complex selectors have <= 3 compounds; lists <= 3",
			"trees larger than the stated element counts / deviation budgets are not explored",
			"HTML documents in no-quirks mode (class and id are case-sensitive); no namespaces, :lang, form-state pseudo-classes, or the non-standard :contains/:matches/:haschild/!=/#= extensions",
		},
		BudgetS: budget,
	}
}

func (c *check) locate(u int64) (*space, int64, int64) {
	for i, s := range c.spaces {
		if u < c.unitOff[i+1] {
			r := u - c.unitOff[i]
			nt := s.nTreeBlocks()
			return s, r / nt, r % nt
		}
	}
	panic("c05: unit out of range")
}

func (c *check) Describe(u int64) any {
	s, sb, tb := c.locate(u)
	lo, hi := s.selRange(sb)
	var texts []string
	for _, l := range s.sels[lo:hi] {
		texts = append(texts, l.String())
	}
	tlo, thi := s.treeRange(tb)
	var t1, t2 tree
	s.trees.at(tlo, &t1)
	s.trees.at(thi-1, &t2)
	return map[string]any{"space": s.name, "selectors": texts, "trees": fmt.Sprintf("[%d,%d)", tlo, thi), "first_tree": t1.html(), "last_tree": t2.html()}
}

// FeaturesOf: feature tags of a case that killed its worker (engine.Featurer).
func (c *check) FeaturesOf(desc string) []string {
	i := strings.Index(desc, " sel=")
	if i < 0 {
		return nil
	}
	q, err := strconv.QuotedPrefix(desc[i+5:])
	if err != nil {
		return nil
	}
	text, _ := strconv.Unquote(q)
	if c.featIdx == nil {
		c.featIdx = map[string][]string{}
		for _, s := range c.spaces {
			for _, l := range s.sels {
				c.featIdx[s.name+"\x00"+l.String()] = listTags(l)
			}
		}
	}
	name := strings.TrimPrefix(strings.Fields(desc)[0], "space=")
	return c.featIdx[name+"\x00"+text]
}

// ---- one unit ------------------------------------------------------------------------------

const (
	chunkTrees = 64
	maxList    = 3
)

type psel struct {
	ast     selList
	text    string
	g, g2   selector.SelectorGroup
	rtText  string
	ok      bool // g usable for matching
	rtOK    bool // g2 usable for matching
	flags   uint32
	feats   []string
	matched bool
	missed  bool
}

func (p *psel) features() []string {
	if p.feats == nil {
		p.feats = listTags(p.ast)
	}
	return p.feats
}

func specOf(s selector.Specificity) spec { return spec{s[0], s[1], s[2]} }

// prepare parses the selector and, when report is set, checks the per-selector clauses.
func (c *check) prepare(ctx *engine.Ctx, sp *space, p *psel, report bool) {
	p.text = p.ast.String()
	p.flags = listFlags(p.ast)
	desc := fmt.Sprintf("space=%s sel=%q parse", sp.name, p.text)
	fail := func(clause, detail string) {
		if report {
			ctx.Fail(engine.Failure{Clause: clause, Features: p.features(), Case: desc, Detail: detail})
		}
	}
	var err error
	var specs []selector.Specificity
	var pes []string
	feats := func() []string {
		if report {
			return p.features()
		}
		return nil
	}
	pi, skipped := ctx.Guard(desc, func() {
		p.g, err = selector.ParseGroup(p.text)
		if err == nil {
			for _, s := range p.g {
				specs = append(specs, s.Specificity())
				pes = append(pes, s.PseudoElement())
			}
		}
	})
	if skipped {
		return
	}
	if pi != nil {
		if report {
			ctx.Fail(engine.Failure{Clause: "panic", Site: pi.Site, Features: feats(), Case: desc, Detail: pi.Msg})
		}
		return
	}
	if report {
		ctx.Count("selectors", 1)
	}
	if err != nil {
		fail("parse", "ParseGroup rejects a selector of the supported grammar: "+err.Error())
		return
	}
	if len(p.g) != len(p.ast) {
		fail("parse", fmt.Sprintf("ParseGroup returned %d selectors for a list of %d", len(p.g), len(p.ast)))
		return
	}
	p.ok = true
	for i := range p.ast {
		want := specComplex(&p.ast[i])
		if got := specOf(specs[i]); got != want {
			fail("specificity", fmt.Sprintf("selector %d of the list (%s): expected %v got %v", i, p.ast[i].String(), want, got))
		}
		if want := pseudoElementOf(&p.ast[i]); pes[i] != want {
			fail("pseudo-element", fmt.Sprintf("selector %d of the list (%s): expected %q got %q", i, p.ast[i].String(), want, pes[i]))
		}
	}
	if report {
		ctx.Count("specificity-checks", int64(len(p.ast)))
	}
	// round trip
	var err2 error
	var specs2 []selector.Specificity
	var pes2 []string
	desc2 := fmt.Sprintf("space=%s sel=%q roundtrip", sp.name, p.text)
	pi, skipped = ctx.Guard(desc2, func() {
		p.rtText = p.g.String()
		p.g2, err2 = selector.ParseGroup(p.rtText)
		if err2 == nil {
			for _, s := range p.g2 {
				specs2 = append(specs2, s.Specificity())
				pes2 = append(pes2, s.PseudoElement())
			}
		}
	})
	if skipped {
		return
	}
	if pi != nil {
		if report {
			ctx.Fail(engine.Failure{Clause: "panic", Site: pi.Site, Features: feats(), Case: desc2, Detail: pi.Msg})
		}
		return
	}
	if report {
		ctx.Count("roundtrip-selectors", 1)
	}
	if err2 != nil {
		fail("roundtrip-parse", fmt.Sprintf("String() = %q does not parse: %v", p.rtText, err2))
		return
	}
	if len(p.g2) != len(p.g) {
		fail("roundtrip-parse", fmt.Sprintf("String() = %q parses to %d selectors instead of %d", p.rtText, len(p.g2), len(p.g)))
		return
	}
	p.rtOK = true
	for i := range p.g {
		if specs2[i] != specs[i] {
			fail("roundtrip-specificity", fmt.Sprintf("String() = %q: specificity %v became %v", p.rtText, specs[i], specs2[i]))
		}
		if pes2[i] != pes[i] {
			fail("roundtrip-pseudo-element", fmt.Sprintf("String() = %q: pseudo-element %q became %q", p.rtText, pes[i], pes2[i]))
		}
	}
}

// bits of one (selector list, tree) evaluation
type evalBits struct {
	item [maxList]uint16 // per list item: bit j = element j matches
	grp  uint16          // SelectorGroup.Match
}

func evalGroup(g selector.SelectorGroup, elems []*html.Node, out *evalBits) {
	*out = evalBits{}
	for j, n := range elems {
		for i, s := range g {
			if s.Match(n) {
				out.item[i] |= 1 << uint(j)
			}
		}
		if len(g) > 1 {
			if g.Match(n) {
				out.grp |= 1 << uint(j)
			}
		}
	}
	if len(g) == 1 {
		out.grp = out.item[0]
	}
}

type reach struct {
	matchEvals, rtEvals                   int64
	sibGapCases, sibGapMatched            int64
	emptyWsCases, emptyWsMatched          int64
	negACases, negADiscr                  int64
	negBCases, negBDiscr                  int64
	ofTypeMixed, ofTypeMixedDiscr         int64
	fnList, fnListDiscr                   int64
	fnInner, fnInnerDiscr                 int64
	ciCases, ciMatched                    int64
	emptyValCases                         int64
	hasDiscr, notDiscr, isDiscr, dynCases int64
	peCases                               int64
}

func (c *check) Run(u int64, ctx *engine.Ctx) {
	sp, sb, tb := c.locate(u)
	slo, shi := sp.selRange(sb)
	tlo, thi := sp.treeRange(tb)
	report := tb == 0
	ps := make([]psel, shi-slo)
	for i := range ps {
		ps[i].ast = sp.sels[slo+i]
		c.prepare(ctx, sp, &ps[i], report)
	}

	var trees [chunkTrees]tree
	var impl, rt [chunkTrees]evalBits
	var bad [chunkTrees]bool
	var r reach
	keyBuf := make([]byte, 0, 16)
	intern := map[string]string{}
	for clo := tlo; clo < thi; clo += chunkTrees {
		chi := clo + chunkTrees
		if chi > thi {
			chi = thi
		}
		n := int(chi - clo)
		for i := 0; i < n; i++ {
			sp.trees.at(clo+int64(i), &trees[i])
			if sb == 0 {
				validateTree(&trees[i])
			}
		}
		for pi := range ps {
			p := &ps[pi]
			if !p.ok {
				// the selector could not be parsed: its cases are counted, nothing can be compared
				for i := 0; i < n; i++ {
					ctx.Case(false, "unparsed")
				}
				continue
			}
			desc := fmt.Sprintf("space=%s sel=%q trees=[%d,%d)", sp.name, p.text, clo, chi)
			for i := 0; i < n; i++ {
				bad[i] = false
			}
			cur := 0
			for cur < n {
				pinfo, skipped := ctx.Guard(desc, func() {
					for ; cur < n; cur++ {
						evalGroup(p.g, trees[cur].elems, &impl[cur])
						if p.rtOK {
							evalGroup(p.g2, trees[cur].elems, &rt[cur])
						}
					}
				})
				if skipped {
					for ; cur < n; cur++ {
						bad[cur] = true
					}
					break
				}
				if pinfo != nil {
					t := &trees[cur]
					ctx.Fail(engine.Failure{Clause: "panic", Site: pinfo.Site, Features: append(append([]string{}, p.features()...), t.tags()...),
						Case: caseDesc(sp, p, t), Detail: pinfo.Msg})
					bad[cur] = true
					cur++
				}
			}
			if u == 0 && clo == tlo && pi == 0 {
				// determinism of the harness: the very first cases are evaluated twice
				var again evalBits
				for i := 0; i < n; i++ {
					if bad[i] {
						continue
					}
					ctx.Guard(desc, func() { evalGroup(p.g, trees[i].elems, &again) })
					if again != impl[i] {
						ctx.Fail(engine.Failure{Clause: "nondeterministic", Features: p.features(), Case: caseDesc(sp, p, &trees[i]), Detail: "two evaluations of the same case differ"})
					}
				}
			}
			for i := 0; i < n; i++ {
				t := &trees[i]
				if bad[i] {
					ctx.Case(true, "panic")
					continue
				}
				ne := len(t.elems)
				full := uint16(1)<<uint(ne) - 1
				var want evalBits
				for k := range p.ast {
					for j, node := range t.elems {
						if refComplex(&p.ast[k], node, nil) {
							want.item[k] |= 1 << uint(j)
						}
					}
					want.grp |= want.item[k]
				}
				got := &impl[i]
				nontrivial := false
				keyBuf = keyBuf[:0]
				for k := range p.ast {
					if want.item[k] != 0 && want.item[k] != full {
						nontrivial = true
					}
					keyBuf = append(keyBuf, byte(got.item[k]), byte(got.item[k]>>8))
					if got.item[k] != want.item[k] {
						j := firstDiff(got.item[k], want.item[k])
						ctx.Fail(engine.Failure{Clause: "match", Features: append(append([]string{}, p.features()...), t.tags()...),
							Case:   caseDesc(sp, p, t) + " node=" + t.nodePath(j),
							Detail: fmt.Sprintf("selector %q on element %s: reference (Selectors 4) says %v, css/selector says %v; matched elements: expected %s got %s", p.ast[k].String(), t.nodePath(j), want.item[k]>>uint(j)&1 == 1, got.item[k]>>uint(j)&1 == 1, bitsDesc(t, want.item[k]), bitsDesc(t, got.item[k]))})
					}
				}
				if len(p.ast) > 1 {
					keyBuf = append(keyBuf, byte(got.grp), byte(got.grp>>8))
					if got.grp != want.grp {
						j := firstDiff(got.grp, want.grp)
						ctx.Fail(engine.Failure{Clause: "match-list", Features: append(append([]string{}, p.features()...), t.tags()...),
							Case:   caseDesc(sp, p, t) + " node=" + t.nodePath(j),
							Detail: fmt.Sprintf("SelectorGroup.Match: expected %s got %s", bitsDesc(t, want.grp), bitsDesc(t, got.grp))})
					}
				}
				keyBuf = append(keyBuf, byte(ne))
				r.matchEvals += int64(ne * len(p.ast))
				if p.rtOK {
					r.rtEvals += int64(ne * len(p.ast))
					if rt[i] != *got {
						k := 0
						for k < len(p.ast)-1 && rt[i].item[k] == got.item[k] {
							k++
						}
						a, b := rt[i].item[k], got.item[k]
						if a == b {
							a, b = rt[i].grp, got.grp
						}
						j := firstDiff(a, b)
						ctx.Fail(engine.Failure{Clause: "roundtrip-match", Features: append(append([]string{}, p.features()...), t.tags()...),
							Case:   caseDesc(sp, p, t) + " node=" + t.nodePath(j),
							Detail: fmt.Sprintf("String() = %q re-parsed matches %s, the original matches %s", p.rtText, bitsDesc(t, a), bitsDesc(t, b))})
					}
				}
				key, ok := intern[string(keyBuf)]
				if !ok {
					key = string(keyBuf)
					intern[key] = key
				}
				ctx.Case(nontrivial, key)
				if want.grp != 0 {
					p.matched = true
				}
				if want.grp != full {
					p.missed = true
				}
				// reach counters
				f := p.flags
				if f == 0 && t.flags == 0 {
					continue
				}
				if f&fSibLast != 0 && t.flags&tSibGap != 0 {
					r.sibGapCases++
					if want.grp&t.afterGap != 0 {
						r.sibGapMatched++
					}
				}
				if f&fEmptyLast != 0 && t.flags&tWsLeaf != 0 {
					r.emptyWsCases++
					if want.grp&t.wsOnlyLeaf != 0 {
						r.emptyWsMatched++
					}
				}
				discr := int64(0)
				if nontrivial {
					discr = 1
				}
				if f&fNthNegA != 0 {
					r.negACases++
					r.negADiscr += discr
				}
				if f&fNthNegB != 0 {
					r.negBCases++
					r.negBDiscr += discr
				}
				if f&fOfType != 0 && t.flags&tMixedSib != 0 {
					r.ofTypeMixed++
					r.ofTypeMixedDiscr += discr
				}
				if f&fFnList != 0 {
					r.fnList++
					r.fnListDiscr += discr
				}
				if f&fFnInner != 0 {
					r.fnInner++
					r.fnInnerDiscr += discr
				}
				if f&fCI != 0 {
					r.ciCases++
					if want.grp != 0 {
						r.ciMatched++
					}
				}
				if f&fEmptyVal != 0 {
					r.emptyValCases++
				}
				if f&fHas != 0 {
					r.hasDiscr += discr
				}
				if f&fNot != 0 {
					r.notDiscr += discr
				}
				if f&fIs != 0 {
					r.isDiscr += discr
				}
				if f&fDyn != 0 {
					r.dynCases++
				}
				if f&fPE != 0 {
					r.peCases++
				}
			}
		}
	}
	ctx.Trans(r.matchEvals + r.rtEvals)
	cnt := func(name string, v int64) {
		if v != 0 {
			ctx.Count(name, v)
		}
	}
	cnt("element-evaluations-vs-reference", r.matchEvals)
	cnt("element-evaluations-roundtrip", r.rtEvals)
	cnt("sibling-combinator-x-tree-with-text/comment-between-siblings:cases", r.sibGapCases)
	cnt("sibling-combinator-matched-across-text/comment:cases", r.sibGapMatched)
	cnt(":empty-x-tree-with-ws/comment-only-element:cases", r.emptyWsCases)
	cnt(":empty-matched-ws/comment-only-element:cases", r.emptyWsMatched)
	cnt("nth-negative-a:cases", r.negACases)
	cnt("nth-negative-a:discriminating-cases", r.negADiscr)
	cnt("nth-negative-b:cases", r.negBCases)
	cnt("nth-negative-b:discriminating-cases", r.negBDiscr)
	cnt("of-type-x-mixed-tag-siblings:cases", r.ofTypeMixed)
	cnt("of-type-x-mixed-tag-siblings:discriminating-cases", r.ofTypeMixedDiscr)
	cnt("functional-with-list:cases", r.fnList)
	cnt("functional-with-list:discriminating-cases", r.fnListDiscr)
	cnt("functional-with-inner-combinator:cases", r.fnInner)
	cnt("functional-with-inner-combinator:discriminating-cases", r.fnInnerDiscr)
	cnt("i-flag:cases", r.ciCases)
	cnt("i-flag:matched-cases", r.ciMatched)
	cnt("attr-operator-empty-value:cases", r.emptyValCases)
	cnt(":has:discriminating-cases", r.hasDiscr)
	cnt(":not:discriminating-cases", r.notDiscr)
	cnt(":is:discriminating-cases", r.isDiscr)
	cnt("dynamic-pseudo-class:cases", r.dynCases)
	cnt("pseudo-element:cases", r.peCases)
	if report {
		for i := range ps {
			if ps[i].matched && ps[i].missed {
				ctx.Count("selectors-matching-some-and-missing-some-element(first-tree-block)", 1)
			}
		}
	}
}

func firstDiff(a, b uint16) int {
	d := a ^ b
	j := 0
	for d&1 == 0 {
		d >>= 1
		j++
	}
	return j
}

func bitsDesc(t *tree, bits uint16) string {
	var l []string
	for j := range t.elems {
		if bits>>uint(j)&1 == 1 {
			l = append(l, t.nodePath(j))
		}
	}
	return "{" + strings.Join(l, ", ") + "}"
}

func caseDesc(sp *space, p *psel, t *tree) string {
	return fmt.Sprintf("space=%s sel=%q tree#%d=%s", sp.name, p.text, t.index, t.html())
}

// validateTree checks (harness self-check, not an oracle clause) that the hand-built tree is
// exactly what golang.org/x/net/html produces when it parses the tree's serialization.
func validateTree(t *tree) {
	src := t.html()
	doc, err := html.Parse(strings.NewReader(src))
	if err != nil {
		panic("c05 harness: cannot parse " + src)
	}
	var a, b strings.Builder
	dump(t.doc, &a)
	dump(doc, &b)
	if a.String() != b.String() {
		panic(fmt.Sprintf("c05 harness: built tree is not what the HTML parser produces\nsource: %s\nbuilt:  %s\nparsed: %s", src, a.String(), b.String()))
	}
}
