package c05

// The explored spaces: each is a set of selector lists (ASTs) x a tree space. "struct" is the
// main product (structure x structural selectors); the others are focused sub-spaces explored
// with richer menus on smaller trees.

const (
	tagA = "div" // known to golang.org/x/net/html/atom: matched through DataAtom
	tagB = "zz"  // unknown tag: matched through the Data string
)

type space struct {
	name  string
	sels  []selList
	trees *treeSpace
	batch int   // selector lists per unit
	block int64 // trees per unit
	about string
}

var (
	pseudoNames = []string{"root", "empty", "first-child", "last-child", "only-child", "first-of-type", "last-of-type", "only-of-type"}
	combs4      = []byte{' ', '>', '+', '~'}
)

func nthAll(as, bs []int) []simple {
	var out []simple
	for _, last := range []bool{false, true} {
		for _, ot := range []bool{false, true} {
			for _, a := range as {
				for _, b := range bs {
					out = append(out, sNth(a, b, last, ot))
				}
			}
			out = append(out,
				spelled(sNth(2, 1, last, ot), ":"+nthName(last, ot)+"(odd)"),
				spelled(sNth(2, 0, last, ot), ":"+nthName(last, ot)+"(even)"))
		}
	}
	return out
}

func structBase() []simple {
	s := []simple{sUniv(), sTag(tagA), sTag(tagB), sClass("x")}
	for _, p := range pseudoNames {
		s = append(s, sPseudo(p))
	}
	s = append(s, sDyn("hover"))
	s = append(s, nthAll([]int{-2, -1, 0, 1, 2}, []int{-1, 0, 1, 2})...)
	return s
}

// fnSimples: :not/:is/:has over argument lists of <= 2 complex selectors; functional
// pseudo-classes nest once.
func fnSimples(argMenu, innerMenu []simple, extra []complexSel) []simple {
	var out []simple
	for _, k := range []kind{kNot, kIs, kHas} {
		for _, a := range argMenu {
			out = append(out, sFn(k, c1(a)))
		}
		for i := range argMenu {
			for j := i + 1; j < len(argMenu); j++ {
				out = append(out, sFn(k, c1(argMenu[i]), c1(argMenu[j])))
			}
		}
		if len(argMenu) >= 3 {
			out = append(out, sFn(k, c1(argMenu[2]), c1(argMenu[0])), sFn(k, c1(argMenu[1]), c1(argMenu[0])))
		}
		for _, x := range innerMenu {
			for _, cb := range combs4 {
				for _, y := range innerMenu {
					out = append(out, sFn(k, cx(string(cb), cp(x), cp(y))))
				}
			}
		}
		for _, e := range extra {
			out = append(out, sFn(k, e))
		}
		if len(extra) >= 2 {
			out = append(out, sFn(k, extra[0], c1(sClass("x"))), sFn(k, c1(sClass("x")), extra[1]))
		}
	}
	return out
}

func isTagOrUniv(s simple) bool { return s.kind == kTag || s.kind == kUniv }

func structSels(thorough bool) []selList {
	A, B, X, U := sTag(tagA), sTag(tagB), sClass("x"), sUniv()
	base := structBase()
	fnExtra := []complexSel{
		cx(">", cp(A), cp(B)), cx(" ", cp(X), cp(A)),
		c1(A, X), c1(B, sPseudo("first-child")), c1(A, sNth(2, 1, false, false)),
		cx(" >", cp(A), cp(U), cp(B)), cx("+~", cp(U), cp(A), cp(U)),
	}
	fns := fnSimples([]simple{A, B, X, U, sPseudo("first-child"), sPseudo("empty")}, []simple{A, B, X, U}, fnExtra)
	all := append(append([]simple{}, base...), fns...)

	var out []selList
	// 1. every simple selector alone
	for _, s := range all {
		out = append(out, one(c1(s)))
	}
	// 2. compounds of two
	for _, s := range all {
		if !isTagOrUniv(s) {
			out = append(out, one(c1(A, s)))
		}
	}
	for _, s := range base {
		if !isTagOrUniv(s) && !(s.kind == kClass) {
			out = append(out, one(c1(X, s)))
			out = append(out, one(c1(s, sFn(kNot, c1(B)))))
		}
	}
	out = append(out,
		one(c1pe("before", A)), one(c1pe("before", U)), one(c1pe("after", X)), one(c1pe("before")),
		one(c1pe("before", A, sPseudo("first-child"))), one(c1pe("after", sFn(kNot, c1(A)))))
	// 3. two compounds
	m2 := []simple{A, B, X, U, sPseudo("first-child"), sPseudo("last-child"), sNth(2, 1, false, false), sNth(0, 2, false, true),
		sPseudo("empty"), sFn(kNot, c1(X)), sPseudo("only-child"), sNth(-1, 2, true, false)}
	for _, l := range m2 {
		for _, cb := range combs4 {
			for _, r := range m2 {
				out = append(out, one(cx(string(cb), cp(l), cp(r))))
			}
		}
	}
	out = append(out, one(cx(">", cp(A, X), cp(B))), one(cx("+", cp(A), cp(B, X))), one(cx("~", cp(A, X), cp(A, X))), one(cx(" ", cp(A, sPseudo("first-child")), cp(U))))
	partners := []simple{A, U}
	if thorough {
		partners = []simple{A, B, U, X}
	}
	for _, s := range base {
		for _, p := range partners {
			for _, cb := range combs4 {
				out = append(out, one(cx(string(cb), cp(s), cp(p))), one(cx(string(cb), cp(p), cp(s))))
			}
		}
	}
	if thorough {
		for _, s := range fns {
			for _, cb := range combs4 {
				out = append(out, one(cx(string(cb), cp(s), cp(U))), one(cx(string(cb), cp(U), cp(s))))
			}
		}
	}
	// 4. three compounds
	m3 := []simple{A, B, X, U}
	if thorough {
		m3 = []simple{A, B, X, U, sPseudo("first-child")}
	}
	for _, c1b := range combs4 {
		for _, c2b := range combs4 {
			for _, x := range m3 {
				for _, y := range m3 {
					for _, z := range m3 {
						out = append(out, one(cx(string([]byte{c1b, c2b}), cp(x), cp(y), cp(z))))
					}
				}
			}
		}
	}
	return out
}

func structTrees(thorough bool) *treeSpace {
	ts := &treeSpace{
		Tags:    []string{tagA, tagB},
		Labels:  []label{lab("class", "x")},
		Fillers: fillerSeqs([]fillerKind{fiSpace, fiText, fiComment}, 2),
	}
	if thorough {
		ts.Budget = []budget{{0, 2, 2}, {1, 4, 4}, {2, 3, 4}, {3, 3, 3}, {2, 2, 2}, {1, 1, 2}, {0, 0, 0}}
	} else {
		ts.Budget = []budget{{0, 2, 2}, {1, 3, 3}, {2, 3, 3}, {2, 2, 3}, {2, 1, 2}, {1, 0, 1}}
	}
	return ts
}

// ---- attribute / class / id space ------------------------------------------------------------

func attrSimples(vals []string) []simple {
	s := []simple{sClass("x"), sClass("y"), sClass("X"), sID("i"), sID("I"), sAttrE("t"), spelled(sAttrE("t"), "[T]"), sAttrE("u")}
	for _, op := range []string{"=", "~=", "|=", "^=", "$=", "*="} {
		for _, v := range vals {
			s = append(s, sAttr("t", op, v, false), sAttr("t", op, v, true))
		}
	}
	return s
}

func attrSels(thorough bool) []selList {
	A, U := sTag(tagA), sUniv()
	var out []selList
	for _, s := range attrSimples([]string{"", "v", "V", "v-w", "v w", " ", "w", "é", "v-"}) {
		out = append(out,
			one(c1(s)), one(c1(A, s)), one(c1(s, sPseudo("first-child"))),
			one(c1(sFn(kNot, c1(s)))), one(c1(sFn(kIs, c1(s), c1(sClass("y"))))), one(c1(sFn(kHas, c1(s)))),
			one(cx(">", cp(s), cp(U))), one(cx("+", cp(U), cp(s))))
	}
	return out
}

func attrTrees(thorough bool) *treeSpace {
	ts := &treeSpace{Tags: []string{tagA, tagB}}
	for _, v := range []string{"x", "x y", "y  x", "X", " x ", "x\ty"} {
		ts.Labels = append(ts.Labels, lab("class", v))
	}
	ts.Labels = append(ts.Labels, lab("id", "i"), lab("id", "I"))
	for _, v := range []string{"", "v", "V", "v-w", "V w", " ", "w v", "É", "-w", "v  w", "vw", "wv", "wvw", " v", "v-"} {
		ts.Labels = append(ts.Labels, lab("t", v))
	}
	ts.Labels = append(ts.Labels, lab("class", "x", "t", "v"), lab("id", "i", "class", "x y"))
	if thorough {
		ts.Budget = []budget{{0, 0, 0}, {1, 0, 1}, {2, 0, 2}, {2, 0, 2}}
	} else {
		ts.Budget = []budget{{0, 0, 0}, {1, 0, 1}, {2, 0, 2}}
	}
	return ts
}

// ---- mixed space: every simple selector in every combinator position, labelled small trees ----

func mixedSels(thorough bool) []selList {
	A, U, X := sTag(tagA), sUniv(), sClass("x")
	simples := structBase()
	simples = append(simples, sClass("y"), sID("i"), sAttrE("t"))
	for _, op := range []string{"=", "~=", "|=", "^=", "$=", "*="} {
		for _, v := range []string{"", "v", "V", "v-w", "v w"} {
			simples = append(simples, sAttr("t", op, v, false), sAttr("t", op, v, true))
		}
	}
	simples = append(simples, fnSimples([]simple{A, X, sID("i"), sAttr("t", "=", "v", false)}, nil, []complexSel{cx(">", cp(A), cp(X))})...)
	partners := []simple{A, U}
	if thorough {
		partners = append(partners, X)
	}
	var out []selList
	for _, s := range simples {
		out = append(out, one(c1(s)))
		for _, p := range partners {
			for _, cb := range combs4 {
				out = append(out, one(cx(string(cb), cp(s), cp(p))), one(cx(string(cb), cp(p), cp(s))))
			}
		}
	}
	return out
}

func mixedTrees(thorough bool) *treeSpace {
	ts := &treeSpace{
		Tags:    []string{tagA, tagB},
		Labels:  []label{lab("class", "x"), lab("class", "x y"), lab("id", "i"), lab("t", ""), lab("t", "v"), lab("t", "v-w"), lab("t", "V w")},
		Fillers: fillerSeqs([]fillerKind{fiSpace, fiText, fiComment}, 1),
	}
	if thorough {
		ts.Budget = []budget{{0, 1, 1}, {1, 2, 2}, {2, 2, 2}, {2, 2, 2}, {1, 1, 1}}
	} else {
		ts.Budget = []budget{{0, 1, 1}, {1, 2, 2}, {2, 2, 2}, {1, 1, 2}}
	}
	return ts
}

// ---- :empty with every kind of white space -----------------------------------------------------

func emptySels() []selList {
	A, B, U, E := sTag(tagA), sTag(tagB), sUniv(), sPseudo("empty")
	return []selList{
		one(c1(E)), one(c1(A, E)), one(c1(B, E)), one(c1(sFn(kNot, c1(E)))), one(c1(sFn(kIs, c1(E), c1(B)))),
		one(c1(sFn(kHas, c1(E)))), one(c1(E, sPseudo("first-child"))), one(c1(E, sPseudo("only-child"))),
		one(cx("+", cp(E), cp(U))), one(cx("~", cp(E), cp(U))), one(cx(">", cp(U), cp(E))), one(cx(" ", cp(A), cp(E))),
		one(cx("+", cp(U), cp(E))), one(cx(">", cp(E), cp(U))), one(c1(sFn(kNot, c1(A), c1(E)))), one(c1pe("before", E)),
		one(c1(sPseudo("first-child"))), one(c1(sPseudo("only-child"))), one(cx("+", cp(A), cp(B))), one(cx("~", cp(A), cp(B))),
	}
}

func emptyTrees(thorough bool) *treeSpace {
	ts := &treeSpace{
		Tags:    []string{tagA, tagB},
		Fillers: fillerSeqs([]fillerKind{fiSpace, fiNewline, fiText, fiComment, fiNbsp, fiFF}, 2),
	}
	if thorough {
		ts.Budget = []budget{{0, 3, 3}, {0, 4, 4}, {0, 3, 3}, {0, 2, 2}}
	} else {
		ts.Budget = []budget{{0, 3, 3}, {0, 3, 3}, {0, 2, 2}}
	}
	return ts
}

// ---- element types: two tags known to the atom table and two unknown ones ---------------------

var typeTags = []string{tagA, tagB, "span", "yy"}

func typesSels() []selList {
	U := sUniv()
	var simples []simple
	for _, t := range typeTags {
		simples = append(simples, sTag(t))
	}
	simples = append(simples, sTag("SPAN"), sTag("YY"), sTag("y"), sTag("spa"))
	pseudo := []simple{sPseudo("first-of-type"), sPseudo("last-of-type"), sPseudo("only-of-type")}
	for _, last := range []bool{false, true} {
		for _, a := range []int{-1, 0, 1, 2} {
			for _, b := range []int{0, 1, 2} {
				pseudo = append(pseudo, sNth(a, b, last, true))
			}
		}
	}
	var out []selList
	for _, s := range simples {
		out = append(out, one(c1(s)), one(c1(sFn(kNot, c1(s)))), one(c1(sFn(kHas, c1(s)))))
		for _, cb := range combs4 {
			out = append(out, one(cx(string(cb), cp(s), cp(U))), one(cx(string(cb), cp(U), cp(s))))
		}
	}
	for _, p := range pseudo {
		out = append(out, one(c1(p)))
		for _, t := range typeTags {
			out = append(out, one(c1(sTag(t), p)))
		}
	}
	for _, x := range typeTags {
		for _, y := range typeTags {
			for _, cb := range combs4 {
				out = append(out, one(cx(string(cb), cp(sTag(x)), cp(sTag(y)))))
			}
			out = append(out, selList{c1(sTag(x)), c1(sTag(y))}, one(c1(sFn(kIs, c1(sTag(x)), c1(sTag(y))))))
		}
	}
	return out
}

func typesTrees(thorough bool) *treeSpace {
	ts := &treeSpace{Tags: typeTags, Fillers: fillerSeqs([]fillerKind{fiText}, 1)}
	if thorough {
		ts.Budget = []budget{{0, 0, 0}, {0, 1, 1}, {0, 1, 1}, {0, 1, 1}, {0, 0, 0}, {0, 0, 0}}
	} else {
		ts.Budget = []budget{{0, 0, 0}, {0, 1, 1}, {0, 1, 1}, {0, 0, 0}, {0, 0, 0}}
	}
	return ts
}

// ---- selector lists -----------------------------------------------------------------------------

func listSels() []selList {
	A, B, U, X := sTag(tagA), sTag(tagB), sUniv(), sClass("x")
	m := []complexSel{
		c1(A), c1(B), c1(X), c1(U), c1(sPseudo("first-child")), c1(sNth(2, 0, false, false)),
		cx(">", cp(A), cp(B)), cx("+", cp(A), cp(U)), cx(" ", cp(X), cp(A)), c1(sFn(kNot, c1(A))),
		c1pe("before", A), c1(sDyn("hover")), c1(A, X), c1(sPseudo("empty")),
	}
	var out []selList
	for _, a := range m {
		for _, b := range m {
			out = append(out, selList{a, b})
		}
	}
	out = append(out, selList{m[0], m[1], m[2]}, selList{m[6], m[10], m[3]}, selList{m[11], m[11], m[4]})
	spelledList := selList{complexSel{comps: m[0].comps, text: tagA + " "}, complexSel{comps: m[2].comps, text: " .x"}} // "div , .x"
	out = append(out, spelledList, selList{complexSel{comps: m[0].comps, text: tagA}, complexSel{comps: m[2].comps, text: ".x"}})
	return out
}

func listTrees() *treeSpace {
	return &treeSpace{
		Tags:    []string{tagA, tagB},
		Labels:  []label{lab("class", "x")},
		Fillers: fillerSeqs([]fillerKind{fiSpace, fiText, fiComment}, 1),
		Budget:  []budget{{0, 1, 1}, {1, 1, 2}, {1, 1, 2}, {1, 1, 1}},
	}
}

// ---- spellings, escapes, pseudo-elements, dynamic pseudo-classes --------------------------------

func syntaxSels() []selList {
	A, B, U, X := sTag(tagA), sTag(tagB), sUniv(), sClass("x")
	var out []selList
	sp := func(text string, c complexSel) { c.text = text; out = append(out, one(c)) }
	s1 := func(text string, s simple) { out = append(out, one(c1(spelled(s, text)))) }
	// type selectors are ASCII case-insensitive in HTML
	out = append(out, one(c1(sTag("DIV"))), one(c1(sTag("Zz"))), one(cx(">", cp(sTag("DIV")), cp(sTag("ZZ")))))
	s1(`d\69v`, sTag("div"))
	s1(`d\69 v`, sTag("div"))
	// white space around combinators
	for _, t := range []struct {
		text string
		cb   string
	}{{"div>zz", ">"}, {"div+zz", "+"}, {"div~zz", "~"}, {"div  zz", " "}, {"div >zz", ">"}, {"div> zz", ">"}, {"div\tzz", " "},
		{"div\n>\nzz", ">"}, {" div zz", " "}, {"div zz ", " "}, {"div\fzz", " "}, {"div\r\nzz", " "}, {"div ~zz", "~"}, {"div+ zz", "+"}} {
		sp(t.text, cx(t.cb, cp(A), cp(B)))
	}
	sp("div>*+zz", cx(">+", cp(A), cp(U), cp(B)))
	// attribute selector spellings
	for _, op := range []string{"=", "~=", "|=", "^=", "$=", "*="} {
		s1("[t"+op+"v]", sAttr("t", op, "v", false))
		s1("[t"+op+"'v']", sAttr("t", op, "v", false))
		s1("[t"+op+"v i]", sAttr("t", op, "v", true))
	}
	s1(`[ t = "v" ]`, sAttr("t", "=", "v", false))
	s1(`[t="v"i]`, sAttr("t", "=", "v", true))
	s1(`[t=V I]`, sAttr("t", "=", "V", true))
	s1(`[t="v" I ]`, sAttr("t", "=", "v", true))
	s1(`[T=v]`, sAttr("t", "=", "v", false))
	s1(`[T]`, sAttrE("t"))
	s1(`[ t ]`, sAttrE("t"))
	s1(`[t=\76]`, sAttr("t", "=", "v", false))
	s1(`[t="a\62 c"]`, sAttr("t", "=", "abc", false))
	s1("[t=\"v\\\nw\"]", sAttr("t", "=", "vw", false))
	s1(`[t='v"w']`, sAttr("t", "=", `v"w`, false))
	out = append(out, one(c1(sAttr("t", "=", `v"w`, false))), one(c1(sAttr("t", "=", `v\w`, false))), one(c1(sAttr("t", "*=", `"`, false))),
		one(c1(sAttr("t", "=", "v'w", false))), one(c1(sAttr("t", "^=", `v\`, true))), one(c1(A, sAttr("t", "=", `v"w`, false))))
	// identifiers with escapes / unusual start
	for _, n := range []string{"x.y", "1x", "é", "-x", "_x", "x:y", "x y", "--x", "-1"} {
		out = append(out, one(c1(sClass(n))), one(c1(A, sClass(n))))
	}
	for _, n := range []string{"x.y", "1", "-x", "é", "1x", "x y"} {
		out = append(out, one(c1(sID(n))), one(c1(A, sID(n))))
	}
	s1(`.\78 `, sClass("x"))
	s1(`.\78`, sClass("x"))
	s1(`.\000078y`, sClass("xy"))
	s1(`#\69`, sID("i"))
	out = append(out, one(c1(sTag("x-y"))), one(c1(sTag("é"))))
	// names of pseudo-classes are ASCII case-insensitive
	s1(":NOT(div)", sFn(kNot, c1(A)))
	s1(":Is(div)", sFn(kIs, c1(A)))
	s1(":HAS(zz)", sFn(kHas, c1(B)))
	s1(":FIRST-CHILD", sPseudo("first-child"))
	s1(":Root", sPseudo("root"))
	s1(":EMPTY", sPseudo("empty"))
	s1(":Only-Of-Type", sPseudo("only-of-type"))
	s1(":HOVER", sDyn("hover"))
	// an+b spellings
	for _, t := range []struct {
		text string
		a, b int
	}{{"odd", 2, 1}, {"even", 2, 0}, {"ODD", 2, 1}, {"Even", 2, 0}, {"2n+1", 2, 1}, {"2n + 1", 2, 1}, {"2n+ 1", 2, 1}, {"2n -1", 2, -1}, {"2n - 1", 2, -1},
		{"+3", 0, 3}, {"3", 0, 3}, {"-3", 0, -3}, {"0", 0, 0}, {"1", 0, 1}, {"-n+2", -1, 2}, {"n", 1, 0}, {"+n", 1, 0}, {"-n", -1, 0}, {"2N", 2, 0}, {"2n", 2, 0},
		{"2n+0", 2, 0}, {"0n+2", 0, 2}, {"n-1", 1, -1}, {"n+0", 1, 0}, {"-2n - 1", -2, -1}, {"-0n+1", 0, 1}, {"1n+0", 1, 0}, {"+2n+1", 2, 1}, {" 2n+1 ", 2, 1},
		{"-2n+3", -2, 3}, {"3n-2", 3, -2}, {"10n+1", 10, 1}, {"-n-1", -1, -1}, {"n+10", 1, 10}} {
		s1(":nth-child("+t.text+")", sNth(t.a, t.b, false, false))
		s1(":nth-last-of-type("+t.text+")", sNth(t.a, t.b, true, true))
	}
	s1(":Nth-Child(2n+1)", sNth(2, 1, false, false))
	s1(":NTH-LAST-CHILD(1)", sNth(0, 1, true, false))
	s1(":nth-of-type( odd )", sNth(2, 1, false, true))
	// functional pseudo-classes: white space
	s1(":is( div , zz )", sFn(kIs, c1(A), c1(B)))
	s1(":not(div,zz)", sFn(kNot, c1(A), c1(B)))
	s1(":has( zz )", sFn(kHas, c1(B)))
	s1(":not( div > zz )", sFn(kNot, cx(">", cp(A), cp(B))))
	s1(":is(div>zz,.x)", sFn(kIs, cx(">", cp(A), cp(B)), c1(X)))
	// pseudo-elements
	for _, pe := range []string{"before", "after", "first-line", "first-letter", "marker", "selection", "placeholder", "backdrop", "footnote-call", "footnote-marker"} {
		out = append(out, one(c1pe(pe, A)))
	}
	out = append(out, one(c1pe("after")), one(c1pe("first-line", U)), one(c1pe("before", A, sPseudo("first-child"))), one(c1pe("after", X)),
		one(complexSel{comps: []compound{cp(A), cpPE("before", B)}, combs: []byte{'>'}}),
		one(complexSel{comps: []compound{cp(A), cpPE("after", U)}, combs: []byte{'+'}}),
		one(c1pe("before", sFn(kNot, c1(A)))), one(c1pe("marker", sNth(2, 1, false, false))), one(c1pe("before", sID("i"))),
		one(c1pe("after", sAttr("t", "=", "v", false))))
	for _, pe := range []string{"before", "after", "first-line", "first-letter"} { // legacy one-colon spelling
		out = append(out, one(complexSel{comps: []compound{{parts: []simple{A}, pe: pe, peText: ":" + pe}}}))
	}
	out = append(out, one(complexSel{comps: []compound{{parts: []simple{A}, pe: "before", peText: "::BEFORE"}}}),
		one(complexSel{comps: []compound{{parts: []simple{A}, pe: "after", peText: "::After"}}}),
		one(complexSel{comps: []compound{{pe: "before", peText: ":before"}}}))
	// dynamic pseudo-classes: never match a static document, count as pseudo-classes
	for _, d := range []string{"hover", "active", "focus", "visited", "target"} {
		out = append(out, one(c1(sDyn(d))), one(c1(A, sDyn(d))), one(c1(A, sFn(kNot, c1(sDyn(d))))))
	}
	H := sDyn("hover")
	out = append(out, one(c1(sFn(kIs, c1(H), c1(A)))), one(c1(sFn(kNot, c1(H), c1(X)))), one(c1(sFn(kHas, c1(H)))), one(cx(">", cp(A, H), cp(B))),
		one(cx(" ", cp(A), cp(B, H))), one(c1pe("before", A, H)), one(c1(H, sDyn("focus"))), one(c1(sFn(kIs, c1(A, H)))))
	// longer compounds
	out = append(out, one(c1(A, X, sPseudo("first-child"))), one(c1(X, sClass("y"))), one(c1(A, sID("i"), X, sAttrE("t"))),
		one(c1(sPseudo("first-child"), sPseudo("last-child"))), one(c1(X, X)), one(c1(sID("i"), sID("i"))), one(c1(A, sFn(kNot, c1(X)), sFn(kNot, c1(sID("i"))))),
		one(c1(U, X)), one(c1(U, sPseudo("root"))), one(c1(sPseudo("root"))), one(cx(">", cp(sPseudo("root")), cp(U))), one(cx(">>", cp(sPseudo("root")), cp(sTag("body")), cp(A))),
		one(cx("+", cp(sTag("head")), cp(sTag("body")))), one(c1(sTag("html"), sPseudo("first-child"))), one(c1(sTag("html"), sNth(0, 1, true, true))),
		one(c1(sFn(kNot, c1(sPseudo("root"))))), one(cx(" ", cp(sTag("html")), cp(U))))
	return out
}

func syntaxTrees() *treeSpace {
	ts := &treeSpace{
		Tags:    []string{tagA, tagB},
		Fillers: fillerSeqs([]fillerKind{fiText}, 1),
		Budget:  []budget{{0, 0, 0}, {1, 1, 2}, {2, 1, 2}, {1, 0, 1}},
	}
	for _, v := range []string{"x", "x y", "x.y", "1x", "é", "-x", "_x", "x:y", "xy", "--x", "-1"} {
		ts.Labels = append(ts.Labels, lab("class", v))
	}
	for _, v := range []string{"i", "1", "x.y", "-x", "é", "1x", "x y"} {
		ts.Labels = append(ts.Labels, lab("id", v))
	}
	for _, v := range []string{"v", "V", `v"w`, `v\w`, "v'w", "abc", "vw", `"`, "v w"} {
		ts.Labels = append(ts.Labels, lab("t", v))
	}
	ts.Labels = append(ts.Labels, lab("id", "i", "class", "x", "t", "v"))
	return ts
}

func buildSpaces(tier string) []*space {
	th := tier == "thorough"
	sps := []*space{
		{name: "syntax", sels: syntaxSels(), trees: syntaxTrees(), about: "spellings (case, white space, quoting, escapes, an+b forms), pseudo-elements, dynamic pseudo-classes, longer compounds"},
		{name: "attr", sels: attrSels(th), trees: attrTrees(th), about: "class/id/attribute selectors: every operator x value x i flag, alone and inside compounds, :not/:is/:has and combinators, against every pair of attribute labels"},
		{name: "types", sels: typesSels(), trees: typesTrees(th), about: "type selectors and *-of-type counting over four element types (two known to the atom table, two unknown), forests of <= 4 elements"},
		{name: "empty", sels: emptySels(), trees: emptyTrees(th), about: ":empty and sibling combinators against every short sequence of white space / text / comment / NBSP children"},
		{name: "lists", sels: listSels(), trees: listTrees(), about: "selector lists of 2-3 complex selectors"},
		{name: "mixed", sels: mixedSels(th), trees: mixedTrees(th), about: "every simple selector alone and on either side of every combinator, against labelled trees with gap fillers"},
		{name: "struct", sels: structSels(th), trees: structTrees(th), about: "structural pseudo-classes (all an+b), combinators (<= 3 compounds), :not/:is/:has (lists, inner combinators), compounds, against every forest x tags x class marks x gap fillers"},
	}
	for _, s := range sps {
		s.trees.build()
		s.batch = 8
		s.block = 16384
		if s.trees.total < s.block {
			s.block = s.trees.total
		}
	}
	return sps
}
