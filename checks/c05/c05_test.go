package c05

import (
	"testing"
	"time"
)

// TestSpaces prints the size of every space (go test -v -run Spaces ./checks/c05).
func TestSpaces(t *testing.T) {
	for _, tier := range []string{"quick", "thorough"} {
		t0 := time.Now()
		c := &check{}
		sp := c.Init(tier, 0)
		t.Logf("%s: init %v units %d", tier, time.Since(t0), sp.Units)
		for _, s := range c.spaces {
			t.Logf("  %-8s sels %6d trees %8d cases %12d units %6d", s.name, len(s.sels), s.trees.total, s.cases(), s.units())
		}
	}
}

// TestReference runs the specification examples through the reference.
func TestReference(t *testing.T) { refSelfTest() }

// TestTreesAreParserProducible validates every tree of the quick tier against the HTML parser.
func TestTreesAreParserProducible(t *testing.T) {
	if testing.Short() {
		t.Skip()
	}
	for _, s := range buildSpaces("quick") {
		var tr tree
		for i := int64(0); i < s.trees.total; i++ {
			s.trees.at(i, &tr)
			validateTree(&tr)
		}
	}
}
