package c05

import (
	"fmt"
	"sort"
	"strings"
)

// ---- selector AST (independent of css/selector) ------------------------------------------

type kind uint8

const (
	kUniv   kind = iota
	kTag         // name
	kClass       // name
	kID          // name
	kAttr        // name (key), op, val, ci
	kPseudo      // name: root empty first-child last-child only-child first-of-type last-of-type only-of-type
	kDyn         // name: hover active focus visited target (never match in a static document)
	kNth         // a, b, last, ofType
	kNot         // args
	kIs          // args
	kHas         // args
)

// simple is one simple selector. text, when non-empty, is the spelling that is printed
// (the other fields always hold the meaning).
type simple struct {
	kind         kind
	name         string
	op, val      string
	ci           bool
	a, b         int
	last, ofType bool
	args         []complexSel
	text         string
}

// compound: simple selectors that apply to one element, plus an optional pseudo-element.
type compound struct {
	parts  []simple
	pe     string // pseudo-element name (lower case), "" if none
	peText string // spelling of the pseudo-element ("" = "::"+pe)
}

// complexSel: compounds separated by combinators (' ', '>', '+', '~').
type complexSel struct {
	comps []compound
	combs []byte // len(comps)-1
	text  string // optional spelling of the whole complex selector
}

type selList []complexSel

// ---- constructors --------------------------------------------------------------------------

func sUniv() simple           { return simple{kind: kUniv} }
func sTag(n string) simple    { return simple{kind: kTag, name: n} }
func sClass(n string) simple  { return simple{kind: kClass, name: n} }
func sID(n string) simple     { return simple{kind: kID, name: n} }
func sAttrE(k string) simple  { return simple{kind: kAttr, name: k} }
func sPseudo(n string) simple { return simple{kind: kPseudo, name: n} }
func sDyn(n string) simple    { return simple{kind: kDyn, name: n} }
func sAttr(k, op, v string, ci bool) simple {
	return simple{kind: kAttr, name: k, op: op, val: v, ci: ci}
}
func sNth(a, b int, last, ofType bool) simple {
	return simple{kind: kNth, a: a, b: b, last: last, ofType: ofType}
}
func sFn(k kind, args ...complexSel) simple { return simple{kind: k, args: args} }
func spelled(s simple, text string) simple  { s.text = text; return s }

func cp(parts ...simple) compound { return compound{parts: parts} }
func cpPE(pe string, parts ...simple) compound {
	return compound{parts: parts, pe: pe}
}
func c1(parts ...simple) complexSel { return complexSel{comps: []compound{cp(parts...)}} }
func c1pe(pe string, parts ...simple) complexSel {
	return complexSel{comps: []compound{cpPE(pe, parts...)}}
}
func cx(combs string, comps ...compound) complexSel {
	if len(combs) != len(comps)-1 {
		panic("c05: bad complex selector")
	}
	return complexSel{comps: comps, combs: []byte(combs)}
}
func one(c complexSel) selList { return selList{c} }

// ---- printer -------------------------------------------------------------------------------

// cssIdent serializes an identifier as CSSOM does.
func cssIdent(s string) string {
	var b strings.Builder
	for i, r := range s {
		switch {
		case r >= '0' && r <= '9' && (i == 0 || (i == 1 && s[0] == '-')):
			fmt.Fprintf(&b, "\\%x ", r)
		case r == '-' && len(s) == 1:
			b.WriteString("\\-")
		case r >= 0x80, r == '-', r == '_', r >= '0' && r <= '9', r >= 'a' && r <= 'z', r >= 'A' && r <= 'Z':
			b.WriteRune(r)
		default:
			b.WriteByte('\\')
			b.WriteRune(r)
		}
	}
	return b.String()
}

func cssString(s string) string {
	var b strings.Builder
	b.WriteByte('"')
	for _, r := range s {
		switch r {
		case '"', '\\':
			b.WriteByte('\\')
			b.WriteRune(r)
		case '\n':
			b.WriteString("\\a ")
		default:
			b.WriteRune(r)
		}
	}
	b.WriteByte('"')
	return b.String()
}

func nthName(last, ofType bool) string {
	n := "nth-"
	if last {
		n += "last-"
	}
	if ofType {
		return n + "of-type"
	}
	return n + "child"
}

func (s simple) String() string {
	if s.text != "" {
		return s.text
	}
	switch s.kind {
	case kUniv:
		return "*"
	case kTag:
		return cssIdent(s.name)
	case kClass:
		return "." + cssIdent(s.name)
	case kID:
		return "#" + cssIdent(s.name)
	case kAttr:
		if s.op == "" {
			return "[" + s.name + "]"
		}
		f := ""
		if s.ci {
			f = " i"
		}
		return "[" + s.name + s.op + cssString(s.val) + f + "]"
	case kPseudo, kDyn:
		return ":" + s.name
	case kNth:
		sign := "+"
		if s.b < 0 {
			sign = ""
		}
		return fmt.Sprintf(":%s(%dn%s%d)", nthName(s.last, s.ofType), s.a, sign, s.b)
	case kNot, kIs, kHas:
		l := make([]string, len(s.args))
		for i, a := range s.args {
			l[i] = a.String()
		}
		return ":" + fnName(s.kind) + "(" + strings.Join(l, ", ") + ")"
	}
	panic("c05: unknown simple kind")
}

func fnName(k kind) string {
	switch k {
	case kNot:
		return "not"
	case kIs:
		return "is"
	case kHas:
		return "has"
	}
	return "?"
}

func (c compound) String() string {
	var b strings.Builder
	for _, p := range c.parts {
		b.WriteString(p.String())
	}
	if c.pe != "" {
		if c.peText != "" {
			b.WriteString(c.peText)
		} else {
			b.WriteString("::" + c.pe)
		}
	}
	if b.Len() == 0 {
		return "*"
	}
	return b.String()
}

func (c complexSel) String() string {
	if c.text != "" {
		return c.text
	}
	var b strings.Builder
	b.WriteString(c.comps[0].String())
	for i, cb := range c.combs {
		if cb == ' ' {
			b.WriteByte(' ')
		} else {
			b.WriteByte(' ')
			b.WriteByte(cb)
			b.WriteByte(' ')
		}
		b.WriteString(c.comps[i+1].String())
	}
	return b.String()
}

func (l selList) String() string {
	s := make([]string, len(l))
	for i, c := range l {
		s[i] = c.String()
	}
	return strings.Join(s, ", ")
}

// ---- specificity (Selectors 4 §17) ---------------------------------------------------------

type spec [3]int

func (s spec) less(o spec) bool {
	for i := range s {
		if s[i] != o[i] {
			return s[i] < o[i]
		}
	}
	return false
}

func specSimple(s *simple) spec {
	switch s.kind {
	case kUniv:
		return spec{}
	case kTag:
		return spec{0, 0, 1}
	case kID:
		return spec{1, 0, 0}
	case kClass, kAttr, kPseudo, kDyn, kNth:
		return spec{0, 1, 0}
	case kNot, kIs, kHas:
		var max spec
		for i := range s.args {
			if sp := specComplex(&s.args[i]); max.less(sp) {
				max = sp
			}
		}
		return max
	}
	panic("c05: unknown simple kind")
}

func specComplex(c *complexSel) spec {
	var t spec
	for i := range c.comps {
		for j := range c.comps[i].parts {
			s := specSimple(&c.comps[i].parts[j])
			t[0] += s[0]
			t[1] += s[1]
			t[2] += s[2]
		}
		if c.comps[i].pe != "" {
			t[2]++
		}
	}
	return t
}

func pseudoElementOf(c *complexSel) string { return c.comps[len(c.comps)-1].pe }

// ---- feature tags (computed from the selector alone) ---------------------------------------

const wsChars = " \t\n\f\r"

func isASCII(s string) bool {
	for i := 0; i < len(s); i++ {
		if s[i] >= 0x80 {
			return false
		}
	}
	return true
}

func combName(cb byte) string {
	switch cb {
	case ' ':
		return "descendant"
	case '>':
		return "child"
	case '+':
		return "adjacent"
	case '~':
		return "general"
	}
	return "?"
}

func identTags(prefix, name string, set map[string]bool) {
	if cssIdent(name) != name {
		set[prefix+":escaped"] = true
	}
	if name != "" && (name[0] >= '0' && name[0] <= '9') {
		set[prefix+":leading-digit"] = true
	}
	if !isASCII(name) {
		set[prefix+":non-ascii"] = true
	}
}

func simpleTags(s *simple, set map[string]bool) {
	switch s.kind {
	case kUniv:
		set["universal"] = true
	case kTag:
		set["type"] = true
		if strings.ToLower(s.name) != s.name {
			set["type:upper-case"] = true
		}
		identTags("type", s.name, set)
	case kClass:
		set["class"] = true
		identTags("class", s.name, set)
	case kID:
		set["id"] = true
		identTags("id", s.name, set)
	case kAttr:
		set["attr"] = true
		if s.op == "" {
			set["attr-exists"] = true
			return
		}
		o := "attr" + s.op
		set[o] = true
		switch {
		case s.val == "":
			set[o+":empty-value"] = true
		case strings.Trim(s.val, wsChars) == "":
			set[o+":ws-only-value"] = true
		case strings.ContainsAny(s.val, wsChars):
			set[o+":ws-in-value"] = true
		}
		if s.ci {
			set["attr:i-flag"] = true
			set[o+":i-flag"] = true
			if !isASCII(s.val) {
				set["attr:i-flag:non-ascii-value"] = true
			}
		}
		if strings.ContainsAny(s.val, "\"\\\n") {
			set["attr:value-needs-escape"] = true
		}
	case kPseudo:
		set[":"+s.name] = true
	case kDyn:
		set[":dynamic"] = true
	case kNth:
		n := ":" + nthName(s.last, s.ofType)
		set[n] = true
		switch {
		case s.a < 0:
			set["nth:a<0"] = true
		case s.a == 0:
			set["nth:a=0"] = true
		default:
			set["nth:a>0"] = true
		}
		switch {
		case s.b < 0:
			set["nth:b<0"] = true
		case s.b == 0:
			set["nth:b=0"] = true
		default:
			set["nth:b>0"] = true
		}
	case kNot, kIs, kHas:
		n := ":" + fnName(s.kind)
		set[n] = true
		if len(s.args) > 1 {
			set[n+":list"] = true
		}
		for i := range s.args {
			a := &s.args[i]
			for _, cb := range a.combs {
				set[n+":inner-"+combName(cb)] = true
			}
			for j := range a.comps {
				if len(a.comps[j].parts) > 1 {
					set[n+":inner-compound"] = true
				}
				for k := range a.comps[j].parts {
					simpleTags(&a.comps[j].parts[k], set)
				}
			}
		}
	}
	if s.text != "" {
		set["spelled"] = true
	}
}

func listTags(l selList) []string {
	set := map[string]bool{}
	if len(l) > 1 {
		set["list"] = true
	}
	for i := range l {
		c := &l[i]
		if c.text != "" {
			set["spelled"] = true
		}
		for _, cb := range c.combs {
			set["comb:"+combName(cb)] = true
		}
		if len(c.comps) >= 3 {
			set["compounds>=3"] = true
		}
		for j := range c.comps {
			if len(c.comps[j].parts) > 1 {
				set["compound"] = true
			}
			if c.comps[j].pe != "" {
				set["pseudo-element"] = true
			}
			for k := range c.comps[j].parts {
				simpleTags(&c.comps[j].parts[k], set)
			}
		}
	}
	out := make([]string, 0, len(set))
	for k := range set {
		out = append(out, k)
	}
	sort.Strings(out)
	return out
}

// ---- selector flags used by the reach counters ---------------------------------------------

const (
	fSibLast   = 1 << iota // last combinator of some list item is + or ~
	fEmptyLast             // last compound contains :empty
	fNthNegA               // an nth-* with a < 0
	fNthNegB               // an nth-* with b < 0
	fOfType                // an *-of-type pseudo-class
	fFnList                // :not/:is/:has with >= 2 arguments
	fFnInner               // :not/:is/:has with a combinator inside
	fCI                    // attribute selector with the i flag
	fEmptyVal              // attribute operator with an empty value
	fDyn                   // :hover family
	fPE                    // pseudo-element
	fDesc                  // descendant or child combinator
	fHas
	fNot
	fIs
)

func simpleFlags(s *simple) uint32 {
	var f uint32
	switch s.kind {
	case kAttr:
		if s.ci {
			f |= fCI
		}
		if s.op != "" && s.val == "" {
			f |= fEmptyVal
		}
	case kPseudo:
		if strings.HasSuffix(s.name, "of-type") {
			f |= fOfType
		}
	case kDyn:
		f |= fDyn
	case kNth:
		if s.a < 0 {
			f |= fNthNegA
		}
		if s.b < 0 {
			f |= fNthNegB
		}
		if s.ofType {
			f |= fOfType
		}
	case kNot, kIs, kHas:
		switch s.kind {
		case kNot:
			f |= fNot
		case kIs:
			f |= fIs
		case kHas:
			f |= fHas
		}
		if len(s.args) > 1 {
			f |= fFnList
		}
		for i := range s.args {
			if len(s.args[i].combs) > 0 {
				f |= fFnInner
			}
			for j := range s.args[i].comps {
				for k := range s.args[i].comps[j].parts {
					f |= simpleFlags(&s.args[i].comps[j].parts[k]) &^ (fFnList | fFnInner)
				}
			}
		}
	}
	return f
}

func listFlags(l selList) uint32 {
	var f uint32
	for i := range l {
		c := &l[i]
		if n := len(c.combs); n > 0 && (c.combs[n-1] == '+' || c.combs[n-1] == '~') {
			f |= fSibLast
		}
		for _, cb := range c.combs {
			if cb == ' ' || cb == '>' {
				f |= fDesc
			}
		}
		for j := range c.comps {
			if c.comps[j].pe != "" {
				f |= fPE
			}
			for k := range c.comps[j].parts {
				s := &c.comps[j].parts[k]
				f |= simpleFlags(s)
				if j == len(c.comps)-1 && s.kind == kPseudo && s.name == "empty" {
					f |= fEmptyLast
				}
			}
		}
	}
	return f
}
