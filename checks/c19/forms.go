package c19

// Small hand-enumerated families: (a) the definitions of predefined styles in the UA
// sheet against the specification's own definitions, (b) forms of @counter-style rules and
// of the <counter-style> argument that the product family does not spell (symbols(),
// strings, invalid rules, repeated descriptors, rule override), end to end only.

import (
	"fmt"
	"strings"

	"verif/internal/engine"
)

func runes(s string) []string {
	var out []string
	for _, r := range s {
		out = append(out, string(r))
	}
	return out
}

func digitsFrom(zero rune) []string {
	var out []string
	for i := rune(0); i < 10; i++ {
		out = append(out, string(zero+i))
	}
	return out
}

func romanTuples(upper bool) []addTuple {
	l := []addTuple{{1000, "m"}, {900, "cm"}, {500, "d"}, {400, "cd"}, {100, "c"}, {90, "xc"}, {50, "l"}, {40, "xl"}, {10, "x"}, {9, "ix"}, {5, "v"}, {4, "iv"}, {1, "i"}}
	if upper {
		for i := range l {
			l[i].S = strings.ToUpper(l[i].S)
		}
	}
	return l
}

// specTable: definitions copied from CSS Counter Styles Level 3 §6 (numeric styles are the
// decimal digits of the script's Unicode block).
var specTable = func() []*refStyle {
	l := []*refStyle{
		{Name: "decimal", System: "numeric", Symbols: digitsFrom('0')},
		{Name: "decimal-leading-zero", System: "extends", Extends: "decimal", HasPad: true, PadN: 2, PadS: "0"},
		{Name: "lower-roman", System: "additive", HasRange: true, Ranges: [][2]int64{{1, 3999}}, Additive: romanTuples(false)},
		{Name: "upper-roman", System: "additive", HasRange: true, Ranges: [][2]int64{{1, 3999}}, Additive: romanTuples(true)},
		{Name: "lower-alpha", System: "alphabetic", Symbols: runes("abcdefghijklmnopqrstuvwxyz")},
		{Name: "lower-latin", System: "extends", Extends: "lower-alpha"},
		{Name: "upper-alpha", System: "alphabetic", Symbols: runes("ABCDEFGHIJKLMNOPQRSTUVWXYZ")},
		{Name: "upper-latin", System: "extends", Extends: "upper-alpha"},
		{Name: "lower-greek", System: "alphabetic", Symbols: runes("αβγδεζηθικλμνξοπρστυφχψω")},
		{Name: "disc", System: "cyclic", Symbols: []string{"•"}, HasSuffix: true, Suffix: " "},
		{Name: "circle", System: "cyclic", Symbols: []string{"◦"}, HasSuffix: true, Suffix: " "},
		{Name: "square", System: "cyclic", Symbols: []string{"▪"}, HasSuffix: true, Suffix: " "},
		{Name: "disclosure-open", System: "cyclic", Symbols: []string{"▾"}, HasSuffix: true, Suffix: " "},
		{Name: "disclosure-closed", System: "cyclic", Symbols: []string{"▸"}, HasSuffix: true, Suffix: " "},
		{Name: "cjk-decimal", System: "numeric", Symbols: runes("〇一二三四五六七八九"), HasRange: true, Ranges: [][2]int64{{0, posInf}}, HasSuffix: true, Suffix: "、"},
	}
	for _, d := range []struct {
		name string
		zero rune
	}{{"arabic-indic", 0x660}, {"persian", 0x6F0}, {"devanagari", 0x966}, {"bengali", 0x9E6}, {"gurmukhi", 0xA66},
		{"gujarati", 0xAE6}, {"oriya", 0xB66}, {"tamil", 0xBE6}, {"telugu", 0xC66}, {"kannada", 0xCE6}, {"malayalam", 0xD66},
		{"thai", 0xE50}, {"lao", 0xED0}, {"tibetan", 0xF20}, {"myanmar", 0x1040}, {"cambodian", 0x17E0}, {"mongolian", 0x1810}} {
		l = append(l, &refStyle{Name: d.name, System: "numeric", Symbols: digitsFrom(d.zero)})
	}
	l = append(l, &refStyle{Name: "khmer", System: "extends", Extends: "cambodian"})
	return l
}()

func (c *check) runSpecTable(ctx *engine.Ctx, i int) {
	spec := refEnv{}
	for _, s := range specTable {
		spec[s.Name] = s
	}
	name := specTable[i].Name
	for _, v := range c.values {
		wr, _ := spec.generate(v, name)
		wm, _ := spec.marker(v, name)
		desc := fmt.Sprintf("ua-definition %s value %d", name, v)
		gr, gm := "", ""
		if _, has := c.predef[name]; has {
			gr, _ = c.predef.generate(v, name)
			gm, _ = c.predef.marker(v, name)
		} else {
			gr, gm = "<style not defined by the UA sheet>", ""
		}
		ctx.Case(true, "u|"+wr)
		ctx.Trans(1)
		if gr != wr || gm != wm {
			ctx.Fail(engine.Failure{Clause: "ua-definition", Features: []string{"predefined", "style=" + name}, Case: desc,
				Detail: fmt.Sprintf("specification: %q marker %q; UA sheet definition gives %q marker %q", wr, wm, gr, gm)})
		}
	}
}

// extraCase is one end-to-end form.
type extraCase struct {
	name       string
	css        string      // style sheet rules
	use        string      // the <counter-style> expression used in counter() and list-style-type
	markerOnly bool        // use is only valid in list-style-type
	env        []*refStyle // what the rules define, per the specification
	target     string      // name rendered by the reference ("" = anon)
	anon       *refStyle
	feats      []string
}

func extraCases() []extraCase {
	cyc := func(name string, syms ...string) *refStyle {
		return &refStyle{Name: name, System: "cyclic", Symbols: syms}
	}
	var l []extraCase
	add := func(e extraCase) { l = append(l, e) }
	// symbols() and <string>
	for _, f := range []struct {
		text, system string
		syms         []string
	}{
		{`symbols("x")`, "symbolic", []string{"x"}},
		{`symbols(cyclic "a" "b")`, "cyclic", []string{"a", "b"}},
		{`symbols(numeric "0" "1")`, "numeric", []string{"0", "1"}},
		{`symbols(alphabetic "a" "b")`, "alphabetic", []string{"a", "b"}},
		{`symbols(fixed "p" "q")`, "fixed", []string{"p", "q"}},
		{`symbols(symbolic "é" "t")`, "symbolic", []string{"é", "t"}},
	} {
		add(extraCase{name: "symbols-function", use: f.text, anon: anonSymbols(f.system, f.syms), feats: []string{"symbols()"}})
	}
	add(extraCase{name: "string-list-style-type", use: `"→"`, markerOnly: true, anon: anonString("→"), feats: []string{"string-style"}})
	// rules that do not define a counter style: the name renders as decimal
	for _, r := range []struct{ why, css string }{
		{"extends-with-symbols", `@counter-style s{system:extends lower-roman;symbols:a b}`},
		{"extends-with-additive-symbols", `@counter-style s{system:extends lower-roman;additive-symbols:2 a,1 b}`},
		{"cyclic-without-symbols", `@counter-style s{system:cyclic}`},
		{"alphabetic-one-symbol", `@counter-style s{system:alphabetic;symbols:a}`},
		{"numeric-one-symbol", `@counter-style s{system:numeric;symbols:a}`},
		{"additive-without-tuples", `@counter-style s{system:additive;symbols:a b}`},
		{"additive-ascending-tuples", `@counter-style s{system:additive;additive-symbols:1 a,5 b}`},
		{"additive-equal-weights", `@counter-style s{system:additive;additive-symbols:5 a,5 b}`},
		{"name-case-sensitive", `@counter-style S{system:cyclic;symbols:a}`},
	} {
		add(extraCase{name: "not-a-style:" + r.why, css: r.css, use: "s", target: "s", feats: []string{"rule-defines-no-style", r.why}})
	}
	add(extraCase{name: "decimal-not-overridable", css: `@counter-style decimal{system:cyclic;symbols:x}`, use: "decimal", target: "decimal", feats: []string{"override-decimal"}})
	add(extraCase{name: "disc-not-overridable", css: `@counter-style disc{system:cyclic;symbols:x}`, use: "disc", target: "disc", feats: []string{"override-disc"}})
	add(extraCase{name: "predefined-overridable", css: `@counter-style lower-roman{system:cyclic;symbols:q}`, use: "lower-roman", target: "lower-roman",
		env: []*refStyle{cyc("lower-roman", "q")}, feats: []string{"override-predefined"}})
	// defaults and repeated descriptors
	add(extraCase{name: "system-defaults-to-symbolic", css: `@counter-style s{symbols:a b}`, use: "s", target: "s",
		env: []*refStyle{{Name: "s", System: "symbolic", Symbols: []string{"a", "b"}}}, feats: []string{"no-system"}})
	add(extraCase{name: "invalid-system-ignored", css: `@counter-style s{system:fixed 1.5;symbols:a b}`, use: "s", target: "s",
		env: []*refStyle{{Name: "s", System: "symbolic", Symbols: []string{"a", "b"}}}, feats: []string{"invalid-system"}})
	add(extraCase{name: "symbols-declared-twice", css: `@counter-style s{system:cyclic;symbols:a b;symbols:c d}`, use: "s", target: "s",
		env: []*refStyle{cyc("s", "c", "d")}, feats: []string{"descriptor-twice", "symbols-twice"}})
	add(extraCase{name: "range-declared-twice", css: `@counter-style s{system:cyclic;symbols:a b;range:2 4;range:6 8}`, use: "s", target: "s",
		env: []*refStyle{{Name: "s", System: "cyclic", Symbols: []string{"a", "b"}, HasRange: true, Ranges: [][2]int64{{6, 8}}}}, feats: []string{"descriptor-twice", "range-twice"}})
	add(extraCase{name: "additive-symbols-declared-twice", css: `@counter-style s{system:additive;additive-symbols:5 V,1 I;additive-symbols:2 T,1 J}`, use: "s", target: "s",
		env: []*refStyle{{Name: "s", System: "additive", Additive: []addTuple{{2, "T"}, {1, "J"}}}}, feats: []string{"descriptor-twice", "additive-symbols-twice"}})
	add(extraCase{name: "pad-declared-twice", css: `@counter-style s{system:cyclic;symbols:a b;pad:3 "0";pad:2 "x"}`, use: "s", target: "s",
		env: []*refStyle{{Name: "s", System: "cyclic", Symbols: []string{"a", "b"}, HasPad: true, PadN: 2, PadS: "x"}}, feats: []string{"descriptor-twice", "pad-twice"}})
	add(extraCase{name: "rule-declared-twice", css: `@counter-style s{system:cyclic;symbols:a;pad:3 "0"} @counter-style s{system:cyclic;symbols:b}`, use: "s", target: "s",
		env: []*refStyle{cyc("s", "b")}, feats: []string{"rule-twice"}})
	add(extraCase{name: "invalid-pad-after-valid", css: `@counter-style s{system:cyclic;symbols:a b;pad:3 "0";pad:-1 "x"}`, use: "s", target: "s",
		env: []*refStyle{{Name: "s", System: "cyclic", Symbols: []string{"a", "b"}, HasPad: true, PadN: 3, PadS: "0"}}, feats: []string{"invalid-descriptor", "pad-negative"}})
	add(extraCase{name: "invalid-range-part", css: `@counter-style s{system:cyclic;symbols:a b;range:2 4,5 3}`, use: "s", target: "s",
		env: []*refStyle{cyc("s", "a", "b")}, feats: []string{"invalid-descriptor", "range-partly-invalid"}})
	add(extraCase{name: "invalid-range-reversed", css: `@counter-style s{system:cyclic;symbols:a b;range:4 2}`, use: "s", target: "s",
		env: []*refStyle{cyc("s", "a", "b")}, feats: []string{"invalid-descriptor", "range-reversed"}})
	add(extraCase{name: "important-descriptor-ignored", css: `@counter-style s{system:cyclic;symbols:a b;symbols:c !important}`, use: "s", target: "s",
		env: []*refStyle{cyc("s", "a", "b")}, feats: []string{"invalid-descriptor", "important"}})
	add(extraCase{name: "negative-three-symbols-invalid", css: `@counter-style s{system:numeric;symbols:a b;negative:"x" "y" "z"}`, use: "s", target: "s",
		env: []*refStyle{{Name: "s", System: "numeric", Symbols: []string{"a", "b"}}}, feats: []string{"invalid-descriptor", "negative-three"}})
	add(extraCase{name: "pad-symbol-first", css: `@counter-style s{system:numeric;symbols:a b;pad:"0" 3}`, use: "s", target: "s",
		env: []*refStyle{{Name: "s", System: "numeric", Symbols: []string{"a", "b"}, HasPad: true, PadN: 3, PadS: "0"}}, feats: []string{"pad-symbol-first"}})
	add(extraCase{name: "additive-tuple-symbol-first", css: `@counter-style s{system:additive;additive-symbols:"V" 5,"I" 1}`, use: "s", target: "s",
		env: []*refStyle{{Name: "s", System: "additive", Additive: []addTuple{{5, "V"}, {1, "I"}}}}, feats: []string{"tuple-symbol-first"}})
	add(extraCase{name: "range-infinite-infinite", css: `@counter-style s{system:alphabetic;symbols:a b;range:infinite infinite;negative:"n"}`, use: "s", target: "s",
		env: []*refStyle{{Name: "s", System: "alphabetic", Symbols: []string{"a", "b"}, HasRange: true, Ranges: [][2]int64{{negInf, posInf}}, HasNegative: true, NegPre: "n"}}, feats: nil})
	add(extraCase{name: "ident-affixes", css: `@counter-style s{system:cyclic;symbols:a b;prefix:x;suffix:y}`, use: "s", target: "s",
		env: []*refStyle{{Name: "s", System: "cyclic", Symbols: []string{"a", "b"}, HasPrefix: true, Prefix: "x", HasSuffix: true, Suffix: "y"}}, feats: []string{"ident-affixes"}})
	return l
}

func (c *check) runExtra(ctx *engine.Ctx, e extraCase) {
	sc := &styleCase{author: e.env, target: e.target, label: e.name, extra: append([]string{"form"}, e.feats...), noDirec: true,
		rawCSS: e.css, use: e.use, markerOnly: e.markerOnly, anon: e.anon, withCounters: !e.markerOnly}
	c.runStyleCase(ctx, sc, c.values)
}
