package c19

// Execution of the counter-style units: direct calls on counters.CounterStyle and
// end-to-end documents (@counter-style rule + ::before / ::marker text in the box tree),
// both compared with the reference on every value.

import (
	"fmt"
	"sort"
	"strings"

	"github.com/benoitkugler/webrender/css/counters"
	pr "github.com/benoitkugler/webrender/css/properties"
	bo "github.com/benoitkugler/webrender/html/boxes"
	"github.com/benoitkugler/webrender/html/tree"

	"verif/internal/engine"
)

// predefinedRef returns the predefined styles of the UA sheet read as data.
func predefinedRef() (refEnv, []string) {
	env := refEnv{}
	var names []string
	for k, v := range tree.UACounterStyle {
		env[k] = fromImpl(k, v)
		names = append(names, k)
	}
	sort.Strings(names)
	return env, names
}

type styleCase struct {
	author  []*refStyle // author rules, in source order
	target  string      // style name rendered
	label   string      // human readable form of the case
	idents  bool        // spell identifier-like symbols as identifiers in the CSS text
	extra   []string    // feature tags of the family
	noE2E   bool
	noDirec bool
	// forms (end to end only)
	rawCSS       string    // style sheet text, instead of the spelling of author
	use          string    // <counter-style> expression used in the document, instead of target
	markerOnly   bool      // use is only valid in list-style-type
	anon         *refStyle // anonymous style rendered (symbols(), <string>)
	withCounters bool      // ::before also shows counters(c, "-", use)
}

func (sc *styleCase) css() string {
	if sc.rawCSS != "" || sc.use != "" {
		return sc.rawCSS
	}
	var parts []string
	for _, s := range sc.author {
		parts = append(parts, toCSS(s, sc.idents))
	}
	return strings.Join(parts, " ")
}

// potentialLimit: the implementation builds symbolic and additive representations as whole
// strings. Should it (wrongly) run such an algorithm on a value that the reference sends to
// the fallback style (out of range, not representable), a 2^31 value would make it allocate
// gigabytes. A value is therefore not run at all in an environment where some style
// reachable from the rendered one (through extends and fallback links) could produce more
// than potentialLimit symbols for it if its range were ignored.
const potentialLimit = 5_000_000

func potentialSymbols(env refEnv, target string, v int) int {
	if v < 0 {
		v = -v
	}
	seen := map[string]bool{}
	todo := []string{target}
	worst := 0
	for len(todo) > 0 {
		name := todo[len(todo)-1]
		todo = todo[:len(todo)-1]
		if seen[name] {
			continue
		}
		seen[name] = true
		s := env.lookup(name)
		if s == nil {
			continue
		}
		n := 0
		switch s.System {
		case "symbolic":
			if len(s.Symbols) > 0 {
				n = v/len(s.Symbols) + 1
			}
		case "additive":
			for _, t := range s.Additive {
				if t.W > 0 {
					n = v / t.W
					break
				}
			}
		case "extends":
			todo = append(todo, s.Extends)
		}
		if n > worst {
			worst = n
		}
		if s.Fallback != "" {
			todo = append(todo, s.Fallback)
		}
	}
	return worst
}

// maxE2E: CSS numbers are held as float32 by the parser of the implementation, integers
// beyond 2^24 are not exactly representable in a style sheet; they are explored by the
// direct calls only.
const maxE2E = 1 << 24

// inE2E: the values shown by the end-to-end documents (every value goes through the direct
// calls in both tiers): quick: [-12,25] and +-{999,4000}; thorough: [-30,60] and
// +-{999,1000,3999,4000,9999,10000,65536,1000000}.
func (c *check) inE2E(v int) bool {
	if v > maxE2E || v < -maxE2E {
		return false
	}
	if c.tier == "thorough" {
		return (v >= -30 && v <= 60) || v > 200 || v < -100
	}
	return (v >= -12 && v <= 25) || v == 999 || v == -999 || v == 4000 || v == -4000
}

// goTruncMod is Go's (and C's) truncating remainder, the arithmetic the feature tag
// "cyclic-index-negative" is about.
func goTruncMod(a, n int) int { return a % n }

// extendsTags describes the raw extends chain that starts at name.
func extendsTags(env refEnv, name string, set map[string]bool) {
	s := env.lookup(name)
	if s == nil || s.System != "extends" {
		return
	}
	set["extends"] = true
	if env.inExtendsCycle(name) {
		set["extends-cycle"] = true
		// length of the cycle
		n, cur := 1, s.Extends
		for cur != name && n < 10 {
			cur = env.lookup(cur).Extends
			n++
		}
		set[fmt.Sprintf("extends-cycle-len=%d", n)] = true
		return
	}
	seen := map[string]bool{name: true}
	depth := 0
	cur := s
	for cur != nil && cur.System == "extends" {
		depth++
		t := env.lookup(cur.Extends)
		if t == nil {
			set["extends-missing-target"] = true
			break
		}
		if seen[t.Name] {
			// the chain runs into a cycle that does not contain name; its length:
			n, c2 := 1, env.lookup(t.Extends)
			for c2 != nil && c2.Name != t.Name && n < 10 {
				c2 = env.lookup(c2.Extends)
				n++
			}
			set[fmt.Sprintf("extends-into-cycle-len=%d", n)] = true
			break
		}
		seen[t.Name] = true
		cur = t
	}
	if depth >= 2 {
		set["extends-chain>=2"] = true
	}
}

func rawExtendsChain(env refEnv, name string) []string {
	var out []string
	seen := map[string]bool{name: true}
	s := env.lookup(name)
	for s != nil && s.System == "extends" {
		t := s.Extends
		if seen[t] {
			break
		}
		seen[t] = true
		out = append(out, t)
		s = env.lookup(t)
	}
	return out
}

// styleFeatures computes the feature tags of (environment, style, value) from the input
// and the reference trace only.
func styleFeatures(env refEnv, name string, v int, tr *genTrace, extra []string) []string {
	set := map[string]bool{}
	for _, x := range extra {
		set[x] = true
	}
	switch {
	case v == 0:
		set["value=0"] = true
	case v < 0:
		set["value<0"] = true
	}
	if tr.Unknown {
		set["unknown-style"] = true
	}
	if tr.LoopCut {
		set["fallback-loop"] = true
	}
	if len(tr.Steps) > 1 {
		set["via-fallback"] = true
	}
	for _, st := range tr.Steps {
		extendsTags(env, st.Name, set)
		if raw := env.lookup(st.Name); raw != nil && raw.System == "extends" && raw.HasRange && raw.RangeAuto {
			set["extends-range-auto"] = true
		}
		s := st.Style
		if s.HasRange && !s.RangeAuto {
			for _, r := range s.Ranges {
				if r[0] == negInf {
					set["range-lower-infinite"] = true
				}
			}
		}
		if s.System == "additive" && len(s.Additive) == 1 {
			set["additive-single-tuple"] = true
		}
		if st.Reason == "range" {
			continue // the algorithm of this style is not reached
		}
		av := v
		if v < 0 && usesNegativeSign(s.System) {
			av = -v
			if st.Reason == "norepr" {
				// the algorithm ran on the absolute value and failed: the fallback style
				// must get the original, negative value
				set["negative-value-unrepresentable"] = true
			}
		}
		switch s.System {
		case "cyclic":
			if goTruncMod(v-1, len(s.Symbols)) < 0 {
				set["cyclic-index-negative"] = true
			}
		case "symbolic":
			if av == 0 {
				set["symbolic-zero"] = true
			}
		case "alphabetic":
			if av == 0 {
				set["alphabetic-zero"] = true
			}
		case "additive":
			if av == 0 {
				hasZero := false
				for _, t := range s.Additive {
					if t.W == 0 {
						hasZero = true
					}
				}
				if !hasZero {
					set["additive-zero-no-zero-symbol"] = true
				}
			} else {
				rem := av
				for _, t := range s.Additive {
					if rem == 0 {
						break
					}
					if t.W == 0 {
						set["additive-zero-weight-reached"] = true
						break
					}
					rem -= (rem / t.W) * t.W
				}
			}
		}
	}
	// Region of one root cause: the implementation records the styles walked through while
	// resolving "extends" in the same visited set as the styles tried as fallbacks. The tag
	// is set when, along the reference path, a fallback style (or the style a loop comes
	// back to) is or extends a style that an earlier fallback step was or extended.
	{
		names := map[string]bool{} // fallback steps so far (the first style is not a fallback step)
		anc := map[string]bool{}   // their extends ancestors
		meets := func(name string, first bool) bool {
			if !first && anc[name] && !names[name] {
				return true
			}
			for _, e := range rawExtendsChain(env, name) {
				if names[e] || anc[e] {
					return true
				}
			}
			return false
		}
		for k := 1; k < len(tr.Steps); k++ {
			nm := tr.Steps[k].Name
			if tr.LoopCut && k == len(tr.Steps)-1 {
				// the last step is the decimal that replaced the loop target
				if meets(tr.LoopTo, tr.LoopTo == tr.Steps[0].Name) {
					set["extends-meets-fallback-path"] = true
				}
				break
			}
			if meets(nm, false) {
				set["extends-meets-fallback-path"] = true
			}
			names[nm] = true
			for _, e := range rawExtendsChain(env, nm) {
				anc[e] = true
			}
		}
	}
	fin := tr.Steps[len(tr.Steps)-1].Style
	set["final="+fin.System] = true
	if fin.HasPad {
		l, b := runeLen(tr.PrePad), len(tr.PrePad)
		if tr.Negative {
			pre, suf := "-", ""
			if fin.HasNegative {
				pre, suf = fin.NegPre, fin.NegSuf
			}
			l += runeLen(pre) + runeLen(suf)
			b += len(pre) + len(suf)
		}
		if l != b && l < fin.PadN {
			set["pad-non-ascii"] = true
		}
	}
	if tr.Negative && fin.HasNegative && fin.NegSuf != "" {
		set["negative-prefix-and-suffix"] = true
	}
	var out []string
	for k := range set {
		out = append(out, k)
	}
	sort.Strings(out)
	return out
}

func implMap(author []*refStyle) counters.CounterStyle {
	cs := counters.CounterStyle{}
	for k, v := range tree.UACounterStyle {
		cs[k] = v
	}
	for _, s := range author {
		cs[s.Name] = toImpl(s)
	}
	return cs
}

func (c *check) envFor(author []*refStyle) refEnv {
	env := refEnv{}
	for k, v := range c.predef {
		env[k] = v
	}
	for _, s := range author {
		env[s.Name] = s
	}
	return env
}

// runStyleCase explores one (environment, style) over the integer set.
func (c *check) runStyleCase(ctx *engine.Ctx, sc *styleCase, values []int) {
	env := c.envFor(sc.author)
	if sc.anon != nil {
		a := *sc.anon
		a.Name = "\x00anon"
		env[a.Name] = &a
		sc.target = a.Name
	}
	css := sc.css()
	type exp struct {
		repr, marker string
		tr           *genTrace
		feats        []string
	}
	exps := make([]exp, len(values))
	for i, v := range values {
		r, tr := env.generate(v, sc.target)
		m, _ := env.marker(v, sc.target)
		feats := styleFeatures(env, sc.target, v, tr, sc.extra)
		if potentialSymbols(env, sc.target, v) > potentialLimit {
			tr.Huge = true
		}
		if sc.withCounters {
			r = r + "~" + r
		}
		if sc.markerOnly {
			r = ""
		}
		exps[i] = exp{r, m, tr, feats}
	}
	if !sc.noDirec {
		var cs counters.CounterStyle
		if !ctx.GuardFail("build descriptors: "+css, sc.extra, func() { cs = implMap(sc.author) }) {
			return
		}
		for i, v := range values {
			e := &exps[i]
			if e.tr.Huge {
				ctx.Case(false, "huge")
				ctx.Count("not-run:representation-or-potential-too-long", 1)
				continue
			}
			if e.tr.Long {
				// implementation-defined length limit region: run for crashes, do not compare
				desc := fmt.Sprintf("direct RenderValue(%d, %q) with %s", v, sc.target, css)
				ctx.GuardFail(desc, append([]string{"direct", "long-representation"}, e.feats...), func() { cs.RenderValue(v, sc.target) })
				ctx.Case(false, "long")
				ctx.Count("not-compared:representation-longer-than-60-symbols", 1)
				continue
			}
			feats := append([]string{"direct"}, e.feats...)
			base := fmt.Sprintf("(%d, %q) with %s", v, sc.target, css)
			var got, got2, gotM string
			reprOK := false
			desc := "direct RenderValue" + base
			if ctx.GuardFail(desc, feats, func() { got = cs.RenderValue(v, sc.target) }) {
				reprOK = got == e.repr
				if !reprOK {
					ctx.Fail(engine.Failure{Clause: "repr", Features: feats, Case: desc, Detail: fmt.Sprintf("want %q got %q (%s)", e.repr, got, traceString(e.tr))})
				}
				desc2 := "direct RenderValueStyle" + base
				if ctx.GuardFail(desc2, feats, func() { got2 = cs.RenderValueStyle(v, pr.CounterStyleID{Name: sc.target}) }) && got2 != got {
					ctx.Fail(engine.Failure{Clause: "repr-style-vs-name", Features: feats, Case: desc2, Detail: fmt.Sprintf("RenderValue %q RenderValueStyle %q", got, got2)})
				}
			}
			descM := "direct RenderMarker" + base
			if ctx.GuardFail(descM, feats, func() { gotM = cs.RenderMarker(pr.CounterStyleID{Name: sc.target}, v) }) {
				if gotM != e.marker && reprOK {
					ctx.Fail(engine.Failure{Clause: "marker", Features: feats, Case: descM, Detail: fmt.Sprintf("want %q got %q", e.marker, gotM)})
				}
			}
			ctx.Case(true, "d|"+e.repr+"|"+e.marker)
			ctx.Trans(3)
			ctx.Count("direct-renderings", 3)
			c.countTrace(ctx, e.tr)
		}
	}
	if sc.noE2E {
		return
	}
	// end to end: one document showing every value; a document that panics is re-run value
	// by value, so that every failure is attributed to its own minimal document.
	var idx []int
	for i, v := range values {
		if !c.inE2E(v) || exps[i].tr.Long || exps[i].tr.Huge {
			continue
		}
		idx = append(idx, i)
	}
	if len(idx) == 0 {
		return
	}
	get := func(i int) (string, string, []string) { return exps[i].repr, exps[i].marker, exps[i].feats }
	if !c.runStyleDoc(ctx, sc, css, values, idx, get, len(idx) == 1) && len(idx) > 1 {
		for _, i := range idx {
			c.runStyleDoc(ctx, sc, css, values, []int{i}, get, true)
		}
	}
}

func (c *check) countTrace(ctx *engine.Ctx, tr *genTrace) {
	if len(tr.Steps) > 1 {
		ctx.Count("reference-used-fallback", 1)
	}
	if tr.LoopCut {
		ctx.Count("reference-cut-fallback-loop", 1)
	}
	ctx.Count("final-system:"+tr.Steps[len(tr.Steps)-1].Style.System, 1)
}

func traceString(tr *genTrace) string {
	var parts []string
	for _, s := range tr.Steps {
		p := s.Name + ":" + s.Style.System
		if s.Reason != "" {
			p += "(" + s.Reason + ")"
		}
		parts = append(parts, p)
	}
	return "reference path " + strings.Join(parts, " -> ")
}

func styleDoc(sc *styleCase, css string, values []int, idx []int) string {
	var sb strings.Builder
	sb.WriteString("<style>")
	sb.WriteString(css)
	use := sc.target
	if sc.use != "" {
		use = sc.use
	}
	fmt.Fprintf(&sb, " p{display:list-item;list-style-type:%s}", use)
	switch {
	case sc.markerOnly:
	case sc.withCounters:
		fmt.Fprintf(&sb, ` p::before{white-space:pre;content:counter(c,%s) "~" counters(c,"-",%s)}`, use, use)
	default:
		fmt.Fprintf(&sb, " p::before{white-space:pre;content:counter(c,%s)}", use)
	}
	sb.WriteString("</style><body>")
	for _, i := range idx {
		v := values[i]
		fmt.Fprintf(&sb, `<p id=v%d style="counter-reset:c %d list-item %d;counter-increment:list-item 0"></p>`, i, v, v)
	}
	return sb.String()
}

// pseudoTexts collects, per element id, the text of the outermost box of each pseudo type.
func pseudoTexts(b bo.Box, out map[string]string) {
	f := b.Box()
	if f.PseudoType != "" && f.Element != nil {
		id := ""
		for _, a := range f.Element.Attr {
			if a.Key == "id" {
				id = a.Val
			}
		}
		key := id + "::" + f.PseudoType
		if _, has := out[key]; !has {
			var sb strings.Builder
			boxText(b, &sb)
			out[key] = sb.String()
		}
		return
	}
	for _, ch := range f.Children {
		pseudoTexts(ch, out)
	}
}

// runStyleDoc runs one end-to-end document; it returns false when building it panicked.
// report: whether a panic is reported as a failure (single-value documents) or only
// triggers the value-by-value re-run.
func (c *check) runStyleDoc(ctx *engine.Ctx, sc *styleCase, css string, values []int, idx []int,
	exp func(i int) (string, string, []string), report bool,
) bool {
	html := styleDoc(sc, css, values, idx)
	desc := "e2e " + html
	got := map[string]string{}
	run := func() {
		b, _, err := buildBoxTree(html, false)
		if err != nil {
			panic(err)
		}
		pseudoTexts(b, got)
	}
	if report {
		_, _, feats := exp(idx[0])
		feats = append([]string{"e2e"}, feats...)
		if !ctx.GuardFail(desc, feats, run) {
			ctx.Case(true, "e2e-panic")
			return false
		}
	} else {
		pi, skipped := ctx.Guard(desc, run)
		if pi != nil || skipped {
			return false
		}
	}
	for _, i := range idx {
		repr, marker, feats := exp(i)
		feats = append([]string{"e2e"}, feats...)
		id := fmt.Sprintf("v%d", i)
		cdesc := fmt.Sprintf("e2e value %d (element %s) of %s", values[i], id, html)
		if len(idx) > 1 {
			// the minimal document for a value is the single-value one
			cdesc = fmt.Sprintf("e2e value %d: %s", values[i], styleDoc(sc, css, values, []int{i}))
		}
		gb, gm := got[id+"::before"], got[id+"::marker"]
		reprOK := gb == repr
		if !reprOK {
			ctx.Fail(engine.Failure{Clause: "repr", Features: feats, Case: cdesc, Detail: fmt.Sprintf("::before text: want %q got %q", repr, gb)})
		}
		if gm != marker && reprOK {
			ctx.Fail(engine.Failure{Clause: "marker", Features: feats, Case: cdesc, Detail: fmt.Sprintf("::marker text: want %q got %q", marker, gm)})
		}
		ctx.Case(true, "e|"+repr+"|"+marker)
		ctx.Trans(2)
		ctx.Count("e2e-renderings", 2)
	}
	return true
}
