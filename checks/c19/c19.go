// Package c19: counters count and print as CSS Lists and Counter Styles define.
//
// Two families of exhaustively enumerated units, each compared with a reference model
// written from the specifications:
//
//	(i)  counter styles: every predefined style of the UA sheet, a product of author styles
//	     (system x symbols / additive tuples x range x pad x negative x fallback x affixes)
//	     and every fallback/extends graph on up to three names (cycles, missing targets),
//	     times a set of integers; through CounterStyle.RenderValue / RenderValueStyle /
//	     RenderMarker and end to end through an @counter-style rule and the text of
//	     ::before / ::marker boxes of the box tree;
//	(ii) counter scopes: every forest of up to 4 (5) elements x per-element operations
//	     (counter-reset / set / increment, list items, display:none, pseudo-elements),
//	     <ol start>, <li value>; observed through counters() in ::before / ::after and
//	     through ::marker.
//
// and one family of sequences (seq.go): ordered pairs (definer, user) over a menu of
// documents = rule sets x names used, rendered user, definer, user in one process through
// layout.Layout; the user must print the same text both times (a counter's text depends on
// the document's own styles and the predefined ones, not on an earlier document's).
package c19

import (
	"fmt"
	"os"
	"strconv"
	"strings"

	"verif/internal/engine"
)

type segment struct {
	name     string
	count    int64 // cases
	batch    int64 // cases per unit
	run      func(i int64, ctx *engine.Ctx)
	describe func(i int64) any
}

func (s *segment) units() int64 { return (s.count + s.batch - 1) / s.batch }

type check struct {
	tier   string
	segs   []*segment
	predef refEnv
	names  []string
	values []int
}

func init() { engine.Register(&check{}) }

func (c *check) ID() string { return "C19" }

func ipow(b, e int) int64 {
	r := int64(1)
	for i := 0; i < e; i++ {
		r *= int64(b)
	}
	return r
}

func (c *check) Init(tier string, seed int64) (sp engine.Space) {
	c.tier = tier
	c.segs = nil
	func() {
		defer func() { recover() }() // a broken tree must not kill Init
		c.predef, c.names = predefinedRef()
	}()
	if c.predef == nil {
		c.predef = refEnv{}
	}
	c.values = intSet(tier)
	thorough := tier == "thorough"
	bounds := map[string]any{}

	// --- predefined styles -----------------------------------------------------------------
	c.segs = append(c.segs, &segment{name: "ua-definitions", count: int64(len(specTable)), batch: 4,
		run:      func(i int64, ctx *engine.Ctx) { c.runSpecTable(ctx, int(i)) },
		describe: func(i int64) any { return map[string]any{"predefined-definition": specTable[i].Name} }})
	names := c.names
	c.segs = append(c.segs, &segment{name: "predefined", count: int64(len(names)), batch: 1,
		run: func(i int64, ctx *engine.Ctx) {
			c.runStyleCase(ctx, &styleCase{target: names[i], label: names[i], extra: []string{"predefined"}}, c.values)
		},
		describe: func(i int64) any { return map[string]any{"predefined": names[i], "values": len(c.values)} }})
	// unknown names render as decimal
	unknown := []string{"nosuchstyle", "DECIMAL", "Lower-Roman"}
	c.segs = append(c.segs, &segment{name: "unknown-names", count: int64(len(unknown)), batch: 1,
		run: func(i int64, ctx *engine.Ctx) {
			c.runStyleCase(ctx, &styleCase{target: unknown[i], label: unknown[i], extra: []string{"undefined-name"}}, c.values)
		},
		describe: func(i int64) any { return map[string]any{"undefined-style-name": unknown[i]} }})
	bounds["predefined_styles"] = len(names)
	bounds["integers"] = intSetText(tier)

	// --- sequences of renders in one process (seq.go) -----------------------------------------
	sq := newSeqSpace()
	c.segs = append(c.segs, &segment{name: "sequences", count: sq.count(), batch: 4,
		run: func(i int64, ctx *engine.Ctx) {
			d, u := sq.at(i)
			c.runSeq(ctx, d, u)
		},
		describe: func(i int64) any {
			d, u := sq.at(i)
			return map[string]any{"order": "user, definer, user", "definer": d.label(), "user": u.label(), "definer_html": d.html(), "user_html": u.html()}
		}})
	var rn []string
	for _, r := range sq.rules {
		rn = append(rn, r.name)
	}
	bounds["sequences"] = map[string]any{"ordered_pairs": sq.count(), "documents": sq.docs(), "rule_sets": rn, "names_used": sq.uses, "values": seqValues,
		"unit": "user alone (reference), definer, user again: three layouts in one process"}

	// --- product of author styles ----------------------------------------------------------
	p := newProduct(tier)
	helpers := helperStyles()
	c.segs = append(c.segs, &segment{name: "product", count: p.count(), batch: 1,
		run: func(i int64, ctx *engine.Ctx) {
			s, label := p.at(i)
			sc := &styleCase{author: append([]*refStyle{s}, helpers...), target: "s", label: label, idents: i%2 == 1}
			c.runStyleCase(ctx, sc, c.values)
		},
		describe: func(i int64) any {
			s, label := p.at(i)
			return map[string]any{"style": label, "css": toCSS(s, i%2 == 1), "values": len(c.values)}
		}})
	bounds["product_styles"] = p.count()
	bounds["product_dimensions"] = map[string]int{"base_forms(system x symbols|additive tuples)": len(p.bases), "range": len(p.ranges), "pad": len(p.pads), "negative": len(p.negs), "fallback": len(p.fbs), "prefix/suffix": len(p.affixes)}

	// --- extra forms (end to end only) ------------------------------------------------------
	ex := extraCases()
	c.segs = append(c.segs, &segment{name: "forms", count: int64(len(ex)), batch: 1,
		run:      func(i int64, ctx *engine.Ctx) { c.runExtra(ctx, ex[i]) },
		describe: func(i int64) any { return map[string]any{"form": ex[i].name, "css": ex[i].css, "use": ex[i].use} }})
	bounds["descriptor_and_function_forms"] = len(ex)

	// --- graphs ------------------------------------------------------------------------------
	allOv := []int{0, 1, 2, 3, 4}
	addGraph := func(name string, g *graphSpace, e2e bool, batch int64, extra []string) {
		c.segs = append(c.segs, &segment{name: name, count: g.count(), batch: batch,
			run: func(i int64, ctx *engine.Ctx) {
				st := g.at(i)
				sc := &styleCase{author: st, target: st[0].Name, label: name, extra: extra, noE2E: !e2e}
				c.runStyleCase(ctx, sc, g.values)
			},
			describe: func(i int64) any {
				return map[string]any{"graph": describeStyles(g.at(i)), "rendered": g.names[0], "values": g.values, "end_to_end": e2e}
			}})
		bounds[name] = map[string]any{"graphs": g.count(), "node_options": len(g.opts), "nodes": g.nodes, "values": len(g.values), "end_to_end": e2e}
	}
	plain := []string{"na", "nb", "nc"}
	addGraph("graphs-1-node", &graphSpace{opts: nodeOptions(1, allOv), nodes: 1, names: plain, values: graphValues}, true, 8, []string{"graph"})
	addGraph("graphs-2-nodes", &graphSpace{opts: nodeOptions(2, allOv), nodes: 2, names: plain, values: graphValues}, true, 8, []string{"graph"})
	addGraph("graphs-2-nodes-keyword-names", &graphSpace{opts: nodeOptions(2, allOv), nodes: 2, names: []string{"cyclic", "numeric", "fixed"}, values: graphValues}, false, 64, []string{"graph", "style-named-like-a-system"})

	// --- HTML lists --------------------------------------------------------------------------
	nl := c.listCount(3)
	c.segs = append(c.segs, &segment{name: "html-lists", count: nl, batch: 16,
		run:      func(i int64, ctx *engine.Ctx) { c.runList(ctx, c.listCaseAt(i)) },
		describe: func(i int64) any { return c.listCaseAt(i) }})
	bounds["html_lists"] = nl

	// --- scope trees --------------------------------------------------------------------------
	full, mid, core := menu(2), menu(1), menu(0)
	addTrees := func(n int, m []opDef, mname string) {
		shapes := forests(n)
		cnt := int64(len(shapes)) * ipow(len(m), n)
		decode := func(i int64) treeCase {
			// least significant: operations; most significant: shape (flat shapes first)
			ops := make([]int, n)
			for k := 0; k < n; k++ {
				ops[k] = int(i % int64(len(m)))
				i /= int64(len(m))
			}
			return treeCase{parents: shapes[i], ops: ops}
		}
		c.segs = append(c.segs, &segment{name: fmt.Sprintf("trees-%d-%s", n, mname), count: cnt, batch: 16,
			run: func(i int64, ctx *engine.Ctx) { c.runTree(ctx, decode(i), m) },
			describe: func(i int64) any {
				tc := decode(i)
				var ops []string
				for _, o := range tc.ops {
					ops = append(ops, m[o].name)
				}
				return map[string]any{"parents": tc.parents, "ops": ops}
			}})
		bounds[fmt.Sprintf("trees_%d_elements", n)] = map[string]any{"shapes": len(shapes), "menu": len(m), "trees": cnt}
	}
	addTrees(1, full, "full")
	addTrees(2, full, "full")
	addTrees(3, full, "full")
	if thorough {
		addTrees(4, mid, "mid")
		addTrees(5, core, "core")
	} else {
		addTrees(4, core, "core")
	}
	var mn []string
	for _, o := range full {
		mn = append(mn, o.name)
	}
	bounds["tree_menu_full"] = mn
	bounds["tree_menu_core"] = len(core)
	bounds["tree_menu_mid"] = len(mid)

	// --- paged documents (paged.go) -----------------------------------------------------------
	allMixes := make([]int, len(pagedMixes))
	for i := range allMixes {
		allMixes[i] = i
	}
	// the mixes of the larger forests: one of each kind of second computation (pagination,
	// pending target, both)
	mainMixes := mixIndexes("page+pages", "fwd-target-counter", "fwd-target-counters", "fwd-target-counter+page")
	addPaged := func(n int, m []opDef, mname string, mixes []int) {
		if only := os.Getenv("C19_MIX"); only != "" { // development knob, as C19_ONLY: one mix
			mixes = mixIndexes(only)
		}
		ps := &pagedSpace{n: n, menu: m, shapes: forests(n), mixes: mixes}
		c.segs = append(c.segs, &segment{name: fmt.Sprintf("paged-%d-%s", n, mname), count: ps.count(), batch: 8,
			run: func(i int64, ctx *engine.Ctx) { c.runPaged(ctx, ps.at(i), m) },
			describe: func(i int64) any {
				pc := ps.at(i)
				var ops []string
				for _, o := range pc.tc.ops {
					ops = append(ops, m[o].name)
				}
				return map[string]any{"parents": pc.tc.parents, "ops": ops, "mix": pagedMixes[pc.mix].name}
			}})
		bounds[fmt.Sprintf("paged_%d_elements", n)] = map[string]any{"shapes": len(ps.shapes), "menu": len(m), "mixes": len(ps.mixes), "documents": ps.count()}
	}
	addPaged(1, full, "full", allMixes)
	addPaged(2, full, "full", allMixes)
	if thorough {
		addPaged(3, core, "core", allMixes)
		addPaged(3, mid, "mid", mainMixes)
	} else {
		addPaged(3, core, "core", mainMixes)
	}
	var mixNames []string
	for _, mx := range pagedMixes {
		mixNames = append(mixNames, mx.name+": "+mx.content)
	}
	bounds["paged_mixes"] = mixNames
	bounds["paged_document"] = "pages of 2 lines (1000px x 20px, ahem 10px/1); <p id=a counter-reset:d 4>, the forest of the scope family (each element's ::before and ::after is one line), <p id=z>; through render.Layout"

	// --- three-node graphs ------------------------------------------------------------------
	if thorough {
		addGraph("graphs-3-nodes", &graphSpace{opts: nodeOptions(3, allOv), nodes: 3, names: plain, values: graphValues}, false, 128, []string{"graph"})
		addGraph("graphs-3-nodes-e2e", &graphSpace{opts: nodeOptions(3, []int{0}), nodes: 3, names: plain, values: graphValues}, true, 16, []string{"graph"})
	} else {
		addGraph("graphs-3-nodes", &graphSpace{opts: nodeOptions(3, []int{0, 1, 4}), nodes: 3, names: plain, values: graphValues}, false, 128, []string{"graph"})
	}

	// development knobs (never set by the registered commands): restrict to the segments
	// whose name starts with C19_ONLY, cap every segment at C19_MAX cases
	if only := os.Getenv("C19_ONLY"); only != "" {
		var keep []*segment
		for _, s := range c.segs {
			for _, o := range strings.Split(only, ",") {
				if strings.HasPrefix(s.name, o) {
					keep = append(keep, s)
					break
				}
			}
		}
		c.segs = keep
	}
	if m, err := strconv.ParseInt(os.Getenv("C19_MAX"), 10, 64); err == nil && m > 0 {
		for _, s := range c.segs {
			if s.count > m {
				s.count = m
			}
		}
	}
	var units int64
	for _, s := range c.segs {
		units += s.units()
	}
	return engine.Space{
		Units: units, Chunk: 32, Level: "model_checking",
		Rule:   "index-addressable product spaces, simplest first: predefined styles, sequences of three layouts in one process (user, definer, user) over all ordered pairs of a document menu (rule sets x name used), product of author @counter-style rules, descriptor/function forms, fallback/extends graphs (node 0 rendered), HTML lists, element forests x per-element counter operations, the same forests laid out on several pages x what stands next to the element counters in the content value; every case is run on the real code and compared with the reference; a case is non-trivial when the reference produced text that was compared (always, except documents without any pseudo-element box)",
		Bounds: bounds,
		Assumptions: []string{
			"symbols are strings/identifiers (no images); grapheme clusters = code points for the symbols used (no combining marks)",
			"counter values are within [-(2^31-1), 2^31-1]",
			"using counter()/counters() for a name that has no counter yields 0 and does not instantiate a counter (as the pilots and browsers do); CSS Lists 3 text that instantiates on use is not demanded",
			"symbolic and alphabetic styles whose explicit range contains 0 fall back for 0 (the algorithms are defined over positive values only)",
			"the predefined styles are read as data from the UA sheet (tree.UACounterStyle); the definitions of 33 of them (decimal, decimal-leading-zero, roman, alpha/latin, lower-greek, the five bullet styles, cjk-decimal and the 18 numeric scripts) are additionally compared with the specification's own definitions",
			"representations of more than 60 symbols (symbolic and additive systems) are implementation-defined by the specification (a limit with fallback is allowed): run for crashes, text not compared; above 20000 symbols not run at all, nor is a value run in an environment where a reachable symbolic/additive style could produce more than 5 000 000 symbols for it if its range were ignored (the implementation builds the whole string: a 2^31 counter value allocates gigabytes)",
			"CSS numbers are float32 in the implementation's parser: integers beyond 2^24 in a style sheet are rounded, so the end-to-end documents stay below; the direct calls cover them",
			"display:none <li> and the reversed attribute are outside the HTML-list family",
			"paged documents: the page a pseudo-element's box is on is taken from the layout itself (where content breaks is C12's subject); counter(page) must be the number of that page and counter(pages) the number of pages (no @page counter operations, no margin boxes); the carriers of the mixed content list are content and bookmark-label of ::before / ::after (string-set, and bookmark-label of elements, are evaluated by the implementation after the element's children: not compared)",
			"sequences: two documents per process history are enumerated exhaustively (the user's own first rendering is part of the history); @counter-style rules are carried by <style> elements only (not by user style sheets or @import); renders are sequential, not concurrent (that is C15's subject)",
		},
	}
}

func (c *check) locate(u int64) (*segment, int64, int64) {
	for _, s := range c.segs {
		n := s.units()
		if u < n {
			lo := u * s.batch
			hi := lo + s.batch
			if hi > s.count {
				hi = s.count
			}
			return s, lo, hi
		}
		u -= n
	}
	return nil, 0, 0
}

func (c *check) Run(u int64, ctx *engine.Ctx) {
	s, lo, hi := c.locate(u)
	if s == nil {
		return
	}
	for i := lo; i < hi; i++ {
		s.run(i, ctx)
	}
	ctx.Count("cases:"+strings.SplitN(s.name, "-", 2)[0], hi-lo)
}

func (c *check) Describe(u int64) any {
	s, lo, hi := c.locate(u)
	if s == nil {
		return nil
	}
	return map[string]any{"segment": s.name, "first_case": s.describe(lo), "cases": hi - lo}
}
