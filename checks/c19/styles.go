package c19

// Generators of counter styles: the product family, the fallback/extends graph family,
// the predefined styles, and their three spellings: reference (refStyle), the
// descriptors structure of the implementation (what the @counter-style parser produces,
// for the direct calls) and CSS text (for the end-to-end runs).

import (
	"fmt"
	"math"
	"sort"
	"strings"

	"github.com/benoitkugler/webrender/css/counters"
	pr "github.com/benoitkugler/webrender/css/properties"
)

func ns(s string) pr.NamedString { return pr.NamedString{Name: "string", String: s} }

// toImpl builds the descriptors the way css/validation/descriptors.go fills them.
func toImpl(s *refStyle) counters.CounterStyleDescriptors {
	var d counters.CounterStyleDescriptors
	switch s.System {
	case "extends":
		d.System = counters.CounterStyleSystem{Extends: "extends", System: s.Extends}
	case "fixed":
		d.System = counters.CounterStyleSystem{System: "fixed", Number: s.First}
	default:
		d.System = counters.CounterStyleSystem{System: s.System}
	}
	for _, x := range s.Symbols {
		d.Symbols = append(d.Symbols, ns(x))
	}
	for _, t := range s.Additive {
		d.AdditiveSymbols = append(d.AdditiveSymbols, pr.IntNamedString{Int: t.W, NamedString: ns(t.S)})
	}
	if s.HasNegative {
		d.Negative = [2]pr.NamedString{ns(s.NegPre), ns(s.NegSuf)}
	}
	if s.HasPrefix {
		d.Prefix = ns(s.Prefix)
	}
	if s.HasSuffix {
		d.Suffix = ns(s.Suffix)
	}
	if s.HasRange {
		if s.RangeAuto {
			d.Range = pr.OptionalRanges{Auto: true}
		} else {
			for _, r := range s.Ranges {
				lo, hi := r[0], r[1]
				if lo == negInf {
					lo = math.MinInt32
				}
				if hi == posInf {
					hi = math.MaxInt32
				}
				d.Range.Ranges = append(d.Range.Ranges, [2]int{int(lo), int(hi)})
			}
		}
	}
	if s.HasPad {
		d.Pad = pr.IntNamedString{Int: s.PadN, NamedString: ns(s.PadS)}
	}
	d.Fallback = s.Fallback
	return d
}

// fromImpl reads a descriptors structure as data (predefined styles of the UA sheet).
func fromImpl(name string, d counters.CounterStyleDescriptors) *refStyle {
	s := &refStyle{Name: name}
	sys := d.System
	switch {
	case sys == (counters.CounterStyleSystem{}):
		s.System = "symbolic"
	case sys.Extends != "":
		s.System, s.Extends = "extends", sys.System
	default:
		s.System, s.First = sys.System, sys.Number
	}
	for _, x := range d.Symbols {
		s.Symbols = append(s.Symbols, x.String)
	}
	for _, t := range d.AdditiveSymbols {
		s.Additive = append(s.Additive, addTuple{t.Int, t.String})
	}
	if d.Negative != ([2]pr.NamedString{}) {
		s.HasNegative, s.NegPre, s.NegSuf = true, d.Negative[0].String, d.Negative[1].String
	}
	if !d.Prefix.IsNone() {
		s.HasPrefix, s.Prefix = true, d.Prefix.String
	}
	if !d.Suffix.IsNone() {
		s.HasSuffix, s.Suffix = true, d.Suffix.String
	}
	if d.Range.Auto {
		s.HasRange, s.RangeAuto = true, true
	} else if d.Range.Ranges != nil {
		s.HasRange = true
		for _, r := range d.Range.Ranges {
			lo, hi := int64(r[0]), int64(r[1])
			if hi == math.MaxInt32 {
				hi = posInf
			}
			if lo == math.MinInt32 {
				lo = negInf
			}
			s.Ranges = append(s.Ranges, [2]int64{lo, hi})
		}
	}
	if !d.Pad.IsNone() {
		s.HasPad, s.PadN, s.PadS = true, d.Pad.Int, d.Pad.String
	}
	s.Fallback = d.Fallback
	return s
}

func isIdent(s string) bool {
	if s == "" {
		return false
	}
	for i, r := range s {
		if !(r >= 'a' && r <= 'z' || r >= 'A' && r <= 'Z' || r == '_' || (i > 0 && r >= '0' && r <= '9')) {
			return false
		}
	}
	return true
}

func cssString(s string) string {
	var sb strings.Builder
	sb.WriteByte('"')
	for _, r := range s {
		if r == '"' || r == '\\' {
			sb.WriteByte('\\')
		}
		sb.WriteRune(r)
	}
	sb.WriteByte('"')
	return sb.String()
}

// cssSym spells a symbol: as an identifier when idents is set and the symbol is one.
func cssSym(s string, idents bool) string {
	if idents && isIdent(s) {
		return s
	}
	return cssString(s)
}

func cssBound(v int64) string {
	if v == negInf || v == posInf {
		return "infinite"
	}
	return fmt.Sprint(v)
}

// toCSS writes the @counter-style rule. idents: spell identifier-like symbols as idents.
func toCSS(s *refStyle, idents bool) string {
	var sb strings.Builder
	fmt.Fprintf(&sb, "@counter-style %s{", s.Name)
	switch s.System {
	case "extends":
		fmt.Fprintf(&sb, "system:extends %s;", s.Extends)
	case "fixed":
		if s.First == 1 {
			sb.WriteString("system:fixed;")
		} else {
			fmt.Fprintf(&sb, "system:fixed %d;", s.First)
		}
	case "":
	default:
		fmt.Fprintf(&sb, "system:%s;", s.System)
	}
	if len(s.Symbols) > 0 {
		sb.WriteString("symbols:")
		for _, x := range s.Symbols {
			sb.WriteString(" " + cssSym(x, idents))
		}
		sb.WriteString(";")
	}
	if len(s.Additive) > 0 {
		sb.WriteString("additive-symbols:")
		for i, t := range s.Additive {
			if i > 0 {
				sb.WriteString(",")
			}
			fmt.Fprintf(&sb, " %d %s", t.W, cssSym(t.S, idents))
		}
		sb.WriteString(";")
	}
	if s.HasNegative {
		if s.NegSuf == "" {
			fmt.Fprintf(&sb, "negative:%s;", cssString(s.NegPre))
		} else {
			fmt.Fprintf(&sb, "negative:%s %s;", cssString(s.NegPre), cssString(s.NegSuf))
		}
	}
	if s.HasPrefix {
		fmt.Fprintf(&sb, "prefix:%s;", cssString(s.Prefix))
	}
	if s.HasSuffix {
		fmt.Fprintf(&sb, "suffix:%s;", cssString(s.Suffix))
	}
	if s.HasRange {
		if s.RangeAuto {
			sb.WriteString("range:auto;")
		} else {
			sb.WriteString("range:")
			for i, r := range s.Ranges {
				if i > 0 {
					sb.WriteString(",")
				}
				fmt.Fprintf(&sb, " %s %s", cssBound(r[0]), cssBound(r[1]))
			}
			sb.WriteString(";")
		}
	}
	if s.HasPad {
		fmt.Fprintf(&sb, "pad:%d %s;", s.PadN, cssString(s.PadS))
	}
	if s.Fallback != "" {
		fmt.Fprintf(&sb, "fallback:%s;", s.Fallback)
	}
	sb.WriteString("}")
	return sb.String()
}

// ---- integer sets -------------------------------------------------------------------------

func intSet(tier string) []int {
	lo, hi := -30, 60
	extra := []int{999, 4000, math.MaxInt32}
	if tier == "thorough" {
		lo, hi = -100, 200
		extra = []int{999, 1000, 3999, 4000, 9999, 10000, 65536, 1000000, math.MaxInt32}
	}
	var out []int
	for v := lo; v <= hi; v++ {
		out = append(out, v)
	}
	for _, x := range extra {
		out = append(out, x, -x)
	}
	return out
}

func intSetText(tier string) string {
	if tier == "thorough" {
		return "[-100,200] and +-{999,1000,3999,4000,9999,10000,65536,1000000,2^31-1}; end to end: [-30,60] and the listed large values up to +-1000000"
	}
	return "[-30,60] and +-{999,4000,2^31-1}; end to end: [-12,25] and +-{999,4000}"
}

// ---- product family -----------------------------------------------------------------------

type symSet struct {
	name string
	syms []string
}

type rangeOpt struct {
	name   string
	has    bool
	auto   bool
	ranges [][2]int64
}

type padOpt struct {
	name string
	has  bool
	n    int
	s    string
}

type negOpt struct {
	name     string
	has      bool
	pre, suf string
}

type baseForm struct {
	system   string
	first    int
	syms     symSet
	additive []addTuple
}

type product struct {
	bases   []baseForm
	ranges  []rangeOpt
	pads    []padOpt
	negs    []negOpt
	fbs     []string // "" or name of a helper style
	affixes []bool   // prefix/suffix specified
}

var weightSym = map[int]string{0: "z", 1: "I", 2: "é", 3: "T", 5: "V", 10: "X"}

func descendingLists(weights []int, maxLen int) [][]addTuple {
	var out [][]addTuple
	var rec func(start int, cur []addTuple)
	rec = func(start int, cur []addTuple) {
		if len(cur) > 0 {
			out = append(out, append([]addTuple(nil), cur...))
		}
		if len(cur) == maxLen {
			return
		}
		for i := start; i < len(weights); i++ {
			rec(i+1, append(cur, addTuple{weights[i], weightSym[weights[i]]}))
		}
	}
	rec(0, nil)
	// simplest first: shorter lists first (stable)
	sort.SliceStable(out, func(i, j int) bool { return len(out[i]) < len(out[j]) })
	return out
}

func newProduct(tier string) *product {
	p := &product{}
	sets := []symSet{
		{"a", []string{"a"}},
		{"ab", []string{"a", "b"}},
		{"abc", []string{"a", "b", "c"}},
		{"multibyte", []string{"é", "xy"}},
		{"empty-symbol", []string{"★", "", "é"}},
	}
	weights := []int{10, 5, 2, 1, 0}
	maxLen := 3
	if tier == "thorough" {
		sets = append(sets, symSet{"abcd", []string{"a", "b", "c", "d"}}, symSet{"same", []string{"a", "a"}})
		weights = []int{10, 5, 3, 2, 1, 0}
		maxLen = 4
	}
	for _, sys := range []struct {
		s     string
		first int
	}{{"cyclic", 0}, {"fixed", 1}, {"fixed", -2}, {"symbolic", 0}, {"alphabetic", 0}, {"numeric", 0}} {
		for _, st := range sets {
			if (sys.s == "alphabetic" || sys.s == "numeric") && len(st.syms) < 2 {
				continue
			}
			p.bases = append(p.bases, baseForm{system: sys.s, first: sys.first, syms: st})
		}
	}
	for _, l := range descendingLists(weights, maxLen) {
		p.bases = append(p.bases, baseForm{system: "additive", additive: l})
	}
	p.ranges = []rangeOpt{
		{name: "unset"},
		{name: "auto", has: true, auto: true},
		{name: "2..4", has: true, ranges: [][2]int64{{2, 4}}},
		{name: "inf..3", has: true, ranges: [][2]int64{{negInf, 3}}},
		{name: "-2..inf", has: true, ranges: [][2]int64{{-2, posInf}}},
		{name: "-3..-1,2..4", has: true, ranges: [][2]int64{{-3, -1}, {2, 4}}},
	}
	p.pads = []padOpt{{name: "none"}, {name: "3-0", has: true, n: 3, s: "0"}, {name: "4-é", has: true, n: 4, s: "é"}}
	p.negs = []negOpt{{name: "default"}, {name: "parens", has: true, pre: "(", suf: ")"}, {name: "minus-sign", has: true, pre: "−", suf: ""}}
	p.fbs = []string{"", "hf"}
	p.affixes = []bool{false, true}
	if tier == "thorough" {
		p.ranges = append(p.ranges,
			rangeOpt{name: "0..0", has: true, ranges: [][2]int64{{0, 0}}},
			rangeOpt{name: "inf..inf", has: true, ranges: [][2]int64{{negInf, posInf}}})
		p.pads = append(p.pads, padOpt{name: "0-x", has: true, n: 0, s: "x"}, padOpt{name: "2-ab", has: true, n: 2, s: "ab"})
		p.negs = append(p.negs, negOpt{name: "suffix-only", has: true, pre: "", suf: "n"})
	}
	return p
}

func (p *product) count() int64 {
	return int64(len(p.bases) * len(p.ranges) * len(p.pads) * len(p.negs) * len(p.fbs) * len(p.affixes))
}

// helper styles every product environment contains: hf (fixed, 4 symbols from -1) falls
// back to hg (binary numeric with pad and negative, bounded range), which falls back to
// decimal.
func helperStyles() []*refStyle {
	return []*refStyle{
		{Name: "hf", System: "fixed", First: -1, Symbols: []string{"P", "Q", "R", "S"}, Fallback: "hg"},
		{Name: "hg", System: "numeric", Symbols: []string{"o", "l"}, HasRange: true, Ranges: [][2]int64{{-8, 40}},
			HasPad: true, PadN: 2, PadS: "_", HasNegative: true, NegPre: "<", NegSuf: ">"},
	}
}

// at decodes product index i (least significant digit: affix, fallback, negative, pad,
// range; most significant: base form, so that simple forms come first).
func (p *product) at(i int64) (*refStyle, string) {
	dig := func(n int) int {
		d := int(i % int64(n))
		i /= int64(n)
		return d
	}
	af := p.affixes[dig(len(p.affixes))]
	fb := p.fbs[dig(len(p.fbs))]
	ng := p.negs[dig(len(p.negs))]
	pd := p.pads[dig(len(p.pads))]
	rg := p.ranges[dig(len(p.ranges))]
	b := p.bases[dig(len(p.bases))]
	s := &refStyle{Name: "s", System: b.system, First: b.first, Symbols: b.syms.syms, Additive: b.additive}
	if rg.has {
		s.HasRange, s.RangeAuto, s.Ranges = true, rg.auto, rg.ranges
	}
	if pd.has {
		s.HasPad, s.PadN, s.PadS = true, pd.n, pd.s
	}
	if ng.has {
		s.HasNegative, s.NegPre, s.NegSuf = true, ng.pre, ng.suf
	}
	if af {
		s.HasPrefix, s.Prefix, s.HasSuffix, s.Suffix = true, "[", true, "]"
	}
	s.Fallback = fb
	form := b.system
	if b.system == "fixed" {
		form = fmt.Sprintf("fixed %d", b.first)
	}
	if b.system == "additive" {
		var ws []string
		for _, t := range b.additive {
			ws = append(ws, fmt.Sprint(t.W))
		}
		form += " weights " + strings.Join(ws, ",")
	} else {
		form += " symbols " + b.syms.name
	}
	return s, fmt.Sprintf("%s range=%s pad=%s negative=%s fallback=%q affixes=%v", form, rg.name, pd.name, ng.name, fb, af)
}

// ---- graph family -------------------------------------------------------------------------

type nodeOpt struct {
	kind     int    // 0..3 concrete kinds, 4 = extends
	target   string // extends target: "@0" "@1" "@2" (node), "missing", "upper-roman"
	override int    // 0 none, 1 pad, 2 range, 3 negative+suffix, 4 range: auto written explicitly
	fallback string // "" "@0" "@1" "@2" "missing"
}

type graphSpace struct {
	opts    []nodeOpt
	nodes   int
	names   []string
	values  []int
	keyword bool
}

var graphValues = []int{-3, -1, 0, 1, 2, 3, 4, 5, 6, 7, 9, 12, 4000}

// nodeOptions lists the per-node menu. overrides: which override variants extends nodes get.
func nodeOptions(nodes int, overrides []int) []nodeOpt {
	var forms []nodeOpt
	for k := 0; k < 4; k++ {
		forms = append(forms, nodeOpt{kind: k})
	}
	targets := []string{}
	for i := 0; i < nodes; i++ {
		targets = append(targets, fmt.Sprintf("@%d", i))
	}
	targets = append(targets, "missing", "upper-roman")
	for _, t := range targets {
		for _, o := range overrides {
			forms = append(forms, nodeOpt{kind: 4, target: t, override: o})
		}
	}
	fbs := []string{""}
	for i := 0; i < nodes; i++ {
		fbs = append(fbs, fmt.Sprintf("@%d", i))
	}
	fbs = append(fbs, "missing")
	var out []nodeOpt
	for _, f := range forms {
		for _, fb := range fbs {
			g := f
			g.fallback = fb
			out = append(out, g)
		}
	}
	return out
}

func (g *graphSpace) count() int64 {
	n := int64(1)
	for i := 0; i < g.nodes; i++ {
		n *= int64(len(g.opts))
	}
	return n
}

func (g *graphSpace) resolveName(ref string) string {
	if strings.HasPrefix(ref, "@") {
		return g.names[int(ref[1]-'0')]
	}
	return ref
}

// at decodes graph index i into the styles of its nodes (node 0 is the one rendered).
func (g *graphSpace) at(i int64) []*refStyle {
	var out []*refStyle
	for n := 0; n < g.nodes; n++ {
		o := g.opts[i%int64(len(g.opts))]
		i /= int64(len(g.opts))
		out = append(out, g.node(n, o))
	}
	return out
}

func (g *graphSpace) node(n int, o nodeOpt) *refStyle {
	l := string(rune('a' + n)) // distinct symbols per node
	u := strings.ToUpper(l)
	s := &refStyle{Name: g.names[n]}
	switch o.kind {
	case 0: // represents 1 only
		s.System, s.First, s.Symbols = "fixed", 1, []string{u + "1"}
	case 1: // cyclic on [2,4]
		s.System, s.Symbols = "cyclic", []string{l + "p", l + "q"}
		s.HasRange, s.Ranges = true, [][2]int64{{2, 4}}
	case 2: // additive 5,2: 1 and 3 have no representation, 0 neither
		s.System, s.Additive = "additive", []addTuple{{5, u + "v"}, {2, u + "i"}}
	case 3: // numeric base 2 on [-4,6] with pad and negative
		s.System, s.Symbols = "numeric", []string{l + "0", l + "1"}
		s.HasRange, s.Ranges = true, [][2]int64{{-4, 6}}
		s.HasPad, s.PadN, s.PadS = true, 3, "0"
		s.HasNegative, s.NegPre, s.NegSuf = true, "(", ")"
	case 4:
		s.System, s.Extends = "extends", g.resolveName(o.target)
		switch o.override {
		case 1:
			s.HasPad, s.PadN, s.PadS = true, 4, "_"
		case 2:
			s.HasRange, s.Ranges = true, [][2]int64{{2, 5}}
		case 3:
			s.HasNegative, s.NegPre, s.NegSuf = true, "<", ">"
			s.HasSuffix, s.Suffix = true, ")"
		case 4:
			// "range: auto" is a specified descriptor: the extended style's range (upper-roman's
			// 1 3999, kind 1's 2 4, kind 3's -4 6, another node's override 2) is NOT taken over,
			// the range is the automatic one of the resolved system
			s.HasRange, s.RangeAuto = true, true
		}
	}
	s.Fallback = g.resolveName(o.fallback)
	return s
}

func describeStyles(l []*refStyle) string {
	var parts []string
	for _, s := range l {
		parts = append(parts, toCSS(s, false))
	}
	return strings.Join(parts, " ")
}
