package c19

import (
	"fmt"
	"io"
	"strings"

	"github.com/benoitkugler/webrender/css/counters"
	pr "github.com/benoitkugler/webrender/css/properties"
	bo "github.com/benoitkugler/webrender/html/boxes"
	"github.com/benoitkugler/webrender/html/tree"
	"github.com/benoitkugler/webrender/images"
	"github.com/benoitkugler/webrender/logger"
	"github.com/benoitkugler/webrender/utils"
)

func init() {
	logger.ProgressLogger.SetOutput(io.Discard)
	logger.WarningLogger.SetOutput(io.Discard)
}

// buildBoxTree parses the document, computes the styles and builds the box tree (no
// layout, no fonts). It returns the box tree and the counter style map filled by the
// style sheets of the document (UA + author).
func buildBoxTree(html string, hints bool) (bo.Box, counters.CounterStyle, error) {
	doc, err := tree.NewHTML(utils.InputString(html), "", nil, "")
	if err != nil {
		return nil, nil, err
	}
	cs := make(counters.CounterStyle)
	style := tree.GetAllComputedStyles(doc, nil, hints, nil, cs, nil, nil, false, nil)
	cache := images.NewCache()
	imgFetcher := func(url string, forcedMimeType string, orientation pr.SBoolFloat) images.Image {
		return images.GetImageFromUri(cache, doc.UrlFetcher, false, url, forcedMimeType, orientation)
	}
	tr := tree.NewTargetCollector()
	var fn []bo.Box
	b := bo.BuildFormattingStructure(doc.Root, style, bo.URLResolver{Fetch: doc.UrlFetcher, FetchImage: imgFetcher}, "", &tr, cs, &fn)
	return b, cs, nil
}

func boxText(b bo.Box, sb *strings.Builder) {
	if tb, ok := b.(*bo.TextBox); ok {
		sb.WriteString(string(tb.Text))
	}
	for _, c := range b.Box().Children {
		boxText(c, sb)
	}
}

func dumpBox(b bo.Box, indent string, sb *strings.Builder) {
	f := b.Box()
	id := ""
	if f.Element != nil {
		id = f.Element.Data
		for _, a := range f.Element.Attr {
			if a.Key == "id" {
				id += "#" + a.Val
			}
		}
	}
	txt := ""
	if tb, ok := b.(*bo.TextBox); ok {
		txt = fmt.Sprintf(" %q", string(tb.Text))
	}
	fmt.Fprintf(sb, "%s%T el=%s pseudo=%q%s\n", indent, b, id, f.PseudoType, txt)
	for _, c := range f.Children {
		dumpBox(c, indent+"  ", sb)
	}
}
