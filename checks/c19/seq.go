package c19

// Sequences of renders in one process.
//
// Every other family renders each document on its own. Here the unit is an ordered pair
// (definer, user) over a menu of documents = (set of @counter-style rules) x (style name
// used): the user document is rendered alone FIRST (its text is the reference of the unit),
// then the definer, then the user again, all three through the real entry point
// layout.Layout (which owns the per-document counter style table). The second rendering of
// the user must print what the first one printed: a counter's text depends on the styles
// the document itself defines and on the predefined styles, not on what another document
// rendered earlier by the same process defined (a name the user leaves undefined is decimal,
// a predefined name it does not override follows its predefined algorithm).
//
// Worker processes are reused for many units. State left behind by an earlier unit would
// already be in the first rendering, so that rendering (and the definer's) is compared with
// the reference model as well and a difference there is reported under a clause of its own
// (sequence-reference): "the text was already wrong before this unit's definer ran".
//
// Clauses. "The documents give state a way to show" from a to b means: a defines a name
// that b reaches through its style, extends or fallback links and does not define itself, or
// both reach a name that prints differently in the two documents.
//   - sequence: the second rendering of the user differs from the first, and the documents
//     give state a way to show from definer to user;
//   - sequence-definer: the definer (rendered after the user) differs from the reference
//     model, and the documents give state a way to show from user to definer (a user that
//     was rendered first hides state that the first document to use a name leaves behind:
//     only the middle document can show it);
//   - sequence-unrelated-definer / sequence-reference: the same two differences without such
//     a way, and the first rendering of the user against the model: on a tree that carries
//     state over these depend on the history of the worker process.

import (
	"fmt"
	"sort"
	"strings"

	bo "github.com/benoitkugler/webrender/html/boxes"

	"verif/internal/engine"
	"verif/internal/render"
)

// seqRules is one option of the "rules of the document" dimension.
type seqRules struct {
	name  string
	rules []*refStyle
}

// The names: two predefined styles that an author may override (lower-roman: additive with
// a range, falls back to decimal; upper-alpha: alphabetic, extended by the predefined
// upper-latin), decimal (an author rule for it is ignored), and two names of their own
// (sq, sr; sr is only ever defined through a link to sq).
func seqRuleMenu() []seqRules {
	return []seqRules{
		{"none", nil},
		{"override-lower-roman", []*refStyle{{Name: "lower-roman", System: "cyclic", Symbols: []string{"X", "Y"}}}},
		{"override-upper-alpha", []*refStyle{{Name: "upper-alpha", System: "fixed", First: 1, Symbols: []string{"P", "Q"}, HasSuffix: true, Suffix: ") "}}},
		{"define-sq-fixed", []*refStyle{{Name: "sq", System: "fixed", First: 5, Symbols: []string{"five", "six", "seven"}}}},
		{"define-sq-extends-lower-roman", []*refStyle{{Name: "sq", System: "extends", Extends: "lower-roman", HasPrefix: true, Prefix: "<", HasPad: true, PadN: 6, PadS: "_"}}},
		{"define-sr-fallback-sq", []*refStyle{{Name: "sr", System: "fixed", First: 1, Symbols: []string{"one"}, Fallback: "sq"}}},
		{"define-sr-extends-sq", []*refStyle{{Name: "sr", System: "extends", Extends: "sq", HasSuffix: true, Suffix: "! "}}},
		{"rule-for-decimal", []*refStyle{{Name: "decimal", System: "cyclic", Symbols: []string{"Z"}}}},
		{"override-lower-roman+define-sq", []*refStyle{
			{Name: "lower-roman", System: "cyclic", Symbols: []string{"X", "Y"}},
			{Name: "sq", System: "fixed", First: 5, Symbols: []string{"five", "six", "seven"}},
		}},
	}
}

var seqUses = []string{"lower-roman", "upper-alpha", "upper-latin", "sq", "sr", "decimal", "lower-alpha"}

// seqValues: the counter values every document of the family shows.
var seqValues = []int{-1, 0, 1, 2, 5, 6, 27}

// neverOverridden: an @counter-style rule for these names is invalid (CSS Counter Styles 3
// §3: decimal, disc; none is not a name at all); the reference environment ignores it.
func neverOverridden(name string) bool { return name == "decimal" || name == "disc" || name == "none" }

// seqDoc is one document of the menu. salt, when not empty, is appended to every symbol,
// prefix, suffix and pad symbol of its rules: the definer of pair i is salted with i, so that what one
// unit's definer defines cannot be mistaken for what any other unit (or the user document
// itself) defines. Without it a process in which an earlier unit had already left the very
// same definition behind would show the same wrong text before and after the definer.
type seqDoc struct {
	rules seqRules
	use   string
	salt  string
}

// all returns the rules of the document as written (salted).
func (d seqDoc) all() []*refStyle {
	var out []*refStyle
	for _, r := range d.rules.rules {
		if d.salt != "" {
			c := *r
			c.Symbols = nil
			for _, x := range r.Symbols {
				c.Symbols = append(c.Symbols, x+d.salt)
			}
			if c.HasPrefix {
				c.Prefix += d.salt
			}
			if c.HasSuffix {
				c.Suffix = d.salt + c.Suffix
			}
			if c.HasPad {
				// (the only descriptor of an extends rule that shows when the style is used as
				// a fallback, where prefix and suffix do not)
				c.PadS += d.salt
			}
			r = &c
		}
		out = append(out, r)
	}
	return out
}

// effective returns the rules that define a style (a rule for decimal defines nothing).
func (d seqDoc) effective() []*refStyle {
	var out []*refStyle
	for _, r := range d.all() {
		if !neverOverridden(r.Name) {
			out = append(out, r)
		}
	}
	return out
}

func (d seqDoc) label() string {
	l := d.rules.name + "/use=" + d.use
	if d.salt != "" {
		l += "/salt=" + d.salt
	}
	return l
}

func (d seqDoc) html() string {
	var sb strings.Builder
	sb.WriteString("<style>html,body{margin:0;font-family:ahem;font-size:10px;line-height:1} ")
	for _, r := range d.all() {
		sb.WriteString(toCSS(r, false))
		sb.WriteString(" ")
	}
	fmt.Fprintf(&sb, "p{display:list-item;margin:0 0 0 200px;list-style-type:%s} p::before{white-space:pre;content:counter(c,%s)}", d.use, d.use)
	sb.WriteString("</style><body>")
	for i, v := range seqValues {
		fmt.Fprintf(&sb, `<p id=v%d style="counter-reset:c %d list-item %d;counter-increment:list-item 0"></p>`, i, v, v)
	}
	return sb.String()
}

type seqSpace struct {
	rules []seqRules
	uses  []string
}

func newSeqSpace() *seqSpace { return &seqSpace{rules: seqRuleMenu(), uses: seqUses} }

func (s *seqSpace) docs() int64  { return int64(len(s.rules) * len(s.uses)) }
func (s *seqSpace) count() int64 { return s.docs() * s.docs() }

func (s *seqSpace) doc(i int64) seqDoc {
	// least significant: the name used
	return seqDoc{rules: s.rules[i/int64(len(s.uses))], use: s.uses[i%int64(len(s.uses))]}
}

// at decodes pair index i: least significant the user document, most significant the
// definer (definers without rules first). The definer is salted with the pair index.
func (s *seqSpace) at(i int64) (definer, user seqDoc) {
	definer, user = s.doc(i/s.docs()), s.doc(i%s.docs())
	definer.salt = fmt.Sprint(i)
	return definer, user
}

// reached lists the style names the algorithm may look up when it renders name in env,
// following extends and fallback links (names that env does not define included), with how
// each was reached: "directly", "via-extends", "via-fallback".
func reached(env refEnv, name string) map[string]string {
	out := map[string]string{}
	var walk func(n, how string)
	walk = func(n, how string) {
		if _, seen := out[n]; seen {
			return
		}
		out[n] = how
		s := env.lookup(n)
		if s == nil {
			return
		}
		if s.System == "extends" {
			h := how
			if h == "directly" {
				h = "via-extends"
			}
			walk(s.Extends, h)
		}
		if s.Fallback != "" {
			// (the default fallback, decimal, cannot be overridden: nothing to reach)
			walk(s.Fallback, "via-fallback")
		}
	}
	walk(name, "directly")
	return out
}

// definesForOther: the names that document a defines and document b reaches through its
// style, extends or fallback links without defining them itself (what a definition carried
// over from a to b would change), with how b reaches them.
func (c *check) definesForOther(a, b seqDoc) map[string]string {
	out := map[string]string{}
	own := map[string]bool{}
	for _, r := range b.effective() {
		own[r.Name] = true
	}
	rs := reached(c.envFor(b.effective()), b.use)
	for _, r := range a.effective() {
		if how, ok := rs[r.Name]; ok && !own[r.Name] {
			out[r.Name] = how
		}
	}
	return out
}

// commonNameDiffers: some name that both documents reach prints differently in the two
// documents (what a resolution of the name carried over at the time of use, in either
// direction, would change).
func (c *check) commonNameDiffers(a, b seqDoc) bool {
	ra := reached(c.envFor(a.effective()), a.use)
	rb := reached(c.envFor(b.effective()), b.use)
	for n := range ra {
		if _, ok := rb[n]; !ok {
			continue
		}
		if c.seqExpected(seqDoc{rules: a.rules, salt: a.salt, use: n}) != c.seqExpected(seqDoc{rules: b.rules, salt: b.salt, use: n}) {
			return true
		}
	}
	return false
}

// seqFeatures: tags of the pair, from the two documents alone. toUser / toDefiner: the
// reference's reading of the two documents gives a way for state carried over from the
// definer to the user (from the user to the definer) to change the text.
func (c *check) seqFeatures(definer, user seqDoc) (feats []string, toUser, toDefiner bool) {
	set := map[string]bool{"sequence": true, "definer-rules=" + definer.rules.name: true, "user-rules=" + user.rules.name: true, "use=" + user.use: true, "definer-use=" + definer.use: true}
	if definer.rules.name == user.rules.name && definer.use == user.use {
		set["same-rules-and-use"] = true
	}
	du := c.definesForOther(definer, user)
	for name, how := range du {
		set["definer-defines-name-user-reaches"] = true
		set["reached-"+how] = true
		if _, predefined := c.predef[name]; predefined {
			set["reached-name-predefined"] = true
		} else {
			set["reached-name-undefined-in-user"] = true
		}
	}
	ud := c.definesForOther(user, definer)
	if len(ud) > 0 {
		set["user-defines-name-definer-reaches"] = true
	}
	common := c.commonNameDiffers(definer, user)
	if common {
		set["both-reach-a-name-that-prints-differently"] = true
	}
	if len(definer.effective()) == 0 {
		set["definer-defines-nothing"] = true
	} else if len(du) == 0 {
		set["definer-unrelated-to-user"] = true
	}
	for k := range set {
		feats = append(feats, k)
	}
	sort.Strings(feats)
	return feats, len(du) > 0 || common, len(ud) > 0 || common
}

func hasTag(l []string, t string) bool {
	for _, x := range l {
		if x == t {
			return true
		}
	}
	return false
}

// seqExpected is the text the reference model gives for the document alone: per value the
// ::before text and the ::marker text.
func (c *check) seqExpected(d seqDoc) string {
	env := c.envFor(d.effective())
	var parts []string
	for _, v := range seqValues {
		r, _ := env.generate(v, d.use)
		m, _ := env.marker(v, d.use)
		parts = append(parts, fmt.Sprintf("%d:%q/%q", v, r, m))
	}
	return strings.Join(parts, " ")
}

// seqRender lays the document out through the real pipeline and returns its text in the
// form of seqExpected.
func seqRender(d seqDoc) string {
	pages, err := render.Layout(render.Options{HTML: d.html(), PageBound: 20})
	if err != nil {
		panic(err)
	}
	got := map[string]string{}
	for _, p := range pages {
		pseudoTexts(bo.Box(p), got)
	}
	var parts []string
	for i, v := range seqValues {
		id := fmt.Sprintf("v%d", i)
		parts = append(parts, fmt.Sprintf("%d:%q/%q", v, got[id+"::before"], got[id+"::marker"]))
	}
	return strings.Join(parts, " ")
}

func (c *check) runSeq(ctx *engine.Ctx, definer, user seqDoc) {
	feats, toUser, toDefiner := c.seqFeatures(definer, user)
	uh, dh := user.html(), definer.html()
	desc := "sequence of three renders in one process, user | definer | user: " + uh + " || " + dh
	wantU, wantD := c.seqExpected(user), c.seqExpected(definer)
	var first, mid, second string
	step := 0
	ok := ctx.GuardFail(desc, feats, func() {
		step = 1
		first = seqRender(user)
		step = 2
		mid = seqRender(definer)
		step = 3
		second = seqRender(user)
	})
	ctx.Count("sequence-pairs", 1)
	if !ok {
		ctx.Case(true, fmt.Sprintf("seq-panic-at-render-%d", step))
		return
	}
	ctx.Trans(2)
	ctx.Count("sequence-renderings", 3)
	if hasTag(feats, "definer-defines-name-user-reaches") {
		ctx.Count("sequence-pairs:definer-defines-a-name-the-user-reaches-and-leaves-undefined", 1)
	}
	if hasTag(feats, "both-reach-a-name-that-prints-differently") {
		ctx.Count("sequence-pairs:both-reach-a-name-that-prints-differently", 1)
	}
	sound := true
	// (1) the reference of the unit against the model: a difference here was not caused by
	// this unit's sequence
	if first != wantU {
		sound = false
		ctx.Fail(engine.Failure{Clause: "sequence-reference", Features: append([]string{"render=user-first"}, feats...), Case: desc,
			Detail: fmt.Sprintf("the user document rendered FIRST in the unit (before the definer) already differs from the reference model: state left in this worker process by an earlier case, or a single-document defect (see the e2e families); model %s got %s", wantU, first)})
	}
	// (2) the definer, rendered after the user, against the model. When the two documents
	// give state carried from the user to the definer a way to show, the difference is
	// attributed to this unit (it shows again when the unit is re-run alone: the user's
	// rendering is part of the unit); otherwise to the earlier history of the process.
	if mid != wantD {
		sound = false
		if toDefiner {
			ctx.Fail(engine.Failure{Clause: "sequence-definer", Features: feats, Case: desc,
				Detail: fmt.Sprintf("the definer document, rendered after the user document in the same process, does not print what the reference model gives for it alone: model %s got %s (the user printed %s)", wantD, mid, first)})
		} else {
			ctx.Fail(engine.Failure{Clause: "sequence-reference", Features: append([]string{"render=definer"}, feats...), Case: desc,
				Detail: fmt.Sprintf("the definer document does not print what the reference model gives for it alone although the user document gives it nothing to pick up (state left by an earlier case of this process, or a single-document defect); model %s got %s", wantD, mid)})
		}
	}
	// (3) the user again: same text as the first time. The definer's symbols carry the salt of
	// this very unit, so with a definer that gives the user something to pick up the
	// difference is this unit's doing whatever state the process was in before (and it shows
	// again when the unit is re-run alone). A difference with a definer that gives the user
	// nothing to pick up (by the reference's reading of the two documents) is kept apart: on
	// a tree that carries state over it depends on what earlier units left behind.
	if second != first {
		clause := "sequence"
		if !toUser {
			clause = "sequence-unrelated-definer"
		}
		ctx.Fail(engine.Failure{Clause: clause, Features: feats, Case: desc,
			Detail: fmt.Sprintf("the user document prints a different text after the definer was rendered in the same process: alone %s, after the definer %s (definer printed %s; reference model for the user alone %s)", first, second, mid, wantU)})
	}
	// non-trivial: state carried over in one direction or the other would show, and the
	// renderings that are not under test are what the model says
	ctx.Case((toUser || toDefiner) && sound, "q|"+second)
}
