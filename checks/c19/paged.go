package c19

// Family (iii): paged documents. The element forests x per-element operations of the scope
// family, rendered through the whole pipeline (render.Layout: styles, box tree, layout and
// pagination on pages that hold two lines each), with generated content that puts, next to the
// element counters, something that makes the implementation compute the content list a SECOND
// time: a page-based counter (counter(page), counter(pages): computed again during
// pagination) or a reference to a target that comes later in the document
// (target-counter(), target-counters(), target-text(): computed again once the tree is
// built). The element-counter part of every ::before / ::after / ::marker text must be what
// the scope reference gives at that element whatever else the content contains; the other
// part must be the number of the page the box was laid out on, the number of pages, the
// counters of the target.
//
// Two mixes carry the extended list as the value of bookmark-label of the pseudo-elements
// (observed as the bookmark label of the laid-out box) instead of content: its second
// computation is a code path of its own. string-set is not a carrier: the implementation
// evaluates it (and bookmark-label of ELEMENTS) after the element's children, which value a
// counter has "at the element" then is not something the property's statement settles.
//
// The document: <p id=a> (resets counter d to 4: the backward target), the forest, <p id=z>Z
// (the forward target; the counters it sees are those its preceding siblings left).

import (
	"fmt"
	"sort"
	"strings"

	bo "github.com/benoitkugler/webrender/html/boxes"

	"verif/internal/engine"
	"verif/internal/render"
)

type mixDef struct {
	name     string
	content  string // content items appended after the two counters() of the scope family ("" = nothing)
	clause   string // clause of the appended part
	bookmark bool   // the extended list is the value of bookmark-label (bookmark-level: 1) of the pseudo-elements, content stays plain
	kind     string // how the expected appended part is formed (name of the content mix)
}

// pagedMixes: what stands next to the element counters in the content value.
var pagedMixes = []mixDef{
	{name: "plain"},
	{name: "page", content: `"|p" counter(page)`, clause: "page-counter"},
	{name: "pages", content: `"|n" counter(pages)`, clause: "page-counter"},
	{name: "page+pages", content: `"|p" counter(page) "n" counter(pages)`, clause: "page-counter"},
	{name: "fwd-target-counter", content: `"|t" target-counter("#z",c)`, clause: "target-counter"},
	{name: "fwd-target-counters", content: `"|t" target-counters("#z",c,".")`, clause: "target-counter"},
	{name: "fwd-target-text", content: `"|t" target-text("#z")`, clause: "target-counter"},
	{name: "back-target-counter", content: `"|t" target-counter("#a",d)`, clause: "target-counter"},
	{name: "fwd-target-counter+page", content: `"|t" target-counter("#z",c) "p" counter(page)`, clause: "target-counter"},
	{name: "bookmark-label:page+pages", kind: "page+pages", bookmark: true, content: `"|p" counter(page) "n" counter(pages)`, clause: "page-counter"},
	{name: "bookmark-label:fwd-target-counters", kind: "fwd-target-counters", bookmark: true, content: `"|t" target-counters("#z",c,".")`, clause: "target-counter"},
}

func mixIndexes(names ...string) []int {
	var out []int
	for _, n := range names {
		for i, m := range pagedMixes {
			if m.name == n {
				out = append(out, i)
			}
		}
	}
	return out
}

type pagedCase struct {
	tc  treeCase
	mix int
}

type pagedSpace struct {
	n      int
	menu   []opDef
	shapes [][]int
	mixes  []int
}

func (p *pagedSpace) count() int64 {
	return int64(len(p.mixes)) * ipow(len(p.menu), p.n) * int64(len(p.shapes))
}

// at: least significant the mix, then the operations, most significant the shape.
func (p *pagedSpace) at(i int64) pagedCase {
	mix := p.mixes[i%int64(len(p.mixes))]
	i /= int64(len(p.mixes))
	ops := make([]int, p.n)
	for k := 0; k < p.n; k++ {
		ops[k] = int(i % int64(len(p.menu)))
		i /= int64(len(p.menu))
	}
	return pagedCase{tc: treeCase{parents: p.shapes[i], ops: ops}, mix: mix}
}

const pagedPrelude = `<style>@page{size:1000px 20px;margin:0} html,body,div,p{margin:0;font-family:ahem;font-size:10px;line-height:1;orphans:1;widows:1}`

// pagedDoc rewrites the document of the scope family: paged prelude, the content value
// extended by the mix, the two targets around the forest.
func pagedDoc(treeHTML string, mix mixDef) string {
	const oldContent = `content:counters(c,".") "|" counters(list-item,".")`
	h := strings.Replace(treeHTML, "<style>", pagedPrelude, 1)
	switch {
	case mix.bookmark:
		h = strings.Replace(h, oldContent, oldContent+";bookmark-level:1;bookmark-label:"+strings.TrimPrefix(oldContent, "content:")+" "+mix.content, 1)
	case mix.content != "":
		h = strings.Replace(h, oldContent, oldContent+" "+mix.content, 1)
	}
	h = strings.Replace(h, "<body>", `<body><p id=a style="counter-reset:d 4">A</p>`, 1)
	return h + "<p id=z>Z</p>"
}

type pagedObs struct {
	text  string
	label string // bookmark label of the box
	page  int    // 1-based
}

// pagedTexts collects, per element id and pseudo type, the text of the first box found and
// the page it is on.
func pagedTexts(pages []*bo.PageBox) map[string]pagedObs {
	out := map[string]pagedObs{}
	for pi, p := range pages {
		got := map[string]string{}
		pseudoTexts(bo.Box(p), got)
		labels := map[string]string{}
		pseudoLabels(bo.Box(p), labels)
		for k, v := range got {
			if _, has := out[k]; !has {
				out[k] = pagedObs{v, labels[k], pi + 1}
			}
		}
	}
	return out
}

// pseudoLabels collects, per element id and pseudo type, the bookmark label of the outermost
// box (keys as pseudoTexts).
func pseudoLabels(b bo.Box, out map[string]string) {
	f := b.Box()
	if f.PseudoType != "" && f.Element != nil {
		id := ""
		for _, a := range f.Element.Attr {
			if a.Key == "id" {
				id = a.Val
			}
		}
		key := id + "::" + f.PseudoType
		if _, has := out[key]; !has {
			out[key] = f.BookmarkLabel
		}
		return
	}
	for _, ch := range f.Children {
		pseudoLabels(ch, out)
	}
}

func (c *check) runPaged(ctx *engine.Ctx, pc pagedCase, m []opDef) {
	mix := pagedMixes[pc.mix]
	treeHTML, top, feats := c.buildTree(pc.tc, m)
	// the two targets take part in the reference as top-level siblings of the forest
	a := &rnode{elem: "a", ops: cops{reset: []nv{{"d", 4}}}, parent: top}
	z := &rnode{elem: "z", parent: top}
	top.children = append(append([]*rnode{a}, top.children...), z)
	ref := &scopeRef{sets: map[*rnode][]*rcounter{}, obs: map[string]string{}}
	ref.visit(top, nil)
	html := pagedDoc(treeHTML, mix)
	// some ::before / ::after of the document uses counters(c) or counters(list-item) where the
	// reference has no such counter (it prints 0): the implementation records those names as
	// "missing" for the content value, next to page and pages
	for n, cs := range ref.sets {
		if n.key != "" && (ref.innermost(cs, "c") < 0 || ref.innermost(cs, "list-item") < 0) {
			feats = append(feats, "undefined-element-counter-used")
			break
		}
	}
	feats = append([]string{"paged", "mix=" + mix.name}, feats...)
	sort.Strings(feats)
	desc := "paged " + html

	// what the appended part must be, but for the page numbers (taken from the layout)
	zc := ref.sets[z]
	zInner := "0"
	if i := ref.innermost(zc, "c"); i >= 0 {
		zInner = fmt.Sprint(zc[i].value)
	}
	zAll := ref.countersText(zc, "c")

	var got map[string]pagedObs
	npages := 0
	ok := ctx.GuardFail(desc, feats, func() {
		pages, err := render.Layout(render.Options{HTML: html, PageBound: 40})
		if err != nil {
			panic(err)
		}
		npages = len(pages)
		got = pagedTexts(pages)
	})
	keys := make([]string, 0, len(ref.obs))
	for k := range ref.obs {
		keys = append(keys, k)
	}
	sort.Strings(keys)
	var sb strings.Builder
	sb.WriteString(mix.name + ";")
	for _, k := range keys {
		sb.WriteString(k + "=" + ref.obs[k] + ";")
	}
	ctx.Case(len(keys) > 0, sb.String())
	ctx.Trans(int64(len(keys)))
	ctx.Count("paged-documents", 1)
	if !ok {
		return
	}
	if npages > 1 {
		ctx.Count("paged-documents:more-than-one-page", 1)
	}
	var badScope, badMix []string
	for _, k := range keys {
		want := ref.obs[k]
		g, has := got[k]
		if !has {
			badScope = append(badScope, fmt.Sprintf("%s want %q: no such box", k, want))
			continue
		}
		if strings.HasSuffix(k, "::marker") || mix.content == "" {
			if g.text != want {
				badScope = append(badScope, fmt.Sprintf("%s want %q got %q", k, want, g.text))
			}
			continue
		}
		// "<c>|<list-item>|<mix>"
		if mix.bookmark {
			if g.text != want {
				badScope = append(badScope, fmt.Sprintf("%s text want %q got %q", k, want, g.text))
			}
			g.text = g.label // the extended list is the bookmark label
		}
		parts := strings.SplitN(g.text, "|", 3)
		gotScope, gotMix := g.text, ""
		if len(parts) == 3 {
			gotScope, gotMix = parts[0]+"|"+parts[1], parts[2]
		}
		if gotScope != want {
			badScope = append(badScope, fmt.Sprintf("%s want %q got %q (whole text %q, page %d of %d)", k, want, gotScope, g.text, g.page, npages))
		}
		var wantMix string
		kind := mix.kind
		if kind == "" {
			kind = mix.name
		}
		switch kind {
		case "page":
			wantMix = fmt.Sprintf("p%d", g.page)
		case "pages":
			wantMix = fmt.Sprintf("n%d", npages)
		case "page+pages":
			wantMix = fmt.Sprintf("p%dn%d", g.page, npages)
		case "fwd-target-counter":
			wantMix = "t" + zInner
		case "fwd-target-counters":
			wantMix = "t" + zAll
		case "fwd-target-text":
			wantMix = "tZ"
		case "back-target-counter":
			wantMix = "t4"
		case "fwd-target-counter+page":
			wantMix = fmt.Sprintf("t%sp%d", zInner, g.page)
		}
		if gotMix != wantMix {
			badMix = append(badMix, fmt.Sprintf("%s want %q got %q (whole text %q, box on page %d of %d)", k, wantMix, gotMix, g.text, g.page, npages))
		}
		ctx.Trans(1)
	}
	var gk []string
	for k := range got {
		gk = append(gk, k)
	}
	sort.Strings(gk)
	for _, k := range gk {
		if _, has := ref.obs[k]; !has {
			badScope = append(badScope, fmt.Sprintf("%s unexpected box with text %q", k, got[k].text))
		}
	}
	if len(badScope) > 0 {
		ctx.Fail(engine.Failure{Clause: "scope", Features: feats, Case: desc, Detail: strings.Join(badScope, "; ")})
	}
	if len(badMix) > 0 {
		ctx.Fail(engine.Failure{Clause: mix.clause, Features: feats, Case: desc, Detail: strings.Join(badMix, "; ")})
	}
}
