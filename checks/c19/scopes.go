package c19

// Family (ii): counter scopes. Element forests x per-element operations, observed through
// the text of ::before / ::after / ::marker boxes, against a reference of CSS Lists 3
// §4.1-4.6 (counter sets inherited from the parent and the preceding sibling, instantiate
// / increment / set, implicit list-item increment, display:none elements leave counters
// alone, counters() outermost first).

import (
	"fmt"
	"sort"
	"strings"

	"verif/internal/engine"
)

type nv struct {
	name string
	v    int
}

// cops are the counter properties of one box-generating node, in specified form.
type cops struct {
	reset, inc, set []nv
	incSpecified    bool // counter-increment was specified (possibly as none)
	listItem        bool // display: list-item
	none            bool // display: none
}

// opDef is one entry of the per-element menu.
type opDef struct {
	name   string
	style  string // declarations of the element's style attribute
	before string // extra declarations of its ::before
	after  string // extra declarations of its ::after
	el     cops
	bf, af cops
}

// menu returns the per-element menu: level 0 = the 8 core operations of the pilot, 1 = 20
// operations, 2 = all 24.
func menu(level int) []opDef {
	full := level > 0
	c := func(v int) []nv { return []nv{{"c", v}} }
	l := []opDef{
		{name: "-"},
		{name: "reset", style: "counter-reset:c", el: cops{reset: c(0)}},
		{name: "reset5", style: "counter-reset:c 5", el: cops{reset: c(5)}},
		{name: "inc", style: "counter-increment:c", el: cops{inc: c(1), incSpecified: true}},
		{name: "inc2", style: "counter-increment:c 2", el: cops{inc: c(2), incSpecified: true}},
		{name: "set7", style: "counter-set:c 7", el: cops{set: c(7)}},
		{name: "reset3+inc", style: "counter-reset:c 3;counter-increment:c", el: cops{reset: c(3), inc: c(1), incSpecified: true}},
		{name: "none+inc9", style: "display:none;counter-increment:c 9", el: cops{none: true, inc: c(9), incSpecified: true}},
	}
	if !full {
		return l
	}
	li := "display:list-item;"
	l = append(l,
		opDef{name: "set7+inc2", style: "counter-set:c 7;counter-increment:c 2", el: cops{set: c(7), inc: c(2), incSpecified: true}},
		opDef{name: "reset1-reset2", style: "counter-reset:c 1 c 2", el: cops{reset: []nv{{"c", 1}, {"c", 2}}}},
		opDef{name: "inc1-inc2", style: "counter-increment:c c 2", el: cops{inc: []nv{{"c", 1}, {"c", 2}}, incSpecified: true}},
		opDef{name: "reset+set6", style: "counter-reset:c;counter-set:c 6", el: cops{reset: c(0), set: c(6)}},
		opDef{name: "inc-3", style: "counter-increment:c -3", el: cops{inc: c(-3), incSpecified: true}},
		opDef{name: "li", style: li, el: cops{listItem: true}},
		opDef{name: "li+inc", style: li + "counter-increment:c", el: cops{listItem: true, inc: c(1), incSpecified: true}},
		opDef{name: "li+inc-li3", style: li + "counter-increment:list-item 3", el: cops{listItem: true, inc: []nv{{"list-item", 3}}, incSpecified: true}},
		opDef{name: "li+reset-li4", style: li + "counter-reset:list-item 4", el: cops{listItem: true, reset: []nv{{"list-item", 4}}}},
		opDef{name: "li+inc-none", style: li + "counter-increment:none", el: cops{listItem: true, incSpecified: true}},
		opDef{name: "before-inc", before: "counter-increment:c", bf: cops{inc: c(1), incSpecified: true}},
		opDef{name: "before-reset8", before: "counter-reset:c 8", bf: cops{reset: c(8)}},
		opDef{name: "after-inc", after: "counter-increment:c", af: cops{inc: c(1), incSpecified: true}},
		opDef{name: "reset-li", style: "counter-reset:list-item", el: cops{reset: []nv{{"list-item", 0}}}},
		opDef{name: "li+set-li9", style: li + "counter-set:list-item 9", el: cops{listItem: true, set: []nv{{"list-item", 9}}}},
		opDef{name: "before-none+inc9", before: "display:none;counter-increment:c 9", bf: cops{none: true, inc: c(9), incSpecified: true}},
	)
	if level == 1 {
		var mid []opDef
		for _, o := range l {
			switch o.name {
			case "reset1-reset2", "inc1-inc2", "inc-3", "before-none+inc9":
			default:
				mid = append(mid, o)
			}
		}
		return mid
	}
	return l
}

// forests enumerates the ordered forests of n nodes as parent arrays in pre-order
// (parent -1 = top level).
func forests(n int) [][]int {
	var out [][]int
	var rec func(par []int)
	rec = func(par []int) {
		i := len(par)
		if i == n {
			out = append(out, append([]int(nil), par...))
			return
		}
		// the parent of node i is -1 or a node on the path from node i-1 to the top
		var cands []int
		if i > 0 {
			for a := i - 1; a >= 0; a = par[a] {
				cands = append(cands, a)
			}
		}
		cands = append(cands, -1)
		// flat shapes first
		for k := len(cands) - 1; k >= 0; k-- {
			rec(append(par, cands[k]))
		}
	}
	rec(nil)
	return out
}

// ---- reference ---------------------------------------------------------------------------

type rnode struct {
	key      string // observation key: "e1::before", "e1::after", "" for elements
	elem     string // element id for elements
	ops      cops
	children []*rnode
	parent   *rnode
}

type rcounter struct {
	name    string
	creator *rnode
	value   int
}

type scopeRef struct {
	sets map[*rnode][]*rcounter
	obs  map[string]string
}

func isEarlierSibling(a, of *rnode) bool {
	if a == of || a.parent != of.parent || of.parent == nil {
		return false
	}
	for _, s := range of.parent.children {
		if s == of {
			return false
		}
		if s == a {
			return true
		}
	}
	return false
}

func (r *scopeRef) innermost(cs []*rcounter, name string) int {
	for i := len(cs) - 1; i >= 0; i-- {
		if cs[i].name == name {
			return i
		}
	}
	return -1
}

func (r *scopeRef) instantiate(cs []*rcounter, n *rnode, name string, v int) []*rcounter {
	if i := r.innermost(cs, name); i >= 0 {
		cr := cs[i].creator
		if cr == n || isEarlierSibling(cr, n) {
			cs = append(append([]*rcounter(nil), cs[:i]...), cs[i+1:]...)
		}
	}
	return append(cs, &rcounter{name, n, v})
}

func (r *scopeRef) countersText(cs []*rcounter, name string) string {
	var vals []string
	for _, c := range cs {
		if c.name == name {
			vals = append(vals, fmt.Sprint(c.value))
		}
	}
	if len(vals) == 0 {
		return "0"
	}
	return strings.Join(vals, ".")
}

// visit processes node n (prev: the preceding box-generating sibling) and its subtree.
func (r *scopeRef) visit(n *rnode, prev *rnode) {
	// inherit: the parent's counters, then those of the preceding sibling that the parent
	// does not have. Counter instances are shared objects, so that a value is always the
	// one left by the preceding element in tree order.
	var cs []*rcounter
	if n.parent != nil {
		cs = append(cs, r.sets[n.parent]...)
	}
	if prev != nil {
		for _, c := range r.sets[prev] {
			has := false
			for _, x := range cs {
				if x == c {
					has = true
				}
			}
			if !has {
				cs = append(cs, c)
			}
		}
	}
	ops := n.ops
	for _, x := range ops.reset {
		cs = r.instantiate(cs, n, x.name, x.v)
	}
	incs := append([]nv(nil), ops.inc...)
	if ops.listItem {
		mentioned := false
		for _, x := range ops.inc {
			if x.name == "list-item" {
				mentioned = true
			}
		}
		if !mentioned {
			incs = append(incs, nv{"list-item", 1})
		}
	}
	for _, x := range incs {
		if r.innermost(cs, x.name) < 0 {
			cs = r.instantiate(cs, n, x.name, 0)
		}
		cs[r.innermost(cs, x.name)].value += x.v
	}
	for _, x := range ops.set {
		if r.innermost(cs, x.name) < 0 {
			cs = r.instantiate(cs, n, x.name, 0)
		}
		cs[r.innermost(cs, x.name)].value = x.v
	}
	r.sets[n] = cs
	if n.key != "" {
		r.obs[n.key] = r.countersText(cs, "c") + "|" + r.countersText(cs, "list-item")
	}
	if n.elem != "" && ops.listItem {
		li := 0
		if i := r.innermost(cs, "list-item"); i >= 0 {
			li = cs[i].value
		}
		r.obs[n.elem+"::marker"] = fmt.Sprintf("%d. ", li)
	}
	var p *rnode
	for _, ch := range n.children {
		if ch.ops.none {
			continue
		}
		r.visit(ch, p)
		p = ch
	}
}

// ---- cases ---------------------------------------------------------------------------------

type treeCase struct {
	parents []int
	ops     []int
}

func (c *check) buildTree(tc treeCase, m []opDef) (html string, top *rnode, feats []string) {
	n := len(tc.parents)
	top = &rnode{elem: "body"}
	nodes := make([]*rnode, n)
	inner := make([][]*rnode, n) // element children (without pseudo-elements)
	var rules strings.Builder
	set := map[string]bool{}
	for i := 0; i < n; i++ {
		o := m[tc.ops[i]]
		id := fmt.Sprintf("e%d", i+1)
		nodes[i] = &rnode{elem: id, ops: o.el}
		if o.before != "" {
			fmt.Fprintf(&rules, "#%s::before{%s}", id, o.before)
			set["pseudo-ops"] = true
		}
		if o.after != "" {
			fmt.Fprintf(&rules, "#%s::after{%s}", id, o.after)
			set["pseudo-ops"] = true
		}
		if o.el.none {
			set["display-none"] = true
		}
		if o.el.listItem {
			set["list-item"] = true
			if o.el.incSpecified {
				mentioned := false
				for _, x := range o.el.inc {
					if x.name == "list-item" {
						mentioned = true
					}
				}
				if !mentioned {
					set["list-item+increment-without-list-item"] = true
				}
			}
		}
		for _, s := range o.el.set {
			for _, x := range o.el.inc {
				if x.name == s.name {
					set["set+increment-same-element"] = true
				}
			}
			if s.name == "list-item" && o.el.listItem {
				set["set+increment-same-element"] = true
			}
		}
	}
	for i := 0; i < n; i++ {
		p := tc.parents[i]
		if p < 0 {
			nodes[i].parent = top
			top.children = append(top.children, nodes[i])
		} else {
			nodes[i].parent = nodes[p]
			inner[p] = append(inner[p], nodes[i])
		}
	}
	var gen func(i int) string
	gen = func(i int) string {
		o := m[tc.ops[i]]
		id := fmt.Sprintf("e%d", i+1)
		var sb strings.Builder
		if o.style != "" {
			fmt.Fprintf(&sb, `<div id=%s style="%s">`, id, o.style)
		} else {
			fmt.Fprintf(&sb, `<div id=%s>`, id)
		}
		nd := nodes[i]
		bf := &rnode{key: id + "::before", ops: o.bf, parent: nd}
		af := &rnode{key: id + "::after", ops: o.af, parent: nd}
		nd.children = append(nd.children, bf)
		for j := 0; j < n; j++ {
			if tc.parents[j] == i {
				sb.WriteString(gen(j))
				nd.children = append(nd.children, nodes[j])
			}
		}
		nd.children = append(nd.children, af)
		sb.WriteString("</div>")
		return sb.String()
	}
	var body strings.Builder
	for i := 0; i < n; i++ {
		if tc.parents[i] < 0 {
			body.WriteString(gen(i))
		}
	}
	html = `<style>div{list-style-type:decimal}div::before,div::after{content:counters(c,".") "|" counters(list-item,".")}` + rules.String() + `</style><body>` + body.String()
	for k := range set {
		feats = append(feats, k)
	}
	sort.Strings(feats)
	return html, top, feats
}

func (c *check) runTree(ctx *engine.Ctx, tc treeCase, m []opDef) {
	html, top, feats := c.buildTree(tc, m)
	ref := &scopeRef{sets: map[*rnode][]*rcounter{}, obs: map[string]string{}}
	ref.visit(top, nil)
	c.compareDoc(ctx, "scope "+html, html, false, ref.obs, feats, "scope", true)
}

// compareDoc builds the document and compares the pseudo-element texts with want.
// exact: every pseudo-element box of the document must be expected (and vice versa).
func (c *check) compareDoc(ctx *engine.Ctx, desc, html string, hints bool, want map[string]string, feats []string, clause string, exact bool) {
	got := map[string]string{}
	ok := ctx.GuardFail(desc, feats, func() {
		b, _, err := buildBoxTree(html, hints)
		if err != nil {
			panic(err)
		}
		pseudoTexts(b, got)
	})
	keys := make([]string, 0, len(want))
	for k := range want {
		keys = append(keys, k)
	}
	sort.Strings(keys)
	var sb strings.Builder
	for _, k := range keys {
		sb.WriteString(k + "=" + want[k] + ";")
	}
	ctx.Case(len(want) > 0, sb.String())
	ctx.Trans(int64(len(want)))
	if !ok {
		return
	}
	var bad []string
	for _, k := range keys {
		if got[k] != want[k] {
			bad = append(bad, fmt.Sprintf("%s want %q got %q", k, want[k], got[k]))
		}
	}
	if exact {
		var gk []string
		for k := range got {
			gk = append(gk, k)
		}
		sort.Strings(gk)
		for _, k := range gk {
			if _, has := want[k]; !has {
				bad = append(bad, fmt.Sprintf("%s unexpected box with text %q", k, got[k]))
			}
		}
	}
	if len(bad) > 0 {
		ctx.Fail(engine.Failure{Clause: clause, Features: feats, Case: desc, Detail: strings.Join(bad, "; ")})
	}
}

// ---- HTML lists -----------------------------------------------------------------------------

type listChild struct {
	name string
	html func(id string) string
	kind int // 0 li, 1 li value, 2 non-li block, 3 li with nested list
	val  int
}

var listChildren = []listChild{
	{name: "li", kind: 0, html: func(id string) string { return "<li id=" + id + "></li>" }},
	{name: "li-value5", kind: 1, val: 5, html: func(id string) string { return "<li id=" + id + " value=5></li>" }},
	{name: "li-value-1", kind: 1, val: -1, html: func(id string) string { return "<li id=" + id + " value=-1></li>" }},
	{name: "div", kind: 2, html: func(id string) string { return "<div></div>" }},
	{name: "li-nested-ol", kind: 3, html: func(id string) string {
		return "<li id=" + id + "><ol><li id=" + id + "a></li><li id=" + id + "b></li></ol></li>"
	}},
}

var listStarts = []string{"", "3", "0", "-2"}

type listCase struct {
	tag      string // ol | ul
	start    string
	children []int
}

func (c *check) listCaseAt(i int64) listCase {
	// index = ((children code) * starts + start) * 2 + tag
	tag := []string{"ol", "ul"}[i%2]
	i /= 2
	st := listStarts[i%int64(len(listStarts))]
	i /= int64(len(listStarts))
	// children sequences of length 1..3, shortest first
	k := int64(len(listChildren))
	var ch []int
	for l := int64(1); ; l++ {
		cnt := int64(1)
		for j := int64(0); j < l; j++ {
			cnt *= k
		}
		if i < cnt {
			for j := int64(0); j < l; j++ {
				ch = append(ch, int(i%k))
				i /= k
			}
			break
		}
		i -= cnt
	}
	return listCase{tag, st, ch}
}

func (c *check) listCount(maxLen int) int64 {
	k := int64(len(listChildren))
	n, p := int64(0), int64(1)
	for l := 1; l <= maxLen; l++ {
		p *= k
		n += p
	}
	return n * int64(len(listStarts)) * 2
}

func (c *check) runList(ctx *engine.Ctx, lc listCase) {
	var sb strings.Builder
	set := map[string]bool{}
	sb.WriteString("<body><" + lc.tag + ` style="list-style-type:decimal"`)
	ordinal := 1
	if lc.start != "" && lc.tag == "ol" {
		sb.WriteString(" start=" + lc.start)
		fmt.Sscan(lc.start, &ordinal)
		set["ol-start"] = true
	} else if lc.start != "" {
		// ul has no start attribute: the case is the same as without; keep it distinct by
		// an attribute that must have no effect
		sb.WriteString(" start=" + lc.start)
		set["ul-start-ignored"] = true
	}
	sb.WriteString(">")
	want := map[string]string{}
	for j, ci := range lc.children {
		ch := listChildren[ci]
		id := fmt.Sprintf("l%d", j+1)
		sb.WriteString(ch.html(id))
		switch ch.kind {
		case 0:
			want[id+"::marker"] = fmt.Sprintf("%d. ", ordinal)
			ordinal++
		case 1:
			set["li-value"] = true
			ordinal = ch.val
			want[id+"::marker"] = fmt.Sprintf("%d. ", ordinal)
			ordinal++
		case 3:
			set["nested-list"] = true
			want[id+"::marker"] = fmt.Sprintf("%d. ", ordinal)
			ordinal++
			want[id+"a::marker"] = "1. "
			want[id+"b::marker"] = "2. "
		}
	}
	sb.WriteString("</" + lc.tag + ">")
	var feats []string
	for k := range set {
		feats = append(feats, k)
	}
	sort.Strings(feats)
	html := sb.String()
	c.compareDoc(ctx, "html-list "+html, html, true, want, feats, "list-marker", false)
}
