package c19

// Unit tests of the reference models themselves, from examples given in the specifications
// (CSS Counter Styles 3 §3, CSS Lists 3 §4 / CSS 2.1 §12.4).

import "testing"

func TestReferenceCounterStyles(t *testing.T) {
	env := refEnv{}
	for _, s := range specTable {
		env[s.Name] = s
	}
	add := func(s *refStyle) { env[s.Name] = s }
	add(&refStyle{Name: "dice", System: "additive", Additive: []addTuple{{6, "⚅"}, {5, "⚄"}, {4, "⚃"}, {3, "⚂"}, {2, "⚁"}, {1, "⚀"}}})
	add(&refStyle{Name: "foot", System: "symbolic", Symbols: []string{"*", "⁑", "†", "‡"}})
	add(&refStyle{Name: "tri", System: "cyclic", Symbols: []string{"‣"}})
	add(&refStyle{Name: "box", System: "fixed", First: 1, Symbols: []string{"◰", "◳", "◲", "◱"}})
	add(&refStyle{Name: "go", System: "alphabetic", Symbols: []string{"○", "●"}})
	add(&refStyle{Name: "trinary", System: "numeric", Symbols: []string{"0", "1", "2"}})
	add(&refStyle{Name: "neg", System: "extends", Extends: "decimal", HasNegative: true, NegPre: "(", NegSuf: ")"})
	add(&refStyle{Name: "pad3", System: "extends", Extends: "decimal", HasPad: true, PadN: 3, PadS: "0"})
	add(&refStyle{Name: "loopa", System: "fixed", First: 1, Symbols: []string{"x"}, Fallback: "loopb"})
	add(&refStyle{Name: "loopb", System: "fixed", First: 1, Symbols: []string{"y"}, Fallback: "loopa"})
	add(&refStyle{Name: "cyca", System: "extends", Extends: "cycb", HasPad: true, PadN: 2, PadS: "_"})
	add(&refStyle{Name: "cycb", System: "extends", Extends: "cyca", HasPad: true, PadN: 4, PadS: "#"})
	add(&refStyle{Name: "intocycle", System: "extends", Extends: "cyca"})
	add(&refStyle{Name: "tomissing", System: "extends", Extends: "nowhere", HasPad: true, PadN: 2, PadS: "0"})
	for _, c := range []struct {
		style string
		v     int
		want  string
	}{
		{"decimal", 0, "0"}, {"decimal", -12, "-12"}, {"decimal-leading-zero", 7, "07"}, {"decimal-leading-zero", -7, "-7"},
		{"decimal-leading-zero", 123, "123"},
		{"lower-roman", 1994, "mcmxciv"}, {"upper-roman", 3999, "MMMCMXCIX"}, {"upper-roman", 4000, "4000"}, {"lower-roman", 0, "0"},
		{"lower-alpha", 1, "a"}, {"lower-alpha", 26, "z"}, {"lower-alpha", 27, "aa"}, {"lower-alpha", 52, "az"}, {"lower-alpha", 703, "aaa"},
		{"lower-alpha", 0, "0"}, {"lower-alpha", -1, "-1"},
		{"dice", 7, "⚅⚀"}, {"dice", 12, "⚅⚅"}, {"dice", 0, "0"},
		{"foot", 1, "*"}, {"foot", 4, "‡"}, {"foot", 5, "**"}, {"foot", 6, "⁑⁑"}, {"foot", 0, "0"},
		{"tri", 5, "‣"}, {"tri", -5, "‣"}, {"tri", 0, "‣"},
		{"box", 1, "◰"}, {"box", 4, "◱"}, {"box", 5, "5"}, {"box", 0, "0"},
		{"go", 1, "○"}, {"go", 2, "●"}, {"go", 3, "○○"}, {"go", 7, "○○○"},
		{"trinary", 0, "0"}, {"trinary", 5, "12"}, {"trinary", -5, "-12"},
		{"neg", -2, "(2)"}, {"neg", 2, "2"},
		{"pad3", 1, "001"}, {"pad3", -1, "-01"}, {"pad3", 1000, "1000"},
		{"loopa", 1, "x"}, {"loopa", 2, "2"}, {"loopb", 1, "y"},
		{"cyca", 7, "_7"}, {"cycb", 7, "###7"}, {"intocycle", 7, "_7"}, {"tomissing", 7, "07"},
		{"nosuch", -3, "-3"},
		{"cjk-decimal", 10, "一〇"}, {"cjk-decimal", -1, "-1"},
	} {
		got, _ := env.generate(c.v, c.style)
		if got != c.want {
			t.Errorf("generate(%d, %s) = %q, want %q", c.v, c.style, got, c.want)
		}
	}
	for _, c := range []struct {
		style string
		v     int
		want  string
	}{{"decimal", 3, "3. "}, {"disc", 3, "• "}, {"cjk-decimal", 3, "三、"}, {"nosuch", 3, "3. "}, {"lower-latin", 2, "b. "}} {
		got, _ := env.marker(c.v, c.style)
		if got != c.want {
			t.Errorf("marker(%d, %s) = %q, want %q", c.v, c.style, got, c.want)
		}
	}
}

// scope builds a reference tree from a compact description and returns the observations.
func scopeObs(build func(top *rnode, el func(parent *rnode, id string, o cops) *rnode)) map[string]string {
	top := &rnode{elem: "body"}
	el := func(parent *rnode, id string, o cops) *rnode {
		n := &rnode{elem: id, ops: o, parent: parent}
		parent.children = append(parent.children, n)
		n.children = append(n.children, &rnode{key: id + "::before", parent: n})
		return n
	}
	build(top, el)
	r := &scopeRef{sets: map[*rnode][]*rcounter{}, obs: map[string]string{}}
	r.visit(top, nil)
	return r.obs
}

func TestReferenceScopes(t *testing.T) {
	item := func(v int) []nv { return []nv{{"c", v}} }
	// CSS 2.1 §12.4.1 nested lists: ol{counter-reset:item} li{counter-increment:item}
	obs := scopeObs(func(top *rnode, el func(*rnode, string, cops) *rnode) {
		ol := el(top, "ol1", cops{reset: item(0)})
		el(ol, "a", cops{inc: item(1)})
		b := el(ol, "b", cops{inc: item(1)})
		ol2 := el(b, "ol2", cops{reset: item(0)})
		el(ol2, "c", cops{inc: item(1)})
		el(ol2, "d", cops{inc: item(1)})
		el(ol, "e", cops{inc: item(1)})
	})
	for k, want := range map[string]string{"a::before": "1|0", "b::before": "2|0", "c::before": "2.1|0", "d::before": "2.2|0", "e::before": "3|0"} {
		if obs[k] != want {
			t.Errorf("%s = %q want %q", k, obs[k], want)
		}
	}
	// a reset on a later sibling replaces the counter of the earlier sibling; an increment
	// without counter instantiates one scoped to the following siblings; set after increment;
	// list items
	obs = scopeObs(func(top *rnode, el func(*rnode, string, cops) *rnode) {
		el(top, "a", cops{reset: item(5)})
		el(top, "b", cops{reset: item(2)})
		p := el(top, "p", cops{})
		el(p, "q", cops{inc: item(1)})
		el(top, "r", cops{inc: item(1), set: item(7)})
		el(top, "s", cops{listItem: true})
		el(top, "t", cops{listItem: true, inc: item(1), incSpecified: true})
		el(top, "u", cops{listItem: true, inc: []nv{{"list-item", 3}}, incSpecified: true})
	})
	for k, want := range map[string]string{"a::before": "5|0", "b::before": "2|0", "q::before": "3|0", "r::before": "7|0",
		"s::before": "7|1", "s::marker": "1. ", "t::before": "8|2", "u::before": "8|5", "u::marker": "5. "} {
		if obs[k] != want {
			t.Errorf("%s = %q want %q", k, obs[k], want)
		}
	}
}

func TestForestCounts(t *testing.T) {
	for n, want := range map[int]int{1: 1, 2: 2, 3: 5, 4: 14, 5: 42} {
		if got := len(forests(n)); got != want {
			t.Errorf("forests(%d) = %d want %d", n, got, want)
		}
	}
}
