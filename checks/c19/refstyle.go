package c19

// Reference model of CSS Counter Styles Level 3: "generate a counter representation"
// (§2.1), the six counter systems (§3.1.1-3.1.6), extends (§3.1.7), range (§3.3),
// pad (§3.4), negative (§3.2), fallback (§3.5), prefix/suffix (§3.6-3.7) and the marker
// string. Written from the specification; it does not import the package under test.
// Boring on purpose: lists, maps, straight loops.

import (
	"math"
	"strings"
	"unicode/utf8"
)

const (
	negInf = math.MinInt64
	posInf = math.MaxInt64
)

type addTuple struct {
	W int
	S string
}

// refStyle is one @counter-style rule (specified descriptors only).
type refStyle struct {
	Name     string
	System   string // cyclic fixed symbolic alphabetic numeric additive extends
	First    int    // fixed: first symbol value
	Extends  string // extends: name of the extended style
	Symbols  []string
	Additive []addTuple

	HasNegative    bool
	NegPre, NegSuf string
	HasPrefix      bool
	Prefix         string
	HasSuffix      bool
	Suffix         string
	HasRange       bool // range specified (auto or list)
	RangeAuto      bool
	Ranges         [][2]int64 // negInf / posInf for "infinite"
	HasPad         bool
	PadN           int
	PadS           string
	Fallback       string // "" = not specified
}

// refEnv is the set of defined counter styles (author + predefined), by name.
type refEnv map[string]*refStyle

// decimal as defined normatively by the specification (§6.1); used as the last resort
// whatever the environment contains.
var specDecimal = &refStyle{Name: "decimal", System: "numeric", Symbols: []string{"0", "1", "2", "3", "4", "5", "6", "7", "8", "9"}}

func (e refEnv) lookup(name string) *refStyle {
	if s, ok := e[name]; ok {
		return s
	}
	if name == "decimal" {
		return specDecimal
	}
	return nil
}

// inExtendsCycle says whether following the extends links from name comes back to name.
func (e refEnv) inExtendsCycle(name string) bool {
	seen := map[string]bool{}
	cur := name
	for {
		s := e.lookup(cur)
		if s == nil || s.System != "extends" {
			return false
		}
		next := s.Extends
		if next == name {
			return true
		}
		if seen[next] {
			return false // a cycle that does not contain name
		}
		seen[next] = true
		cur = next
	}
}

// resolve returns the effective (non-extends) style for name: the algorithm of the
// extended style with every descriptor that the extending rule does not specify taken
// from the extended style. A missing target and every member of an extends cycle extend
// decimal instead.
func (e refEnv) resolve(name string) *refStyle {
	s := e.lookup(name)
	if s == nil {
		return nil
	}
	if s.System != "extends" {
		return s
	}
	target := s.Extends
	if e.inExtendsCycle(name) || e.lookup(target) == nil {
		target = "decimal"
	}
	base := e.resolve(target)
	out := *base
	out.Name = s.Name
	if s.HasNegative {
		out.HasNegative, out.NegPre, out.NegSuf = true, s.NegPre, s.NegSuf
	}
	if s.HasPrefix {
		out.HasPrefix, out.Prefix = true, s.Prefix
	}
	if s.HasSuffix {
		out.HasSuffix, out.Suffix = true, s.Suffix
	}
	if s.HasRange {
		out.HasRange, out.RangeAuto, out.Ranges = true, s.RangeAuto, s.Ranges
	}
	if s.HasPad {
		out.HasPad, out.PadN, out.PadS = true, s.PadN, s.PadS
	}
	if s.Fallback != "" {
		out.Fallback = s.Fallback
	}
	return &out
}

// step is one style visited by the algorithm, for feature tags.
type step struct {
	Name   string
	Style  *refStyle // resolved
	Reason string    // why this style did not produce the result: "range", "norepr", "" (it did)
}

// genTrace is what the reference computed for one value.
type genTrace struct {
	Steps    []step
	PrePad   string // initial representation before padding, of the final style
	Negative bool   // negative sign used by the final style
	LoopCut  bool   // a fallback loop was cut with decimal
	LoopTo   string // the already visited style the loop came back to
	Unknown  bool   // the first style was unknown
	Long     bool   // a representation of more than lenLimit symbols: implementation-defined
	Huge     bool   // more than hugeLimit symbols: not built
}

func floorMod(a, n int) int { return ((a % n) + n) % n }

func runeLen(s string) int { return utf8.RuneCountInString(s) }

func inRange(st *refStyle, v int) bool {
	if !st.HasRange || st.RangeAuto {
		switch st.System {
		case "alphabetic", "symbolic":
			return v >= 1
		case "additive":
			return v >= 0
		}
		return true
	}
	for _, r := range st.Ranges {
		if r[0] <= int64(v) && int64(v) <= r[1] {
			return true
		}
	}
	return false
}

func usesNegativeSign(system string) bool {
	return system == "symbolic" || system == "alphabetic" || system == "numeric" || system == "additive"
}

// The symbolic and additive systems produce representations whose length grows linearly
// with the value. The specification lets an implementation stop at a limit of its choice
// (at least 60 symbols) and use the fallback style beyond
// it: above lenLimit symbols the text is implementation-defined and not compared; above
// hugeLimit the reference does not even build the string (nor is the implementation called).
const (
	lenLimit  = 60
	hugeLimit = 20000
)

// initial generates the initial representation of the non-negative (or, for cyclic and
// fixed, arbitrary) value; ok is false when the algorithm cannot represent the value.
// nsym is the number of symbols used by the symbolic and additive systems.
func initial(st *refStyle, v int) (repr string, ok bool, nsym int) {
	repr, ok, nsym = initial0(st, v)
	return
}

func initial0(st *refStyle, v int) (string, bool, int) {
	s, ok := "", false
	nsym := 0
	switch st.System {
	case "symbolic":
		if n := len(st.Symbols); n > 0 && v >= 1 {
			nsym = (v-1)/n + 1
		}
	case "additive":
		if v > 0 {
			rem := v
			for _, t := range st.Additive {
				if rem == 0 {
					break
				}
				if t.W == 0 || t.W > rem {
					continue
				}
				nsym += rem / t.W
				rem -= (rem / t.W) * t.W
			}
		}
	}
	if nsym > hugeLimit {
		return "", true, nsym
	}
	s, ok = initial1(st, v)
	if !ok {
		nsym = 0 // no representation: the fallback is used whatever the length limit
	}
	return s, ok, nsym
}

func initial1(st *refStyle, v int) (string, bool) {
	n := len(st.Symbols)
	switch st.System {
	case "cyclic":
		if n == 0 {
			return "", false
		}
		return st.Symbols[floorMod(v-1, n)], true
	case "fixed":
		i := v - st.First
		if i < 0 || i >= n {
			return "", false
		}
		return st.Symbols[i], true
	case "symbolic":
		if n == 0 || v < 1 {
			return "", false
		}
		return strings.Repeat(st.Symbols[(v-1)%n], (v-1)/n+1), true
	case "alphabetic":
		if n < 2 || v < 1 {
			return "", false
		}
		s := ""
		for v != 0 {
			v--
			s = st.Symbols[v%n] + s
			v /= n
		}
		return s, true
	case "numeric":
		if n < 2 || v < 0 {
			return "", false
		}
		if v == 0 {
			return st.Symbols[0], true
		}
		s := ""
		for v != 0 {
			s = st.Symbols[v%n] + s
			v /= n
		}
		return s, true
	case "additive":
		if len(st.Additive) == 0 || v < 0 {
			return "", false
		}
		if v == 0 {
			for _, t := range st.Additive {
				if t.W == 0 {
					return t.S, true
				}
			}
			return "", false
		}
		s := ""
		for _, t := range st.Additive {
			if v == 0 {
				break
			}
			if t.W == 0 || t.W > v {
				continue
			}
			k := v / t.W
			s += strings.Repeat(t.S, k)
			v -= k * t.W
		}
		if v != 0 {
			return "", false
		}
		return s, true
	}
	return "", false
}

// generate is "generate a counter representation" for value v and the style called name.
func (e refEnv) generate(v int, name string) (string, *genTrace) {
	tr := &genTrace{}
	visited := map[string]bool{}
	cur := name
	first := true
	for {
		st := e.resolve(cur)
		if st == nil {
			// unknown style: decimal
			if first {
				tr.Unknown = true
			}
			cur = "decimal"
			st = e.resolve(cur)
		}
		first = false
		if visited[cur] {
			// a loop in the fallbacks: decimal
			tr.LoopCut, tr.LoopTo = true, cur
			cur = "decimal"
			st = e.resolve(cur)
		}
		visited[cur] = true
		s, reason := e.tryStyle(st, v, tr)
		tr.Steps = append(tr.Steps, step{Name: cur, Style: st, Reason: reason})
		if reason == "" {
			return s, tr
		}
		if cur == "decimal" {
			// cannot happen: decimal represents every integer
			return s, tr
		}
		cur = st.Fallback
		if cur == "" {
			cur = "decimal"
		}
	}
}

func (e refEnv) tryStyle(st *refStyle, v int, tr *genTrace) (string, string) {
	if !inRange(st, v) {
		return "", "range"
	}
	neg := v < 0 && usesNegativeSign(st.System)
	av := v
	if neg {
		av = -v
	}
	repr, ok, nsym := initial(st, av)
	if !ok {
		return "", "norepr"
	}
	if nsym > lenLimit {
		tr.Long = true
	}
	if nsym > hugeLimit {
		tr.Huge = true
	}
	negPre, negSuf := "-", ""
	if st.HasNegative {
		negPre, negSuf = st.NegPre, st.NegSuf
	}
	tr.PrePad, tr.Negative = repr, neg
	if st.HasPad {
		l := runeLen(repr)
		if neg {
			l += runeLen(negPre) + runeLen(negSuf)
		}
		if st.PadN > l {
			repr = strings.Repeat(st.PadS, st.PadN-l) + repr
		}
	}
	if neg {
		repr = negPre + repr + negSuf
	}
	return repr, ""
}

// marker is the marker string: prefix + representation + suffix, prefix and suffix being
// those of the style named (never of a fallback style); an unknown style is decimal.
func (e refEnv) marker(v int, name string) (string, *genTrace) {
	st := e.resolve(name)
	if st == nil {
		name = "decimal"
		st = e.resolve(name)
	}
	repr, tr := e.generate(v, name)
	prefix, suffix := "", ". "
	if st.HasPrefix {
		prefix = st.Prefix
	}
	if st.HasSuffix {
		suffix = st.Suffix
	}
	return prefix + repr + suffix, tr
}

// anonymous styles: symbols() and <string> list-style-type (CSS Counter Styles 3 §7.1,
// CSS Lists 3 §3.4).
func anonSymbols(system string, syms []string) *refStyle {
	st := &refStyle{Name: "symbols()", System: system, Symbols: syms, HasSuffix: true, Suffix: " "}
	if system == "fixed" {
		st.First = 1
	}
	return st
}

func anonString(s string) *refStyle {
	return &refStyle{Name: "<string>", System: "cyclic", Symbols: []string{s}, HasSuffix: true, Suffix: ""}
}
