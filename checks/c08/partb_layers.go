package c08

import (
	"fmt"
	"reflect"
	"sort"
	"strings"

	pr "github.com/benoitkugler/webrender/css/properties"

	"verif/internal/engine"
)

// Part b, layered family: the `background` shorthand with two and three comma separated layers.
//
// CSS Backgrounds 3 §3.10: "for each layer the shorthand first sets the corresponding layer of
// each of background-image, background-position, background-size, background-repeat,
// background-origin, background-clip and background-attachment to that property's initial
// value, then assigns any explicit values specified for this layer"; the colour is only allowed
// in the final layer. The reference therefore is, per long-hand, the LIST whose k-th element is
// what the k-th layer says (or the initial value), and the comparison is made layer by layer:
// element k of the list the shorthand produces must be element 0 of the list the long-hand
// produces for the k-th component alone.
//
// The space is index addressable (nothing is materialised in Init): a case is
// (number of layers, per layer the set of components that are present, rotation of the value
// menus, colour in the final layer or not). The value of a component depends on the layer it is
// in, so that no two layers ever carry the same value for a component.

// per-layer value menus: layer k takes entry (k+rot)%3
var (
	lyImages    = [3]string{"url(a)", "linear-gradient(red,blue)", "url(b)"}
	lyImagesAbs = [3]string{"url(http://y/a)", "linear-gradient(red,blue)", "url(http://y/b)"}
	lyPositions = [3]string{"left 10px", "10px 20%", "center"}
	lySizes     = [3]string{"cover", "10px auto", "50%"}
	lyRepeats   = [3]string{"no-repeat", "repeat-x", "repeat space"}
	lyAttach    = [3]string{"fixed", "local", "scroll"}
	lyBox1      = [3]string{"content-box", "padding-box", "border-box"}
	lyBox2      = [3][2]string{{"border-box", "content-box"}, {"content-box", "padding-box"}, {"padding-box", "padding-box"}}
	lyColors    = [3]string{"red", "rgba(0,0,0,.5)", "#00f"}
)

// what an omitted component of a layer means (initial value of the long-hand, one layer)
var lyInitial = map[string]string{
	"background-image": "none", "background-position": "0% 0%", "background-size": "auto", "background-repeat": "repeat",
	"background-attachment": "scroll", "background-origin": "padding-box", "background-clip": "border-box",
}

var lyLonghands = []string{"background-image", "background-position", "background-size", "background-repeat",
	"background-attachment", "background-origin", "background-clip"}

// presence of the components of one layer, 0 <= p < 72:
// image {0,1} x position {none, position, position / size} x repeat {0,1} x attachment {0,1} x box {none, one, two}
const lyPresences = 72

type lyPresence struct{ image, possize, repeat, attach, box int }

func decodePresence(p int) lyPresence {
	return lyPresence{p % 2, (p / 2) % 3, (p / 6) % 2, (p / 12) % 2, (p / 24) % 3}
}

func encodePresence(q lyPresence) int {
	return q.image + 2*q.possize + 6*q.repeat + 12*q.attach + 24*q.box
}

// reduced per-layer menu used for three layers in the quick tier: everything, everything but the
// size with a single box, each component alone, image with position and size.
var lyReduced = []int{
	encodePresence(lyPresence{1, 2, 1, 1, 2}), encodePresence(lyPresence{1, 1, 1, 1, 1}),
	encodePresence(lyPresence{image: 1}), encodePresence(lyPresence{possize: 1}), encodePresence(lyPresence{possize: 2}),
	encodePresence(lyPresence{repeat: 1}), encodePresence(lyPresence{attach: 1}), encodePresence(lyPresence{box: 1}), encodePresence(lyPresence{box: 2}),
	encodePresence(lyPresence{image: 1, possize: 2}),
}

// a layered sub-family: n layers, each non-final layer takes a presence of `menu` (never the
// empty one), the final layer a presence of menu+{empty} with or without the colour (the empty
// one only with the colour), and a rotation of the value menus.
type lyFamily struct {
	n    int
	menu []int // non-empty presences
}

func (f lyFamily) lastOptions() int { return 2*len(f.menu) + 1 }

func (f lyFamily) size() int64 {
	s := int64(3 * f.lastOptions())
	for i := 0; i < f.n-1; i++ {
		s *= int64(len(f.menu))
	}
	return s
}

// a layer case: the shorthand value and, per long-hand, the text of each layer's component.
type lyCase struct {
	n, rot int
	value  string
	layers []string            // text of each layer
	comp   map[string][]string // long-hand -> per-layer component text (never empty: initial value spelled out)
	given  map[string][]bool   // long-hand -> per layer: was it written in the shorthand
	color  string              // "" = omitted
	feats  []string
	// pieces of each layer, for the var() forms of part c: name -> text ("" = absent)
	parts []map[string]string
}

func allPresences() []int {
	var m []int
	for p := 1; p < lyPresences; p++ {
		m = append(m, p)
	}
	return m
}

func (c *check) lyFamilies() []lyFamily {
	if c.thorough {
		return []lyFamily{{2, allPresences()}, {3, allPresences()}}
	}
	return []lyFamily{{2, allPresences()}, {3, lyReduced}}
}

// lyBuild builds case number idx of a family. images: the image menu (relative or absolute URLs).
func lyBuild(f lyFamily, idx int64, images [3]string) lyCase {
	rot := int(idx % 3)
	idx /= 3
	lo := int(idx % int64(f.lastOptions()))
	idx /= int64(f.lastOptions())
	pres := make([]int, f.n)
	for k := f.n - 2; k >= 0; k-- {
		pres[k] = f.menu[idx%int64(len(f.menu))]
		idx /= int64(len(f.menu))
	}
	withColor := false
	switch {
	case lo < len(f.menu):
		pres[f.n-1] = f.menu[lo]
	case lo < 2*len(f.menu):
		pres[f.n-1], withColor = f.menu[lo-len(f.menu)], true
	default:
		pres[f.n-1], withColor = 0, true
	}
	return lyMake(pres, rot, withColor, images)
}

func lyMake(pres []int, rot int, withColor bool, images [3]string) lyCase {
	n := len(pres)
	lc := lyCase{n: n, rot: rot, comp: map[string][]string{}, given: map[string][]bool{}}
	set := func(lh, v string, k int) {
		given := v != ""
		if !given {
			v = lyInitial[lh]
		}
		lc.comp[lh] = append(lc.comp[lh], v)
		lc.given[lh] = append(lc.given[lh], given)
	}
	used := map[string]bool{}
	for k, p := range pres {
		q := decodePresence(p)
		vi := (k + rot) % 3
		parts := map[string]string{}
		var im, po, sz, rp, at, origin, clip, bx string
		if q.image == 1 {
			im = images[vi]
			used["image"] = true
		}
		if q.possize >= 1 {
			po = lyPositions[vi]
			used["position"] = true
		}
		if q.possize == 2 {
			sz = lySizes[vi]
			used["size"] = true
		}
		if q.repeat == 1 {
			rp = lyRepeats[vi]
			used["repeat"] = true
		}
		if q.attach == 1 {
			at = lyAttach[vi]
			used["attachment"] = true
		}
		switch q.box {
		case 1:
			origin, clip, bx = lyBox1[vi], lyBox1[vi], lyBox1[vi]
			used["box"] = true
		case 2:
			origin, clip, bx = lyBox2[vi][0], lyBox2[vi][1], lyBox2[vi][0]+" "+lyBox2[vi][1]
			used["box"] = true
		}
		set("background-image", im, k)
		set("background-position", po, k)
		set("background-size", sz, k)
		set("background-repeat", rp, k)
		set("background-attachment", at, k)
		set("background-origin", origin, k)
		set("background-clip", clip, k)
		parts["image"], parts["position"], parts["size"], parts["repeat"], parts["attachment"], parts["box"] = im, po, sz, rp, at, bx
		col := ""
		if withColor && k == n-1 {
			col = lyColors[vi]
			lc.color = col
		}
		parts["color"] = col
		lc.parts = append(lc.parts, parts)
		lc.layers = append(lc.layers, lc.layerText(k, "", ""))
	}
	lc.value = strings.Join(lc.layers, ", ")
	lc.feats = []string{"shorthand:background", fmt.Sprintf("bg-layers:%d", n)}
	if withColor {
		lc.feats = append(lc.feats, "bg-final-layer-color")
	}
	var u []string
	for k := range used {
		u = append(u, "bg-layered:"+k)
	}
	sort.Strings(u)
	lc.feats = append(lc.feats, u...)
	return lc
}

// layerText writes layer k; the component `sub` ("" = none; "position-size" = position and size
// together) is replaced by `with`.
func (lc lyCase) layerText(k int, sub, with string) string {
	p := lc.parts[k]
	get := func(name string) string {
		if name == sub && p[name] != "" {
			return with
		}
		return p[name]
	}
	posSize := get("position")
	if p["size"] != "" {
		posSize += " / " + get("size")
	}
	if sub == "position-size" && p["position"] != "" {
		posSize = with
	}
	var comps []string
	for _, x := range []string{get("image"), posSize, get("repeat"), get("attachment"), get("box"), get("color")} {
		if x != "" {
			comps = append(comps, x)
		}
	}
	// order of the components inside the layer: as listed, reversed, rotated by two
	m := len(comps)
	ord := make([]string, m)
	for i := range comps {
		switch (k + lc.rot) % 3 {
		case 0:
			ord[i] = comps[i]
		case 1:
			ord[i] = comps[m-1-i]
		default:
			ord[i] = comps[(i+2)%m]
		}
	}
	return strings.Join(ord, " ")
}

// longhandDecls spells the case with long-hands only (reference spelling for part c).
func (lc lyCase) longhandDecls() string {
	var parts []string
	for _, lh := range lyLonghands {
		parts = append(parts, lh+": "+strings.Join(lc.comp[lh], ", "))
	}
	col := lc.color
	if col == "" {
		col = "initial"
	}
	parts = append(parts, "background-color: "+col)
	return strings.Join(parts, "; ")
}

// ---- lists ------------------------------------------------------------------------------------

// listElems returns the canonical form of each element of a list-valued declared value: the
// value is a slice, or a struct whose only slice field holds the list (pr.SIntStrings,
// pr.StringSet ...) and whose other fields are zero.
func listElems(v any) (elems []string, ok bool) {
	rv := reflect.ValueOf(v)
	for rv.IsValid() && (rv.Kind() == reflect.Interface || rv.Kind() == reflect.Ptr) {
		if rv.IsNil() {
			return nil, false
		}
		rv = rv.Elem()
	}
	if !rv.IsValid() {
		return nil, false
	}
	if rv.Kind() == reflect.Struct {
		var list reflect.Value
		nSlices := 0
		for i := 0; i < rv.NumField(); i++ {
			f := rv.Field(i)
			if f.Kind() == reflect.Slice {
				nSlices++
				list = f
			} else if !f.IsZero() {
				return nil, false // a keyword form (normal, none ...), not a list
			}
		}
		if nSlices != 1 {
			return nil, false
		}
		rv = list
	}
	if rv.Kind() != reflect.Slice {
		return nil, false
	}
	for i := 0; i < rv.Len(); i++ {
		var sb strings.Builder
		writeCanon(&sb, rv.Index(i), 0)
		elems = append(elems, sb.String())
	}
	return elems, true
}

// ---- units ------------------------------------------------------------------------------------

const lyBatch = 500

func (c *check) initBLayers() int64 {
	c.lyFams = c.lyFamilies()
	c.lyOffsets = nil
	var total int64
	for _, f := range c.lyFams {
		c.lyOffsets = append(c.lyOffsets, total)
		total += f.size()
	}
	c.lyTotal = total
	return (total + lyBatch - 1) / lyBatch
}

func (c *check) lyCaseAt(i int64) lyCase {
	k := len(c.lyFams) - 1
	for k > 0 && c.lyOffsets[k] > i {
		k--
	}
	return lyBuild(c.lyFams[k], i-c.lyOffsets[k], lyImages)
}

func (c *check) describeBLayers(u int64) any {
	lo, hi := u*lyBatch, (u+1)*lyBatch
	if hi > c.lyTotal {
		hi = c.lyTotal
	}
	return map[string]any{"part": "b", "family": "background shorthand with 2 and 3 layers, compared layer by layer with the long-hands",
		"first": "background: " + c.lyCaseAt(lo).value, "last": "background: " + c.lyCaseAt(hi-1).value, "cases": hi - lo}
}

// lyRef: canonical form of element 0 of the one-layer long-hand declaration `lh: v` ("" when
// the library rejects it or it is not a one-element list). Cached per worker process.
func (c *check) lyRef(ctx *engine.Ctx, feats []string, lh, v string) string {
	key := lh + ": " + v
	if r, ok := c.lyRefCache[key]; ok {
		return r
	}
	var out string
	f2 := append(append([]string{}, feats...), "reference-longhand")
	ctx.GuardFail(desc("b", f2, key), f2, func() {
		l := parseDecls(key)
		if len(l) != 1 {
			return
		}
		val := l[0].Value
		if val == pr.Initial {
			if kp, ok := pr.PropsFromNames[lh]; ok {
				val = pr.InitialValues[kp]
			}
		}
		if el, ok := listElems(val); ok && len(el) == 1 {
			out = el[0]
		}
	})
	if c.lyRefCache == nil {
		c.lyRefCache = map[string]string{}
	}
	c.lyRefCache[key] = out
	return out
}

func (c *check) runBLayers(u int64, ctx *engine.Ctx) {
	lo, hi := u*lyBatch, (u+1)*lyBatch
	if hi > c.lyTotal {
		hi = c.lyTotal
	}
	for i := lo; i < hi; i++ {
		c.runLayerCase(c.lyCaseAt(i), ctx)
	}
}

func (c *check) runLayerCase(lc lyCase, ctx *engine.Ctx) {
	css := "background: " + lc.value
	ctx.Trans(1)
	got := map[string]pr.DeclaredValue{}
	var canon string
	var n int
	if !ctx.GuardFail(desc("b", lc.feats, css), lc.feats, func() {
		l := parseDecls(css)
		n = len(l)
		for _, d := range l {
			got[d.Name.String()] = d.Value
		}
		canon = canonDecls(l)
		if n > 0 {
			c.checkLonghandSet(ctx, "background", css, l, lc.feats, false)
		}
	}) {
		ctx.Case(true, "panic")
		return
	}
	if n == 0 {
		ctx.Case(true, "rejected")
		ctx.Fail(engine.Failure{Clause: "shorthand-rejected", Features: lc.feats, Case: css, Detail: "the reference grammar of the shorthand produces this value; the library rejects the declaration"})
		return
	}
	ctx.Case(true, canon)
	ctx.Count("b:layered-expansions-compared", 1)
	var diffs []string
	for _, lh := range lyLonghands {
		v, in := got[lh]
		if !in {
			diffs = append(diffs, lh+": missing")
			continue
		}
		elems, ok := listElems(v)
		if !ok || len(elems) != lc.n {
			diffs = append(diffs, fmt.Sprintf("%s: want a list of %d layers, got %s", lh, lc.n, canonDeclared(v)))
			continue
		}
		for k := 0; k < lc.n; k++ {
			ctx.Count("b:layers-compared-by-index", 1)
			want := c.lyRef(ctx, lc.feats, lh, lc.comp[lh][k])
			if want == "" {
				ctx.Count("b:reference-longhand-rejected", 1)
				diffs = append(diffs, fmt.Sprintf("%s: the long-hand spelling %q is rejected", lh, lc.comp[lh][k]))
				continue
			}
			if elems[k] != want {
				how := "written in layer"
				if !lc.given[lh][k] {
					how = "omitted (initial value) in layer"
				}
				diffs = append(diffs, fmt.Sprintf("%s, layer %d of %d: want %s (%s %q) got %s", lh, k+1, lc.n, want, how, lc.layers[k], elems[k]))
			}
		}
	}
	// the colour of the final layer
	{
		wantCol := ""
		if lc.color == "" {
			wantCol = canonDeclared(pr.InitialValues[pr.PropsFromNames["background-color"]])
		} else {
			key := "background-color: " + lc.color
			if r, ok := c.lyRefCache[key]; ok {
				wantCol = r
			} else {
				f2 := append(append([]string{}, lc.feats...), "reference-longhand")
				ctx.GuardFail(desc("b", f2, key), f2, func() {
					if l := parseDecls(key); len(l) == 1 {
						wantCol = normDeclared("background-color", l[0].Value)
					}
				})
				if c.lyRefCache == nil {
					c.lyRefCache = map[string]string{}
				}
				c.lyRefCache[key] = wantCol
			}
		}
		if v, in := got["background-color"]; !in {
			diffs = append(diffs, "background-color: missing")
		} else if g := normDeclared("background-color", v); wantCol != "" && g != wantCol {
			diffs = append(diffs, fmt.Sprintf("background-color: want %s got %s", wantCol, g))
		}
	}
	if len(diffs) > 0 {
		if len(diffs) > 6 {
			diffs = append(diffs[:6], fmt.Sprintf("… %d differences", len(diffs)))
		}
		ctx.Fail(engine.Failure{Clause: "shorthand-expansion", Features: lc.feats, Case: css, Detail: strings.Join(diffs, "\n")})
	}
}
