package c08

import (
	"fmt"
	"strings"

	"verif/internal/engine"
)

// Part c, layered family: a `background` shorthand of two and three layers with a var()
// reference in it (the whole value, one whole layer, or one component of one layer, for every
// layer and every component) must give the probe element the computed style the LONG-HANDS give
// it (the reference spelling of the layered family of part b: per long-hand the list of what each
// layer says, initial value where a layer says nothing). The pending shorthand is expanded at
// computed-value time by the same expander as the direct spelling; comparing with the long-hands
// (and not with the direct shorthand) keeps the oracle independent of it.

type lyVarCase struct {
	pres []int
	rot  int
}

func lyVarCases() []lyVarCase {
	full := encodePresence(lyPresence{1, 2, 1, 1, 2})
	noSize := encodePresence(lyPresence{1, 1, 1, 1, 1})
	imgSize := encodePresence(lyPresence{image: 1, possize: 2})
	var out []lyVarCase
	for n := 2; n <= 3; n++ {
		for rot := 0; rot < 3; rot++ {
			all := make([]int, n)
			mixed := make([]int, n)
			for k := range all {
				all[k] = full
				mixed[k] = []int{imgSize, full, noSize}[(k+rot)%3]
			}
			out = append(out, lyVarCase{all, rot}, lyVarCase{mixed, rot})
		}
	}
	return out
}

func (c *check) runLayerVar(vc lyVarCase, ctx *engine.Ctx) {
	lc := lyMake(vc.pres, vc.rot, true, lyImagesAbs)
	base := []string{"shorthand:background", fmt.Sprintf("bg-layers:%d", lc.n), "var-in-layers"}
	probes := []probe{
		{class: "ref", style: lc.longhandDecls()},
		{class: "t0", style: "background: " + lc.value, expect: "ref", feats: []string{"direct-spelling"}, what: "layers-direct"},
		{class: "tv", style: "--v: " + lc.value + "; background: var(--v)", expect: "ref", feats: []string{"var-direct", "var-scope:whole-value"}, what: "layers-whole-value"},
	}
	for k := 0; k < lc.n; k++ {
		with := func(layer string) string {
			l := append([]string{}, lc.layers...)
			l[k] = layer
			return strings.Join(l, ", ")
		}
		probes = append(probes, probe{class: fmt.Sprintf("tl%d", k), style: "--l: " + lc.layers[k] + "; background: " + with("var(--l)"), expect: "ref",
			feats: []string{"var-partial", "var-scope:layer", fmt.Sprintf("var-layer:%d", k+1)}, what: "layers-whole-layer"})
		for _, comp := range []string{"image", "position", "size", "position-size", "repeat", "attachment", "box", "color"} {
			text := lc.parts[k][comp]
			if comp == "position-size" {
				if lc.parts[k]["size"] == "" {
					continue
				}
				text = lc.parts[k]["position"] + " / " + lc.parts[k]["size"]
			}
			if text == "" {
				continue
			}
			probes = append(probes, probe{class: fmt.Sprintf("tc%d%s", k, comp), style: "--c: " + text + "; background: " + with(lc.layerText(k, comp, "var(--c)")), expect: "ref",
				feats: []string{"var-partial", "var-scope:" + comp, fmt.Sprintf("var-layer:%d", k+1)}, what: "layers-component"})
		}
	}
	c.runDoc(ctx, "", probes, base, true)
}
