package c08

import (
	"fmt"
	"math"
	"reflect"
	"sort"
	"strings"

	pa "github.com/benoitkugler/webrender/css/parser"
	pr "github.com/benoitkugler/webrender/css/properties"
	"github.com/benoitkugler/webrender/css/validation"

	"verif/internal/cssn"
)

// Canonical, position-free rendering of declared and computed values. Everything a value
// carries is printed (type names, every field, every element); the only thing dropped is the
// source position of tokens kept inside pending (var()) values.

var tokenType = reflect.TypeOf((*pa.Token)(nil)).Elem()

func canonValue(v any) string {
	var sb strings.Builder
	writeCanon(&sb, reflect.ValueOf(v), 0)
	return sb.String()
}

func writeCanon(sb *strings.Builder, v reflect.Value, depth int) {
	if depth > 40 {
		sb.WriteString("<deep>")
		return
	}
	if !v.IsValid() {
		sb.WriteString("nil")
		return
	}
	t := v.Type()
	if t.Implements(tokenType) && t.Kind() != reflect.Interface {
		if tok, ok := v.Interface().(pa.Token); ok {
			cssn.One(sb, tok, cssn.Options{})
			return
		}
	}
	switch v.Kind() {
	case reflect.Interface, reflect.Ptr:
		if v.IsNil() {
			sb.WriteString("nil")
			return
		}
		writeCanon(sb, v.Elem(), depth+1)
	case reflect.Struct:
		sb.WriteString(t.Name())
		sb.WriteByte('{')
		for i := 0; i < v.NumField(); i++ {
			if i > 0 {
				sb.WriteByte(' ')
			}
			sb.WriteString(t.Field(i).Name)
			sb.WriteByte(':')
			writeCanon(sb, v.Field(i), depth+1)
		}
		sb.WriteByte('}')
	case reflect.Slice, reflect.Array:
		sb.WriteString(t.Name())
		if v.Kind() == reflect.Slice && v.IsNil() {
			sb.WriteString("[]")
			return
		}
		sb.WriteByte('[')
		for i := 0; i < v.Len(); i++ {
			if i > 0 {
				sb.WriteByte(' ')
			}
			writeCanon(sb, v.Index(i), depth+1)
		}
		sb.WriteByte(']')
	case reflect.Map:
		sb.WriteString(t.Name())
		var items []string
		for _, k := range v.MapKeys() {
			var kb strings.Builder
			writeCanon(&kb, k, depth+1)
			kb.WriteByte('=')
			writeCanon(&kb, v.MapIndex(k), depth+1)
			items = append(items, kb.String())
		}
		sort.Strings(items)
		sb.WriteString("map[" + strings.Join(items, " ") + "]")
	case reflect.String:
		if n := t.Name(); n != "string" {
			sb.WriteString(n)
		}
		fmt.Fprintf(sb, "%q", v.String())
	case reflect.Float32, reflect.Float64:
		f := v.Float()
		switch {
		case math.IsNaN(f):
			sb.WriteString("NaN")
		case math.IsInf(f, 1):
			sb.WriteString("+Inf")
		case math.IsInf(f, -1):
			sb.WriteString("-Inf")
		default:
			fmt.Fprintf(sb, "%g", f)
		}
	case reflect.Bool:
		fmt.Fprintf(sb, "%v", v.Bool())
	case reflect.Int, reflect.Int8, reflect.Int16, reflect.Int32, reflect.Int64:
		if n := t.Name(); !strings.HasPrefix(n, "int") {
			sb.WriteString(n + ":")
		}
		fmt.Fprintf(sb, "%d", v.Int())
	case reflect.Uint, reflect.Uint8, reflect.Uint16, reflect.Uint32, reflect.Uint64:
		if n := t.Name(); !strings.HasPrefix(n, "uint") {
			sb.WriteString(n + ":")
		}
		fmt.Fprintf(sb, "%d", v.Uint())
	case reflect.Func:
		if v.IsNil() {
			sb.WriteString("func:nil")
		} else {
			sb.WriteString("func")
		}
	default:
		fmt.Fprintf(sb, "%v", v.Interface())
	}
}

// canonDeclared renders one declared value; the type name is part of the rendering.
func canonDeclared(v pr.DeclaredValue) string {
	if v == nil {
		return "<nil>"
	}
	switch v := v.(type) {
	case pr.RawTokens:
		return "raw[" + cssn.List([]pa.Token(v), cssn.Options{}) + "]"
	case pr.DefaultValue:
		return v.String()
	}
	return reflect.TypeOf(v).Name() + ":" + canonValue(v)
}

func canonDecl(d validation.Declaration) string {
	s := d.Name.String() + "=" + canonDeclared(d.Value)
	if d.Important {
		s += " !important"
	}
	if d.Shortand != 0 {
		s += " @pending-shorthand:" + d.Shortand.String()
	}
	return s
}

// canonDecls renders a declaration list, order preserved.
func canonDecls(l []validation.Declaration) string {
	parts := make([]string, len(l))
	for i, d := range l {
		parts[i] = canonDecl(d)
	}
	return strings.Join(parts, ";\n")
}

// parseDecls runs the real parser + validator on the contents of a declaration block.
func parseDecls(css string) []validation.Declaration {
	return validation.PreprocessDeclarations("http://x/", pa.ParseBlocksContentsString(css))
}
