package c08

import (
	"fmt"
	"sort"
	"strings"

	"verif/internal/engine"
)

// Part c, "shared declaration" family: ONE style-sheet rule whose value contains var() (inside
// a function, nested, in a function stored in a custom property, at top level) is matched by
// two or three elements whose custom properties differ (siblings in every document order, and
// parent/child with inheritance of the custom properties). The declared token list of the rule
// is shared by all of them: each element must nevertheless get the computed style of the direct
// spelling for ITS OWN values.

type shTemplate struct {
	name   string
	decl   string              // declarations of the shared rule
	direct string              // direct spelling, {x} = value of --x
	vals   []map[string]string // three different assignments of the custom properties
	feats  []string
}

var shTemplates = []shTemplate{
	{"rgb-two-vars", "color: rgb(var(--r), 0, var(--b))", "color: rgb({r}, 0, {b})",
		[]map[string]string{{"r": "1", "b": "2"}, {"r": "30", "b": "40"}, {"r": "200", "b": "100"}}, []string{"var-in-function:rgb"}},
	{"rgb-multi-token-first", "color: rgb(var(--rg), 30)", "color: rgb({rg}, 30)",
		[]map[string]string{{"rg": "10, 20"}, {"rg": "110, 120"}, {"rg": "210, 220"}}, []string{"var-in-function:rgb", "var-value-with-commas", "var-multi-token-before-arguments"}},
	{"rgb-multi-token-last", "color: rgb(30, var(--gb))", "color: rgb(30, {gb})",
		[]map[string]string{{"gb": "10, 20"}, {"gb": "110, 120"}, {"gb": "210, 220"}}, []string{"var-in-function:rgb", "var-value-with-commas", "var-multi-token-after-arguments"}},
	{"rgb-multi-token-middle", "color: rgb(var(--r), var(--gb))", "color: rgb({r}, {gb})",
		[]map[string]string{{"r": "1", "gb": "10, 20"}, {"r": "2", "gb": "110, 120"}, {"r": "3", "gb": "210, 220"}}, []string{"var-in-function:rgb", "var-value-with-commas", "var-multi-token-before-arguments"}},
	{"rgb-whole-argument-list", "color: rgb(var(--rgb))", "color: rgb({rgb})",
		[]map[string]string{{"rgb": "1, 2, 3"}, {"rgb": "40, 50, 60"}, {"rgb": "70%, 80%, 90%"}}, []string{"var-in-function:rgb", "var-value-with-commas"}},
	{"translate-two-vars", "transform: translate(var(--x), var(--y))", "transform: translate({x}, {y})",
		[]map[string]string{{"x": "1px", "y": "2px"}, {"x": "3em", "y": "4%"}, {"x": "-5px", "y": "6px"}}, []string{"var-in-function:translate"}},
	{"transform-list", "transform: rotate(var(--a)) scale(var(--s))", "transform: rotate({a}) scale({s})",
		[]map[string]string{{"a": "10deg", "s": "2"}, {"a": "1rad", "s": "3, 4"}, {"a": "-20deg", "s": "0.5"}}, []string{"var-in-function:rotate", "var-in-function:scale"}},
	{"counter-name-and-style", "content: counter(var(--n), var(--st)) \"x\"", "content: counter({n}, {st}) \"x\"",
		[]map[string]string{{"n": "k", "st": "disc"}, {"n": "m", "st": "decimal"}, {"n": "q", "st": "upper-roman"}}, []string{"var-in-function:counter"}},
	{"nested-two-deep", "background-image: linear-gradient(rgb(var(--r), 0, 0), var(--c2))", "background-image: linear-gradient(rgb({r}, 0, 0), {c2})",
		[]map[string]string{{"r": "1", "c2": "blue"}, {"r": "30", "c2": "#0f0"}, {"r": "200", "c2": "rgb(1, 2, 3)"}}, []string{"var-in-function:rgb", "var-nested-depth:2"}},
	{"nested-three-deep", "background-image: linear-gradient(rgb(var(--r), 0, 0) 10%, blue), linear-gradient(red, rgb(0, var(--g), 0))", "background-image: linear-gradient(rgb({r}, 0, 0) 10%, blue), linear-gradient(red, rgb(0, {g}, 0))",
		[]map[string]string{{"r": "1", "g": "2"}, {"r": "30", "g": "40"}, {"r": "200", "g": "100"}}, []string{"var-in-function:rgb", "var-nested-depth:2", "value-with-comma"}},
	{"function-in-custom-property", "--f: rgb(var(--r), 0, var(--b)); color: var(--f)", "color: rgb({r}, 0, {b})",
		[]map[string]string{{"r": "1", "b": "2"}, {"r": "30", "b": "40"}, {"r": "200", "b": "100"}}, []string{"var-in-function:rgb", "var-chain", "function-in-custom-property"}},
	{"top-level-and-function", "border: var(--w) solid rgb(var(--r), 0, 0)", "border: {w} solid rgb({r}, 0, 0)",
		[]map[string]string{{"w": "1px", "r": "1"}, {"w": "2em", "r": "30"}, {"w": "thick", "r": "200"}}, []string{"var-in-function:rgb", "var-partial", "shorthand:border"}},
	{"top-level-only", "margin: var(--m) 2px; color: var(--c)", "margin: {m} 2px; color: {c}",
		[]map[string]string{{"m": "1px", "c": "red"}, {"m": "3px 4px", "c": "#00f"}, {"m": "auto", "c": "rgb(1, 2, 3)"}}, []string{"var-partial", "shorthand:margin"}},
	{"fallback-in-function", "color: rgb(var(--r, 7), var(--u, 8), var(--b))", "color: rgb({r}, 8, {b})",
		[]map[string]string{{"r": "1", "b": "2"}, {"r": "30", "b": "40"}, {"r": "200", "b": "100"}}, []string{"var-in-function:rgb", "var-fallback"}},
}

// shElem is one element matched by the shared rule: its own custom properties, its children.
type shElem struct {
	own      map[string]string
	children []shElem
}

type shConfig struct {
	name  string
	elems []shElem
}

func pickVars(m map[string]string, keys ...string) map[string]string {
	out := map[string]string{}
	for _, k := range keys {
		out[k] = m[k]
	}
	return out
}

// shConfigs builds the element arrangements for one template (v = its three assignments).
func shConfigs(t shTemplate) []shConfig {
	v := t.vals
	var keys []string
	for k := range v[0] {
		keys = append(keys, k)
	}
	sort.Strings(keys)
	var out []shConfig
	el := func(m map[string]string, ch ...shElem) shElem { return shElem{own: m, children: ch} }
	// siblings, every order
	out = append(out, shConfig{"siblings-2:equal", []shElem{el(v[0]), el(v[0])}})
	for _, p := range perms(2) {
		out = append(out, shConfig{fmt.Sprintf("siblings-2:order-%d%d", p[0], p[1]), []shElem{el(v[p[0]]), el(v[p[1]])}})
	}
	out = append(out, shConfig{"siblings-3:equal", []shElem{el(v[1]), el(v[1]), el(v[1])}})
	for _, p := range perms(3) {
		out = append(out, shConfig{fmt.Sprintf("siblings-3:order-%d%d%d", p[0], p[1], p[2]), []shElem{el(v[p[0]]), el(v[p[1]]), el(v[p[2]])}})
	}
	out = append(out, shConfig{"siblings-3:first-two-equal", []shElem{el(v[0]), el(v[0]), el(v[2])}})
	// parent / child (both matched by the rule)
	for _, p := range perms(2) {
		a, b := v[p[0]], v[p[1]]
		out = append(out,
			shConfig{fmt.Sprintf("parent-child:own-values-%d%d", p[0], p[1]), []shElem{el(a, el(b))}},
			shConfig{fmt.Sprintf("parent-child:inherited-%d", p[0]), []shElem{el(a, el(nil))}},
			shConfig{fmt.Sprintf("parent-two-children:%d%d", p[0], p[1]), []shElem{el(a, el(b), el(nil), el(v[2]))}},
			shConfig{fmt.Sprintf("child-then-sibling:%d%d", p[0], p[1]), []shElem{el(a, el(b)), el(b), el(a)}},
		)
		if len(keys) >= 2 {
			// the child overrides only the first custom property and inherits the others
			out = append(out, shConfig{fmt.Sprintf("parent-child:partly-inherited-%d%d", p[0], p[1]), []shElem{el(a, el(pickVars(b, keys[0])))}})
		}
	}
	out = append(out, shConfig{"grandchild", []shElem{el(v[0], el(v[1], el(v[2]), el(nil)))}})
	return out
}

type shCase struct {
	t   int
	cfg int
}

func (c *check) sharedCases() []shCase {
	var out []shCase
	for ti, t := range shTemplates {
		for ci := range shConfigs(t) {
			out = append(out, shCase{ti, ci})
		}
	}
	return out
}

func instantiate(tpl string, vals map[string]string) string {
	for k, v := range vals {
		tpl = strings.ReplaceAll(tpl, "{"+k+"}", v)
	}
	return tpl
}

func customDecls(m map[string]string) string {
	var keys []string
	for k := range m {
		keys = append(keys, k)
	}
	sort.Strings(keys)
	var parts []string
	for _, k := range keys {
		parts = append(parts, "--"+k+": "+m[k])
	}
	return strings.Join(parts, "; ")
}

// buildShared renders the tested tree (elements of class "s", matched by the shared rule) and
// the mirrored reference tree (direct spelling in the style attribute), and lists the pairs.
func buildShared(t shTemplate, cfg shConfig) (html string, pairs [][3]string) {
	var tested, ref strings.Builder
	n := 0
	var walk func(e shElem, inherited map[string]string)
	walk = func(e shElem, inherited map[string]string) {
		eff := map[string]string{}
		for k, v := range inherited {
			eff[k] = v
		}
		for k, v := range e.own {
			eff[k] = v
		}
		n++
		tc, rc := fmt.Sprintf("t%d", n), fmt.Sprintf("r%d", n)
		direct := instantiate(t.direct, eff)
		pairs = append(pairs, [3]string{tc, rc, "{" + customDecls(e.own) + "} => " + direct})
		fmt.Fprintf(&tested, `<div class="%s s" style="%s">x`, tc, esc(customDecls(e.own)))
		fmt.Fprintf(&ref, `<div class="%s" style="%s">x`, rc, esc(direct))
		for _, ch := range e.children {
			walk(ch, eff)
		}
		tested.WriteString("</div>\n")
		ref.WriteString("</div>\n")
	}
	for _, e := range cfg.elems {
		walk(e, nil)
	}
	html = fmt.Sprintf("<html><head><style>.s { %s }</style></head><body><section>\n%s</section><section>\n%s</section></body></html>", t.decl, tested.String(), ref.String())
	return html, pairs
}

func (c *check) runShared(sc shCase, ctx *engine.Ctx) {
	t := shTemplates[sc.t]
	cfg := shConfigs(t)[sc.cfg]
	html, pairs := buildShared(t, cfg)
	feats := append([]string{"var-shared-declaration", "shared:" + t.name, "config:" + strings.SplitN(cfg.name, ":", 2)[0]}, t.feats...)
	var elems []string
	for _, p := range pairs {
		elems = append(elems, p[2])
	}
	caseText := ".s { " + t.decl + " } matched by " + cfg.name + ": " + strings.Join(elems, " | ")
	var styles map[string]string
	if !ctx.GuardFail(desc("c", feats, caseText), feats, func() { styles = computedOf(html) }) {
		ctx.Case(true, "panic")
		return
	}
	for i, p := range pairs {
		got, want := styles[p[0]], styles[p[1]]
		if got == "" || want == "" {
			panic("verif: probe element not found in the shared-declaration document")
		}
		ctx.Trans(1)
		ctx.Case(true, got)
		ctx.Count("c:computed-styles-compared", 1)
		ctx.Count("c:form:shared-declaration", 1)
		if got != want {
			ctx.Fail(engine.Failure{Clause: "var-substitution", Features: feats, Case: caseText,
				Detail: fmt.Sprintf("element #%d %s\n%s", i+1, p[2], styleDiff(want, got))})
		}
	}
}
