package c08

import (
	"fmt"
	"sort"
	"strings"

	pr "github.com/benoitkugler/webrender/css/properties"
	"github.com/benoitkugler/webrender/css/validation"

	"verif/internal/engine"
)

// ---- what the property definitions say: long-hands of every shorthand -------------------------

func sides(pre, post string) []string {
	return []string{pre + "-top" + post, pre + "-right" + post, pre + "-bottom" + post, pre + "-left" + post}
}

func wsc(pre string) []string { return []string{pre + "-width", pre + "-style", pre + "-color"} }

// longhandsOf: the long-hands a shorthand sets (in the subset of CSS the library supports).
var longhandsOf = map[string][]string{
	"margin":            sides("margin", ""),
	"padding":           sides("padding", ""),
	"bleed":             sides("bleed", ""),
	"border-color":      sides("border", "-color"),
	"border-style":      sides("border", "-style"),
	"border-width":      sides("border", "-width"),
	"border-radius":     {"border-top-left-radius", "border-top-right-radius", "border-bottom-right-radius", "border-bottom-left-radius"},
	"border-image":      {"border-image-source", "border-image-slice", "border-image-width", "border-image-outset", "border-image-repeat"},
	"border-top":        wsc("border-top"),
	"border-right":      wsc("border-right"),
	"border-bottom":     wsc("border-bottom"),
	"border-left":       wsc("border-left"),
	"border":            append(append(append(wsc("border-top"), wsc("border-right")...), wsc("border-bottom")...), wsc("border-left")...),
	"outline":           wsc("outline"),
	"column-rule":       wsc("column-rule"),
	"columns":           {"column-width", "column-count"},
	"list-style":        {"list-style-type", "list-style-position", "list-style-image"},
	"flex":              {"flex-grow", "flex-shrink", "flex-basis"},
	"flex-flow":         {"flex-direction", "flex-wrap"},
	"text-decoration":   {"text-decoration-line", "text-decoration-style", "text-decoration-color"},
	"page-break-after":  {"break-after"},
	"page-break-before": {"break-before"},
	"page-break-inside": {"break-inside"},
	"word-wrap":         {"overflow-wrap"},
	"line-clamp":        {"max-lines", "continue", "block-ellipsis"},
	"text-align":        {"text-align-all", "text-align-last"},
	"font":              {"font-style", "font-variant-caps", "font-weight", "font-stretch", "font-size", "line-height", "font-family"},
	"font-variant":      {"font-variant-alternates", "font-variant-caps", "font-variant-east-asian", "font-variant-ligatures", "font-variant-numeric", "font-variant-position"},
	"background":        {"background-color", "background-image", "background-repeat", "background-attachment", "background-position", "background-size", "background-clip", "background-origin"},
	"grid-column":       {"grid-column-start", "grid-column-end"},
	"grid-row":          {"grid-row-start", "grid-row-end"},
	"grid-area":         {"grid-row-start", "grid-column-start", "grid-row-end", "grid-column-end"},
	"grid-template":     {"grid-template-columns", "grid-template-rows", "grid-template-areas"},
	"grid":              {"grid-template-columns", "grid-template-rows", "grid-template-areas", "grid-auto-columns", "grid-auto-rows", "grid-auto-flow"},
}

// resetOnly: long-hands a shorthand cannot set but resets to their initial value
// (CSS Backgrounds 3 §4.4 "border", CSS Fonts 3 §3.7 "font").
var resetOnly = map[string][]string{
	"border": {"border-image-source", "border-image-slice", "border-image-width", "border-image-outset", "border-image-repeat"},
	"font": {"font-kerning", "font-variant-alternates", "font-variant-east-asian", "font-variant-ligatures", "font-variant-numeric",
		"font-variant-position", "font-feature-settings", "font-language-override"},
}

// ---- reference expanders --------------------------------------------------------------------

// A bCase is one shorthand declaration and what the reference expander says it means:
// want[long-hand] = value text of that long-hand ("" = omitted -> initial value;
// alternatives that denote the same value are separated by "||").
type bCase struct {
	sh, value string
	want      map[string]string
	feats     []string
}

func (c *check) addB(sh, value string, want map[string]string, feats ...string) {
	c.bCases = append(c.bCases, bCase{sh: sh, value: value, want: want, feats: append([]string{"shorthand:" + sh}, feats...)})
}

func pick(l []string, n int) []string {
	if len(l) > n {
		return l[:n]
	}
	return l
}

// permutations of 0..n-1
func perms(n int) [][]int {
	if n == 0 {
		return [][]int{{}}
	}
	var out [][]int
	for _, p := range perms(n - 1) {
		for i := 0; i <= len(p); i++ {
			q := append(append(append([]int{}, p[:i]...), n-1), p[i:]...)
			out = append(out, q)
		}
	}
	sort.Slice(out, func(a, b int) bool { return fmt.Sprint(out[a]) < fmt.Sprint(out[b]) })
	return out
}

func (c *check) genFourSides() {
	menus := []struct {
		sh   string
		vals []string
	}{
		{"margin", []string{"0", "1px", "auto", "10%", "2em", "-3px"}},
		{"padding", []string{"0", "1px", "10%", "2em", "3pt"}},
		{"border-width", []string{"0", "1px", "thin", "thick", "2em"}},
		{"border-style", []string{"none", "solid", "dashed", "double", "hidden"}},
		{"border-color", []string{"red", "#fff", "transparent", "currentcolor", "rgb(1,2,3)"}},
		{"bleed", []string{"auto", "1px", "2em", "0", "-3px"}},
	}
	for _, m := range menus {
		vals := m.vals
		if !c.thorough {
			vals = pick(vals, 4)
		}
		lh := longhandsOf[m.sh]
		var rec func(cur []string)
		rec = func(cur []string) {
			if len(cur) >= 1 {
				t, r, b, l := cur[0], cur[0], cur[0], cur[0]
				switch len(cur) {
				case 2:
					r, l = cur[1], cur[1]
				case 3:
					r, l, b = cur[1], cur[1], cur[2]
				case 4:
					r, b, l = cur[1], cur[2], cur[3]
				}
				c.addB(m.sh, strings.Join(cur, " "), map[string]string{lh[0]: t, lh[1]: r, lh[2]: b, lh[3]: l}, fmt.Sprintf("four-sides:%d", len(cur)))
			}
			if len(cur) == 4 {
				return
			}
			for _, v := range vals {
				rec(append(append([]string{}, cur...), v))
			}
		}
		rec(nil)
	}
}

func (c *check) genBorderLike() {
	ws := []string{"", "1px", "thick", "medium", "0"}
	ss := []string{"", "solid", "dotted", "none"}
	cs := []string{"", "red", "#00f", "currentcolor"}
	if !c.thorough {
		ws, ss, cs = ws[:3], ss[:3], cs[:3]
	}
	for _, sh := range []string{"border", "border-top", "border-right", "border-bottom", "border-left", "outline", "column-rule"} {
		for _, w := range ws {
			for _, s := range ss {
				for _, col := range cs {
					three := []string{w, s, col}
					var present []int
					for i, x := range three {
						if x != "" {
							present = append(present, i)
						}
					}
					if len(present) == 0 {
						continue
					}
					for _, p := range perms(len(present)) {
						var parts []string
						for _, i := range p {
							parts = append(parts, three[present[i]])
						}
						want := map[string]string{}
						if sh == "border" {
							for _, side := range []string{"top", "right", "bottom", "left"} {
								want["border-"+side+"-width"], want["border-"+side+"-style"], want["border-"+side+"-color"] = w, s, col
							}
						} else {
							want[sh+"-width"], want[sh+"-style"], want[sh+"-color"] = w, s, col
						}
						c.addB(sh, strings.Join(parts, " "), want, fmt.Sprintf("parts:%d", len(present)))
					}
				}
			}
		}
	}
}

func (c *check) genBorderRadius() {
	vals := []string{"1px", "10%", "2em"}
	if !c.thorough {
		vals = vals[:2]
	}
	var lists [][]string
	var rec func(cur []string)
	rec = func(cur []string) {
		if len(cur) >= 1 {
			lists = append(lists, cur)
		}
		if len(cur) == 4 {
			return
		}
		for _, v := range vals {
			rec(append(append([]string{}, cur...), v))
		}
	}
	rec(nil)
	four := func(l []string) [4]string { // top-left, top-right, bottom-right, bottom-left
		switch len(l) {
		case 1:
			return [4]string{l[0], l[0], l[0], l[0]}
		case 2:
			return [4]string{l[0], l[1], l[0], l[1]}
		case 3:
			return [4]string{l[0], l[1], l[2], l[1]}
		}
		return [4]string{l[0], l[1], l[2], l[3]}
	}
	lh := longhandsOf["border-radius"]
	for _, h := range lists {
		hv := four(h)
		c.addB("border-radius", strings.Join(h, " "), map[string]string{lh[0]: hv[0] + " " + hv[0], lh[1]: hv[1] + " " + hv[1], lh[2]: hv[2] + " " + hv[2], lh[3]: hv[3] + " " + hv[3]}, "radius:no-slash")
		for _, v := range lists {
			vv := four(v)
			c.addB("border-radius", strings.Join(h, " ")+" / "+strings.Join(v, " "), map[string]string{lh[0]: hv[0] + " " + vv[0], lh[1]: hv[1] + " " + vv[1], lh[2]: hv[2] + " " + vv[2], lh[3]: hv[3] + " " + vv[3]}, "radius:slash")
		}
	}
}

func (c *check) genListStyle() {
	types := []string{"", "disc", "square", `"s"`, "bb", "decimal"}
	poss := []string{"", "inside", "outside"}
	imgs := []string{"", "url(a)"}
	for _, t := range types {
		for _, p := range poss {
			for _, im := range imgs {
				for nones := 0; nones <= 2; nones++ {
					var comps []string
					for _, x := range []string{t, p, im} {
						if x != "" {
							comps = append(comps, x)
						}
					}
					for i := 0; i < nones; i++ {
						comps = append(comps, "none")
					}
					if len(comps) == 0 {
						continue
					}
					// CSS 2.1 §12.5.1 / CSS Lists 3: none sets whichever of type and image is not
					// otherwise specified; too many none -> invalid (not generated)
					free := 0
					if t == "" {
						free++
					}
					if im == "" {
						free++
					}
					if nones > free {
						continue
					}
					wt, wi := t, im
					if nones > 0 {
						if wt == "" {
							wt = "none"
						}
						if wi == "" {
							wi = "none"
						}
					}
					for _, pm := range perms(len(comps)) {
						var parts []string
						for _, i := range pm {
							parts = append(parts, comps[i])
						}
						v := strings.Join(parts, " ")
						c.addB("list-style", v, map[string]string{"list-style-type": wt, "list-style-position": p, "list-style-image": wi}, fmt.Sprintf("none:%d", nones))
					}
				}
			}
		}
	}
	c.dedupB("list-style")
}

// dedupB removes repeated (shorthand, value) cases (permutations of equal tokens).
func (c *check) dedupB(sh string) {
	seen := map[string]bool{}
	var out []bCase
	for _, b := range c.bCases {
		if b.sh == sh {
			if seen[b.value] {
				continue
			}
			seen[b.value] = true
		}
		out = append(out, b)
	}
	c.bCases = out
}

func (c *check) genColumns() {
	widths := []string{"10em", "100px"}
	counts := []string{"2", "3"}
	add := func(v, w, n string) {
		c.addB("columns", v, map[string]string{"column-width": w, "column-count": n})
	}
	add("auto", "auto", "auto")
	add("auto auto", "auto", "auto")
	for _, w := range widths {
		add(w, w, "")
		add(w+" auto", w, "auto")
		add("auto "+w, w, "auto")
		for _, n := range counts {
			add(w+" "+n, w, n)
			add(n+" "+w, w, n)
		}
	}
	for _, n := range counts {
		add(n, "", n)
		add(n+" auto", "auto", n)
		add("auto "+n, "auto", n)
	}
}

func (c *check) genFlexFlow() {
	dirs := []string{"row", "row-reverse", "column", "column-reverse"}
	wraps := []string{"nowrap", "wrap", "wrap-reverse"}
	for _, d := range dirs {
		c.addB("flex-flow", d, map[string]string{"flex-direction": d, "flex-wrap": ""})
		for _, w := range wraps {
			c.addB("flex-flow", d+" "+w, map[string]string{"flex-direction": d, "flex-wrap": w})
			c.addB("flex-flow", w+" "+d, map[string]string{"flex-direction": d, "flex-wrap": w})
		}
	}
	for _, w := range wraps {
		c.addB("flex-flow", w, map[string]string{"flex-direction": "", "flex-wrap": w})
	}
}

func (c *check) genFlex() {
	// CSS Flexbox 1 §7.2: none | [ <grow> <shrink>? || <basis> ]; omitted grow/shrink -> 1,
	// omitted basis -> 0; a unit-less zero not preceded by two flex factors is a flex factor.
	zero := "0px||0||0%"
	add := func(v, g, s, b string) {
		c.addB("flex", v, map[string]string{"flex-grow": g, "flex-shrink": s, "flex-basis": b})
	}
	add("none", "0", "0", "auto")
	add("auto", "1", "1", "auto")
	nums := []string{"0", "1", "2.5"}
	bases := []string{"10px", "50%", "auto", "content", "0px"}
	for _, g := range nums {
		add(g, g, "1", zero)
		for _, s := range nums {
			add(g+" "+s, g, s, zero)
			add(g+" "+s+" 0", g, s, "0||0px")
			for _, b := range bases {
				add(g+" "+s+" "+b, g, s, b)
				add(b+" "+g+" "+s, g, s, b)
			}
		}
		for _, b := range bases {
			add(g+" "+b, g, "1", b)
			add(b+" "+g, g, "1", b)
		}
	}
	for _, b := range bases {
		if b != "auto" {
			add(b, "1", "1", b)
		}
	}
}

func (c *check) genTextDecoration() {
	lines := []string{"", "underline", "overline", "line-through", "underline overline", "line-through underline", "none"}
	styles := []string{"", "solid", "wavy", "double"}
	colors := []string{"", "red", "#00f"}
	for _, l := range lines {
		for _, s := range styles {
			for _, col := range colors {
				three := []string{l, s, col}
				var present []string
				for _, x := range three {
					if x != "" {
						present = append(present, x)
					}
				}
				if len(present) == 0 {
					continue
				}
				for _, pm := range perms(len(present)) {
					var parts []string
					for _, i := range pm {
						parts = append(parts, present[i])
					}
					c.addB("text-decoration", strings.Join(parts, " "), map[string]string{"text-decoration-line": l, "text-decoration-style": s, "text-decoration-color": col})
				}
			}
		}
	}
}

func (c *check) genAliases() {
	// CSS Fragmentation 3 §3.4: page-break-* are legacy shorthands of break-*
	for _, ba := range []string{"before", "after"} {
		for _, v := range []string{"auto", "left", "right", "avoid"} {
			c.addB("page-break-"+ba, v, map[string]string{"break-" + ba: v})
		}
		c.addB("page-break-"+ba, "always", map[string]string{"break-" + ba: "page"})
	}
	for _, v := range []string{"auto", "avoid"} {
		c.addB("page-break-inside", v, map[string]string{"break-inside": v})
	}
	// CSS Text 3 §6.2: word-wrap is an alias of overflow-wrap
	for _, v := range []string{"normal", "break-word", "anywhere"} {
		c.addB("word-wrap", v, map[string]string{"overflow-wrap": v})
	}
	// CSS Text 3 §7.1: values other than justify-all are assigned to text-align-all and
	// reset text-align-last to auto; justify-all sets both to justify
	for _, v := range []string{"left", "right", "center", "justify", "start", "end"} {
		c.addB("text-align", v, map[string]string{"text-align-all": v, "text-align-last": "auto"}, "text-align-last:auto")
	}
	c.addB("text-align", "justify-all", map[string]string{"text-align-all": "justify", "text-align-last": "justify"})
}

func (c *check) genFont() {
	comp := [][]string{ // style, variant, weight, stretch
		{"italic", "oblique"}, {"small-caps"}, {"bold", "700", "lighter"}, {"condensed", "ultra-expanded"},
	}
	names := []string{"font-style", "font-variant-caps", "font-weight", "font-stretch"}
	sizes := []string{"10px", "large", "2em", "50%"}
	lhs := []string{"", "1.5", "normal", "120%", "20px"}
	fams := []string{"serif", `"s"`, "a b", "a, b", `a, "s", serif`}
	nval := 2
	if !c.thorough {
		sizes, lhs, fams, nval = sizes[:2], lhs[:3], fams[:3], 1
	}
	// optional prefix: ordered selections of distinct components, plus "normal" fillers
	type pre struct {
		toks []string
		want map[string]string
	}
	var pres []pre
	for mask := 0; mask < 16; mask++ {
		var idx []int
		for i := 0; i < 4; i++ {
			if mask&(1<<i) != 0 {
				idx = append(idx, i)
			}
		}
		for _, pm := range perms(len(idx)) {
			for vi := 0; vi < nval; vi++ {
				want := map[string]string{}
				var toks []string
				for _, k := range pm {
					i := idx[k]
					v := comp[i][vi%len(comp[i])]
					toks = append(toks, v)
					want[names[i]] = v
				}
				pres = append(pres, pre{toks, want})
				// "normal" stands for any component that is not given (at most four tokens)
				if len(toks) < 4 && vi == 0 {
					pres = append(pres, pre{append([]string{"normal"}, toks...), want})
					pres = append(pres, pre{append(append([]string{}, toks...), "normal"), want})
				}
			}
		}
	}
	pres = append(pres, pre{[]string{"normal", "normal", "normal", "normal"}, map[string]string{}})
	seen := map[string]bool{}
	for _, p := range pres {
		for _, sz := range sizes {
			for _, lh := range lhs {
				for _, fam := range fams {
					v := strings.Join(append(append([]string{}, p.toks...), sz), " ")
					if lh != "" {
						v += " / " + lh
					}
					v += " " + fam
					if seen[v] {
						continue
					}
					seen[v] = true
					want := map[string]string{"font-size": sz, "line-height": lh, "font-family": fam}
					for _, n := range names {
						want[n] = p.want[n]
					}
					feats := []string{fmt.Sprintf("font-prefix:%d", len(p.toks))}
					if lh != "" {
						feats = append(feats, "font-line-height")
					}
					c.addB("font", v, want, feats...)
				}
			}
		}
	}
}

func (c *check) genBackground() {
	// CSS Backgrounds 3 §3.10, one layer:
	// <bg-image> || <position> [ / <size> ]? || <repeat> || <attachment> || <box> || <box> and <color>
	colors := []string{"", "red", "rgba(0,0,0,.5)"}
	images := []string{"", "url(a)", "none", "linear-gradient(red,blue)"}
	repeats := []string{"", "no-repeat", "repeat-x", "repeat space"}
	attach := []string{"", "fixed", "local"}
	positions := []string{"", "center", "left 10px", "10px 20%", "right 3px bottom 10%"}
	sizesM := []string{"", "cover", "10px auto", "50%"}
	boxes := []string{"", "padding-box", "padding-box content-box", "border-box"}
	if !c.thorough {
		colors, images, repeats, attach, positions, sizesM, boxes = colors[:2], images[:3], repeats[:3], attach[:2], positions[:3], sizesM[:3], boxes[:3]
	}
	seen := map[string]bool{}
	for _, col := range colors {
		for _, im := range images {
			for _, rp := range repeats {
				for _, at := range attach {
					for _, po := range positions {
						for _, sz := range sizesM {
							if sz != "" && po == "" {
								continue
							}
							for _, bx := range boxes {
								posSize := po
								if sz != "" {
									posSize = po + " / " + sz
								}
								comps := []string{}
								for _, x := range []string{im, posSize, rp, at, bx, col} {
									if x != "" {
										comps = append(comps, x)
									}
								}
								if len(comps) == 0 {
									continue
								}
								origin, clip := "", ""
								if f := strings.Fields(bx); len(f) == 1 {
									origin, clip = f[0], f[0]
								} else if len(f) == 2 {
									origin, clip = f[0], f[1]
								}
								want := map[string]string{"background-color": col, "background-image": im, "background-repeat": rp, "background-attachment": at,
									"background-position": po, "background-size": sz, "background-origin": origin, "background-clip": clip}
								var orders [][]int
								if len(comps) <= 3 {
									orders = perms(len(comps))
								} else {
									id := make([]int, len(comps))
									rev := make([]int, len(comps))
									rot := make([]int, len(comps))
									for i := range comps {
										id[i], rev[i], rot[i] = i, len(comps)-1-i, (i+2)%len(comps)
									}
									orders = [][]int{id, rev, rot}
								}
								for _, o := range orders {
									var parts []string
									for _, i := range o {
										parts = append(parts, comps[i])
									}
									v := strings.Join(parts, " ")
									if seen[v] {
										continue
									}
									seen[v] = true
									c.addB("background", v, want, fmt.Sprintf("bg-parts:%d", len(comps)))
								}
							}
						}
					}
				}
			}
		}
	}
}

const bBatch = 200

func (c *check) initB() {
	c.bCases = nil
	c.genFourSides()
	c.genBorderLike()
	c.genBorderRadius()
	c.genListStyle()
	c.genColumns()
	c.genFlexFlow()
	c.genFlex()
	c.genTextDecoration()
	c.genAliases()
	c.genFont()
	c.genBackground()
	// generic clauses: one pseudo-case per shorthand
	for _, sh := range shorthandNames {
		c.bCases = append(c.bCases, bCase{sh: sh, value: "\x00generic", feats: []string{"shorthand:" + sh}})
	}
	c.nB1 = (int64(len(c.bCases)) + bBatch - 1) / bBatch
	c.nB = c.nB1 + c.initBLayers()
}

func (c *check) describeB(u int64) any {
	if u >= c.nB1 {
		return c.describeBLayers(u - c.nB1)
	}
	lo, hi := u*bBatch, (u+1)*bBatch
	if hi > int64(len(c.bCases)) {
		hi = int64(len(c.bCases))
	}
	show := func(b bCase) string { return b.sh + ": " + strings.TrimPrefix(b.value, "\x00") }
	return map[string]any{"part": "b", "first": show(c.bCases[lo]), "last": show(c.bCases[hi-1]), "cases": hi - lo}
}

// normalised declared value of one long-hand: the `initial` keyword stands for the initial value
// (DESIGN appendix A.10).
func normDeclared(name string, v pr.DeclaredValue) string {
	if v == pr.Initial {
		if kp, ok := pr.PropsFromNames[name]; ok {
			if iv, ok := pr.InitialValues[kp]; ok {
				return canonDeclared(iv)
			}
		}
	}
	return canonDeclared(v)
}

func declMap(l []validation.Declaration) (m map[string]string, imp map[string]bool, dup []string) {
	m, imp = map[string]string{}, map[string]bool{}
	for _, d := range l {
		n := d.Name.String()
		if _, in := m[n]; in {
			dup = append(dup, n)
		}
		m[n] = normDeclared(n, d.Value)
		imp[n] = d.Important
	}
	return
}

func (c *check) runB(u int64, ctx *engine.Ctx) {
	if u >= c.nB1 {
		c.runBLayers(u-c.nB1, ctx)
		return
	}
	lo, hi := u*bBatch, (u+1)*bBatch
	if hi > int64(len(c.bCases)) {
		hi = int64(len(c.bCases))
	}
	for _, b := range c.bCases[lo:hi] {
		if b.value == "\x00generic" {
			c.runBGeneric(b, ctx)
			continue
		}
		css := b.sh + ": " + b.value
		ctx.Trans(1)
		var got map[string]string
		var dup []string
		var n int
		if !ctx.GuardFail(desc("b", b.feats, css), b.feats, func() {
			l := parseDecls(css)
			n = len(l)
			got, _, dup = declMap(l)
		}) {
			ctx.Case(true, "panic")
			continue
		}
		if n == 0 {
			ctx.Case(true, "rejected")
			ctx.Fail(engine.Failure{Clause: "shorthand-rejected", Features: b.feats, Case: css, Detail: "the reference grammar of the shorthand produces this value; the library rejects the declaration"})
			continue
		}
		keys := make([]string, 0, len(got))
		for k := range got {
			keys = append(keys, k)
		}
		sort.Strings(keys)
		var ob strings.Builder
		for _, k := range keys {
			ob.WriteString(k + "=" + got[k] + ";")
		}
		ctx.Case(true, ob.String())
		if len(dup) > 0 {
			ctx.Fail(engine.Failure{Clause: "shorthand-longhand-set", Features: b.feats, Case: css, Detail: "long-hand produced twice: " + strings.Join(dup, ",")})
		}
		// expected: long-hand by long-hand
		var diffs []string
		wantNames := map[string]bool{}
		for _, lh := range longhandsOf[b.sh] {
			wantNames[lh] = true
			alts := strings.Split(b.want[lh], "||")
			var wants []string
			okRef := true
			for _, alt := range alts {
				if alt == "" {
					kp := pr.PropsFromNames[lh]
					wants = append(wants, canonDeclared(pr.InitialValues[kp]))
					continue
				}
				lcss := lh + ": " + alt
				var w string
				f2 := append(append([]string{}, b.feats...), "reference-longhand")
				if !ctx.GuardFail(desc("b", f2, lcss), f2, func() {
					l := parseDecls(lcss)
					if len(l) == 1 {
						w = normDeclared(lh, l[0].Value)
					}
				}) {
					okRef = false
					continue
				}
				if w == "" {
					okRef = false
					ctx.Count("b:reference-longhand-rejected", 1)
					diffs = append(diffs, fmt.Sprintf("%s: the long-hand spelling %q is rejected", lh, alt))
					continue
				}
				wants = append(wants, w)
			}
			if !okRef {
				continue
			}
			g, in := got[lh]
			if !in {
				diffs = append(diffs, lh+": missing")
				continue
			}
			match := false
			for _, w := range wants {
				if w == g {
					match = true
				}
			}
			if !match {
				diffs = append(diffs, fmt.Sprintf("%s: want %s got %s", lh, wants[0], g))
			}
		}
		ctx.Count("b:expansions-compared", 1)
		if len(diffs) > 0 {
			ctx.Fail(engine.Failure{Clause: "shorthand-expansion", Features: b.feats, Case: css, Detail: strings.Join(diffs, "\n")})
		}
		var extra []string
		for _, k := range keys {
			if !wantNames[k] {
				isReset := false
				for _, r := range resetOnly[b.sh] {
					if r == k {
						isReset = true
					}
				}
				if !isReset {
					extra = append(extra, k)
				}
			}
		}
		if len(extra) > 0 {
			ctx.Fail(engine.Failure{Clause: "shorthand-longhand-set", Features: b.feats, Case: css, Detail: "unexpected long-hands: " + strings.Join(extra, ",")})
		}
	}
}

// genericValues: one ordinary accepted value per shorthand (to exercise the generic clauses
// when part a's enumeration is not at hand).
var genericValue = map[string]string{
	"border-color": "red", "border-style": "solid", "border-width": "1px", "border-image": "url(a) 1", "margin": "1px", "padding": "1px", "bleed": "1px",
	"border-radius": "1px", "page-break-after": "always", "page-break-before": "left", "page-break-inside": "avoid", "background": "red", "word-wrap": "break-word",
	"list-style": "square", "border": "1px solid", "border-top": "1px solid", "border-right": "solid", "border-bottom": "red", "border-left": "1px",
	"column-rule": "1px solid", "outline": "1px solid", "columns": "2", "font-variant": "small-caps", "font": "10px serif", "text-decoration": "underline",
	"flex": "1", "flex-flow": "column", "line-clamp": "2", "text-align": "center", "grid-column": "1 / 2", "grid-row": "1", "grid-area": "1 / 2 / 3 / 4",
	"grid-template": "none", "grid": "none",
}

func (c *check) runBGeneric(b bCase, ctx *engine.Ctx) {
	sh := b.sh
	want := longhandsOf[sh]
	// 1. inherit / initial (any case, with and without !important) set every long-hand to the keyword
	for _, kw := range []string{"inherit", "initial", "INHERIT", "Initial"} {
		for _, imp := range []bool{false, true} {
			css := sh + ": " + kw
			if imp {
				css += " !important"
			}
			feats := []string{"shorthand:" + sh, "css-wide-keyword:" + strings.ToLower(kw)}
			ctx.Trans(1)
			var l []validation.Declaration
			if !ctx.GuardFail(desc("b", feats, css), feats, func() { l = parseDecls(css) }) {
				ctx.Case(true, "panic")
				continue
			}
			ctx.Case(true, canonDecls(l))
			ctx.Count("b:css-wide-keyword-cases", 1)
			wantKw := pr.Inherit
			if strings.ToLower(kw) == "initial" {
				wantKw = pr.Initial
			}
			gotNames := map[string]int{}
			var bad []string
			for _, d := range l {
				gotNames[d.Name.String()]++
				if d.Value != pr.DeclaredValue(wantKw) {
					bad = append(bad, d.Name.String()+"="+canonDeclared(d.Value))
				}
				if d.Important != imp {
					bad = append(bad, d.Name.String()+": importance lost")
				}
			}
			for _, w := range want {
				if gotNames[w] != 1 {
					bad = append(bad, fmt.Sprintf("%s produced %d times", w, gotNames[w]))
				}
			}
			if len(bad) > 0 {
				ctx.Fail(engine.Failure{Clause: "shorthand-css-wide-keyword", Features: feats, Case: css, Detail: strings.Join(bad, "; ")})
			}
		}
	}
	// 2. an ordinary value yields every long-hand exactly once, plus the reset-only ones
	v := genericValue[sh]
	css := sh + ": " + v + " !important"
	feats := []string{"shorthand:" + sh, "generic-longhand-set"}
	ctx.Trans(1)
	var l []validation.Declaration
	if !ctx.GuardFail(desc("b", feats, css), feats, func() { l = parseDecls(css) }) {
		ctx.Case(true, "panic")
		return
	}
	ctx.Case(len(l) > 0, canonDecls(l))
	if len(l) == 0 {
		ctx.Fail(engine.Failure{Clause: "shorthand-rejected", Features: feats, Case: css, Detail: "ordinary value of the shorthand rejected"})
		return
	}
	c.checkLonghandSet(ctx, sh, css, l, feats, true)
}

// checkLonghandSet: the declarations produced by a shorthand are exactly its long-hands, each once.
func (c *check) checkLonghandSet(ctx *engine.Ctx, sh, css string, l []validation.Declaration, feats []string, wantImportant bool) {
	gotNames := map[string]int{}
	var bad []string
	for _, d := range l {
		gotNames[d.Name.String()]++
		if wantImportant && !d.Important {
			bad = append(bad, d.Name.String()+": !important lost")
		}
	}
	for _, w := range longhandsOf[sh] {
		if gotNames[w] != 1 {
			bad = append(bad, fmt.Sprintf("%s produced %d times", w, gotNames[w]))
		}
		delete(gotNames, w)
	}
	var missingReset []string
	for _, r := range resetOnly[sh] {
		if gotNames[r] != 1 {
			missingReset = append(missingReset, r)
		}
		delete(gotNames, r)
	}
	for n := range gotNames {
		bad = append(bad, "unexpected long-hand "+n)
	}
	sort.Strings(bad)
	if len(bad) > 0 {
		ctx.Fail(engine.Failure{Clause: "shorthand-longhand-set", Features: feats, Case: css, Detail: strings.Join(bad, "; ")})
	}
	if len(resetOnly[sh]) > 0 {
		ctx.Count("b:reset-only-checked", 1)
		if len(missingReset) > 0 {
			f := append(append([]string{}, feats...), "reset-only-longhands")
			ctx.Fail(engine.Failure{Clause: "shorthand-reset-only", Features: f, Case: css,
				Detail: "the shorthand must also reset to their initial value: " + strings.Join(missingReset, ", ")})
		}
	}
}
