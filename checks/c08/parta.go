package c08

import (
	"sort"
	"strings"

	"verif/internal/engine"
)

// ---- enumeration of accepted values (shared by parts a, b-generic and c) ---------------------

type propInfo struct {
	name     string
	identAny bool     // the property accepts an arbitrary identifier alone
	singles  []string // accepted one-token values (full alphabet)
	alpha    []string // alphabet of the two-token pass
	rel      []string // tokens that occur in an accepted value of <= 2 tokens (alphabet of the longer passes)
	accepted []string // every accepted value, shortest first
	ntok     []int    // number of tokens of accepted[i]
	acc2     []string // accepted two-token values
	acc2last []string // last token of acc2[i]
	relSet   map[string]bool
	inAlpha  map[string]bool
	full     bool
	tried    int64
}

// desc builds the description of a guarded case: part | feature tags | case text.
func desc(part string, feats []string, text string) string {
	return part + "|" + strings.Join(feats, ",") + "|" + text
}

// accepts runs one declaration through the real parser and validator.
// ok=false,crashed=true when the call panicked (reported as a failure of clause "panic").
func (c *check) accepts(ctx *engine.Ctx, part, prop, value string) (ok bool) {
	css := prop + ":" + value
	feats := []string{"prop:" + prop, "direct-validation"}
	completed := ctx.GuardFail(desc(part, feats, css), feats, func() {
		ok = len(parseDecls(css)) > 0
	})
	return completed && ok
}

func (c *check) canonOf(ctx *engine.Ctx, part string, feats []string, css string) (out string, completed bool) {
	completed = ctx.GuardFail(desc(part, feats, css), feats, func() {
		out = canonDecls(parseDecls(css))
	})
	return out, completed
}

// enumerateLight: accepted values of one and two tokens over the quick alphabet (cached per
// worker process; shared by parts a and c).
func (c *check) enumerateLight(ctx *engine.Ctx, prop string) *propInfo {
	if pi, ok := c.cache[prop]; ok {
		return pi
	}
	pi := &propInfo{name: prop, relSet: map[string]bool{}, inAlpha: map[string]bool{}}
	c.cache[prop] = pi

	// pass 1: every token of the full alphabet alone
	pi.identAny = c.accepts(ctx, "a", prop, "zzq")
	var zzCanon string
	if pi.identAny {
		zzCanon, _ = c.canonOf(ctx, "a", []string{"prop:" + prop}, prop+":zzq")
	}
	for _, t := range c.full {
		pi.tried++
		if !c.accepts(ctx, "a", prop, t) {
			continue
		}
		if pi.identAny && c.isKw[t] {
			// the property takes arbitrary identifiers: keep a keyword only when the library
			// treats it differently from the nonsense identifier (differential probe)
			got, _ := c.canonOf(ctx, "a", []string{"prop:" + prop}, prop+":"+t)
			if got == strings.ReplaceAll(zzCanon, "zzq", t) {
				continue
			}
		}
		pi.singles = append(pi.singles, t)
	}

	// alphabet of the longer passes
	var alpha []string
	for _, s := range pi.singles {
		if c.inCore[s] || c.isKw[s] {
			alpha = append(alpha, s)
		}
	}
	alpha = append(alpha, tokCore...)
	alpha = append(alpha, ctxKeywords...)
	alpha = dedup(alpha)
	for _, a := range alpha {
		pi.inAlpha[a] = true
	}
	for _, s := range pi.singles {
		if pi.inAlpha[s] {
			pi.relSet[s] = true
		}
	}
	for _, a := range alpha {
		for _, b := range alpha {
			c.pair(ctx, pi, a, b)
		}
	}
	pi.alpha = alpha
	return pi
}

func (c *check) pair(ctx *engine.Ctx, pi *propInfo, a, b string) bool {
	pi.tried++
	v := a + " " + b
	if c.accepts(ctx, "a", pi.name, v) {
		pi.acc2 = append(pi.acc2, v)
		pi.acc2last = append(pi.acc2last, b)
		pi.relSet[a], pi.relSet[b] = true, true
		return true
	}
	return false
}

// enumerate computes every accepted value of one property up to the tier's length bound.
func (c *check) enumerate(ctx *engine.Ctx, prop string) *propInfo {
	pi := c.enumerateLight(ctx, prop)
	if pi.full {
		return pi
	}
	pi.full = true
	if c.thorough {
		// discover keywords that are only valid in company: pair every keyword of the source
		// with every token of the alphabet, both orders
		old := append([]string{}, pi.alpha...)
		var added []string
		for _, k := range c.keywords {
			if pi.inAlpha[k] || pi.identAny {
				continue
			}
			found := false
			for _, b := range old {
				pi.tried += 2
				// a keyword is discovered when it is accepted in company where the nonsense
				// identifier is not (otherwise the position simply takes any identifier)
				if (c.accepts(ctx, "a", prop, k+" "+b) && !c.accepts(ctx, "a", prop, "zzq "+b)) ||
					(c.accepts(ctx, "a", prop, b+" "+k) && !c.accepts(ctx, "a", prop, b+" zzq")) {
					found = true
					break
				}
			}
			if found {
				added = append(added, k)
				pi.inAlpha[k] = true
				ctx.Count("a:ctx-keywords-discovered-outside-quick-alphabet", 1)
			}
		}
		for _, k := range added {
			for _, b := range old {
				c.pair(ctx, pi, k, b)
				c.pair(ctx, pi, b, k)
			}
			for _, k2 := range added {
				c.pair(ctx, pi, k, k2)
			}
		}
		pi.alpha = append(pi.alpha, added...)
	}

	// relevant tokens; shorthands inherit those of their long-hands
	relSet := map[string]bool{}
	for r := range pi.relSet {
		relSet[r] = true
	}
	for _, lh := range longhandsOf[prop] {
		if lh == prop {
			continue
		}
		sub := c.enumerateLight(ctx, lh)
		for r := range sub.relSet {
			relSet[r] = true
		}
	}
	for r := range relSet {
		pi.rel = append(pi.rel, r)
	}
	sort.Strings(pi.rel)

	var acc3, acc4 []string
	maxRel := 48
	if c.thorough {
		maxRel = 80
	}
	rel := pi.rel
	if len(rel) > maxRel {
		// keep the alphabet bounded (deterministically): tokens the property accepts alone and
		// core tokens first
		single := map[string]bool{}
		for _, s := range pi.singles {
			single[s] = true
		}
		var keep, rest []string
		for _, r := range rel {
			if single[r] || c.inCore[r] {
				keep = append(keep, r)
			} else {
				rest = append(rest, r)
			}
		}
		rel = append(keep, rest...)
		if len(rel) > maxRel {
			ctx.Count("a:relevant-alphabet-truncated", 1)
			rel = rel[:maxRel]
		}
	}
	for _, a := range rel {
		for _, b := range rel {
			for _, d := range rel {
				pi.tried++
				v := a + " " + b + " " + d
				if c.accepts(ctx, "a", prop, v) {
					acc3 = append(acc3, v)
				}
			}
		}
	}
	if c.thorough && len(rel) <= 24 {
		for _, a := range rel {
			for _, b := range rel {
				for _, d := range rel {
					for _, e := range rel {
						pi.tried++
						v := a + " " + b + " " + d + " " + e
						if c.accepts(ctx, "a", prop, v) {
							acc4 = append(acc4, v)
						}
					}
				}
			}
		}
	}
	for n, l := range [][]string{pi.singles, pi.acc2, acc3, acc4} {
		for _, v := range l {
			pi.accepted = append(pi.accepted, v)
			pi.ntok = append(pi.ntok, n+1)
		}
	}
	return pi
}

// ---- spelling variants ----------------------------------------------------------------------

var ownCustomIdent = map[string]bool{"a": true, "b": true, "bb": true, "my-font": true, "x": true, "href": true, "k": true}

type variant struct {
	css    string
	clause string
	feats  []string
	single bool // a single-change variant (the combined ones are only judged when all single ones pass)
	imp    bool // expected = base with every declaration important
}

// posClass describes where boundary i (before piece i; i == len(ps): the end) lies: the position
// class and, inside a block, the block it is in.
func posClass(ps []piece, i int) []string {
	if i == 0 {
		return []string{"at:start"}
	}
	if i == len(ps) {
		return []string{"at:end"}
	}
	if ps[i-1].kind == kFunc {
		return []string{"at:inside-block", "in:" + strings.ToLower(strings.TrimSuffix(ps[i-1].text, "("))}
	}
	if ps[i-1].text == "[" || ps[i-1].text == "(" {
		return []string{"at:inside-block", "in:" + ps[i-1].text}
	}
	if ps[i-1].depth > ps[i].depth {
		return []string{"at:inside-block", "in:" + ps[i-1].fn}
	}
	if ps[i].depth > 0 {
		return []string{"at:inside-block", "in:" + ps[i].fn}
	}
	return []string{"at:between-values"}
}

// blocksOf lists the blocks (functions, brackets) a value contains.
func blocksOf(ps []piece) []string {
	var out []string
	for _, p := range ps {
		switch {
		case p.kind == kFunc:
			out = append(out, "contains:"+strings.ToLower(strings.TrimSuffix(p.text, "(")))
		case p.kind == kPunct && (p.text == "[" || p.text == "("):
			out = append(out, "contains:"+p.text)
		}
	}
	return dedup(out)
}

// variantsOf lists the spelling variants of prop:value. probe tells whether a value is accepted.
//
// Values of one or two tokens get the complete set (every single change, one at a time, and
// the combined ones); longer values get every single case change and the combined white-space
// variants only (their per-gap variants would repeat what the shorter values already cover).
func (c *check) variantsOf(prop, value, baseCanon string, full bool, probe func(v string) string, count func(string)) []variant {
	ps := lexValue(value)
	var out []variant
	add := func(css, clause string, single bool, feats ...string) {
		out = append(out, variant{css: css, clause: clause, feats: append([]string{"prop:" + prop}, feats...), single: single})
	}
	base := prop + ":" + value

	// --- case ---
	add(upperASCII(prop)+":"+value, "case-insensitive", true, "upper-propname")
	if full {
		add(upperASCII(prop[:1])+prop[1:]+":"+value, "case-insensitive", true, "capitalized-propname")
	}
	allUp := clonePieces(ps)
	nUp := 0
	var upFeats []string
	for i, p := range ps {
		var feat, text string
		switch p.kind {
		case kIdent:
			if !hasLower(p.text) {
				continue
			}
			// custom-identifier positions are case-sensitive by specification. Differential
			// probe: the position is a custom identifier iff the nonsense identifier zzq is
			// accepted there AND is carried through into the result exactly like the original
			// identifier (same result up to the substitution). A position that accepts zzq but
			// treats the original differently (page: auto, "liga" on) holds a keyword.
			if ownCustomIdent[p.text] {
				// the check's own nonsense identifiers are keywords nowhere: where they are
				// accepted, the position takes arbitrary identifiers
				count("a:custom-ident-positions-skipped")
				continue
			}
			q := clonePieces(ps)
			q[i].text = "zzq"
			if zc := probe(joinPieces(q)); zc != "" {
				if strings.ReplaceAll(zc, "zzq", p.text) == baseCanon {
					count("a:custom-ident-positions-skipped")
					continue
				}
				count("a:keyword-in-ident-position")
			}
			text = upperASCII(p.text)
			if p.depth == 0 {
				feat = "upper-keyword:" + prop
			} else {
				feat = "upper-keyword-in:" + p.fn
			}
		case kNum:
			if !hasLower(p.unit) {
				continue
			}
			text = p.num + upperASCII(p.unit)
			feat = "upper-unit:" + unitKind(p.unit)
		case kFunc:
			if !hasLower(p.text) {
				continue
			}
			text = upperASCII(p.text)
			feat = "upper-function:" + strings.ToLower(strings.TrimSuffix(p.text, "("))
		case kURL:
			text = "URL" + p.text[3:]
			feat = "upper-function:url"
		default:
			continue
		}
		q := clonePieces(ps)
		q[i].text = text
		allUp[i].text = text
		nUp++
		upFeats = append(upFeats, feat)
		add(prop+":"+joinPieces(q), "case-insensitive", true, feat)
	}
	if nUp >= 1 {
		add(upperASCII(prop)+":"+joinPieces(allUp), "case-insensitive", false, append([]string{"upper-all"}, dedup(upFeats)...)...)
	}

	// --- comments and white space ---
	for i := 0; i <= len(ps) && full; i++ {
		// CSS Syntax 3 §4.3.6: "url(" followed by anything but white space and a quote starts
		// an unquoted url token, so a comment right there is not a comment
		afterURL := i > 0 && ps[i-1].kind == kFunc && strings.EqualFold(ps[i-1].text, "url(")
		q := joinPieces(ps[:i]) + "/**/" + joinPieces(ps[i:])
		if !afterURL {
			add(prop+":"+q, "whitespace-comments", true, append([]string{"ws:comment"}, posClass(ps, i)...)...)
		}
		wsAdjacent := (i > 0 && ps[i-1].kind == kWS) || (i < len(ps) && ps[i].kind == kWS)
		if !wsAdjacent {
			q = joinPieces(ps[:i]) + "\n" + joinPieces(ps[i:])
			add(prop+":"+q, "whitespace-comments", true, append([]string{"ws:inserted-newline"}, posClass(ps, i)...)...)
		}
	}
	for i, p := range ps {
		if p.kind != kWS || !full {
			continue
		}
		for _, r := range [][2]string{{"\n", "ws:newline"}, {"  ", "ws:double-space"}, {"\t", "ws:tab"}} {
			q := clonePieces(ps)
			q[i].text = r[0]
			add(prop+":"+joinPieces(q), "whitespace-comments", true, append([]string{r[1]}, posClass(ps, i)...)...)
		}
	}
	{
		// everything at once
		var sb, sb2 strings.Builder
		for i, p := range ps {
			if !(i > 0 && ps[i-1].kind == kFunc && strings.EqualFold(ps[i-1].text, "url(")) {
				sb.WriteString("/**/")
			}
			wsAdjacent := (i > 0 && ps[i-1].kind == kWS) || p.kind == kWS
			if p.kind == kWS {
				sb2.WriteString(" \n\t ")
			} else {
				if !wsAdjacent {
					sb2.WriteString("\n")
				}
				sb2.WriteString(p.text)
			}
			sb.WriteString(p.text)
		}
		add(prop+":"+sb.String()+"/**/", "whitespace-comments", false, append([]string{"ws:comment", "at:everywhere"}, blocksOf(ps)...)...)
		add(prop+":"+sb2.String()+"\n", "whitespace-comments", false, append([]string{"ws:newline", "at:everywhere"}, blocksOf(ps)...)...)
		// no white space around commas and slashes
		var tight []piece
		changed := false
		for i, p := range ps {
			if p.kind == kWS {
				prevPunct := i > 0 && ps[i-1].kind == kPunct && (ps[i-1].text == "," || ps[i-1].text == "/")
				nextPunct := i+1 < len(ps) && ps[i+1].kind == kPunct && (ps[i+1].text == "," || ps[i+1].text == "/")
				if prevPunct || nextPunct {
					changed = true
					continue
				}
			}
			tight = append(tight, p)
		}
		if changed {
			add(prop+":"+joinPieces(tight), "whitespace-comments", false, "ws:none-around-comma-slash")
		}
	}
	if !full {
		return out
	}
	add(prop+" :"+value, "whitespace-comments", true, "ws:space-before-colon")
	add(prop+"/**/:"+value, "whitespace-comments", true, "ws:comment-before-colon")
	add(" "+base, "whitespace-comments", true, "ws:leading-space")
	add("/**/"+base, "whitespace-comments", true, "ws:leading-comment")
	add(base+";", "whitespace-comments", true, "trailing-semicolon")
	add(";"+base, "whitespace-comments", true, "leading-semicolon")
	add(base+" ; ", "whitespace-comments", true, "trailing-semicolon", "ws:around-semicolon")

	// --- !important ---
	for _, s := range []struct{ suffix, feat string }{
		{"!important", "important"}, {" !important", "important:space-before"}, {"!IMPORTANT", "important:upper"},
		{"! important", "important:space-inside"}, {"!/**/important", "important:comment-inside"}, {"!Important;", "important:capitalized"},
	} {
		out = append(out, variant{css: base + s.suffix, clause: "important-spelling", feats: []string{"prop:" + prop, s.feat}, single: true, imp: true})
	}
	return out
}

// runA explores one property: unit = index into c.names.
func (c *check) runA(u int64, ctx *engine.Ctx) {
	prop := c.names[u]
	if c.listsOnly { // development aid (VERIF_C08_PARTS=A): the list family alone
		pi := c.enumerateLight(ctx, prop)
		c.checkNonsenseIdent(ctx, prop, pi)
		c.runListFamily(ctx, prop, pi)
		return
	}
	pi := c.enumerate(ctx, prop)
	c.checkNonsenseIdent(ctx, prop, pi)
	ctx.Count("a:declarations-validated", pi.tried)
	ctx.Count("a:accepted-values", int64(len(pi.accepted)))
	// rejected sequences are explored cases without an oracle of their own
	for i := int64(len(pi.accepted)); i < pi.tried; i++ {
		ctx.Case(false, "rejected")
	}
	ctx.Trans(pi.tried)
	probeCache := map[string]string{}
	probe := func(v string) string {
		if r, ok := probeCache[v]; ok {
			return r
		}
		if len(probeCache) > 50000 {
			probeCache = map[string]string{}
		}
		r, _ := c.canonOf(ctx, "a", []string{"prop:" + prop, "zzq-probe"}, prop+":"+v)
		probeCache[v] = r
		return r
	}
	count := func(k string) { ctx.Count(k, 1) }
	sh := isShorthand(prop)
	for ai, v := range pi.accepted {
		baseFeats := []string{"prop:" + prop}
		var baseDecls, impCanon string
		ok := ctx.GuardFail(desc("a", baseFeats, prop+":"+v), baseFeats, func() {
			l := parseDecls(prop + ":" + v)
			baseDecls = canonDecls(l)
			if sh {
				c.checkLonghandSet(ctx, prop, prop+":"+v, l, []string{"shorthand:" + prop, "generic-longhand-set"}, false)
			}
			for i := range l {
				l[i].Important = true
			}
			impCanon = canonDecls(l)
		})
		if !ok {
			ctx.Case(true, "panic")
			continue
		}
		ctx.Case(true, baseDecls)
		vs := c.variantsOf(prop, v, baseDecls, pi.ntok[ai] <= 2 || len(pi.accepted) <= 400, probe, count)
		ctx.Trans(int64(len(vs)))
		failedSingle := map[string]bool{}
		for pass := 0; pass < 2; pass++ {
			for _, va := range vs {
				if va.single != (pass == 0) {
					continue
				}
				if !va.single && failedSingle[va.clause] {
					continue // implied by a single-change variant that already failed
				}
				var got string
				if !ctx.GuardFail(desc("a", va.feats, va.css), va.feats, func() { got = canonDecls(parseDecls(va.css)) }) {
					failedSingle[va.clause] = true
					continue
				}
				ctx.Count("a:variants-compared:"+va.clause, 1)
				want := baseDecls
				if va.imp {
					want = impCanon
				}
				if got != want {
					failedSingle[va.clause] = true
					ctx.Fail(engine.Failure{Clause: va.clause, Features: va.feats, Case: va.css,
						Detail: "reference spelling: " + prop + ":" + v + "\nwant " + oneLine(want) + "\ngot  " + oneLine(got)})
				}
			}
		}
	}
	c.runListFamily(ctx, prop, pi)
	// the long lists are not needed any more (part c and the shorthands only use the short ones)
	pi.accepted, pi.ntok, pi.full = nil, nil, false
}

func oneLine(s string) string {
	if s == "" {
		return "(no declaration: rejected)"
	}
	return strings.ReplaceAll(s, "\n", " ")
}
