package c08

import (
	"fmt"
	"sort"
	"strings"

	pr "github.com/benoitkugler/webrender/css/properties"
	"github.com/benoitkugler/webrender/html/tree"
	"github.com/benoitkugler/webrender/text"
	"github.com/benoitkugler/webrender/text/hyphen"
	"github.com/benoitkugler/webrender/utils"

	"verif/internal/engine"
	"verif/internal/render"
)

// textCtx is the text layout context handed to the style computation (font-relative units,
// strut of percentage vertical-align ...): the Ahem-only font configuration of the harness,
// fresh caches per document.
type textCtx struct {
	fonts text.FontConfiguration
	hy    map[text.HyphenDictKey]hyphen.Hyphener
	strut map[text.StrutLayoutKey][2]pr.Float
}

func (t *textCtx) Fonts() text.FontConfiguration                          { return t.fonts }
func (t *textCtx) HyphenCache() map[text.HyphenDictKey]hyphen.Hyphener    { return t.hy }
func (t *textCtx) StrutLayoutsCache() map[text.StrutLayoutKey][2]pr.Float { return t.strut }

var sharedFonts text.FontConfiguration

func newTextCtx() *textCtx {
	if sharedFonts == nil {
		sharedFonts = render.LightFontConfig("pango")
	}
	return &textCtx{fonts: sharedFonts, hy: map[text.HyphenDictKey]hyphen.Hyphener{}, strut: map[text.StrutLayoutKey][2]pr.Float{}}
}

// Part c: var(). Everything is observed on the computed style of probe elements
// (tree.NewHTML + tree.GetAllComputedStyles, no layout): the probe that routes a value through
// custom properties must have exactly the computed style (all properties) of the probe that
// spells the value directly, or - undefined / ill-typed / cyclic - of the probe that declares
// `inherit` (inherited properties) or `initial` (the others).

type cUnit struct {
	kind  string // "prop" | "graph" | "misc" | "shared"
	sh    []int
	prop  string
	graph []int // edge sets (kind graph)
	mode  string
	misc  []int
}

// ---- documents --------------------------------------------------------------------------------

type probe struct {
	class  string
	parent string // style of a wrapper element ("" = no wrapper)
	style  string
	sheet  string // declarations put in a <style> rule instead of the style attribute
	expect string // class of the probe whose computed style must be equal
	feats  []string
	what   string
}

func buildDoc(outer string, probes []probe) string {
	var sheet, body strings.Builder
	for _, p := range probes {
		if p.sheet != "" {
			fmt.Fprintf(&sheet, ".%s { %s }\n", p.class, p.sheet)
		}
		open, close := "", ""
		if p.parent != "" {
			open, close = fmt.Sprintf(`<div style="%s">`, esc(p.parent)), "</div>"
		}
		fmt.Fprintf(&body, `%s<div class="%s" style="%s">x</div>%s`+"\n", open, p.class, esc(p.style), close)
	}
	return fmt.Sprintf("<html><head><style>%s</style></head><body><div style=\"%s\">\n%s</div></body></html>", sheet.String(), esc(outer), body.String())
}

func esc(s string) string {
	s = strings.ReplaceAll(s, "&", "&amp;")
	return strings.ReplaceAll(s, `"`, "&quot;")
}

// computedOf returns the canonical computed style (every property) of each probe class.
func computedOf(html string) map[string]string {
	doc, err := tree.NewHTML(utils.InputString(html), "http://x/", nil, "")
	if err != nil {
		panic("verif: cannot parse the probe document: " + err.Error())
	}
	tc := newTextCtx()
	sf := tree.GetAllComputedStyles(doc, nil, false, tc.fonts, nil, nil, nil, false, tc)
	out := map[string]string{}
	it := doc.Root.Iter()
	for it.HasNext() {
		e := it.Next()
		for _, a := range e.Attr {
			if a.Key == "class" {
				st := sf.Get(e, "")
				var sb strings.Builder
				for k := pr.KnownProp(1); k < pr.NbProperties; k++ {
					n := k.String()
					if n == "" {
						continue
					}
					sb.WriteString(n)
					sb.WriteByte('=')
					sb.WriteString(canonDeclared(st.Get(k.Key())))
					sb.WriteByte('\n')
				}
				out[strings.Fields(a.Val + " -")[0]] = sb.String() // keyed by the first class
			}
		}
	}
	return out
}

func styleDiff(want, got string) string {
	w, g := strings.Split(want, "\n"), strings.Split(got, "\n")
	var d []string
	for i := range w {
		if i < len(g) && w[i] != g[i] {
			d = append(d, "want "+w[i]+" | got "+g[i])
		}
	}
	if len(d) > 4 {
		d = append(d[:4], fmt.Sprintf("… %d properties differ", len(d)))
	}
	return strings.Join(d, "\n")
}

// runDoc evaluates one document and compares every probe with the probe it must equal.
// On a panic the probes are re-run one per document to find the guilty one.
func (c *check) runDoc(ctx *engine.Ctx, outer string, probes []probe, baseFeats []string, retry bool) {
	html := buildDoc(outer, probes)
	var styles map[string]string
	var descText strings.Builder
	descText.WriteString("outer{" + outer + "}")
	featSet := map[string]bool{}
	for _, f := range baseFeats {
		featSet[f] = true
	}
	for _, p := range probes {
		if p.expect == "" {
			continue
		}
		fmt.Fprintf(&descText, " %s{%s%s}", p.class, p.style, p.sheet)
		if p.parent != "" {
			fmt.Fprintf(&descText, "<parent{%s}", p.parent)
		}
		for _, f := range p.feats {
			featSet[f] = true
		}
	}
	var feats []string
	for f := range featSet {
		feats = append(feats, f)
	}
	sort.Strings(feats)
	pi, skipped := ctx.Guard(desc("c", feats, descText.String()), func() { styles = computedOf(html) })
	if skipped {
		return
	}
	if pi != nil {
		n := 0
		for _, p := range probes {
			if p.expect != "" {
				n++
			}
		}
		if retry {
			// does the direct spelling crash on its own? then var() has nothing to do with it
			var refs []probe
			for _, q := range probes {
				if q.expect == "" {
					refs = append(refs, q)
				}
			}
			rf := append(append([]string{}, baseFeats...), "direct-spelling")
			var rd strings.Builder
			for _, q := range refs {
				fmt.Fprintf(&rd, "%s{%s} ", q.class, q.style)
			}
			if pi2, _ := ctx.Guard(desc("c", rf, "outer{"+outer+"} "+rd.String()), func() { computedOf(buildDoc(outer, refs)) }); pi2 != nil {
				ctx.Case(true, "panic")
				ctx.Count("c:direct-spelling-panics", 1)
				ctx.Fail(engine.Failure{Clause: "panic", Site: pi2.Site, Features: rf, Case: "outer{" + outer + "} " + rd.String(), Detail: pi2.Msg})
				return
			}
		}
		if n > 1 && retry {
			// localise: one tested probe per document (with the reference probes)
			for _, p := range probes {
				if p.expect == "" {
					continue
				}
				var sub []probe
				for _, q := range probes {
					if q.expect == "" || q.class == p.class {
						sub = append(sub, q)
					}
				}
				c.runDoc(ctx, outer, sub, baseFeats, false)
			}
			return
		}
		ctx.Case(true, "panic")
		ctx.Fail(engine.Failure{Clause: "panic", Site: pi.Site, Features: feats, Case: descText.String(), Detail: pi.Msg})
		return
	}
	for _, p := range probes {
		if p.expect == "" {
			continue
		}
		ctx.Trans(1)
		got, want := styles[p.class], styles[p.expect]
		ctx.Case(true, got)
		ctx.Count("c:computed-styles-compared", 1)
		ctx.Count("c:form:"+p.what, 1)
		if got == "" || want == "" {
			panic("verif: probe element not found in the document")
		}
		if got != want {
			f := append(append([]string{}, baseFeats...), p.feats...)
			cs := fmt.Sprintf("outer{%s} parent{%s} element{%s%s}", outer, p.parent, p.style, p.sheet)
			var ref string
			for _, q := range probes {
				if q.class == p.expect {
					ref = q.style
				}
			}
			ctx.Fail(engine.Failure{Clause: "var-substitution", Features: f, Case: cs,
				Detail: "computed style must equal that of element{" + ref + "}\n" + styleDiff(want, got)})
		}
	}
}

func hasCSSWideKeyword(v string) bool {
	for _, p := range lexValue(v) {
		if p.kind == kIdent && p.depth == 0 {
			if l := strings.ToLower(p.text); l == "inherit" || l == "initial" || l == "unset" {
				return true
			}
		}
	}
	return false
}

// ---- per property ----------------------------------------------------------------------------

// defaultDecls spells "inherited value for inherited properties, initial value otherwise".
func defaultDecls(prop string) string {
	lhs := longhandsOf[prop]
	if lhs == nil {
		lhs = []string{prop}
	}
	var parts []string
	seen := map[string]bool{}
	for _, l := range lhs {
		if seen[l] {
			continue
		}
		seen[l] = true
		kp, ok := pr.PropsFromNames[l]
		if ok && pr.Inherited.Has(kp) {
			parts = append(parts, l+": inherit")
		} else {
			parts = append(parts, l+": initial")
		}
	}
	return strings.Join(parts, "; ")
}

var illTyped = []string{"red", "1px", "auto", "none", `"s"`, "1", "block", "1px 2px 3px 4px 5px", "url(a)"}

func (c *check) runCProp(prop string, ctx *engine.Ctx) {
	pi := c.enumerateLight(ctx, prop)
	// values: accepted one-token values over (core tokens + keywords); thorough: + two-token values
	type val struct {
		v    string
		n    int
		last string // last token of a two-token value
	}
	var vals []val
	for _, s := range pi.singles {
		if s == "," || s == "/" {
			// a lone separator is no value of any grammar (some validators let it through)
			continue
		}
		if hasCSSWideKeyword(s) {
			// CSS-wide keywords given to a custom property apply to the custom property
			// itself; they are not tokens to substitute (left open by the property)
			continue
		}
		vals = append(vals, val{s, 1, ""})
	}
	{
		lim := 40
		if c.thorough {
			lim = 600
		}
		for i, s := range pi.acc2 {
			if l := pi.acc2last[i]; hasCSSWideKeyword(s) || l == "," || l == "/" || strings.HasPrefix(s, ", ") || strings.HasPrefix(s, "/ ") {
				// values that begin or end with a separator are in no grammar
				continue
			}
			if i >= lim {
				ctx.Count("c:two-token-values-beyond-cap", int64(len(pi.acc2)-lim))
				break
			}
			vals = append(vals, val{s, 2, pi.acc2last[i]})
		}
	}
	if len(vals) == 0 {
		return
	}
	// canonical declared forms, to pick a second value that differs
	canon := map[string]string{}
	for _, v := range vals {
		if v.n == 1 {
			canon[v.v], _ = c.canonOf(ctx, "c", []string{"prop:" + prop}, prop+":"+v.v)
		}
	}
	var bad []string
	for _, b := range illTyped {
		if !c.accepts(ctx, "c", prop, b) {
			bad = append(bad, b)
		}
		if len(bad) == 2 {
			break
		}
	}
	dflt := defaultDecls(prop)
	for _, v := range vals {
		v2 := ""
		for _, w := range vals {
			if w.n == 1 && w.v != v.v && canon[w.v] != "" && canon[w.v] != canon[v.v] && !strings.Contains(w.v, ",") {
				v2 = w.v
				break
			}
		}
		P := prop
		bf := []string{"prop:" + prop, fmt.Sprintf("tokens:%d", v.n)}
		if strings.Contains(v.v, ",") {
			bf = append(bf, "value-with-comma")
		}
		if strings.Contains(v.v, "url(") && !strings.Contains(v.v, "url(#") {
			bf = append(bf, "value:relative-url")
		}
		probes := []probe{
			{class: "ref", style: P + ": " + v.v},
			{class: "dflt", style: dflt},
			{class: "f1", style: "--x: " + v.v + "; " + P + ": var(--x)", expect: "ref", feats: []string{"var-direct"}, what: "defined"},
			{class: "f2", style: P + ": var(--x); --x: " + v.v, expect: "ref", feats: []string{"var-direct", "declared-after-use"}, what: "defined-after-use"},
			{class: "f3", style: P + ": var(--u, " + v.v + ")", expect: "ref", feats: []string{"var-fallback"}, what: "fallback"},
			{class: "f5", style: P + ": var(--u)", expect: "dflt", feats: []string{"var-undefined"}, what: "undefined"},
			{class: "f8", style: "--X: " + v.v + "; " + P + ": var(--x)", expect: "dflt", feats: []string{"var-undefined", "var-name-case"}, what: "name-case"},
			{class: "f9", style: "--x: " + v.v + "; " + P + ": VAR(--x)", expect: "ref", feats: []string{"var-direct", "upper-function:var"}, what: "upper-var"},
			{class: "f10", style: "--x: " + v.v + "; " + P + ":var( --x )", expect: "ref", feats: []string{"var-direct", "ws:inside-var"}, what: "spaces-inside-var"},
			{class: "f10b", style: "--x:/**/" + v.v + "/**/; " + P + ":var(/**/--x/**/)", expect: "ref", feats: []string{"var-direct", "ws:comment-inside-var"}, what: "comments-inside-var"},
			{class: "f12", parent: "--x: " + v.v, style: P + ": var(--x)", expect: "ref", feats: []string{"var-direct", "var-inherited"}, what: "inherited-custom-property"},
			{class: "f13", style: "--y: " + v.v + "; --x: var(--y); " + P + ": var(--x)", expect: "ref", feats: []string{"var-chain"}, what: "chain"},
			{class: "f14", sheet: "--x: " + v.v + "; " + P + ": var(--x)", expect: "ref", feats: []string{"var-direct", "in-stylesheet"}, what: "stylesheet-rule"},
			{class: "f15", style: "--x: " + v.v + "; " + P + ": var(--x) !important", expect: "ref", feats: []string{"var-direct", "important"}, what: "important"},
		}
		outer := ""
		if v2 != "" {
			outer = P + ": " + v2
			probes = append(probes,
				probe{class: "f4", style: "--x: " + v.v + "; " + P + ": var(--x, " + v2 + ")", expect: "ref", feats: []string{"var-fallback-unused"}, what: "fallback-unused"},
				probe{class: "f7", style: P + ": " + v2 + "; " + P + ": var(--u)", expect: "dflt", feats: []string{"var-undefined", "earlier-declaration"}, what: "undefined-after-valid-declaration"},
				probe{class: "f11", style: "--x: " + v.v + "; " + P + ": var(--x) !important; " + P + ": " + v2, expect: "ref", feats: []string{"var-direct", "important", "later-declaration"}, what: "important-beats-later"},
				probe{class: "f16", style: "--x: " + v.v + "; " + P + ": " + v2 + "; " + P + ": var(--x)", expect: "ref", feats: []string{"var-direct", "earlier-declaration"}, what: "defined-after-valid-declaration"},
			)
		}
		for i, b := range bad {
			probes = append(probes, probe{class: fmt.Sprintf("f6%d", i), style: "--x: " + b + "; " + P + ": var(--x)", expect: "dflt", feats: []string{"var-ill-typed"}, what: "ill-typed"})
		}
		if v.n == 2 && !strings.ContainsAny(v.last, "(,/") {
			first := strings.TrimSuffix(v.v, " "+v.last)
			probes = append(probes, probe{class: "f17", style: "--x: " + v.last + "; " + P + ": " + first + " var(--x)", expect: "ref", feats: []string{"var-partial"}, what: "partial"})
		}
		c.runDoc(ctx, outer, probes, bf, true)
	}
}

// ---- graphs of custom properties ---------------------------------------------------------------

var gNames = []string{"a", "b", "c", "d"}

// graph reference model: substitution with cycle detection (CSS Variables 1 §2.3: every custom
// property of a cycle is invalid at computed-value time, and so is whatever references it
// without a fallback).
type graph struct {
	n     int
	edges [4][4]bool
	lit   [4]string
	mode  string // "color": a node is its literal if it has no reference, else only references; "margin": literal then references
}

func mkGraph(n, bits int, mode string) graph {
	g := graph{n: n, mode: mode}
	for i := 0; i < n; i++ {
		for j := 0; j < n; j++ {
			g.edges[i][j] = bits&(1<<(i*n+j)) != 0
		}
	}
	if mode == "margin" {
		g.lit = [4]string{"1px", "2px", "3px", "4px"}
	} else {
		g.lit = [4]string{"#010203", "#040506", "#070809", "#0a0b0c"}
	}
	return g
}

func (g graph) outDegree(i int) int {
	n := 0
	for j := 0; j < g.n; j++ {
		if g.edges[i][j] {
			n++
		}
	}
	return n
}

func (g graph) value(i int) string {
	var parts []string
	if g.mode == "margin" || g.outDegree(i) == 0 {
		parts = append(parts, g.lit[i])
	}
	for j := 0; j < g.n; j++ {
		if g.edges[i][j] {
			parts = append(parts, "var(--"+gNames[j]+")")
		}
	}
	return strings.Join(parts, " ")
}

// resolve returns the fully substituted tokens of node i, ok=false when a cycle is reachable.
func (g graph) resolve(i int, onPath [4]bool) (toks []string, ok bool) {
	if onPath[i] {
		return nil, false
	}
	onPath[i] = true
	if g.mode == "margin" || g.outDegree(i) == 0 {
		toks = append(toks, g.lit[i])
	}
	for j := 0; j < g.n; j++ {
		if g.edges[i][j] {
			sub, ok := g.resolve(j, onPath)
			if !ok {
				return nil, false
			}
			toks = append(toks, sub...)
			if len(toks) > 64 {
				toks = toks[:64] // far beyond what any property accepts; keeps diamonds bounded
			}
		}
	}
	return toks, true
}

func (g graph) decls() string {
	var parts []string
	for i := 0; i < g.n; i++ {
		parts = append(parts, "--"+gNames[i]+": "+g.value(i))
	}
	return strings.Join(parts, "; ")
}

// cycleReachable: does following references from node a reach a cycle?
func (g graph) cycleReachable() bool {
	_, ok := g.resolve(0, [4]bool{})
	return !ok
}

type gCase struct {
	n    int
	bits int
	form string // color | color-fallback | margin
}

func (c *check) graphCases() []gCase {
	var out []gCase
	sizes := []int{3}
	if c.thorough {
		sizes = []int{3, 4}
	}
	for _, n := range sizes {
		for bits := 0; bits < 1<<(n*n); bits++ {
			g := mkGraph(n, bits, "color")
			if n == 4 {
				// four names: only the graphs that really use the fourth one and in which
				// every node is reachable from a (the others are covered by the 3-name graphs)
				if !g.allReachable() {
					continue
				}
			}
			for _, f := range []string{"color", "color-fallback", "margin"} {
				if f == "color-fallback" && g.cycleReachable() {
					// CSS Variables says a cyclic custom property is guaranteed-invalid and var()
					// then takes its fallback; the property statement says a cyclic reference is
					// invalid at computed-value time. The two disagree: not asserted.
					continue
				}
				out = append(out, gCase{n, bits, f})
			}
		}
	}
	return out
}

func (g graph) allReachable() bool {
	seen := [4]bool{}
	var walk func(i int)
	walk = func(i int) {
		if seen[i] {
			return
		}
		seen[i] = true
		for j := 0; j < g.n; j++ {
			if g.edges[i][j] {
				walk(j)
			}
		}
	}
	walk(0)
	for i := 0; i < g.n; i++ {
		if !seen[i] {
			return false
		}
	}
	return true
}

func (c *check) runGraph(gc gCase, ctx *engine.Ctx) {
	mode := "color"
	if gc.form == "margin" {
		mode = "margin"
	}
	g := mkGraph(gc.n, gc.bits, mode)
	toks, ok := g.resolve(0, [4]bool{})
	nEdges := 0
	for i := 0; i < 16; i++ {
		if gc.bits&(1<<i) != 0 {
			nEdges++
		}
	}
	feats := []string{"var-graph", "graph-form:" + gc.form, fmt.Sprintf("graph-names:%d", gc.n), fmt.Sprintf("graph-edges:%d", nEdges)}
	if !ok {
		feats = append(feats, "var-cycle")
		switch {
		case g.edges[0][0]:
			feats = append(feats, "var-cycle:self")
		}
	} else {
		feats = append(feats, "var-acyclic")
	}
	var probes []probe
	switch gc.form {
	case "color":
		exp := "dflt"
		probes = []probe{{class: "dflt", style: "color: inherit"}}
		if ok {
			exp = "ref"
			probes = append(probes, probe{class: "ref", style: "color: " + strings.Join(toks, " ")})
		}
		probes = append(probes, probe{class: "t", style: g.decls() + "; color: var(--a)", expect: exp, feats: feats, what: "graph-" + gc.form})
	case "color-fallback":
		// a cyclic (hence guaranteed-invalid) custom property makes var() take its fallback
		exp := "fb"
		probes = []probe{{class: "fb", style: "color: #0d0e0f"}}
		if ok {
			exp = "ref"
			probes = append(probes, probe{class: "ref", style: "color: " + strings.Join(toks, " ")})
		}
		probes = append(probes, probe{class: "t", style: g.decls() + "; color: var(--a, #0d0e0f)", expect: exp, feats: feats, what: "graph-" + gc.form})
	case "margin":
		exp := "dflt"
		probes = []probe{{class: "dflt", style: "margin: initial"}}
		if ok {
			exp = "ref"
			probes = append(probes, probe{class: "ref", style: "margin: " + strings.Join(toks, " ")})
		}
		probes = append(probes, probe{class: "t", style: g.decls() + "; margin: var(--a)", expect: exp, feats: feats, what: "graph-" + gc.form})
	}
	c.runDoc(ctx, "color: #aabbcc; margin: 7px", probes, nil, false)
}

// ---- var() inside functions, fallbacks with commas ... ------------------------------------------

type miscCase struct {
	name   string
	style  string // declarations of the tested element
	direct string // direct spelling ("" with dflt set: the default of that property)
	dflt   string
	feats  []string
}

var miscCases = []miscCase{
	{"function-argument", "--r: 255; color: rgb(var(--r), 0, 0)", "color: rgb(255, 0, 0)", "", []string{"var-in-function:rgb", "var-nested-depth:1"}},
	{"function-arguments-with-commas", "--rgb: 1, 2, 3; color: rgb(var(--rgb))", "color: rgb(1, 2, 3)", "", []string{"var-in-function:rgb", "var-value-with-commas"}},
	{"gradient-argument", "--c: red; background-image: linear-gradient(var(--c), blue)", "background-image: linear-gradient(red, blue)", "", []string{"var-in-function:linear-gradient", "var-nested-depth:1"}},
	{"function-in-function", "--r: 255; background-image: linear-gradient(rgb(var(--r), 0, 0), blue)", "background-image: linear-gradient(rgb(255, 0, 0), blue)", "", []string{"var-in-function:rgb", "var-nested-depth:2"}},
	{"function-in-function-undefined", "background-image: linear-gradient(rgb(var(--u), 0, 0), blue)", "", "background-image", []string{"var-in-function:rgb", "var-nested-depth:2", "var-undefined"}},
	{"transform-argument", "--x: 5px; transform: translate(var(--x), 2px)", "transform: translate(5px, 2px)", "", []string{"var-in-function:translate", "var-nested-depth:1"}},
	{"transform-angle", "--a: 30deg; transform: rotate(var(--a))", "transform: rotate(30deg)", "", []string{"var-in-function:rotate", "var-nested-depth:1"}},
	{"counter-name", "--n: k; content: counter(var(--n))", "content: counter(k)", "", []string{"var-in-function:counter", "var-nested-depth:1"}},
	{"shorthand-partial", "--m: 2px 3px; margin: 1px var(--m)", "margin: 1px 2px 3px", "", []string{"var-partial", "shorthand:margin"}},
	{"shorthand-two-vars", "--p: 1px; --q: 4px; margin: var(--p) var(--q)", "margin: 1px 4px", "", []string{"var-partial", "shorthand:margin"}},
	{"border-shorthand", "--w: 2px; border: var(--w) solid red", "border: 2px solid red", "", []string{"var-partial", "shorthand:border"}},
	{"font-shorthand", "--f: a b; font: italic 10px/1.5 var(--f)", "font: italic 10px/1.5 a b", "", []string{"var-partial", "shorthand:font"}},
	{"background-shorthand", "--c: red; background: url(a) no-repeat var(--c)", "background: url(a) no-repeat red", "", []string{"var-partial", "shorthand:background", "value:relative-url"}},
	{"background-shorthand-absolute-url", "--c: red; background: url(http://y/a) no-repeat var(--c)", "background: url(http://y/a) no-repeat red", "", []string{"var-partial", "shorthand:background"}},
	{"relative-url-in-variable", "--i: url(a); list-style-image: var(--i)", "list-style-image: url(a)", "", []string{"var-direct", "value:relative-url"}},
	{"absolute-url-in-variable", "--i: url(http://y/a); list-style-image: var(--i)", "list-style-image: url(http://y/a)", "", []string{"var-direct"}},
	{"list-with-comma", "--f: a; font-family: var(--f), serif", "font-family: a, serif", "", []string{"var-partial"}},
	{"white-space-around-value", "--w:   10px  ; width: var(--w)", "width: 10px", "", []string{"var-direct", "ws:around-custom-property-value"}},
	{"upper-case-functions", "--r: 255; color: RGB(VAR(--r), 0, 0)", "color: rgb(255, 0, 0)", "", []string{"var-in-function:rgb", "upper-function:var"}},
	{"nested-fallback", "color: var(--u, var(--v, red))", "color: red", "", []string{"var-fallback", "var-fallback-nested"}},
	{"nested-fallback-defined", "--v: blue; color: var(--u, var(--v, red))", "color: blue", "", []string{"var-fallback", "var-fallback-nested"}},
	{"nested-fallback-undefined", "color: var(--u, var(--v))", "", "color", []string{"var-fallback", "var-fallback-nested", "var-undefined"}},
	{"fallback-with-comma", "font-family: var(--u, a, b)", "font-family: a, b", "", []string{"var-fallback", "var-fallback-with-comma"}},
	{"fallback-two-tokens", "margin: var(--u, 1px 2px)", "margin: 1px 2px", "", []string{"var-fallback", "shorthand:margin"}},
	{"fallback-no-space", "color: var(--u,red)", "color: red", "", []string{"var-fallback"}},
	{"fallback-space-before-comma", "color: var(--u , red)", "color: red", "", []string{"var-fallback"}},
	{"fallback-in-function", "background-image: linear-gradient(var(--u, red), blue)", "background-image: linear-gradient(red, blue)", "", []string{"var-fallback", "var-in-function:linear-gradient"}},
	{"fallback-ill-typed", "width: var(--u, red)", "", "width", []string{"var-fallback", "var-ill-typed"}},
	{"two-references-one-undefined", "--p: 1px; margin: var(--p) var(--u)", "", "margin", []string{"var-undefined", "var-undefined-among-tokens", "shorthand:margin"}},
	{"two-references-one-undefined-longhand", "--p: 1px; border-spacing: var(--p) var(--u)", "", "border-spacing", []string{"var-undefined", "var-undefined-among-tokens"}},
	{"undefined-then-token", "font-family: var(--u) serif", "", "font-family", []string{"var-undefined", "var-undefined-among-tokens"}},
	{"custom-property-important", "--x: red !important; --x: blue; color: var(--x)", "color: red", "", []string{"var-direct", "important-custom-property"}},
	{"custom-property-redeclared", "--x: red; --x: blue; color: var(--x)", "color: blue", "", []string{"var-direct", "custom-property-redeclared"}},
	{"reference-to-var-with-fallback", "--y: var(--u, 4px); width: var(--y)", "width: 4px", "", []string{"var-chain", "var-fallback"}},
	{"invalid-longhand-does-not-fall-back", "width: 5px; width: var(--u)", "", "width", []string{"var-undefined", "earlier-declaration"}},
	{"inherited-property-takes-parent", "color: var(--u)", "", "color", []string{"var-undefined"}},
	{"var-in-custom-ident-list", "--n: k; counter-reset: var(--n) 2", "counter-reset: k 2", "", []string{"var-partial"}},
}

func (c *check) runMisc(i int, ctx *engine.Ctx) {
	m := miscCases[i]
	exp := "ref"
	ref := probe{class: "ref", style: m.direct}
	if m.direct == "" {
		exp = "dflt"
		ref = probe{class: "dflt", style: defaultDecls(m.dflt)}
	}
	feats := append([]string{"misc:" + m.name}, m.feats...)
	probes := []probe{ref, {class: "t", style: m.style, expect: exp, feats: feats, what: "misc"}}
	c.runDoc(ctx, "color: #aabbcc; width: 77px; margin: 7px; font-family: zz; background-image: url(p)", probes, nil, false)
}

// ---- units ------------------------------------------------------------------------------------

const gBatch = 12

func (c *check) initC() {
	c.cUnits = nil
	for _, n := range c.names {
		c.cUnits = append(c.cUnits, cUnit{kind: "prop", prop: n})
	}
	gcs := c.graphCases()
	for lo := 0; lo < len(gcs); lo += gBatch {
		hi := lo + gBatch
		if hi > len(gcs) {
			hi = len(gcs)
		}
		u := cUnit{kind: "graph"}
		for k := lo; k < hi; k++ {
			u.graph = append(u.graph, k)
		}
		c.cUnits = append(c.cUnits, u)
	}
	c.gCases = gcs
	for lo := 0; lo < len(miscCases); lo += 4 {
		u := cUnit{kind: "misc"}
		for k := lo; k < lo+4 && k < len(miscCases); k++ {
			u.misc = append(u.misc, k)
		}
		c.cUnits = append(c.cUnits, u)
	}
	c.lyVars = lyVarCases()
	for k := range c.lyVars {
		c.cUnits = append(c.cUnits, cUnit{kind: "layers", misc: []int{k}})
	}
	c.shCases = c.sharedCases()
	for lo := 0; lo < len(c.shCases); lo += 8 {
		u := cUnit{kind: "shared"}
		for k := lo; k < lo+8 && k < len(c.shCases); k++ {
			u.sh = append(u.sh, k)
		}
		c.cUnits = append(c.cUnits, u)
	}
	c.nC = int64(len(c.cUnits))
}

func (c *check) runC(u int64, ctx *engine.Ctx) {
	cu := c.cUnits[u]
	switch cu.kind {
	case "prop":
		c.runCProp(cu.prop, ctx)
	case "graph":
		for _, k := range cu.graph {
			c.runGraph(c.gCases[k], ctx)
		}
	case "misc":
		for _, k := range cu.misc {
			c.runMisc(k, ctx)
		}
	case "shared":
		for _, k := range cu.sh {
			c.runShared(c.shCases[k], ctx)
		}
	case "layers":
		for _, k := range cu.misc {
			c.runLayerVar(c.lyVars[k], ctx)
		}
	}
}

func (c *check) describeC(u int64) any {
	cu := c.cUnits[u]
	switch cu.kind {
	case "prop":
		return map[string]any{"part": "c", "property": cu.prop, "explored": "every accepted one-token value and the first 40 (thorough: 600) accepted two-token values, routed through custom properties in 15-20 forms"}
	case "graph":
		var l []string
		for _, k := range cu.graph {
			gc := c.gCases[k]
			mode := "color"
			if gc.form == "margin" {
				mode = "margin"
			}
			l = append(l, gc.form+": "+mkGraph(gc.n, gc.bits, mode).decls())
		}
		return map[string]any{"part": "c", "custom_property_graphs": l}
	}
	if cu.kind == "layers" {
		vc := c.lyVars[cu.misc[0]]
		return map[string]any{"part": "c", "layered_background": "background: " + lyMake(vc.pres, vc.rot, true, lyImagesAbs).value,
			"explored": "var() as the whole value, as each whole layer and as each component of each layer, against the long-hand spelling"}
	}
	if cu.kind == "shared" {
		var l []string
		for _, k := range cu.sh {
			sc := c.shCases[k]
			l = append(l, ".s { "+shTemplates[sc.t].decl+" } matched by "+shConfigs(shTemplates[sc.t])[sc.cfg].name)
		}
		return map[string]any{"part": "c", "shared_declarations": l}
	}
	var l []string
	for _, k := range cu.misc {
		l = append(l, miscCases[k].style)
	}
	return map[string]any{"part": "c", "cases": l}
}
