package c08

import (
	"fmt"
	"testing"
	"time"
)

func TestScratchUnits(t *testing.T) {
	for _, tier := range []string{"quick", "thorough"} {
		c := &check{}
		t0 := time.Now()
		sp := c.Init(tier, 0)
		fmt.Println(time.Since(t0), tier, "units", sp.Units, "A", c.nA, "B", c.nB, len(c.bCases), "C", c.nC, len(c.gCases), "D", c.nD, len(c.dBlocks))
	}
}
