package c08

import (
	"go/ast"
	"go/parser"
	"go/token"
	"os"
	"path/filepath"
	"reflect"
	"regexp"
	"runtime"
	"sort"
	"strconv"
	"strings"

	pr "github.com/benoitkugler/webrender/css/properties"
	"github.com/benoitkugler/webrender/css/validation"
)

// ---- token alphabet -----------------------------------------------------------------------

// tokSingle: every non-keyword token tried alone (one representative per unit, per function
// form and per branch of the validators).
var tokSingle = []string{
	// numbers
	"0", "1", "-1", "1.5", "2", "100", "400", "5",
	// lengths: every unit of LENGTHUNITS, signs, zero
	"10px", "2em", "1ex", "1ch", "1rem", "12pt", "1pc", "1in", "1cm", "5mm", "3q", "-3px", "0px", "1.5em",
	// percentages
	"50%", "-50%", "0%", "100%",
	// angles, resolutions, flex, time (never accepted: no property takes a time)
	"90deg", "1rad", "1turn", "100grad", "0deg", "-45deg", "2dppx", "96dpi", "38dpcm", "2fr", "1s",
	// colours
	"#fff", "#ff0000", "#FfF", "rgb(1,2,3)", "rgba(0,0,0,.5)", "hsl(120,100%,50%)", "rgb(10% 20% 30%)",
	// strings and urls
	`"s"`, `"abcd"`, `""`, `"a b"`, "url(a)", `url("a")`, "url(#a)",
	// separators
	",", "/",
	// functions
	"calc(1px)", "attr(x)", "attr(x string)", "attr(x url)", "attr(x px)", "attr(x color)", `attr(x string "f")`, "attr(x deg)",
	"counter(a)", "counter(a, disc)", "counter(a, upper-roman)", `counters(a,".")`, `counters(a,".",lower-alpha)`,
	`symbols(cyclic "a")`, `symbols("a" "b")`, `symbols(numeric "0" "1")`, `symbols(fixed "a")`,
	"repeat(2,1fr)", "repeat(auto-fill, 10px)", "repeat(auto-fit, 10px)", "repeat(2, [a] 1fr)", "minmax(1px,2fr)", "minmax(auto, 1px)", "minmax(min-content, max-content)", "fit-content(1px)", "fit-content(50%)",
	"linear-gradient(red,blue)", "linear-gradient(to top left, red 10%, blue)", "linear-gradient(to right, red, blue 5px)", "linear-gradient(45deg, red, blue)", "repeating-linear-gradient(red, blue)",
	"radial-gradient(circle, red, blue)", "radial-gradient(closest-side at top, red, blue)", "radial-gradient(10px 20px, red, blue)", "radial-gradient(ellipse farthest-corner at 10px 20%, red, blue)", "repeating-radial-gradient(red,blue)",
	"[a]", "[]", "[a b]",
	"rotate(1deg)", "skew(1deg)", "skewx(1deg)", "skewy(1deg)", "translate(1px)", "translate(1px, 2%)", "translatex(1px)", "translatey(1em)",
	"scale(2)", "scale(2,3)", "scalex(2)", "scaley(2)", "matrix(1,0,0,1,0,0)",
	"rect(1px, auto, 2px, 3px)", "rect(1px auto 2em 3px)", "running(a)",
	"string(a)", "string(a, last)", "string(a, first-except)", "element(a)", "element(a, start)", "leader(dotted)", "leader(solid)", "leader(space)", `leader(".")`,
	"content()", "content(text)", "content(before)", "content(first-letter)",
	"target-counter(attr(href), page)", "target-counter(url(#a), page, upper-roman)", `target-counter("#a", a)`, `target-counters(attr(href), a, ".")`, `target-counters(attr(href), a, ".", disc)`,
	"target-text(attr(href))", "target-text(attr(href), before)", "target-text(url(#a), first-letter)",
	// custom identifiers
	"a", "bb", "my-font",
}

// tokCore: the non-keyword tokens used inside sequences of two and more tokens (one
// representative per family; all members of a family go through the same helper).
var tokCore = []string{
	"0", "1", "-1", "1.5", "2", "100",
	"10px", "2em", "-3px", "50%", "90deg", "2dppx", "2fr",
	"#fff", "rgb(1,2,3)", `"s"`, `"abcd"`, `"a b"`, "url(a)", ",", "/",
	"attr(x)", "attr(x url)", "counter(a)", `counters(a,".")`, `symbols(cyclic "a")`,
	"repeat(2,1fr)", "repeat(auto-fill, 10px)", "minmax(1px,2fr)", "fit-content(1px)",
	"linear-gradient(red,blue)", "radial-gradient(circle, red, blue)",
	"[a]", "[]", "rotate(1deg)", "translate(1px, 2%)", "scale(2)",
	"string(a)", "element(a)", "leader(dotted)", "content()", "target-counter(attr(href), page)", "target-text(attr(href))",
	"a", "bb",
}

// ctxKeywords: keywords that are only valid next to another token (never alone), so that the
// one-token pass cannot discover them. The thorough tier re-discovers this list by pairing
// every keyword of the source with every token (reach counter "ctx-keywords-discovered").
var ctxKeywords = []string{
	"safe", "unsafe", "first", "last", "legacy", "span", "fill", "flip", "dense", "crop", "cross",
	"portrait", "landscape", "on", "off", "to", "at", "auto-flow", "subgrid", "red", "normal", "none", "auto", "center",
	"left", "right", "top", "bottom", "baseline",
	"open-quote", "close-quote", "no-open-quote", "no-close-quote", "contents", "large", "smaller",
}

var kwRe = regexp.MustCompile(`^[a-z][a-z0-9]*(-[a-z0-9]+)*$`)

// sourceKeywords extracts every string literal that looks like a CSS keyword from the source
// of the validation package and of the keywords package (read as data: the alphabet then has
// one symbol per keyword the validators compare against, whatever is added later).
func sourceKeywords() (kws []string, origin string) {
	dirs := sourceDirs()
	set := map[string]bool{}
	for _, d := range dirs {
		fset := token.NewFileSet()
		entries, err := os.ReadDir(d)
		if err != nil {
			continue
		}
		for _, e := range entries {
			n := e.Name()
			if !strings.HasSuffix(n, ".go") || strings.HasSuffix(n, "_test.go") {
				continue
			}
			f, err := parser.ParseFile(fset, filepath.Join(d, n), nil, parser.SkipObjectResolution)
			if err != nil {
				continue
			}
			ast.Inspect(f, func(nd ast.Node) bool {
				if _, isImport := nd.(*ast.ImportSpec); isImport {
					return false
				}
				if bl, ok := nd.(*ast.BasicLit); ok && bl.Kind == token.STRING {
					if s, err := strconv.Unquote(bl.Value); err == nil && len(s) >= 2 && len(s) <= 30 && kwRe.MatchString(s) {
						set[s] = true
					}
				}
				return true
			})
		}
	}
	origin = "source:" + strings.Join(dirs, ",")
	if len(set) < 200 {
		// source not available: fall back to the snapshot taken when the check was written
		origin = "snapshot"
		for _, s := range keywordSnapshot {
			set[s] = true
		}
	}
	// data tables of the properties package
	for k := range pr.PageSizes {
		set[k] = true
	}
	for k := range pr.FontSizeKeywords {
		set[k] = true
	}
	for _, s := range []string{"red", "transparent", "currentcolor", "invert", "smaller", "larger", "disc", "decimal", "upper-roman", "serif", "sans-serif", "monospace"} {
		set[s] = true
	}
	for _, s := range ctxKeywords {
		set[s] = true
	}
	for s := range set {
		kws = append(kws, s)
	}
	sort.Strings(kws)
	return kws, origin
}

func sourceDirs() []string {
	var dirs []string
	if fn := runtime.FuncForPC(reflect.ValueOf(validation.PreprocessDeclarations).Pointer()); fn != nil {
		file, _ := fn.FileLine(fn.Entry())
		if strings.HasSuffix(file, ".go") && filepath.IsAbs(file) {
			d := filepath.Dir(file)
			dirs = append(dirs, d, filepath.Join(filepath.Dir(d), "properties", "keywords"))
		}
	}
	if len(dirs) == 0 {
		dirs = []string{"/repo/css/validation", "/repo/css/properties/keywords"}
	}
	return dirs
}

// ---- property names -----------------------------------------------------------------------

var shorthandNames = []string{
	"border-color", "border-style", "border-width", "border-image", "margin", "padding", "bleed", "border-radius",
	"page-break-after", "page-break-before", "page-break-inside", "background", "word-wrap", "list-style",
	"border", "border-top", "border-right", "border-bottom", "border-left", "column-rule", "outline", "columns",
	"font-variant", "font", "text-decoration", "flex", "flex-flow", "line-clamp", "text-align",
	"grid-column", "grid-row", "grid-area", "grid-template", "grid",
}

// propertyNames: every long-hand the library knows, every shorthand, sorted.
func propertyNames() []string {
	set := map[string]bool{}
	func() {
		defer func() { recover() }()
		for n := range pr.PropsFromNames {
			set[n] = true
		}
	}()
	for _, s := range shorthandNames {
		set[s] = true
	}
	var out []string
	for n := range set {
		out = append(out, n)
	}
	sort.Strings(out)
	return out
}

func isShorthand(name string) bool {
	for _, s := range shorthandNames {
		if s == name {
			return true
		}
	}
	return false
}

func dedup(l []string) []string {
	seen := map[string]bool{}
	var out []string
	for _, s := range l {
		if !seen[s] {
			seen[s] = true
			out = append(out, s)
		}
	}
	return out
}
