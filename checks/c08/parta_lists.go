package c08

import (
	"fmt"
	"sort"
	"strings"

	"verif/internal/engine"
)

// Part a, list family: comma separated lists compared by index.
//
// Every property (long-hand or shorthand) is tried as a comma separated list: the items are
// accepted comma-free values of one or two tokens of the property itself (found by the
// enumeration of part a, one per lexical shape first, pairwise different in what they mean), and
// every tuple of two and of three items is validated. Where the library accepts `P: i1, i2, i3`
// and each item alone yields a one-element list for a long-hand, the tuple must yield the
// n-element list whose k-th element is the element item k yields alone: a list means its items,
// in the order they are written (background-*, font-family, font-feature-settings,
// font-variation-settings, string-set, the layers of `background` ...). No reference model is
// involved: the library is compared with itself.

func (c *check) listItems(ctx *engine.Ctx, prop string, pi *propInfo) []string {
	max := 8
	if c.thorough {
		max = 12
	}
	type cand struct{ v, sig string }
	var cands []cand
	seenCanon := map[string]bool{}
	add := func(v string) {
		if hasCSSWideKeyword(v) {
			return
		}
		var sig []string
		for _, p := range lexValue(v) {
			if p.depth != 0 || p.kind == kWS {
				continue
			}
			if p.kind == kPunct && (p.text == "," || p.text == "/") {
				return // separators are not part of an item
			}
			s := fmt.Sprint(p.kind)
			switch p.kind {
			case kFunc:
				s += ":" + strings.ToLower(p.text)
			case kNum:
				s += ":" + unitKind(p.unit)
			}
			sig = append(sig, s)
		}
		if len(sig) == 0 {
			return
		}
		cn, ok := c.canonOf(ctx, "a", []string{"prop:" + prop, "list-item"}, prop+":"+v)
		if !ok || cn == "" || seenCanon[cn] {
			return
		}
		seenCanon[cn] = true
		cands = append(cands, cand{v, strings.Join(sig, " ")})
	}
	for _, s := range pi.singles {
		add(s)
	}
	for i, s := range pi.acc2 {
		if i >= 400 {
			break
		}
		add(s)
	}
	// one item per lexical shape first (in order of appearance), then the next of each shape ...
	var order []string
	bySig := map[string][]string{}
	for _, cd := range cands {
		if _, in := bySig[cd.sig]; !in {
			order = append(order, cd.sig)
		}
		bySig[cd.sig] = append(bySig[cd.sig], cd.v)
	}
	var items []string
	for round := 0; len(items) < max; round++ {
		took := false
		for _, s := range order {
			if round < len(bySig[s]) && len(items) < max {
				items = append(items, bySig[s][round])
				took = true
			}
		}
		if !took {
			break
		}
	}
	return items
}

// declLists: long-hand name -> elements of its list value (nil when it is not a list).
func declLists(css string) (m map[string][]string, n int) {
	l := parseDecls(css)
	m = map[string][]string{}
	for _, d := range l {
		el, ok := listElems(d.Value)
		if !ok {
			el = nil
		}
		m[d.Name.String()] = el
	}
	return m, len(l)
}

// notLayerLists: properties in which a top-level comma does not separate list items.
// content: `[ <image> , ]* [ normal | none | <content-list> ]` (CSS Generated Content 3 §2): the
// comma separates ALTERNATIVES, the last one that can be rendered is used; the library validates
// the leading images and keeps the final alternative (calibration: the first run reported
// `content: url(a) , "s"` as a list of one element).
// font: the comma belongs to the <font-family> component at the end of the shorthand, the items
// of the list are family names and not whole `font` values (`font: 0 "s", large a` is size 0
// with the families "s" and "large a"); the family lists of `font` are compared with the
// font-family long-hand by the reference cases of part b.
var notLayerLists = map[string]bool{"content": true, "font": true}

// commaGrammar: the properties (of those the library supports) whose grammar has a top-level
// comma at all: the per-layer background long-hands (CSS Backgrounds 3 §3), font-family,
// font-feature-settings (CSS Fonts 3 §3.1, §6.12), font-variation-settings (CSS Fonts 4 §7.2),
// string-set (CSS GCPM 3 §1.1), the shorthands `background` and `font`, and `content`
// (alternatives). In every other property a value with a top-level comma is an invalid value:
// the declaration must be dropped (clause invalid-value-accepted).
var commaGrammar = map[string]bool{
	"background": true, "background-attachment": true, "background-clip": true, "background-image": true, "background-origin": true,
	"background-position": true, "background-repeat": true, "background-size": true, "font-family": true, "font-feature-settings": true,
	"font-variation-settings": true, "string-set": true, "font": true, "content": true,
}

func (c *check) runListFamily(ctx *engine.Ctx, prop string, pi *propInfo) {
	if notLayerLists[prop] {
		return
	}
	if !commaGrammar[prop] {
		items := c.listItems(ctx, prop, pi)
		for _, a := range items {
			for _, b := range items {
				css := prop + ":" + a + " , " + b
				feats := []string{"prop:" + prop, "comma-outside-list"}
				ctx.Trans(1)
				var got string
				if !ctx.GuardFail(desc("a", feats, css), feats, func() { got = canonDecls(parseDecls(css)) }) {
					ctx.Case(true, "panic")
					continue
				}
				ctx.Case(true, got)
				ctx.Count("a:comma-outside-list-tried", 1)
				if got != "" {
					ctx.Fail(engine.Failure{Clause: "invalid-value-accepted", Features: feats, Case: css,
						Detail: "the grammar of " + prop + " has no top-level comma: the declaration must be dropped; the library keeps it as\n" + got})
				}
			}
		}
		return
	}
	items := c.listItems(ctx, prop, pi)
	if len(items) < 2 {
		return
	}
	itemLists := make([]map[string][]string, len(items))
	for i, it := range items {
		f := []string{"prop:" + prop, "list-item"}
		ctx.GuardFail(desc("a", f, prop+":"+it), f, func() { itemLists[i], _ = declLists(prop + ":" + it) })
		if itemLists[i] == nil {
			itemLists[i] = map[string][]string{}
		}
	}
	var names []string
	{
		set := map[string]bool{}
		for _, m := range itemLists {
			for n := range m {
				set[n] = true
			}
		}
		for n := range set {
			names = append(names, n)
		}
		sort.Strings(names)
	}
	accepted2 := 0
	for n := 2; n <= 3; n++ {
		if n == 3 && accepted2 == 0 {
			return // no pair is accepted: the property is not a comma separated list
		}
		total := 1
		for i := 0; i < n; i++ {
			total *= len(items)
		}
		for t := 0; t < total; t++ {
			idx := make([]int, n)
			var texts []string
			for k, x := n-1, t; k >= 0; k-- {
				idx[k] = x % len(items)
				x /= len(items)
			}
			for _, i := range idx {
				texts = append(texts, items[i])
			}
			css := prop + ":" + strings.Join(texts, " , ")
			feats := []string{"prop:" + prop, fmt.Sprintf("list-layers:%d", n)}
			ctx.Trans(1)
			var got map[string][]string
			var nd int
			if !ctx.GuardFail(desc("a", feats, css), feats, func() { got, nd = declLists(css) }) {
				ctx.Case(true, "panic")
				continue
			}
			if nd == 0 {
				ctx.Case(false, "rejected")
				continue
			}
			if n == 2 {
				if accepted2 == 0 {
					ctx.Count("a:list-property:"+prop, 1)
				}
				accepted2++
			}
			var diffs []string
			var key strings.Builder
			compared := false
			for _, name := range names {
				okItems := true
				for _, i := range idx {
					if len(itemLists[i][name]) != 1 {
						okItems = false // keyword form, or the item alone is no one-element list
					}
				}
				if !okItems {
					ctx.Count("a:list-items-not-one-element", 1)
					continue
				}
				compared = true
				g, in := got[name]
				key.WriteString(name + "=" + strings.Join(g, "|") + ";")
				if !in || len(g) != n {
					diffs = append(diffs, fmt.Sprintf("%s: want a list of %d elements, got %d (%s)", name, n, len(g), strings.Join(g, " | ")))
					continue
				}
				for k, i := range idx {
					ctx.Count("a:list-elements-compared-by-index", 1)
					if g[k] != itemLists[i][name][0] {
						diffs = append(diffs, fmt.Sprintf("%s, element %d of %d: want %s (what %q means alone) got %s", name, k+1, n, itemLists[i][name][0], items[i], g[k]))
					}
				}
			}
			ctx.Case(compared, key.String())
			if compared {
				ctx.Count("a:lists-compared", 1)
			}
			if len(diffs) > 0 {
				if len(diffs) > 5 {
					diffs = append(diffs[:5], fmt.Sprintf("… %d differences", len(diffs)))
				}
				ctx.Fail(engine.Failure{Clause: "list-by-index", Features: feats, Case: css, Detail: strings.Join(diffs, "\n")})
			}
		}
	}
}

// customIdentAlone: the properties (of those the library supports) whose grammar accepts an
// arbitrary identifier as the whole value: <family-name> (CSS Fonts 3 §3.1), <counter-name>
// (CSS Lists 3 §4), <counter-style-name> (CSS Lists 3 §3.4), the page name (CSS Page 3 §9.2) and
// the grid line names (CSS Grid 1 §8.3). Everywhere else the nonsense identifier `zzq` is an
// invalid value: the declaration must be dropped.
var customIdentAlone = map[string]bool{
	"font-family": true, "counter-increment": true, "counter-reset": true, "counter-set": true, "list-style-type": true, "list-style": true, "page": true,
	"grid-row-start": true, "grid-row-end": true, "grid-column-start": true, "grid-column-end": true, "grid-row": true, "grid-column": true, "grid-area": true,
}

// checkNonsenseIdent: the differential probe of part a (does `P: zzq` validate?) doubles as an
// oracle where the grammar has no custom identifier.
func (c *check) checkNonsenseIdent(ctx *engine.Ctx, prop string, pi *propInfo) {
	ctx.Count("a:nonsense-identifier-tried", 1)
	if !pi.identAny || customIdentAlone[prop] {
		return
	}
	feats := []string{"prop:" + prop, "nonsense-identifier"}
	got, _ := c.canonOf(ctx, "a", feats, prop+":zzq")
	ctx.Fail(engine.Failure{Clause: "invalid-value-accepted", Features: feats, Case: prop + ":zzq",
		Detail: "the grammar of " + prop + " has no custom identifier: the declaration must be dropped; the library keeps it as\n" + got})
}
