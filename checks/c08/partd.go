package c08

import (
	"fmt"
	"strings"

	"verif/internal/engine"
)

// Part d: independence. Every block of <= 3 valid declarations from a menu (with shorthand /
// long-hand overlaps and repeated properties), with one invalid declaration inserted at every
// position, yields the declarations of the block without it, in the same order.

var dMenu = []string{
	"color: red",
	"margin: 1px 2px",
	"margin-top: 3px",
	"border: 1px solid",
	"border-top-color: blue",
	"font: 10px serif",
	"font-size: 2em",
	"display: block",
	"width: 50% !important",
	"--x: 1px",
	"padding-left: var(--x)",
	"background: url(a) no-repeat",
}

// dInvalid: declarations that CSS Syntax 3 / the validators must drop alone. None of them
// contains an unclosed block or string (those legitimately swallow what follows).
var dInvalid = []struct{ css, feat string }{
	{"zzz: 1", "unknown-property"},
	{"colour: red", "unknown-property"},
	{"color: 1px", "invalid-value"},
	{"color: red green", "invalid-value"},
	{"width: -1px", "invalid-value"},
	{"margin: 1px 2px 3px 4px 5px", "invalid-shorthand-value"},
	{"border: 1px 2px", "invalid-shorthand-value"},
	{"font: 10px", "invalid-shorthand-value"},
	{"font: normal", "invalid-shorthand-value:font-normal"},
	{"color red", "missing-colon"},
	{"color", "missing-colon"},
	{": red", "missing-name"},
	{"color:", "empty-value"},
	{"color: rgb(1,2})", "stray-closer-in-function"},
	{"color: rgb(1,2])", "stray-closer-in-function"},
	{"color: red)", "stray-closer"},
	{"color: red]", "stray-closer"},
	{"color: red !importan", "bad-important"},
	{"color: red ! important x", "bad-important"},
	{"color: !important", "empty-value-important"},
	{"-webkit-box-flex: 1", "vendor-prefix"},
	{"-weasy-zzz: 1", "vendor-prefix"},
	{"cursor: pointer", "not-print-media"},
	{"@media print", "at-rule"},
	{"color: var(--u) red green", "pending-but-accepted"}, // accepted (pending): kept; listed to exercise the oracle both ways
	{"1px: 1px", "non-ident-name"},
	{"color: \"unterminated\\\"\"", "string-value"},
	{"width: 10PX", "upper-unit"},
}

const dBatch = 64

func (c *check) initD() {
	n := len(dMenu)
	c.dBlocks = nil
	for a := 0; a < n; a++ {
		c.dBlocks = append(c.dBlocks, []int{a})
	}
	for a := 0; a < n; a++ {
		for b := 0; b < n; b++ {
			c.dBlocks = append(c.dBlocks, []int{a, b})
		}
	}
	for a := 0; a < n; a++ {
		for b := 0; b < n; b++ {
			for d := 0; d < n; d++ {
				c.dBlocks = append(c.dBlocks, []int{a, b, d})
			}
		}
	}
	c.dBlocks = append([][]int{{}}, c.dBlocks...)
	c.nD = (int64(len(c.dBlocks)) + dBatch - 1) / dBatch
}

func (c *check) describeD(u int64) any {
	lo, hi := u*dBatch, (u+1)*dBatch
	if hi > int64(len(c.dBlocks)) {
		hi = int64(len(c.dBlocks))
	}
	return map[string]any{"part": "d", "first_block": c.blockText(c.dBlocks[lo]), "last_block": c.blockText(c.dBlocks[hi-1]), "blocks": hi - lo,
		"with": "every invalid declaration of the menu inserted at every position"}
}

func (c *check) blockText(b []int) []string {
	var out []string
	for _, i := range b {
		out = append(out, dMenu[i])
	}
	return out
}

func (c *check) runD(u int64, ctx *engine.Ctx) {
	lo, hi := u*dBatch, (u+1)*dBatch
	if hi > int64(len(c.dBlocks)) {
		hi = int64(len(c.dBlocks))
	}
	for _, blk := range c.dBlocks[lo:hi] {
		decls := c.blockText(blk)
		base := strings.Join(decls, "; ")
		bf := []string{"independence-base"}
		var want string
		if !ctx.GuardFail(desc("d", bf, base), bf, func() { want = canonDecls(parseDecls(base)) }) {
			ctx.Case(true, "panic")
			continue
		}
		for _, inv := range dInvalid {
			// what the invalid declaration yields alone (normally nothing)
			var alone string
			f0 := []string{"invalid:" + inv.feat, "alone"}
			if !ctx.GuardFail(desc("d", f0, inv.css), f0, func() { alone = canonDecls(parseDecls(inv.css)) }) {
				// reported once per unit by GuardFail; the independence cases below would all
				// panic the same way
				ctx.Case(true, "panic")
				continue
			}
			for pos := 0; pos <= len(decls); pos++ {
				for _, trailing := range []bool{false, true} {
					parts := append(append(append([]string{}, decls[:pos]...), inv.css), decls[pos:]...)
					css := strings.Join(parts, "; ")
					if trailing {
						css += ";"
					}
					feats := []string{"invalid:" + inv.feat, fmt.Sprintf("block-size:%d", len(decls))}
					switch {
					case pos == 0:
						feats = append(feats, "position:first")
					case pos == len(decls):
						feats = append(feats, "position:last")
					default:
						feats = append(feats, "position:middle")
					}
					ctx.Trans(1)
					var got string
					if !ctx.GuardFail(desc("d", feats, css), feats, func() { got = canonDecls(parseDecls(css)) }) {
						ctx.Case(true, "panic")
						continue
					}
					ctx.Case(true, got)
					ctx.Count("d:blocks-compared", 1)
					// expected: the declarations of the block without the invalid member; if the
					// "invalid" member is in fact accepted alone, its own declarations at its position
					exp := want
					if alone != "" {
						var w2 string
						before := strings.Join(decls[:pos], "; ")
						after := strings.Join(decls[pos:], "; ")
						ok := ctx.GuardFail(desc("d", feats, css+" (split)"), feats, func() {
							var l []string
							for _, s := range []string{canonDecls(parseDecls(before)), alone, canonDecls(parseDecls(after))} {
								if s != "" {
									l = append(l, s)
								}
							}
							w2 = strings.Join(l, ";\n")
						})
						if !ok {
							continue
						}
						exp = w2
						ctx.Count("d:accepted-member-cases", 1)
					}
					if got != exp {
						ctx.Fail(engine.Failure{Clause: "independence", Features: feats, Case: css,
							Detail: "want " + oneLine(exp) + "\ngot  " + oneLine(got)})
					}
				}
			}
		}
	}
}
