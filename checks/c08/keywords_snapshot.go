package c08

var keywordSnapshot = []string{}
