package c08

import (
	"strings"
)

// A small lexical model of the value texts used by this check. It is NOT a CSS tokenizer:
// it only has to cut the values the check itself writes (its token alphabet) into pieces so
// that spelling variants can be produced. Every piece is a complete CSS token, or a function
// name together with its opening parenthesis.

type pkind uint8

const (
	kWS    pkind = iota // a run of white space
	kIdent              // identifier (keyword or custom identifier)
	kFunc               // function name + "("
	kNum                // number, percentage or dimension: num + unit
	kHash               // #...
	kStr                // "..."
	kURL                // unquoted url(...) token: a single CSS token
	kPunct              // any other single character
)

type piece struct {
	kind  pkind
	text  string // full text of the piece
	unit  string // kNum: the unit ("" for numbers, "%" for percentages)
	num   string // kNum: the numeric part
	depth int    // nesting depth (0 = top level)
	fn    string // lower-cased name of the innermost enclosing function ("" at top level, "[" in brackets)
}

func isIdentStart(c byte) bool {
	return c == '_' || c >= 0x80 || (c >= 'a' && c <= 'z') || (c >= 'A' && c <= 'Z')
}

func isIdentChar(c byte) bool {
	return isIdentStart(c) || c == '-' || (c >= '0' && c <= '9')
}

func isDigit(c byte) bool { return c >= '0' && c <= '9' }

func lexValue(s string) []piece {
	var out []piece
	var stack []string
	cur := func() string {
		if len(stack) == 0 {
			return ""
		}
		return stack[len(stack)-1]
	}
	i := 0
	for i < len(s) {
		c := s[i]
		switch {
		case c == ' ' || c == '\n' || c == '\t':
			j := i
			for j < len(s) && (s[j] == ' ' || s[j] == '\n' || s[j] == '\t') {
				j++
			}
			out = append(out, piece{kind: kWS, text: s[i:j], depth: len(stack), fn: cur()})
			i = j
		case c == '"' || c == '\'':
			j := i + 1
			for j < len(s) && s[j] != c {
				if s[j] == '\\' {
					j++
				}
				j++
			}
			j++
			if j > len(s) {
				j = len(s)
			}
			out = append(out, piece{kind: kStr, text: s[i:j], depth: len(stack), fn: cur()})
			i = j
		case c == '#':
			j := i + 1
			for j < len(s) && isIdentChar(s[j]) {
				j++
			}
			out = append(out, piece{kind: kHash, text: s[i:j], depth: len(stack), fn: cur()})
			i = j
		case isDigit(c) || ((c == '+' || c == '-' || c == '.') && i+1 < len(s) && (isDigit(s[i+1]) || (s[i+1] == '.' && i+2 < len(s) && isDigit(s[i+2])))):
			j := i
			if s[j] == '+' || s[j] == '-' {
				j++
			}
			for j < len(s) && isDigit(s[j]) {
				j++
			}
			if j+1 < len(s) && s[j] == '.' && isDigit(s[j+1]) {
				j++
				for j < len(s) && isDigit(s[j]) {
					j++
				}
			}
			// exponent
			if j+1 < len(s) && (s[j] == 'e' || s[j] == 'E') && (isDigit(s[j+1]) || ((s[j+1] == '+' || s[j+1] == '-') && j+2 < len(s) && isDigit(s[j+2]))) {
				j += 2
				for j < len(s) && isDigit(s[j]) {
					j++
				}
			}
			num := s[i:j]
			k := j
			if k < len(s) && s[k] == '%' {
				k++
			} else if k < len(s) && (isIdentStart(s[k]) || (s[k] == '-' && k+1 < len(s) && isIdentStart(s[k+1]))) {
				for k < len(s) && isIdentChar(s[k]) {
					k++
				}
			}
			out = append(out, piece{kind: kNum, text: s[i:k], num: num, unit: s[j:k], depth: len(stack), fn: cur()})
			i = k
		case isIdentStart(c) || (c == '-' && i+1 < len(s) && (isIdentStart(s[i+1]) || s[i+1] == '-')):
			j := i
			for j < len(s) && isIdentChar(s[j]) {
				j++
			}
			name := s[i:j]
			if j < len(s) && s[j] == '(' {
				low := strings.ToLower(name)
				if low == "url" {
					// unquoted url token or url( "string" ) function
					k := j + 1
					for k < len(s) && (s[k] == ' ' || s[k] == '\n' || s[k] == '\t') {
						k++
					}
					if k < len(s) && s[k] != '"' && s[k] != '\'' {
						e := strings.IndexByte(s[j:], ')')
						if e < 0 {
							e = len(s) - j - 1
						}
						out = append(out, piece{kind: kURL, text: s[i : j+e+1], depth: len(stack), fn: cur()})
						i = j + e + 1
						continue
					}
				}
				out = append(out, piece{kind: kFunc, text: s[i : j+1], depth: len(stack), fn: cur()})
				stack = append(stack, low)
				i = j + 1
				continue
			}
			out = append(out, piece{kind: kIdent, text: name, depth: len(stack), fn: cur()})
			i = j
		default:
			d := len(stack)
			f := cur()
			switch c {
			case '(', '[':
				out = append(out, piece{kind: kPunct, text: string(c), depth: d, fn: f})
				stack = append(stack, string(c))
			case ')', ']':
				if len(stack) > 0 {
					stack = stack[:len(stack)-1]
				}
				out = append(out, piece{kind: kPunct, text: string(c), depth: len(stack), fn: cur()})
			default:
				out = append(out, piece{kind: kPunct, text: string(c), depth: d, fn: f})
			}
			i++
		}
	}
	return out
}

func joinPieces(ps []piece) string {
	var sb strings.Builder
	for _, p := range ps {
		sb.WriteString(p.text)
	}
	return sb.String()
}

// upperASCII upper-cases a-z only.
func upperASCII(s string) string {
	b := []byte(s)
	for i, c := range b {
		if c >= 'a' && c <= 'z' {
			b[i] = c - 32
		}
	}
	return string(b)
}

func hasLower(s string) bool {
	for i := 0; i < len(s); i++ {
		if s[i] >= 'a' && s[i] <= 'z' {
			return true
		}
	}
	return false
}

func clonePieces(ps []piece) []piece { return append([]piece(nil), ps...) }

func unitKind(u string) string {
	switch strings.ToLower(u) {
	case "px", "em", "ex", "ch", "rem", "pt", "pc", "in", "cm", "mm", "q":
		return "length"
	case "deg", "rad", "grad", "turn":
		return "angle"
	case "dppx", "dpi", "dpcm":
		return "resolution"
	case "fr":
		return "flex"
	case "s", "ms":
		return "time"
	}
	return "other"
}
