// Package c08: declarations mean the same however they are spelled; bad ones are dropped alone.
//
// Four exhaustive explorations of the real validator / cascade code:
//
//	(a) spelling variants (case of property name / keyword / unit / function name, comments,
//	    white space, trailing semicolon, !important spelling) of every accepted
//	    (property, value <= 3 tokens) pair: the validation.Declaration lists must be equal;
//	    every property is also tried as a comma separated list of two and three of its own
//	    accepted values: a list means its items in the order written (compared by index with
//	    what each item means alone), and a comma where the grammar has none is an invalid value;
//	(b) shorthands against small reference expanders written from the property definitions,
//	    plus generic clauses for every shorthand; the `background` shorthand with two and three
//	    layers whose components all differ per layer, compared layer by layer with the long-hands;
//	(c) var(): computed style of a probe element with the value routed through custom
//	    properties (direct, fallback, undefined, ill-typed, graphs of custom properties
//	    including cycles) against the computed style of the direct spelling; a layered
//	    `background` with var() as the whole value / a layer / a component of a layer against the
//	    computed style its long-hand spelling gives;
//	(d) independence: a block with one invalid declaration inserted at any position yields the
//	    declarations of the block without it.
package c08

import (
	"fmt"
	"io"
	"os"
	"strings"

	"github.com/benoitkugler/webrender/logger"

	"verif/internal/engine"
)

type check struct {
	thorough bool
	names    []string // property names (long-hands and shorthands), sorted
	keywords []string // keyword alphabet (from the source)
	kwOrigin string
	full     []string // one-token alphabet
	cache    map[string]*propInfo
	isKw     map[string]bool
	inCore   map[string]bool
	gCases   []gCase
	shCases  []shCase

	nA, nB, nC, nD int64 // units per part
	nB1            int64 // units of part b that come from the materialised reference cases (the rest: layered family)
	lyFams         []lyFamily
	lyOffsets      []int64
	lyTotal        int64
	lyRefCache     map[string]string
	listsOnly      bool
	lyVars         []lyVarCase
	bCases         []bCase
	cUnits         []cUnit
	dBlocks        [][]int
}

func init() { engine.Register(&check{}) }

func (c *check) ID() string { return "C08" }

func (c *check) Init(tier string, seed int64) engine.Space {
	logger.WarningLogger.SetOutput(io.Discard)
	logger.ProgressLogger.SetOutput(io.Discard)
	c.thorough = tier == "thorough"
	c.cache = map[string]*propInfo{}
	c.names = propertyNames()
	c.keywords, c.kwOrigin = sourceKeywords()
	c.full = dedup(append(append([]string{}, tokSingle...), c.keywords...))
	c.isKw, c.inCore = map[string]bool{}, map[string]bool{}
	for _, k := range c.keywords {
		c.isKw[k] = true
	}
	for _, t := range tokCore {
		c.inCore[t] = true
	}
	c.nA = int64(len(c.names))
	c.initB()
	c.initC()
	c.initD()
	// development aid: VERIF_C08_PARTS=bc explores only the named parts (never set in a real run;
	// the restriction is shown in the bounds of the evidence)
	only := os.Getenv("VERIF_C08_PARTS")
	if only != "" {
		c.listsOnly = strings.Contains(only, "A")
		only = strings.ReplaceAll(only, "A", "a")
		for p, n := range map[string]*int64{"a": &c.nA, "b": &c.nB, "c": &c.nC, "d": &c.nD} {
			if !strings.Contains(only, p) {
				*n = 0
			}
		}
	}
	return engine.Space{
		Units: c.nA + c.nB + c.nC + c.nD, Chunk: 1, Level: "model_checking",
		Rule: "part a: one unit per property; every sequence of <= 3 tokens (thorough: 4 for small alphabets) over the per-property alphabet is validated, " +
			"every accepted one is a non-trivial case and is compared with all its spelling variants (each variant = one transition); " +
			"then every pair and triple of <= 8 (thorough: 12) accepted comma-free values of the property, one per lexical shape first, written as a comma separated list: " +
			"element k of each list-valued long-hand must be what item k yields alone (properties without a comma in their grammar: the pair must be rejected); " +
			"part b: one case per (shorthand, value) produced by the reference generators, compared long-hand by long-hand with the reference expansion, " +
			"and one case per layered `background` value (index-addressable product, see bounds), compared layer by layer; " +
			"part c: one case per (property, value, var() form) or (custom-property graph, start, property), observed on the computed style of a probe element; " +
			"part d: one case per (block of <= 3 valid declarations, invalid declaration, position). A case is non-trivial when the oracle was actually compared " +
			"(the value was accepted / the document was styled).",
		Bounds: map[string]any{
			"properties":               len(c.names),
			"keyword_alphabet":         len(c.keywords),
			"keyword_origin":           c.kwOrigin,
			"one_token_alphabet":       len(c.full),
			"core_tokens":              tokCore,
			"context_keywords":         ctxKeywords,
			"max_tokens":               map[bool]int{false: 3, true: 4}[c.thorough],
			"units_a_b_c_d":            []int64{c.nA, c.nB, c.nC, c.nD},
			"parts_restricted_by_env":  only,
			"layered_background_cases": c.lyTotal,
			"layered_background":       "2 layers: every set of present components per layer (71 x 143, colour or not in the final layer) x 3 rotations of the per-layer value menus; 3 layers: the same (thorough) / a menu of 10 component sets per layer (quick)",
			"shorthand_ref_cases":      len(c.bCases),
			"custom_property_graphs":   map[bool]string{false: "all 512 edge sets on 3 names", true: "all 512 edge sets on 3 names + the 4-name edge sets (of 65536) in which every name is reachable from the referenced one"}[c.thorough],
			"shared_declaration_cases": fmt.Sprintf("%d rule templates x %d arrangements of 2-4 matched elements (siblings in every order, parent/child/grandchild with own, inherited and partly inherited custom properties)", len(shTemplates), len(shConfigs(shTemplates[0]))),
			"layered_background_var":   fmt.Sprintf("%d layered values (2 and 3 layers x 3 rotations x {every component in every layer, mixed}) with var() as the whole value, each layer, each component of each layer", len(c.lyVars)),
			"list_items_per_property":  map[bool]int{false: 8, true: 12}[c.thorough],
			"independence_menu":        len(dMenu),
			"invalid_declarations":     len(dInvalid),
		},
		Assumptions: []string{
			"a token that never occurs in an accepted value of one or two tokens does not occur in an accepted value of three tokens (long-hands of a shorthand contribute their tokens to the shorthand)",
			"all units of a family (length, angle, resolution) behave alike inside multi-token values; every unit is tried alone",
			"identifier positions that still validate with the nonsense identifier zzq are custom-identifier positions (case-sensitive by specification) and are not case-varied",
			"values containing var() are compared on computed styles (part c), not on declaration lists",
			"part c computes styles with the harness's Ahem-only font configuration (ex/ch units resolve against Ahem); CSS-wide keywords are not routed through custom properties",
		},
		BudgetS:  map[bool]float64{false: 100, true: 900}[c.thorough],
		CaseCPUs: 20,
	}
}

func (c *check) Run(u int64, ctx *engine.Ctx) {
	switch {
	case u < c.nA:
		c.runA(u, ctx)
	case u < c.nA+c.nB:
		c.runB(u-c.nA, ctx)
	case u < c.nA+c.nB+c.nC:
		c.runC(u-c.nA-c.nB, ctx)
	default:
		c.runD(u-c.nA-c.nB-c.nC, ctx)
	}
}

func (c *check) Describe(u int64) any {
	switch {
	case u < c.nA:
		return map[string]any{"part": "a", "property": c.names[u], "explored": "every value of <= 3 tokens over the property's alphabet and every spelling variant of the accepted ones"}
	case u < c.nA+c.nB:
		return c.describeB(u - c.nA)
	case u < c.nA+c.nB+c.nC:
		return c.describeC(u - c.nA - c.nB)
	default:
		return c.describeD(u - c.nA - c.nB - c.nC)
	}
}

// FeaturesOf recovers the feature tags of a guarded case from its description (used by the
// master for cases that killed their worker).
func (c *check) FeaturesOf(d string) []string {
	parts := strings.SplitN(d, "|", 3)
	if len(parts) < 3 || parts[1] == "" {
		return nil
	}
	return strings.Split(parts[1], ",")
}

var _ = fmt.Sprintf
