package c17

// Family (iii'): the matrix handed to the backend for an element that is painted AFTER a clip
// path was applied to it.
//
// svg.applyClipPath draws the children of the <clipPath> without a graphic stack of their own:
// the `transform` of the <clipPath>, the transforms of its children and the bounding-box matrix
// of clipPathUnits="objectBoundingBox" are multiplied into the current matrix, and the matrix is
// put back afterwards by multiplying with an inverse (matrix.Invert + matrix.Mul). Whatever the
// clip path does, the matrix in effect when the clipped element is filled must be the product
// the specifications define: viewBox transform · the element's own transform list.
//
// Enumerated: viewBox of the root (none, identity, scale, translate, and the huge user spaces
// 204800 / 914400 units on 100px whose scale has a determinant of 2.4e-7 / 1.2e-8) x the place
// of the clip (on the filled rect itself, userSpaceOnUse or objectBoundingBox, or on a parent
// <g>) x the own transform of the clipped element x the transform of the <clipPath> x the
// transform of its child, the last two over the SVG function menu plus "none".

import (
	"fmt"
	"math"
	"sort"

	"verif/internal/engine"
)

type clipVB struct {
	attr string // viewBox attribute ("" = absent)
	m    M      // SVG 2 §8.2 equivalent transform on the 100x100 viewport (xMidYMid meet)
	tag  string
}

var clipViewBoxes = []clipVB{
	{"", ident, "viewbox:none"},
	{"0 0 100 100", ident, "viewbox:identity"},
	{"0 0 200 200", scaling(0.5, 0.5), "viewbox:scale"},
	// 50x100 on 100x100, meet: scale 1, centred in x: tx = 10 + (100-50)/2, ty = -5
	{"-10 5 50 100", translation(35, -5), "viewbox:translate"},
	{"0 0 204800 204800", scaling(100.0/204800, 100.0/204800), "viewbox:huge"},
	{"0 0 914400 914400", scaling(100.0/914400, 100.0/914400), "viewbox:huge"},
}

// clipPlace: where the clip-path property sits.
type clipPlace struct {
	name  string
	group bool // on a parent <g> (which also carries the own transform)
	bbox  bool // clipPathUnits="objectBoundingBox"
}

var clipPlaces = []clipPlace{
	{"self", false, false},
	{"self-bbox", false, true},
	{"group", true, false},
}

// the clipped rect (user units of the root)
const clipX, clipY, clipW, clipH = 10.0, 10.0, 40.0, 20.0

type clipFamily struct {
	own   []*fn // own transform of the clipped element, nil = none
	menu  []*fn // transform of the <clipPath> / of its child, nil = none
	units int64
}

func nonSingular(l []fn) []*fn {
	out := []*fn{nil}
	for i := range l {
		if det(l[i].mat(0, 0)) != 0 {
			out = append(out, &l[i])
		}
	}
	return out
}

func (c *check) newClipFamily(thorough bool) *clipFamily {
	f := &clipFamily{}
	if thorough {
		f.menu = nonSingular(c.svgFns)
	} else {
		f.menu = nonSingular(c.svgCore)
	}
	f.own = []*fn{nil}
	for _, want := range []string{"translate(10)", "scale(-1, 0.5)", "rotate(30)"} {
		for i := range c.svgFns {
			if c.svgFns[i].text == want {
				f.own = append(f.own, &c.svgFns[i])
			}
		}
	}
	// one unit = (viewBox, place, own transform, transform of the clipPath); it loops over the
	// transform of the child
	f.units = int64(len(clipViewBoxes) * len(clipPlaces) * len(f.own) * len(f.menu))
	return f
}

func (f *clipFamily) cases() int64 { return f.units * int64(len(f.menu)) }

func (f *clipFamily) decode(u int64) (vb clipVB, pl clipPlace, own, x1 *fn) {
	x1 = f.menu[u%int64(len(f.menu))]
	u /= int64(len(f.menu))
	own = f.own[u%int64(len(f.own))]
	u /= int64(len(f.own))
	pl = clipPlaces[u%int64(len(clipPlaces))]
	u /= int64(len(clipPlaces))
	vb = clipViewBoxes[u]
	return
}

func trAttr(f *fn) string {
	if f == nil {
		return ""
	}
	return ` transform="` + f.text + `"`
}

func fnMat(f *fn) M {
	if f == nil {
		return ident
	}
	return f.mat(0, 0)
}

func clipDoc(vb clipVB, pl clipPlace, own, x1, x2 *fn) string {
	v := ""
	if vb.attr != "" {
		v = ` viewBox="` + vb.attr + `"`
	}
	units := ""
	// two children: the first one carries the transform, the second one none
	child := `<rect width="60" height="60"` + trAttr(x2) + `/><rect width="61" height="61"/>`
	if pl.bbox {
		units = ` clipPathUnits="objectBoundingBox"`
		child = `<rect width="1" height="1"` + trAttr(x2) + `/><rect width="0.5" height="0.5"/>`
	}
	rect := fmt.Sprintf(`<rect x="%g" y="%g" width="%g" height="%g" fill="red"`, clipX, clipY, clipW, clipH)
	var body string
	if pl.group {
		body = `<g clip-path="url(#c)"` + trAttr(own) + `>` + rect + `/></g>`
	} else {
		body = rect + ` clip-path="url(#c)"` + trAttr(own) + `/>`
	}
	return `<svg xmlns="http://www.w3.org/2000/svg" width="100" height="100"` + v + `><defs><clipPath id="c"` + units + trAttr(x1) + `>` + child + `</clipPath></defs>` + body + `</svg>`
}

// clipFeatures: tags from the input alone. clip-noncommuting: the product of everything the clip
// path multiplies into the matrix (bounding-box matrix, transform of the clipPath, of its child)
// does not commute with the matrix in effect before (viewBox · own transform).
func clipFeatures(vb clipVB, pl clipPlace, own, x1, x2 *fn) []string {
	set := map[string]bool{"svg": true, "clip": true, vb.tag: true, "clip-on:" + pl.name: true}
	site := "none"
	switch {
	case x1 != nil && x2 != nil:
		site = "both"
	case x1 != nil:
		site = "clippath"
	case x2 != nil:
		site = "child"
	}
	set["clip-transform:"+site] = true
	if own != nil {
		set["own-transform"] = true
	}
	for _, f := range []*fn{x1, x2} {
		if f != nil {
			for _, t := range f.feats {
				set[t] = true
			}
		}
	}
	old := mul(vb.m, fnMat(own))
	x := clipProduct(pl, x1, x2)
	if !near(mul(mul(old, x), inverse(old)), x, 1e-9) {
		set["clip-noncommuting"] = true
	}
	out := make([]string, 0, len(set))
	for k := range set {
		out = append(out, k)
	}
	sort.Strings(out)
	return out
}

// clipProduct: what the clip path multiplies into the current matrix.
func clipProduct(pl clipPlace, x1, x2 *fn) M {
	x := mul(fnMat(x1), fnMat(x2))
	if pl.bbox {
		x = mul(M{clipW, 0, 0, clipH, clipX, clipY}, x)
	}
	return x
}

func (c *check) runClip(f *clipFamily, u int64, ctx *engine.Ctx) {
	c.baselines(ctx)
	vb, pl, own, x1 := f.decode(u)
	ref := fnMat(own)
	for _, x2 := range f.menu {
		src := clipDoc(vb, pl, own, x1, x2)
		desc := "svg-clip: " + src
		feats := clipFeatures(vb, pl, own, x1, x2)
		ctx.Trans(1)
		var r svgResult
		if !ctx.GuardFail(desc, feats, func() { r = renderSVGDoc(src) }) {
			ctx.Case(false, "panic")
			continue
		}
		if r.parseErr != "" {
			ctx.Case(false, "parse-error")
			ctx.Fail(engine.Failure{Clause: "svg-parse-error", Features: feats, Case: desc, Detail: "svg.Parse: " + r.parseErr})
			continue
		}
		if !r.painted {
			ctx.Case(false, "not-painted")
			ctx.Fail(engine.Failure{Clause: "svg-not-painted", Features: feats, Case: desc, Detail: "the clipped rect is not painted"})
			continue
		}
		// the viewBox transform is removed before comparing: with a huge user space every entry
		// of the matrix itself is far below the tolerance
		obs := mul(inverse(vb.m), r.obs)
		ctx.Case(x1 != nil || x2 != nil || pl.bbox, obs.key())
		ctx.Count("svg-clip:compared", 1)
		if math.Abs(det(vb.m)) < 1e-6 {
			ctx.Count("svg-clip:viewbox-determinant<1e-6", 1)
		}
		// the matrix is put back through a float32 inverse: the rounding error grows with the
		// condition of what the clip path multiplied in (bounding-box matrix 40x20, matrix(1,2,3,4,5,6):
		// 3e-4 observed at a condition of 1e3), so the tolerance does too (about 30 float32 ulps per unit)
		nw := mul(ref, clipProduct(pl, x1, x2))
		slack := 2e-6 * maxAbs(nw) * maxAbs(inverse(nw))
		dev := 0.0
		ok := true
		for i := range obs {
			d := math.Abs(obs[i] - ref[i])
			if !(d <= renderTol*(1+math.Abs(ref[i]))+slack) {
				ok = false
			}
			if !(d <= dev) {
				dev = d
			}
		}
		countDev(ctx, "svg-clip", dev)
		if !ok {
			ctx.Fail(engine.Failure{Clause: "svg-clip-matrix", Features: feats, Case: desc,
				Detail: fmt.Sprintf("matrix in effect when the clipped element is filled, viewBox transform removed: want the element's own transform %v got %v", ref, obs)})
		}
		// the children of the clipPath: the first one is drawn under own · [bounding box] ·
		// clipPath transform · its transform, the second one (no transform) under own ·
		// [bounding box] · clipPath transform
		base := mul(ref, clipProduct(pl, x1, nil))
		wants := [2]M{mul(base, fnMat(x2)), base}
		sizes := [2]float64{60, 61}
		if pl.bbox {
			sizes = [2]float64{1, 0.5}
		}
		for k := 0; k < 2; k++ {
			var ev *paintEv
			for i := range r.rects {
				if e := &r.rects[i]; e.rect == [4]float64{0, 0, sizes[k], sizes[k]} {
					ev = e
					break
				}
			}
			if ev == nil {
				ctx.Fail(engine.Failure{Clause: "svg-clip-child-drawn", Features: feats, Case: desc, Detail: fmt.Sprintf("child %d of the clipPath did not reach the backend", k+1)})
				continue
			}
			ctx.Count("svg-clip:child-matrix-compared", 1)
			got := mul(inverse(vb.m), ev.ctm)
			// a repaired implementation has to take the transform of child 1 out again before
			// child 2, through a float32 inverse (no graphic stack while a path is built): same
			// allowance as above, relative to the size of the matrix that is put back
			slack2 := 0.0
			if k == 1 && x2 != nil {
				slack2 = 2e-6 * maxAbs(wants[0]) * maxAbs(inverse(wants[0])) * (1 + maxAbs(base))
			}
			okc := true
			for i := range got {
				if !(math.Abs(got[i]-wants[k][i]) <= renderTol*(1+math.Abs(wants[k][i]))+slack2) {
					okc = false
				}
			}
			if !okc {
				ctx.Fail(engine.Failure{Clause: "svg-clip-child-matrix", Features: append(feats, fmt.Sprintf("clip-child:%d", k+1)), Case: desc,
					Detail: fmt.Sprintf("matrix in effect when child %d of the clipPath is drawn, viewBox transform removed: want %v got %v", k+1, wants[k], got)})
			}
		}
	}
}

func clipVBNames() []string {
	var o []string
	for _, v := range clipViewBoxes {
		if v.attr == "" {
			o = append(o, "(none)")
		} else {
			o = append(o, v.attr)
		}
	}
	return o
}

func fnNames(l []*fn) []string {
	var o []string
	for _, f := range l {
		if f == nil {
			o = append(o, "(none)")
		} else {
			o = append(o, f.text)
		}
	}
	return o
}
