// Package c17: transform functions and matrices follow CSS Transforms / SVG.
//
// Three families, all exhaustively enumerated (index-addressable, simplest first):
//
//	(i)   algebra: laws of package matrix over finite entry sets against plain float64 2x3
//	      affine arithmetic;
//	(ii)  css: every `transform` list of <= k functions x every transform-origin of the menu on
//	      an absolutely positioned 40x20 block at (10,10), rendered through the whole pipeline;
//	      the matrix in effect at the paint of the block (page matrix removed) must be
//	      T(origin) · F1 · F2 ... · T(-origin);
//	      (ii') shared-rule: one rule matched by blocks with different fonts and boxes (shared.go);
//	      (ii'') box-kinds: the function menu x every transform-origin on every kind of box that
//	      the box builder wraps into / replaces by another box: tables (wrapper box, captions),
//	      inline-table, table parts, list items, inline-block / -flex / -grid, flex and grid
//	      containers and items, blockified inlines, replaced elements (kinds.go);
//	(iii) svg: the same kind of lists in the syntax of the SVG `transform` attribute on a
//	      <rect>, in several spellings (comma / space separators, padding);
//	      (iii') svg-clip: the matrix in effect when an element is filled AFTER a clip path with
//	      transforms (on the clipPath, on its child, bounding-box units) was applied to it, and when
//	      the children of the clipPath are drawn, under every viewBox of a menu that holds huge
//	      user spaces (determinant of the viewBox scale below 1e-6) (clip.go).
package c17

import (
	"fmt"
	"math"
	"os"
	"strings"

	"verif/internal/engine"
)

type section struct {
	name  string
	units int64
	run   func(u int64, ctx *engine.Ctx)
	desc  func(u int64) any
}

type listSpace struct {
	name    string
	menu    []fn
	sp      *engine.StrSpace
	origins []origin // css only
}

type check struct {
	tier     string
	sections []section

	cssFns   []fn
	cssCore  []fn
	origins  []origin
	cssLists []listSpace

	shLists [][]sfn // shared-rule family

	kinds     []*boxKind // box-kinds family
	kindLists []listSpace

	svgFns   []fn
	svgCore  []fn
	svgLists []listSpace

	// lazily measured per worker
	cssBaseTransforms int // Transform calls of the document without `transform`
	cssBaseErr        string
	svgBaseTransforms int
	svgBaseErr        string
	baseDone          bool
}

func init() { engine.Register(&check{}) }

func (c *check) ID() string { return "C17" }

const (
	unaryBatch = 216
	cssBatch   = 64  // renders per unit
	svgBatch   = 768 // svg draws per unit
)

func coreOf(l []fn) []fn {
	var out []fn
	for _, f := range l {
		if f.core {
			out = append(out, f)
		}
	}
	return out
}

// onePerName keeps the first function of each function name.
func onePerName(l []fn) []fn {
	var out []fn
	seen := map[string]bool{}
	for _, f := range l {
		if !seen[f.name] {
			seen[f.name] = true
			out = append(out, f)
		}
	}
	return out
}

func symbols(n int) []string {
	out := make([]string, n)
	for i := range out {
		out[i] = string(rune(0x100 + i))
	}
	return out
}

func mkSpace(name string, menu []fn, minLen, maxLen int) listSpace {
	return listSpace{name: name, menu: menu, sp: &engine.StrSpace{Name: name, Alphabet: symbols(len(menu)), MinLen: minLen, MaxLen: maxLen}}
}

func (l listSpace) at(i int64) []fn {
	idx := l.sp.Symbols(i, nil)
	out := make([]fn, len(idx))
	for k, s := range idx {
		out[k] = l.menu[s]
	}
	return out
}

func (c *check) Init(tier string, seed int64) engine.Space {
	c.tier = tier
	c.sections = nil
	thorough := tier == "thorough"

	c.cssFns, c.svgFns = cssMenu(), svgMenu()
	c.cssCore, c.svgCore = coreOf(c.cssFns), coreOf(c.svgFns)
	c.origins = cssOrigins()
	// css: lists of one and two functions over the whole menu x every origin; lists of three
	// over the core menu (quick: two origins, thorough: every origin) and, thorough only, over
	// the whole menu with the two most general origins.
	two := []origin{c.origins[0], c.origins[2]}
	withO := func(l listSpace, o []origin) listSpace { l.origins = o; return l }
	c.cssLists = []listSpace{withO(mkSpace("css<=2", c.cssFns, 1, 2), c.origins)}
	c.svgLists = []listSpace{mkSpace("svg<=2", c.svgFns, 1, 2)}
	if thorough {
		c.cssLists = append(c.cssLists,
			withO(mkSpace("css=3(core menu)", c.cssCore, 3, 3), c.origins),
			withO(mkSpace("css=3(whole menu)", c.cssFns, 3, 3), two))
		c.svgLists = append(c.svgLists, mkSpace("svg=3(whole menu)", c.svgFns, 3, 3))
	} else {
		c.cssLists = append(c.cssLists, withO(mkSpace("css=3(core menu)", c.cssCore, 3, 3), two))
		c.svgLists = append(c.svgLists, mkSpace("svg=3(core menu)", c.svgCore, 3, 3))
	}

	// ---- (i) algebra
	c.sections = append(c.sections, section{"constructors", 1,
		func(u int64, ctx *engine.Ctx) { c.runConstructors(ctx) },
		func(u int64) any { return "Identity/New/Translation/Scaling/Rotation/Skew over the argument sets" }})
	nU := pow6(len(set6))
	c.sections = append(c.sections, section{"unary", (nU + unaryBatch - 1) / unaryBatch,
		func(u int64, ctx *engine.Ctx) {
			lo := u * unaryBatch
			hi := lo + unaryBatch
			if hi > nU {
				hi = nU
			}
			c.runUnary(lo, hi, ctx)
		},
		func(u int64) any {
			return map[string]any{"first": matAt(set6, u*unaryBatch).String(), "matrices": unaryBatch}
		}})
	nP := pow6(len(set3))
	c.sections = append(c.sections, section{"pairs", nP,
		func(u int64, ctx *engine.Ctx) { c.runPairs(u, ctx) },
		func(u int64) any {
			return map[string]any{"T": matAt(set3, u).String(), "U": "every matrix over the 3-value set"}
		}})
	sets2 := sets2Quick
	if thorough {
		sets2 = sets2Thorough
	}
	for _, s := range sets2 {
		s := s
		c.sections = append(c.sections, section{fmt.Sprintf("triples%v", s), pow6(len(s)),
			func(u int64, ctx *engine.Ctx) { c.runTriples(s, u, ctx) },
			func(u int64) any {
				return map[string]any{"R": matAt(s, u).String(), "S,T": "every pair over the 2-value set", "set": s}
			}})
	}

	// ---- (ii) css
	var cssCases int64
	for _, ls := range c.cssLists {
		ls := ls
		nO := int64(len(ls.origins))
		n := ls.sp.Count() * nO
		cssCases += n
		c.sections = append(c.sections, section{ls.name, (n + cssBatch - 1) / cssBatch,
			func(u int64, ctx *engine.Ctx) {
				for k := u * cssBatch; k < (u+1)*cssBatch && k < n; k++ {
					c.runCSS(ls.at(k/nO), ls.origins[k%nO], ctx)
				}
			},
			func(u int64) any {
				k := u * cssBatch
				return map[string]any{"first": cssDecls(ls.at(k/nO), ls.origins[k%nO]), "cases": cssBatch}
			}})
	}
	c.sections = append(c.sections, section{"css-specials", 1,
		func(u int64, ctx *engine.Ctx) { c.runCSSSpecials(ctx) },
		func(u int64) any {
			return "none keyword, case of function names, white space and comments inside / between functions"
		}})
	// ---- (ii'') the same menus on every kind of box that is wrapped / replaced by another box
	c.kinds = boxKinds()
	nK := int64(len(c.kinds))
	if thorough {
		c.kindLists = []listSpace{withO(mkSpace("box-kinds<=1(whole menu)", c.cssFns, 1, 1), c.origins),
			withO(mkSpace("box-kinds=2(core menu)", c.cssCore, 2, 2), c.origins)}
	} else {
		c.kindLists = []listSpace{withO(mkSpace("box-kinds<=1(whole menu)", c.cssFns, 1, 1), c.origins),
			withO(mkSpace("box-kinds=2(one function per name)", onePerName(c.cssCore), 2, 2), two)}
	}
	var kindCases int64
	for _, ls := range c.kindLists {
		ls := ls
		nO := int64(len(ls.origins))
		n := ls.sp.Count() * nO * nK
		kindCases += n
		// the kind varies fastest: one unit holds the same declarations on every kind
		at := func(k int64) ([]fn, origin, *boxKind) {
			return ls.at(k / nK / nO), ls.origins[(k/nK)%nO], c.kinds[k%nK]
		}
		c.sections = append(c.sections, section{ls.name, (n + cssBatch - 1) / cssBatch,
			func(u int64, ctx *engine.Ctx) {
				for k := u * cssBatch; k < (u+1)*cssBatch && k < n; k++ {
					l, o, kind := at(k)
					c.runKind(l, o, kind, ctx)
				}
			},
			func(u int64) any {
				l, o, kind := at(u * cssBatch)
				return map[string]any{"first": cssDecls(l, o), "first_kind": kind.name, "cases": cssBatch}
			}})
	}
	// ---- (ii') one rule shared by several blocks with different font sizes
	c.shLists = sharedLists()
	nSh := c.sharedCases()
	c.sections = append(c.sections, section{"shared-rule", (nSh + cssBatch - 1) / cssBatch,
		func(u int64, ctx *engine.Ctx) {
			for k := u * cssBatch; k < (u+1)*cssBatch && k < nSh; k++ {
				c.runShared(k, ctx)
			}
		},
		func(u int64) any {
			k := u * cssBatch
			nS, nO := int64(len(sharedStructs)), int64(len(sharedOrigins))
			return map[string]any{"first_rule": ".t{transform:" + sharedText(c.shLists[k/nS/nO]) + "}", "structure": sharedStructs[k%nS], "cases": cssBatch}
		}})
	// ---- (iii) svg
	var svgCases int64
	nS := int64(len(svgStyles))
	for _, ls := range c.svgLists {
		ls := ls
		n := ls.sp.Count() * nS
		svgCases += n
		c.sections = append(c.sections, section{ls.name, (n + svgBatch - 1) / svgBatch,
			func(u int64, ctx *engine.Ctx) {
				for k := u * svgBatch; k < (u+1)*svgBatch && k < n; k++ {
					c.runSVG(ls.at(k/nS), svgStyles[k%nS], ctx)
				}
			},
			func(u int64) any {
				k := u * svgBatch
				return map[string]any{"first": svgStyles[k%nS].render(ls.at(k / nS)), "cases": svgBatch}
			}})
	}

	// ---- (iii') the matrix after a clip path was applied
	clipF := c.newClipFamily(thorough)
	c.sections = append(c.sections, section{"svg-clip", clipF.units,
		func(u int64, ctx *engine.Ctx) { c.runClip(clipF, u, ctx) },
		func(u int64) any {
			vb, pl, own, x1 := clipF.decode(u)
			return map[string]any{"first": clipDoc(vb, pl, own, x1, nil), "cases": len(clipF.menu)}
		}})

	c.sections = append(c.sections, section{"svg-specials", 1,
		func(u int64, ctx *engine.Ctx) { c.runSVGSpecials(ctx) },
		func(u int64) any {
			return "empty attribute, tab / newline as white space, no separator between transforms"
		}})

	// development aid (mutant self-tests on a loaded machine): C17_ONLY=<substring>[,<substring>]
	// keeps only the sections whose name contains one of the substrings. Never set by bin/check.
	only := os.Getenv("C17_ONLY")
	if only != "" {
		var kept []section
		for _, s := range c.sections {
			for _, sub := range strings.Split(only, ",") {
				if strings.Contains(s.name, sub) {
					kept = append(kept, s)
					break
				}
			}
		}
		c.sections = kept
	}

	var units int64
	secs := map[string]any{}
	for _, s := range c.sections {
		secs[s.name] = s.units
		units += s.units
	}
	names := func(l []fn) []string {
		var o []string
		for _, f := range l {
			o = append(o, f.text)
		}
		return o
	}
	var onames, snames []string
	for _, o := range c.origins {
		if o.css == "" {
			onames = append(onames, "(initial)")
		} else {
			onames = append(onames, o.css)
		}
	}
	for _, s := range svgStyles {
		snames = append(snames, s.name)
	}
	var triples int64
	for _, s := range sets2 {
		triples += pow6(len(s)) * pow6(len(s)) * pow6(len(s))
	}
	return engine.Space{
		Units: units, Chunk: 4, Level: "model_checking",
		Rule: "algebra: every matrix over the 8-value entry set (unary laws; the set holds 1/2048 and 1/8192, so determinants down to 2^-26), every ordered pair over the 3-value set, every ordered triple over each 2-value set; css: every transform list of the prefix tree over the function menu, shortest first (lengths 1 and 2 over the whole menu x every transform-origin, length 3 over the menus and origins given in bounds.three_function_lists), plus a few special spellings; box-kinds: the lists and origins of bounds.box_kind_lists x every box kind of bounds.box_kinds (the declarations on the element itself); svg: the same for the SVG menu x every spelling; svg-clip: every viewBox x clip placement x own transform x transform of the clipPath x transform of its child of bounds.svg_clip. A css/svg case is non-trivial when the block/rect was painted and a Transform was handed to the backend (or, for a non-invertible list, when nothing was painted)",
		Bounds: map[string]any{
			"units_per_section":    secs,
			"entry_set_unary":      set6,
			"entry_set_pairs":      set3,
			"entry_sets_triples":   sets2,
			"algebra_cases":        nU + nP*nP + triples + 54,
			"inplace_args":         opArgs,
			"angles":               []string{"0", "pi/6", "pi/2", "-pi/3"},
			"points":               points,
			"css_functions":        names(c.cssFns),
			"css_core_functions":   names(c.cssCore),
			"css_transform_origin": onames,
			"css_renders":          cssCases,
			"box_kinds":            kindNames(c.kinds),
			"box_kind_renders":     kindCases,
			"box_kind_lists":       map[string]string{"quick": "one function of the whole menu x every origin; two functions of the menu made of the first core function of each name (translate, translateX, ..., matrix) x the origins (initial) and 1em 20%", "thorough": "one function of the whole menu, two functions of the core menu, both x every origin"}[tier],
			"shared_rule":          map[string]any{"documents": nSh, "transform_lists": len(c.shLists), "structures": sharedStructs, "origins": []string{"(initial)", "transform-origin:1em 1ex"}, "blocks": "a: font-size 10px 40x20; b: 30px 60x30; c: 15px 20x10; html 20px; Ahem: ex=.8em ch=1em"},
			"svg_functions":        names(c.svgFns),
			"svg_core_functions":   names(c.svgCore),
			"svg_spellings":        snames,
			"svg_draws":            svgCases,
			"svg_clip": map[string]any{"draws": clipF.cases(), "viewBox": clipVBNames(), "clip_on": []string{"the filled rect (userSpaceOnUse)", "the filled rect (objectBoundingBox)", "a parent g"},
				"own_transform": fnNames(clipF.own), "clippath_and_child_transform": map[string]string{"quick": "none + the non-singular functions of the svg core menu", "thorough": "none + the non-singular functions of the whole svg menu"}[tier]},
			"max_list_length":      3,
			"dev_section_filter":   only,
			"three_function_lists": map[string]string{"quick": "core menus; css with the origins (initial) and 1em 20%", "thorough": "css: core menu x every origin + whole menu x {(initial), 1em 20%}; svg: whole menu"}[tier],
		},
		Assumptions: []string{
			"the observed matrix is the product of the arguments of all GraphicState.Transform calls in effect (OnNewStack = save/restore) when the block / rect is filled, with the page matrix flip(150pt)·scale(0.75) removed for CSS (zoom 1, 200px page)",
			"comparison tolerance for rendered matrices: |got-ref| <= 2e-4·(1+|ref|) per entry (float32 arithmetic in the implementation)",
			"skew angles avoid tan singularities (0.125turn instead of 0.25turn) and near-singular products; for non-invertible lists (a factor scale(0) / scale(2, 0)) the element must either not be painted or be painted through the rank deficient reference matrix (no area): whether a rounded float32 determinant is exactly 0 is not decidable from the specification",
			"one block (absolutely positioned, padding, no border) and one <rect>; nesting of transformed elements is explored by the shared-rule family only",
			"box-kinds: the reference box is the painted background rectangle of the element (checked against the expected border box), extended by the 10px caption for the two caption kinds (CSS Transforms 1: the reference box of a table is the border box of its table wrapper box)",
			"numbers/lengths/angles outside the listed representatives behave like their representative",
			"svg-clip: matrices are compared after removing the viewBox transform (reference of SVG 2 §8.2 for the 100x100 viewport); the implementation puts the matrix back through a float32 inverse, so the tolerance for the clipped element grows with the condition of what the clip path multiplied in: 2e-4·(1+|ref|) + 2e-6·max|N|·max|N⁻¹|, N = own transform · clip product",
		},
	}
}

func (c *check) locate(u int64) (*section, int64) {
	for i := range c.sections {
		if u < c.sections[i].units {
			return &c.sections[i], u
		}
		u -= c.sections[i].units
	}
	return nil, 0
}

func (c *check) Run(u int64, ctx *engine.Ctx) {
	if s, k := c.locate(u); s != nil {
		s.run(k, ctx)
	}
}

func (c *check) Describe(u int64) any {
	if s, k := c.locate(u); s != nil {
		return map[string]any{"section": s.name, "unit": s.desc(k)}
	}
	return nil
}

// ---- css ---------------------------------------------------------------------------------

const renderTol = 2e-4

// deviation is max_i |got-ref| / (1+|ref|); countDev files it into a decade histogram.
func deviation(got, ref M) float64 {
	d := 0.0
	for i := range got {
		v := math.Abs(got[i]-ref[i]) / (1 + math.Abs(ref[i]))
		if !(v <= d) { // also catches NaN
			d = v
		}
	}
	return d
}

func countDev(ctx *engine.Ctx, family string, d float64) {
	switch {
	case d <= 1e-6:
		ctx.Count(family+":deviation<=1e-6", 1)
	case d <= 1e-5:
		ctx.Count(family+":deviation<=1e-5", 1)
	case d <= 1e-4:
		ctx.Count(family+":deviation<=1e-4", 1)
	case d <= renderTol:
		ctx.Count(family+":deviation<=tolerance", 1)
	default:
		ctx.Count(family+":deviation>tolerance", 1)
	}
}

func cssDecls(list []fn, o origin) string {
	d := "transform:" + listText(list)
	if o.css != "" {
		d += ";" + o.css
	}
	return d
}

func (c *check) baselines(ctx *engine.Ctx) {
	if c.baseDone {
		return
	}
	c.baseDone = true
	pi, _ := ctx.Guard("css: baseline without transform", func() {
		r := renderCSS("")
		c.cssBaseTransforms = r.transforms
		if !r.painted || !isIdent(r.obs, 1e-9) || r.rect != [4]float64{boxX, boxY, boxW, boxH} {
			c.cssBaseErr = fmt.Sprintf("baseline document: painted=%v rect=%v matrix=%v (want the identity on 10,10,40,20)", r.painted, r.rect, r.obs)
		}
	})
	if pi != nil {
		c.cssBaseErr = "baseline document panics: " + pi.Msg
	}
	pi, _ = ctx.Guard("svg: baseline without transform", func() {
		r := renderSVG("\x00")
		c.svgBaseTransforms = r.transforms
		if r.parseErr != "" || !r.painted || !isIdent(r.obs, 1e-9) {
			c.svgBaseErr = fmt.Sprintf("baseline image: err=%q painted=%v matrix=%v", r.parseErr, r.painted, r.obs)
		}
	})
	if pi != nil {
		c.svgBaseErr = "baseline image panics: " + pi.Msg
	}
}

func (c *check) runCSS(list []fn, o origin, ctx *engine.Ctx) {
	c.cssCase(nil, cssDecls(list, o), func(w, h float64) M { return listRef(list, w, h) }, listSingular(list), o, listFeatures("css", list, o.tag), ctx)
}

// listSingular: the product is non-invertible iff one factor is (decided on the exact factors,
// not on the rounded product).
func listSingular(list []fn) bool {
	for _, f := range list {
		if det(f.mat(boxW, boxH)) == 0 {
			return true
		}
	}
	return false
}

// runKind: the declarations of runCSS on the element of one box kind.
func (c *check) runKind(list []fn, o origin, kind *boxKind, ctx *engine.Ctx) {
	c.cssCase(kind, cssDecls(list, o), func(w, h float64) M { return listRef(list, w, h) }, listSingular(list), o, kindFeatures(list, o, kind), ctx)
}

// cssCase renders one document and compares the matrix in effect at the paint of the block
// (kind == nil: the absolutely positioned block of the css family) with T(origin)·ref·T(-origin).
func (c *check) cssCase(kind *boxKind, decls string, refOf func(w, h float64) M, singular bool, o origin, feats []string, ctx *engine.Ctx) {
	c.baselines(ctx)
	desc := "css: " + decls
	baseErr, baseTransforms, wantRect := c.cssBaseErr, c.cssBaseTransforms, [4]float64{boxX, boxY, boxW, boxH}
	if kind != nil {
		desc = "css[" + kind.name + "]: " + decls
		kind.baseline(func(d string, f func()) string {
			if pi, _ := ctx.Guard(d, f); pi != nil {
				return pi.Msg
			}
			return ""
		})
		baseErr, baseTransforms, wantRect = kind.baseErr, kind.baseTransforms, kind.want
	}
	ctx.Trans(1)
	if baseErr != "" {
		ctx.Case(false, "no-baseline")
		bf := []string{"css"}
		if kind != nil {
			bf = append(bf, kind.tag())
		}
		ctx.Fail(engine.Failure{Clause: "harness-baseline", Features: bf, Case: desc, Detail: baseErr})
		return
	}
	var r cssResult
	if !ctx.GuardFail(desc, feats, func() {
		if kind != nil {
			r = renderHTML(kind.html(decls))
		} else {
			r = renderCSS(decls)
		}
	}) {
		ctx.Case(false, "panic")
		return
	}
	ref0 := refOf(boxW, boxH)
	if !r.painted {
		ctx.Case(singular, "not-painted")
		if singular {
			// CSS Transforms 1 §12: a non-invertible matrix => the element is not displayed
			ctx.Count("css:singular-not-painted", 1)
			return
		}
		ctx.Fail(engine.Failure{Clause: "css-not-painted", Features: feats, Case: desc, Detail: "the block is not painted although the transform is invertible; reference " + ref0.String()})
		return
	}
	// the reference box is the border box = the painted background rectangle
	if r.rect != wantRect {
		ctx.Count("css:unexpected-border-box", 1)
	}
	box := r.rect
	if kind != nil && kind.ref != nil {
		box = kind.ref(box)
	}
	x, y, w, h := box[0], box[1], box[2], box[3]
	ox, oy := x+o.x.resolve(w), y+o.y.resolve(h)
	ref := mul(mul(translation(ox, oy), refOf(w, h)), translation(-ox, -oy))
	dropped := r.transforms == baseTransforms
	ctx.Case(!dropped, r.obs.key())
	if dropped {
		// no Transform call at all: the declaration was ignored. Unobservable when the
		// reference is the identity (e.g. a lone rotate(0deg)).
		ctx.Count("css:no-transform-handed", 1)
		if !singular && near(r.obs, ref, renderTol) {
			return
		}
		ctx.Fail(engine.Failure{Clause: "css-transform-dropped", Features: feats, Case: desc,
			Detail: fmt.Sprintf("no Transform reaches the backend (declaration ignored); want %v", ref)})
		return
	}
	ctx.Count("css:transform-handed", 1)
	if singular {
		// CSS Transforms 1 §12: the element is not displayed. Whether the rounded float32
		// product has a determinant of exactly 0 is not decidable from the specification:
		// painting through the (rank deficient) reference matrix covers no area and is
		// accepted like any other correct matrix.
		ctx.Count("css:singular-painted-with-matrix", 1)
	} else {
		countDev(ctx, "css", deviation(r.obs, ref))
	}
	if near(r.obs, ref, renderTol) {
		return
	}
	ctx.Fail(engine.Failure{Clause: "css-matrix", Features: feats, Case: desc, Detail: fmt.Sprintf("want %v got %v", ref, r.obs)})
}

// cssSpecials: spellings that reach the remaining branches of the validator (none keyword,
// case-insensitive function names, white space inside and between functions).
func (c *check) runCSSSpecials(ctx *engine.Ctx) {
	def := c.origins[0]
	r30 := rotation(deg(30))
	type sp struct {
		value string
		ref   M
		tag   string
	}
	for _, s := range []sp{
		{"none", ident, "special:none"},
		{"ROTATE(30deg)", r30, "special:uppercase-name"},
		{"TranslateX(10px) ScaleY(2)", mul(translation(10, 0), scaling(1, 2)), "special:mixedcase-name"},
		{"rotate( 30deg )", r30, "special:inner-space"},
		{"translate(10px,-5px)", translation(10, -5), "special:no-space-after-comma"},
		{"translate( 10px , -5px )  scale(2)", mul(translation(10, -5), scaling(2, 2)), "special:extra-space"},
		{"translate(10px)rotate(30deg)", mul(translation(10, 0), r30), "special:no-space-between"},
		{"translate(10px)/**/rotate(30deg)", mul(translation(10, 0), r30), "special:comment-between"},
		// CSS Transforms 1 §12: rotate() = rotate( [ <angle> | <zero> ] ), same for the skew functions
		{"rotate(0) translateX(10px)", translation(10, 0), "special:unitless-zero-angle"},
		{"skewX(0) translateX(10px)", translation(10, 0), "special:unitless-zero-angle"},
	} {
		s := s
		c.cssCase(nil, "transform:"+s.value, func(w, h float64) M { return s.ref }, false, def, []string{"css", s.tag, def.tag}, ctx)
	}
}

// ---- svg ---------------------------------------------------------------------------------

func (c *check) runSVG(list []fn, st svgStyle, ctx *engine.Ctx) {
	styleTag := st.tag
	if len(list) < 2 && styleTag == "syntax:list-comma" {
		styleTag = "syntax:canonical" // a list of one has no list separator
	}
	c.svgCase(st.render(list), listRef(list, 0, 0), listSingular(list), listFeatures("svg", list, styleTag), ctx)
}

func (c *check) svgCase(attr string, ref M, singular bool, feats []string, ctx *engine.Ctx) {
	c.baselines(ctx)
	desc := fmt.Sprintf("svg: transform=%q", attr)
	ctx.Trans(1)
	if c.svgBaseErr != "" {
		ctx.Case(false, "no-baseline")
		ctx.Fail(engine.Failure{Clause: "harness-baseline", Features: []string{"svg"}, Case: desc, Detail: c.svgBaseErr})
		return
	}
	var r svgResult
	if !ctx.GuardFail(desc, feats, func() { r = renderSVG(attr) }) {
		ctx.Case(false, "panic")
		return
	}
	if r.parseErr != "" {
		ctx.Case(false, "parse-error")
		ctx.Fail(engine.Failure{Clause: "svg-parse-error", Features: feats, Case: desc, Detail: "svg.Parse: " + r.parseErr})
		return
	}
	if !r.painted {
		ctx.Case(singular, "not-painted")
		if singular {
			ctx.Count("svg:singular-not-painted", 1)
			return
		}
		ctx.Fail(engine.Failure{Clause: "svg-not-painted", Features: feats, Case: desc, Detail: "the rect is not painted; reference " + ref.String()})
		return
	}
	dropped := r.transforms == c.svgBaseTransforms
	ctx.Case(!dropped, r.obs.key())
	if singular && dropped {
		// CSS Transforms 1 §12 (which defines the SVG transform attribute): a non-invertible
		// matrix => the element is not displayed. Here it is painted untransformed.
		ctx.Fail(engine.Failure{Clause: "svg-singular-painted", Features: feats, Case: desc, Detail: "non-invertible transform " + ref.String() + ": the element must not be displayed, but it is painted without any Transform"})
		return
	}
	if dropped {
		ctx.Count("svg:no-transform-handed", 1)
	} else {
		ctx.Count("svg:transform-handed", 1)
		if singular {
			// painted through a matrix: accepted when it is the (rank deficient) reference, see cssCase
			ctx.Count("svg:singular-painted-with-matrix", 1)
		} else {
			countDev(ctx, "svg", deviation(r.obs, ref))
		}
	}
	if near(r.obs, ref, renderTol) {
		return
	}
	clause := "svg-matrix"
	detail := fmt.Sprintf("want %v got %v", ref, r.obs)
	if dropped {
		clause = "svg-transform-dropped"
		detail = fmt.Sprintf("no Transform reaches the backend; want %v", ref)
	}
	ctx.Fail(engine.Failure{Clause: clause, Features: feats, Case: desc, Detail: detail})
}

// svgSpecials: empty attribute and white space other than U+0020 (SVG 1.1: wsp = #x20 | #x9 | #xD | #xA).
func (c *check) runSVGSpecials(ctx *engine.Ctx) {
	type sp struct {
		attr string
		ref  M
		tag  string
	}
	tr := translation(10, 20)
	for _, s := range []sp{
		{"", ident, "special:empty"},
		{"   ", ident, "special:blank"},
		{"translate(10\t20)", tr, "special:tab-in-args"},
		{"translate(10\n20)", tr, "special:newline-in-args"},
		{"translate(10 20)\trotate(90)", mul(tr, rotation(deg(90))), "special:tab-between"},
		{"translate(10 20)\nrotate(90)", mul(tr, rotation(deg(90))), "special:newline-between"},
		{"translate(10 20)rotate(90)", mul(tr, rotation(deg(90))), "special:no-space-between"},
	} {
		feats := []string{"svg", s.tag}
		if strings.Contains(s.tag, "-in-args") {
			feats = append(feats, "syntax:args-tab-newline")
		}
		c.svgCase(s.attr, s.ref, false, feats, ctx)
	}
}

// FeaturesOf recomputes the feature tags of a case from its description (used by the master
// for cases that killed their worker).
func (c *check) FeaturesOf(desc string) []string {
	find := func(menu []fn, text string) []fn {
		var out []fn
		for _, part := range strings.SplitAfter(text, ")") {
			part = strings.TrimSpace(part)
			for _, f := range menu {
				if f.text == part {
					out = append(out, f)
					break
				}
			}
		}
		return out
	}
	var kind *boxKind
	if k, rest, ok := kindOfDesc(desc); ok {
		kind = kindByName(c.kinds, k)
		desc = "css: " + rest
	}
	switch {
	case strings.HasPrefix(desc, "css: transform:"):
		rest := strings.TrimPrefix(desc, "css: transform:")
		org := c.origins[0]
		if i := strings.Index(rest, ";"); i >= 0 {
			for _, o := range c.origins {
				if o.css == rest[i+1:] {
					org = o
				}
			}
			rest = rest[:i]
		}
		if kind != nil {
			return kindFeatures(find(c.cssFns, rest), org, kind)
		}
		return listFeatures("css", find(c.cssFns, rest), org.tag)
	case strings.HasPrefix(desc, "svg-clip:"):
		return []string{"svg", "clip"}
	case strings.HasPrefix(desc, "svg:"):
		return []string{"svg"}
	case kind != nil:
		return []string{"css", kind.tag()}
	}
	return []string{"algebra"}
}
