package c17

// Alphabets of the CSS and SVG families: one symbol = one transform function with its
// arguments, together with its reference matrix and the feature tags computed from the
// input alone.

import (
	"fmt"
	"sort"
	"strconv"
	"strings"
)

type fn struct {
	text  string               // CSS source / canonical SVG source
	name  string               // lower-case function name
	args  []string             // SVG: argument texts
	mat   func(w, h float64) M // reference matrix (w,h = reference box for percentages)
	feats []string             // feature tags
	core  bool                 // member of the reduced menu used for lists of three
	// the matrix depends on the width / height of the reference box (a percentage argument)
	pctX, pctY bool
}

type angle struct {
	css string
	rad float64
}

func mkAngle(v float64, unit string) angle {
	return angle{css: strconv.FormatFloat(v, 'g', -1, 64) + unit, rad: angleRad(v, unit)}
}

func angleFeats(a angle, unit string) []string {
	f := []string{"unit:" + unit}
	if a.rad == 0 {
		f = append(f, "zero-angle")
	}
	return f
}

func lenFeats(ls ...length) []string {
	var f []string
	for _, l := range ls {
		f = append(f, "len-unit:"+l.unit)
	}
	return f
}

func fixed(m M) func(w, h float64) M { return func(w, h float64) M { return m } }

func num(v float64) string { return strconv.FormatFloat(v, 'g', -1, 64) }

// cssMenu builds the CSS function alphabet.
func cssMenu() []fn {
	var out []fn
	add := func(core bool, text, name string, mat func(w, h float64) M, feats ...string) {
		out = append(out, fn{text: text, name: name, mat: mat, feats: append([]string{"fn:" + name}, feats...), core: core})
	}
	// --- translate family: <length-percentage>, percentages refer to the reference (border) box
	lx := []length{{"10px", 10, "px"}, {"-5px", -5, "px"}, {"50%", 50, "%"}, {"1.5em", 1.5, "em"}, {"0", 0, "px"}}
	ly := []length{{"-5px", -5, "px"}, {"20%", 20, "%"}, {"1.5em", 1.5, "em"}}
	pct := func(px, py bool) { out[len(out)-1].pctX, out[len(out)-1].pctY = px, py }
	for i, x := range lx {
		x := x
		xp := x.unit == "%"
		add(i == 0, "translate("+x.css+")", "translate", func(w, h float64) M { return translation(x.resolve(w), 0) }, lenFeats(x)...)
		pct(xp, false)
		for j, y := range ly {
			y := y
			add((i == 2 && j == 1) || (i == 3 && j == 0), "translate("+x.css+", "+y.css+")", "translate",
				func(w, h float64) M { return translation(x.resolve(w), y.resolve(h)) }, append(lenFeats(x, y), "translate-2args")...)
			pct(xp, y.unit == "%")
		}
		add(i == 1, "translateX("+x.css+")", "translatex", func(w, h float64) M { return translation(x.resolve(w), 0) }, lenFeats(x)...)
		pct(xp, false)
		add(i == 2, "translateY("+x.css+")", "translatey", func(w, h float64) M { return translation(0, x.resolve(h)) }, lenFeats(x)...)
		pct(false, xp)
	}
	// --- scale family
	ns := []float64{2, -1, 0.5}
	for i, s := range ns {
		add(i == 0, "scale("+num(s)+")", "scale", fixed(scaling(s, s)))
		for j, t := range ns {
			add((i == 1 && j == 2) || (i == 2 && j == 0), "scale("+num(s)+", "+num(t)+")", "scale", fixed(scaling(s, t)), "scale-2args")
		}
		add(i == 1, "scaleX("+num(s)+")", "scalex", fixed(scaling(s, 1)))
		add(i == 2, "scaleY("+num(s)+")", "scaley", fixed(scaling(1, s)))
	}
	add(true, "scale(0)", "scale", fixed(scaling(0, 0)), "singular")
	add(false, "scale(2, 0)", "scale", fixed(scaling(2, 0)), "scale-2args", "singular")
	// --- rotate: every angle unit, a negative and a zero angle
	type au struct {
		v    float64
		unit string
	}
	rot := []au{{30, "deg"}, {0.5, "rad"}, {50, "grad"}, {0.25, "turn"}, {-45, "deg"}, {0, "deg"}}
	for _, a := range rot {
		an := mkAngle(a.v, a.unit)
		add(true, "rotate("+an.css+")", "rotate", fixed(rotation(an.rad)), angleFeats(an, a.unit)...)
	}
	// --- skew family (0.25turn would be tan(90deg): replaced by 0.125turn)
	sk := []au{{30, "deg"}, {0.5, "rad"}, {50, "grad"}, {0.125, "turn"}, {-45, "deg"}, {0, "deg"}}
	sk2 := []au{{10, "deg"}, {-30, "deg"}, {0, "deg"}}
	asym := func(ax, ay float64) []string {
		if ax != ay {
			return []string{"skew-asymmetric"}
		}
		return nil
	}
	for i, a := range sk {
		an := mkAngle(a.v, a.unit)
		af := angleFeats(an, a.unit)
		add(i == 0 || i == 4 || i == 5, "skewX("+an.css+")", "skewx", fixed(skewing(an.rad, 0)), append(af, asym(an.rad, 0)...)...)
		add(i == 0 || i == 1, "skewY("+an.css+")", "skewy", fixed(skewing(0, an.rad)), append(af, asym(0, an.rad)...)...)
		add(i == 0 || i == 3, "skew("+an.css+")", "skew", fixed(skewing(an.rad, 0)), append(af, asym(an.rad, 0)...)...)
		for j, b := range sk2 {
			bn := mkAngle(b.v, b.unit)
			f := append([]string{"skew-2args"}, af...)
			if bn.rad == 0 && an.rad != 0 {
				f = append(f, "zero-angle")
			}
			f = append(f, asym(an.rad, bn.rad)...)
			add((i == 0 && j == 0) || (i == 4 && j == 1) || (i == 5 && j == 0), "skew("+an.css+", "+bn.css+")", "skew", fixed(skewing(an.rad, bn.rad)), f...)
		}
	}
	// --- matrix
	add(true, "matrix(1, 2, 3, 4, 5, 6)", "matrix", fixed(M{1, 2, 3, 4, 5, 6}))
	add(true, "matrix(0.5, -1, 2, 1, -5, 10)", "matrix", fixed(M{0.5, -1, 2, 1, -5, 10}))
	return out
}

// origin is one transform-origin value.
type origin struct {
	css  string // declaration ("" = initial value 50% 50%)
	x, y length
	tag  string
}

func cssOrigins() []origin {
	pc := func(v float64) length { return length{"", v, "%"} }
	o := []origin{
		{"", pc(50), pc(50), "origin:default"},
		{"transform-origin:0 0", pc(0), pc(0), "origin:zero"},
		{"transform-origin:1em 20%", length{"", 1, "em"}, pc(20), "origin:em-percent"},
		{"transform-origin:right bottom", pc(100), pc(100), "origin:keywords"},
	}
	o = append(o,
		origin{"transform-origin:top", pc(50), pc(0), "origin:single-keyword"},
		origin{"transform-origin:bottom left", pc(0), pc(100), "origin:keywords-swapped"},
		origin{"transform-origin:25%", pc(25), pc(50), "origin:single-value"},
		origin{"transform-origin:-5px 3pt", length{"", -5, "px"}, length{"", 3, "pt"}, "origin:px-pt"},
	)
	return o
}

// svgMenu builds the SVG function alphabet (numbers without units, angles in degrees).
func svgMenu() []fn {
	var out []fn
	add := func(core bool, name string, mat M, feats []string, args ...float64) {
		f := fn{name: strings.ToLower(name), mat: fixed(mat), feats: append([]string{"fn:" + strings.ToLower(name)}, feats...), core: core}
		for _, a := range args {
			f.args = append(f.args, num(a))
		}
		f.text = name + "(" + strings.Join(f.args, ", ") + ")"
		f.args = append([]string{name}, f.args...)
		out = append(out, f)
	}
	xs := []float64{10, -5, 2.5}
	ys := []float64{-5, 0, 7}
	for i, x := range xs {
		add(i == 0, "translate", translation(x, 0), nil, x)
		for j, y := range ys {
			add((i == 1 && j == 2) || (i == 2 && j == 0), "translate", translation(x, y), []string{"translate-2args"}, x, y)
		}
	}
	ns := []float64{2, -1, 0.5}
	for i, s := range ns {
		add(i == 0, "scale", scaling(s, s), nil, s)
		for j, t := range ns {
			add((i == 1 && j == 2) || (i == 2 && j == 0), "scale", scaling(s, t), []string{"scale-2args"}, s, t)
		}
	}
	add(true, "scale", scaling(0, 0), []string{"singular"}, 0)
	add(false, "scale", scaling(2, 0), []string{"scale-2args", "singular"}, 2, 0)
	zf := func(a float64) []string {
		if a == 0 {
			return []string{"zero-angle"}
		}
		return nil
	}
	for _, a := range []float64{30, -45, 90, 0, 400} {
		add(a != 400, "rotate", rotation(deg(a)), zf(a), a)
	}
	centres := [][2]float64{{5, 6}, {-10, 0}, {0, 0}}
	for i, a := range []float64{30, -45, 90} {
		for j, c := range centres {
			m := mul(mul(translation(c[0], c[1]), rotation(deg(a))), translation(-c[0], -c[1]))
			add(i == j, "rotate", m, []string{"rotate-3args"}, a, c[0], c[1])
		}
	}
	for i, a := range []float64{30, -45, 0, 60} {
		af := zf(a)
		if a != 0 {
			af = append(af, "skew-asymmetric")
		}
		add(i < 3, "skewX", skewing(deg(a), 0), af, a)
		add(i == 0 || i == 3, "skewY", skewing(0, deg(a)), af, a)
	}
	add(true, "matrix", M{1, 2, 3, 4, 5, 6}, nil, 1, 2, 3, 4, 5, 6)
	add(true, "matrix", M{0.5, -1, 2, 1, -5, 10}, nil, 0.5, -1, 2, 1, -5, 10)
	return out
}

// svgStyle is one spelling of a transform list (SVG 1.1 §7.6 grammar: arguments separated by
// comma-wsp, transforms separated by comma-wsp+, optional white space around parentheses).
type svgStyle struct {
	name             string
	pre, open, close string // around the name / parentheses
	argSep, listSep  string
	tag              string
}

var svgStyles = []svgStyle{
	{"comma-space", "", "(", ")", ", ", " ", "syntax:canonical"},
	{"space", "", "(", ")", " ", " ", "syntax:args-space"},
	{"comma", "", "(", ")", ",", " ", "syntax:args-comma"},
	{"padded", " ", " ( ", " ) ", " , ", " ", "syntax:padded"},
	{"list-comma-space", "", "(", ")", ", ", ", ", "syntax:list-comma"},
	{"list-comma", "", "(", ")", " ", ",", "syntax:list-comma"},
}

func (s svgStyle) render(list []fn) string {
	var sb strings.Builder
	for i, f := range list {
		if i > 0 {
			sb.WriteString(s.listSep)
		}
		sb.WriteString(s.pre)
		sb.WriteString(f.args[0])
		sb.WriteString(s.open)
		sb.WriteString(strings.Join(f.args[1:], s.argSep))
		sb.WriteString(s.close)
	}
	return sb.String()
}

// listFeatures merges the tags of a list (sorted, unique).
func listFeatures(family string, list []fn, extra ...string) []string {
	set := map[string]bool{family: true, fmt.Sprintf("len=%d", len(list)): true}
	for _, f := range list {
		for _, t := range f.feats {
			set[t] = true
		}
	}
	for _, t := range extra {
		if t != "" {
			set[t] = true
		}
	}
	out := make([]string, 0, len(set))
	for k := range set {
		out = append(out, k)
	}
	sort.Strings(out)
	return out
}

func listRef(list []fn, w, h float64) M {
	m := ident
	for _, f := range list {
		m = mul(m, f.mat(w, h)) // lists compose left to right: T1·T2·…
	}
	return m
}

func listText(list []fn) string {
	var p []string
	for _, f := range list {
		p = append(p, f.text)
	}
	return strings.Join(p, " ")
}
