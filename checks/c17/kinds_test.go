package c17

import "testing"

// Every box kind of the box-kinds family: without a transform the target is painted through
// the identity with the expected border box.
func TestKindBaselines(t *testing.T) {
	for _, k := range boxKinds() {
		r := renderHTML(k.html(""))
		t.Logf("%-22s painted=%v rect=%v transforms=%d obs=%v", k.name, r.painted, r.rect, r.transforms, r.obs)
		if r.painted && (r.rect != k.want || !isIdent(r.obs, 1e-9)) {
			t.Errorf("%s: painted=%v rect=%v (want %v) matrix=%v", k.name, r.painted, r.rect, k.want, r.obs)
		}
	}
}
