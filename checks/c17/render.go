package c17

// Execution of the real code: CSS documents through tree.NewHTML -> document.Render -> Write,
// SVG images through svg.Parse -> Draw, both onto a small recording backend that tracks the
// current transformation matrix (product of the arguments of GraphicState.Transform, with
// OnNewStack as save/restore) and notes it at every fill.

import (
	"fmt"
	"io"
	"strings"
	"sync"

	fc "github.com/benoitkugler/textprocessing/fontconfig"
	"github.com/benoitkugler/textprocessing/pango/fcfonts"
	"github.com/benoitkugler/webrender/backend"
	"github.com/benoitkugler/webrender/css/parser"
	"github.com/benoitkugler/webrender/html/document"
	"github.com/benoitkugler/webrender/html/tree"
	"github.com/benoitkugler/webrender/logger"
	"github.com/benoitkugler/webrender/matrix"
	"github.com/benoitkugler/webrender/svg"
	"github.com/benoitkugler/webrender/text"
	"github.com/benoitkugler/webrender/utils"
	"github.com/benoitkugler/webrender/utils/testutils/tracer"
)

type fl = backend.Fl

func toM(t matrix.Transform) M {
	return M{float64(t.A), float64(t.B), float64(t.C), float64(t.D), float64(t.E), float64(t.F)}
}

// paintEv is one fill with the state it happened in.
type paintEv struct {
	ctm  M
	rect [4]float64 // last Rectangle before the fill
	fill parser.RGBA
}

type gstate struct {
	ctm  M
	fill parser.RGBA
}

type recorder struct {
	*tracer.Drawer
	cur        gstate
	transforms int // number of Transform calls
	lastRect   [4]float64
	paints     []paintEv
	rects      []paintEv // every Rectangle call with the matrix in effect
}

func newRecorder() *recorder {
	return &recorder{Drawer: tracer.NewDrawerNoOp(), cur: gstate{ctm: ident}}
}

func (r *recorder) AddPage(left, top, right, bottom fl) backend.Page { return r }
func (r *recorder) State() backend.GraphicState                      { return r }
func (r *recorder) NewGroup(x, y, w, h fl) backend.Canvas            { return r }
func (r *recorder) OnNewStack(f func()) {
	saved := r.cur
	f()
	r.cur = saved
}
func (r *recorder) Transform(t matrix.Transform) {
	r.transforms++
	r.cur.ctm = mul(r.cur.ctm, toM(t))
}
func (r *recorder) GetTransform() matrix.Transform {
	c := r.cur.ctm
	return matrix.New(fl(c[0]), fl(c[1]), fl(c[2]), fl(c[3]), fl(c[4]), fl(c[5]))
}
func (r *recorder) Rectangle(x, y, w, h fl) {
	r.lastRect = [4]float64{float64(x), float64(y), float64(w), float64(h)}
	r.rects = append(r.rects, paintEv{ctm: r.cur.ctm, rect: r.lastRect})
}
func (r *recorder) SetColorRgba(c parser.RGBA, stroke bool) {
	if !stroke {
		r.cur.fill = c
	}
}
func (r *recorder) Paint(op backend.PaintOp) {
	if op&(backend.FillEvenOdd|backend.FillNonZero) != 0 {
		r.paints = append(r.paints, paintEv{ctm: r.cur.ctm, rect: r.lastRect, fill: r.cur.fill})
	}
}

// redPaint returns the (first) fill made with the marker colour.
func (r *recorder) redPaint() (paintEv, bool) {
	for _, p := range r.paints {
		if p.fill.R == 1 && p.fill.G == 0 && p.fill.B == 0 && p.fill.A == 1 {
			return p, true
		}
	}
	return paintEv{}, false
}

// ---- worker-wide state (built lazily, once per process) -----------------------------------

var (
	fontOnce sync.Once
	fontCfg  text.FontConfiguration
	fontErr  error
)

func fonts() (text.FontConfiguration, error) {
	fontOnce.Do(func() {
		defer func() {
			if r := recover(); r != nil {
				fontErr = fmt.Errorf("font configuration: %v", r)
			}
		}()
		logger.ProgressLogger.SetOutput(io.Discard)
		logger.WarningLogger.SetOutput(io.Discard)
		fs, err := fc.Standard.Copy().ScanFontFile("/repo/resources_test/AHEM____.TTF")
		if err != nil {
			fontErr = err
			return
		}
		fontCfg = text.NewFontConfigurationPango(fcfonts.NewFontMap(fc.Standard.Copy(), fs))
	})
	return fontCfg, fontErr
}

// page geometry of the CSS documents: 200px x 200px, zoom 1. The backend works in points with
// the origin at the bottom left: page matrix = flip(height in pt) · scale(0.75).
const (
	pagePx  = 200.0
	pxToPt  = 0.75
	boxX    = 10.0
	boxY    = 10.0
	boxW    = 40.0 // border box: 28px content + 2 x 5px padding + 2 x 1px border
	boxH    = 20.0 // 14px content + 2 x 2px padding + 2 x 1px border
	cssHead = `<style>@page{size:200px 200px;margin:0}html,body{margin:0}body{font-family:ahem;font-size:10px;line-height:1}</style>`
)

var pageBase = mul(M{1, 0, 0, -1, 0, pagePx * pxToPt}, M{pxToPt, 0, 0, pxToPt, 0, 0})

func cssDoc(decls string) string {
	return cssHead + `<div style="position:absolute;left:10px;top:10px;width:28px;height:14px;padding:2px 5px;border:1px solid blue;background:red;` + decls + `"></div>`
}

type cssResult struct {
	painted    bool
	rect       [4]float64
	obs        M // matrix in effect at the paint of the box, page matrix removed
	transforms int
}

// renderCSS runs the real pipeline (must be called under Guard).
func renderCSS(decls string) cssResult { return renderHTML(cssDoc(decls)) }

// renderHTML renders one whole document and observes the (first) red fill.
func renderHTML(src string) cssResult {
	cfg, err := fonts()
	if err != nil {
		panic(err)
	}
	doc, err := tree.NewHTML(utils.InputString(src), "", nil, "")
	if err != nil {
		panic(err)
	}
	rd := document.Render(doc, nil, false, cfg)
	rec := newRecorder()
	rd.Write(rec, 1, nil)
	out := cssResult{transforms: rec.transforms}
	if p, ok := rec.redPaint(); ok {
		out.painted = true
		out.rect = p.rect
		out.obs = mul(inverse(pageBase), p.ctm)
	}
	return out
}

const svgW, svgH = 100, 100

func svgDoc(transform string) string {
	return `<svg xmlns="http://www.w3.org/2000/svg" width="100" height="100"><rect x="10" y="10" width="40" height="20" fill="red" transform="` + transform + `"/></svg>`
}

type svgResult struct {
	rects      []paintEv
	parseErr   string
	painted    bool
	obs        M
	transforms int
}

// renderSVG runs svg.Parse + Draw (must be called under Guard). attr=="\x00" omits the attribute.
func renderSVG(attr string) svgResult {
	src := svgDoc(attr)
	if attr == "\x00" {
		src = strings.Replace(src, ` transform="`+attr+`"`, "", 1)
	}
	return renderSVGDoc(src)
}

// renderSVGDoc: svg.Parse + Draw of a whole document on 100x100 (must be called under Guard).
func renderSVGDoc(src string) svgResult {
	logger.WarningLogger.SetOutput(io.Discard)
	img, err := svg.Parse(strings.NewReader(src), "", nil, nil)
	if err != nil {
		return svgResult{parseErr: err.Error()}
	}
	rec := newRecorder()
	img.Draw(rec, svgW, svgH, nil)
	out := svgResult{transforms: rec.transforms, rects: rec.rects}
	if p, ok := rec.redPaint(); ok {
		out.painted = true
		out.obs = p.ctm
	}
	return out
}
