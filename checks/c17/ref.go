package c17

// Reference model: plain 2x3 affine arithmetic in float64, written from the definition of
// CSS Transforms 1 (matrix(a,b,c,d,e,f): x' = a x + c y + e ; y' = b x + d y + f) and the
// function primitives of CSS Transforms 1 §12-13 / SVG 1.1 §7.6. Nothing here imports the
// package under test.

import (
	"fmt"
	"math"
	"strings"
)

// M is matrix(a,b,c,d,e,f).
type M [6]float64

var ident = M{1, 0, 0, 1, 0, 0}

// mul returns t·u (u is applied first).
func mul(t, u M) M {
	return M{
		t[0]*u[0] + t[2]*u[1],
		t[1]*u[0] + t[3]*u[1],
		t[0]*u[2] + t[2]*u[3],
		t[1]*u[2] + t[3]*u[3],
		t[0]*u[4] + t[2]*u[5] + t[4],
		t[1]*u[4] + t[3]*u[5] + t[5],
	}
}

func det(t M) float64 { return t[0]*t[3] - t[1]*t[2] }

func apply(t M, x, y float64) (float64, float64) {
	return t[0]*x + t[2]*y + t[4], t[1]*x + t[3]*y + t[5]
}

// inverse of an invertible affine map (adjugate / determinant).
func inverse(t M) M {
	d := det(t)
	a, b, c, dd := t[3]/d, -t[1]/d, -t[2]/d, t[0]/d
	return M{a, b, c, dd, -(a*t[4] + c*t[5]), -(b*t[4] + dd*t[5])}
}

func translation(tx, ty float64) M { return M{1, 0, 0, 1, tx, ty} }
func scaling(sx, sy float64) M     { return M{sx, 0, 0, sy, 0, 0} }

// rotation: CSS Transforms 1 §13: rotate(a) = matrix(cos a, sin a, -sin a, cos a, 0, 0)
func rotation(a float64) M {
	c, s := math.Cos(a), math.Sin(a)
	return M{c, s, -s, c, 0, 0}
}

// skewing: skew(ax, ay) = matrix(1, tan(ay), tan(ax), 1, 0, 0); skewX(a) = skew(a, 0);
// skewY(a) = skew(0, a).
func skewing(ax, ay float64) M { return M{1, math.Tan(ay), math.Tan(ax), 1, 0, 0} }

func (m M) String() string {
	return fmt.Sprintf("[%.5g %.5g %.5g %.5g %.5g %.5g]", m[0], m[1], m[2], m[3], m[4], m[5])
}

// key is the canonical outcome form (3 decimals, -0 normalised).
func (m M) key() string {
	var sb strings.Builder
	for i, v := range m {
		if i > 0 {
			sb.WriteByte(' ')
		}
		s := fmt.Sprintf("%.3f", v)
		if s == "-0.000" {
			s = "0.000"
		}
		sb.WriteString(s)
	}
	return sb.String()
}

// near compares entry-wise with |got-want| <= tol·(1+|want|) (NaN never matches).
func near(got, want M, tol float64) bool {
	for i := range got {
		d := math.Abs(got[i] - want[i])
		if !(d <= tol*(1+math.Abs(want[i]))) {
			return false
		}
	}
	return true
}

func isIdent(m M, tol float64) bool { return near(m, ident, tol) }

// ---- units -------------------------------------------------------------------------------

func deg(d float64) float64 { return d * math.Pi / 180 }

// angleRad converts a CSS <angle> (CSS Values 3 §6.1).
func angleRad(v float64, unit string) float64 {
	switch unit {
	case "deg":
		return v * math.Pi / 180
	case "grad":
		return v * math.Pi / 200
	case "rad":
		return v
	case "turn":
		return v * 2 * math.Pi
	}
	panic("unit " + unit)
}

// length is a CSS <length-percentage> of the alphabet.
type length struct {
	css  string
	v    float64
	unit string // px | % | em | pt
}

const fontSizePx = 10 // the test documents use font-size:10px

// resolve returns the used value in px against the given percentage base.
func (l length) resolve(base float64) float64 {
	switch l.unit {
	case "px":
		return l.v
	case "%":
		return l.v / 100 * base
	case "em":
		return l.v * fontSizePx
	case "pt":
		return l.v * 96 / 72
	}
	panic("unit " + l.unit)
}
