package c17

// Family "shared-rule": ONE style rule carrying a `transform` list (and possibly a
// transform-origin) with font-relative lengths is matched by two or three absolutely
// positioned blocks that have different font sizes and different border boxes. The value the
// validator built for the declaration is shared by every element the rule matches, so the
// computed value (html/tree/computed_values.go `transforms`, `transformOrigin`) must be a
// fresh value per element: each block must be painted through the matrix computed from ITS
// OWN font size and ITS OWN border box (CSS Values 3 §5.1.1: em/ex/ch refer to the font of the
// element itself, rem to the root element's; CSS Transforms 1 §8: percentages refer to the
// reference box of the element).

import (
	"fmt"
	"sort"
	"strings"

	"github.com/benoitkugler/webrender/css/parser"
	"github.com/benoitkugler/webrender/html/document"
	"github.com/benoitkugler/webrender/html/tree"
	"github.com/benoitkugler/webrender/utils"

	"verif/internal/engine"
)

// env is what the lengths of one block are resolved against.
type env struct {
	w, h float64 // border box
	fs   float64 // font size of the block
}

const (
	rootFontPx = 20.0 // html{font-size:20px}
	ahemEx     = 0.8  // Ahem: x-height .8em
	ahemCh     = 1.0  // Ahem: advance of "0" = 1em
)

func (l length) resolveIn(base float64, e env) float64 {
	switch l.unit {
	case "px":
		return l.v
	case "pt":
		return l.v * 96 / 72
	case "%":
		return l.v / 100 * base
	case "em":
		return l.v * e.fs
	case "ex":
		return l.v * e.fs * ahemEx
	case "ch":
		return l.v * e.fs * ahemCh
	case "rem":
		return l.v * rootFontPx
	}
	panic("unit " + l.unit)
}

func mkLen(v float64, unit string) length { return length{css: num(v) + unit, v: v, unit: unit} }

// sfn is one function of the shared-rule menu.
type sfn struct {
	text  string
	mat   func(e env) M
	feats []string
	trans bool // a translate function
}

func sharedMenus() (tr, other []sfn) {
	add := func(text string, mat func(e env) M, ls ...length) {
		f := sfn{text: text, mat: mat, trans: true}
		for _, l := range ls {
			f.feats = append(f.feats, "len-unit:"+l.unit)
		}
		tr = append(tr, f)
	}
	t2 := func(x, y length) {
		add("translate("+x.css+", "+y.css+")", func(e env) M { return translation(x.resolveIn(e.w, e), y.resolveIn(e.h, e)) }, x, y)
	}
	t1 := func(x length) {
		add("translate("+x.css+")", func(e env) M { return translation(x.resolveIn(e.w, e), 0) }, x)
	}
	tx := func(x length) {
		add("translateX("+x.css+")", func(e env) M { return translation(x.resolveIn(e.w, e), 0) }, x)
	}
	ty := func(y length) {
		add("translateY("+y.css+")", func(e env) M { return translation(0, y.resolveIn(e.h, e)) }, y)
	}
	t2(mkLen(2, "em"), mkLen(1, "em"))
	t2(mkLen(1, "ex"), mkLen(2, "ch"))
	t2(mkLen(1, "rem"), mkLen(-0.5, "em"))
	t2(mkLen(10, "px"), mkLen(3, "pt"))
	t2(mkLen(50, "%"), mkLen(20, "%"))
	t2(mkLen(2, "em"), mkLen(50, "%"))
	t1(mkLen(1.5, "em"))
	tx(mkLen(2, "em"))
	tx(mkLen(1, "ch"))
	tx(mkLen(-5, "px"))
	ty(mkLen(1.5, "ex"))
	ty(mkLen(1, "rem"))
	ty(mkLen(25, "%"))
	other = []sfn{
		{text: "rotate(30deg)", mat: func(env) M { return rotation(deg(30)) }, feats: []string{"fn:rotate"}},
		{text: "scale(2, 0.5)", mat: func(env) M { return scaling(2, 0.5) }, feats: []string{"fn:scale"}},
	}
	return
}

// sharedLists: a translate alone, one rotate/scale before or after it, two translates.
func sharedLists() [][]sfn {
	tr, other := sharedMenus()
	var out [][]sfn
	for _, t := range tr {
		out = append(out, []sfn{t})
	}
	for _, t := range tr {
		for _, o := range other {
			out = append(out, []sfn{o, t}, []sfn{t, o})
		}
	}
	for _, t := range tr {
		for _, u := range tr {
			out = append(out, []sfn{t, u})
		}
	}
	return out
}

type sharedOrigin struct {
	css  string
	x, y length
	tag  string
}

var sharedOrigins = []sharedOrigin{
	{"", length{"", 50, "%"}, length{"", 50, "%"}, "origin:default"},
	{"transform-origin:1em 1ex", mkLen(1, "em"), mkLen(1, "ex"), "origin:em-ex"},
}

// block is one of the elements matched by the rule.
type block struct {
	id        string
	left, top float64
	w, h, fs  float64
	colour    string
	r, g, b   float32
}

var blocks = map[byte]block{
	'a': {"a", 10, 10, 40, 20, 10, "#f00", 1, 0, 0},
	'b': {"b", 100, 10, 60, 30, 30, "#0f0", 0, 1, 0},
	'c': {"c", 10, 100, 20, 10, 15, "#00f", 0, 0, 1},
}

// structures: letters in document order; '>' nests the following block into the previous one.
var sharedStructs = []string{"ab", "ba", "a>b", "b>a", "abc", "cba", "a>b>c"}

func sharedDoc(list []sfn, o sharedOrigin, st string) string {
	var sb strings.Builder
	sb.WriteString(`<style>@page{size:200px 200px;margin:0}html{margin:0;font-size:20px}body{margin:0;font-family:ahem;font-size:10px;line-height:1}`)
	sb.WriteString(`.t{position:absolute;transform:` + sharedText(list))
	if o.css != "" {
		sb.WriteString(";" + o.css)
	}
	sb.WriteString("}")
	for _, k := range []byte("abc") {
		b := blocks[k]
		fmt.Fprintf(&sb, "#%s{left:%gpx;top:%gpx;width:%gpx;height:%gpx;font-size:%gpx;background:%s}", b.id, b.left, b.top, b.w, b.h, b.fs, b.colour)
	}
	sb.WriteString("</style>")
	open := 0
	for i := 0; i < len(st); i++ {
		if st[i] == '>' {
			continue
		}
		nested := i+1 < len(st) && st[i+1] == '>'
		fmt.Fprintf(&sb, `<div class="t" id="%c">`, st[i])
		if nested {
			open++
		} else {
			sb.WriteString("</div>")
			for ; open > 0; open-- {
				sb.WriteString("</div>")
			}
		}
	}
	return sb.String()
}

func sharedText(list []sfn) string {
	var p []string
	for _, f := range list {
		p = append(p, f.text)
	}
	return strings.Join(p, " ")
}

// renderShared runs the pipeline (under Guard) and returns the fill of every marker colour.
func renderShared(html string) map[byte]paintEv {
	cfg, err := fonts()
	if err != nil {
		panic(err)
	}
	doc, err := tree.NewHTML(utils.InputString(html), "", nil, "")
	if err != nil {
		panic(err)
	}
	rd := document.Render(doc, nil, false, cfg)
	rec := newRecorder()
	rd.Write(rec, 1, nil)
	out := map[byte]paintEv{}
	for k, b := range blocks {
		want := parser.RGBA{R: utils.Fl(b.r), G: utils.Fl(b.g), B: utils.Fl(b.b), A: 1}
		for _, p := range rec.paints {
			if p.fill == want {
				out[k] = p
				break
			}
		}
	}
	return out
}

func (c *check) sharedCases() int64 {
	return int64(len(c.shLists) * len(sharedOrigins) * len(sharedStructs))
}

func (c *check) runShared(k int64, ctx *engine.Ctx) {
	nS, nO := int64(len(sharedStructs)), int64(len(sharedOrigins))
	st := sharedStructs[k%nS]
	o := sharedOrigins[(k/nS)%nO]
	list := c.shLists[k/nS/nO]

	set := map[string]bool{"css": true, "shared-rule": true, "struct:" + st: true, o.tag: true, fmt.Sprintf("len=%d", len(list)): true}
	for _, f := range list {
		for _, t := range f.feats {
			set[t] = true
		}
	}
	if strings.Contains(st, ">") {
		set["nested"] = true
	}
	feats := make([]string, 0, len(set))
	for t := range set {
		feats = append(feats, t)
	}
	sort.Strings(feats)

	decl := "transform:" + sharedText(list)
	if o.css != "" {
		decl += ";" + o.css
	}
	desc := fmt.Sprintf("shared-rule: .t{%s} matched by blocks %s (a: font-size 10px, 40x20; b: 30px, 60x30; c: 15px, 20x10; html 20px)", decl, st)
	ctx.Trans(1)
	var paints map[byte]paintEv
	if !ctx.GuardFail(desc, feats, func() { paints = renderShared(sharedDoc(list, o, st)) }) {
		ctx.Case(false, "panic")
		return
	}
	// walk the structure: the matrix in effect for a block is the product of the matrices of
	// its transformed ancestors and its own
	var key, bad []string
	parent := ident
	chain := ident
	missing := false
	for i := 0; i < len(st); i++ {
		if st[i] == '>' {
			continue
		}
		b := blocks[st[i]]
		p, ok := paints[st[i]]
		if !ok {
			missing = true
			bad = append(bad, fmt.Sprintf("block %s is not painted", b.id))
			continue
		}
		x, y, w, h := p.rect[0], p.rect[1], p.rect[2], p.rect[3]
		e := env{w: w, h: h, fs: b.fs}
		m := ident
		for _, f := range list {
			m = mul(m, f.mat(e))
		}
		ox, oy := x+o.x.resolveIn(w, e), y+o.y.resolveIn(h, e)
		own := mul(mul(translation(ox, oy), m), translation(-ox, -oy))
		ref := mul(chain, own)
		obs := mul(inverse(pageBase), p.ctm)
		key = append(key, b.id+":"+obs.key())
		if w != b.w || h != b.h {
			ctx.Count("shared-rule:unexpected-border-box", 1)
		}
		if !near(obs, ref, renderTol) {
			bad = append(bad, fmt.Sprintf("block %s (font-size %gpx, box %gx%g at %g,%g): want %v got %v", b.id, b.fs, w, h, x, y, ref, obs))
		}
		if i+1 < len(st) && st[i+1] == '>' {
			chain = ref // the next block is a child: it is painted inside this one's transform
		} else {
			chain = parent
		}
	}
	ctx.Case(!missing, strings.Join(key, " "))
	ctx.Count("shared-rule:documents", 1)
	if len(bad) == 0 {
		return
	}
	clause := "shared-rule-matrix"
	if missing {
		clause = "shared-rule-not-painted"
	}
	ctx.Fail(engine.Failure{Clause: clause, Features: feats, Case: desc, Detail: strings.Join(bad, "; ")})
}
