package c17

// Family "box-kinds": the transform x transform-origin menu of the css family, run on every
// kind of box that the box builder wraps into, or replaces by, another box. The declarations
// are written on ONE element; which box ends up carrying `transform`, which one carries
// `transform-origin`, and which border box the percentages refer to is decided by
// html/boxes/build.go (table wrapper: css/properties TableWrapperBoxProperties + wrapTable;
// blockification of flex / grid items, floats and absolutely positioned inline-level elements;
// list-item marker; inline-block / inline-flex / inline-table inside a line; replaced boxes).
// CSS Transforms 1 §3: the reference box of a table is the border box of its table WRAPPER box
// (captions included); for every other kind it is the border box of the element.

import (
	"fmt"
	"strings"
)

// the declarations common to every target (border box 40x20 where the kind honours them)
const kindStyle = `width:28px;height:14px;padding:2px 5px;border:1px solid blue;background:red;`

// a 1x1 PNG, and <svg xmlns='http://www.w3.org/2000/svg' width='4' height='4'/>
const (
	kindImg = `data:image/png;base64,iVBORw0KGgoAAAANSUhEUgAAAAEAAAABCAYAAAAfFcSJAAAADUlEQVR42mP8z8BQDwAEhQGAhKmMIQAAAABJRU5ErkJggg==`
	kindSVG = `data:image/svg+xml;base64,PHN2ZyB4bWxucz0naHR0cDovL3d3dy53My5vcmcvMjAwMC9zdmcnIHdpZHRoPSc0JyBoZWlnaHQ9JzQnLz4=`
)

type boxKind struct {
	name string
	// doc returns the body of the document; decls are the transform declarations of the target
	doc func(decls string) string
	// want: the rectangle the red background must be painted with (border box of the element)
	want [4]float64
	// ref: the reference box of the transform (nil: the painted rectangle)
	ref func(r [4]float64) [4]float64

	// measured lazily per worker
	baseDone       bool
	baseTransforms int
	baseErr        string
}

func (k *boxKind) tag() string { return "box:" + k.name }

func (k *boxKind) html(decls string) string { return cssHead + k.doc(decls) }

func grow(top, bottom float64) func(r [4]float64) [4]float64 {
	return func(r [4]float64) [4]float64 { return [4]float64{r[0], r[1] - top, r[2], r[3] + top + bottom} }
}

func boxKinds() []*boxKind {
	div := func(pre, post string) func(string) string {
		return func(decls string) string { return pre + kindStyle + decls + post }
	}
	// "xy" is two Ahem glyphs = 20px: inline-level targets start at x=20 of a 20px tall line
	inLine := func(display, open, close string) func(string) string {
		return func(decls string) string {
			return `<div style="margin:10px">xy<` + open + ` style="display:` + display + `;vertical-align:top;` + kindStyle + decls + `">` + close + `</div>`
		}
	}
	cell := `<div style="display:table-row"><div style="display:table-cell"></div></div>`
	return []*boxKind{
		// --- controls: blocks that are neither wrapped nor replaced
		{name: "block", doc: div(`<div style="margin:10px;`, `"></div>`), want: [4]float64{10, 10, 40, 20}},
		{name: "relative", doc: div(`<div style="position:relative;left:5px;top:3px;margin:10px;`, `"></div>`), want: [4]float64{15, 13, 40, 20}},
		{name: "float", doc: div(`<div style="float:left;margin:10px;`, `"></div>`), want: [4]float64{10, 10, 40, 20}},
		// --- table wrapper boxes
		{name: "table-element", doc: div(`<table style="margin:10px;box-sizing:content-box;`, `"><tr><td></td></tr></table>`), want: [4]float64{10, 10, 40, 20}},
		{name: "table", doc: div(`<div style="display:table;margin:10px;`, `">`+cell+`</div>`), want: [4]float64{10, 10, 40, 20}},
		{name: "inline-table", doc: inLine("inline-table", `div`, cell+`</div>`), want: [4]float64{30, 10, 40, 20}},
		{name: "abs-inline-table", doc: div(`<div style="position:absolute;left:10px;top:10px;display:inline-table;`, `">`+cell+`</div>`), want: [4]float64{10, 10, 40, 20}},
		{name: "float-table", doc: div(`<div style="float:right;display:table;margin:10px;`, `">`+cell+`</div>`), want: [4]float64{150, 10, 40, 20}},
		{name: "table-caption-top", doc: div(`<div style="display:table;margin:10px;`, `"><div style="display:table-caption">c</div>`+cell+`</div>`),
			want: [4]float64{10, 20, 40, 20}, ref: grow(10, 0)},
		{name: "table-caption-bottom", doc: div(`<div style="display:table;margin:10px;`, `"><div style="display:table-caption;caption-side:bottom">c</div>`+cell+`</div>`),
			want: [4]float64{10, 10, 40, 20}, ref: grow(0, 10)},
		// --- boxes inside tables
		{name: "table-cell", doc: div(`<div style="display:table;margin:10px"><div style="display:table-row"><div style="display:table-cell;`, `"></div></div></div>`), want: [4]float64{10, 10, 40, 20}},
		{name: "table-caption", doc: div(`<div style="display:table;margin:10px"><div style="display:table-caption;`, `"></div>`+cell+`</div>`), want: [4]float64{10, 10, 40, 20}},
		// rows and row groups (transformable elements of CSS Transforms 1): the declarations are on
		// the row / group, the red background on a block that fills its only cell: the three border
		// boxes coincide. (Not on the cell: the backgrounds of the cells of a row that forms a
		// stacking context are not painted at all, which is not a matter of this property.)
		{name: "table-row", doc: func(decls string) string {
			return `<div style="display:table;margin:10px"><div style="display:table-row;` + decls + `"><div style="display:table-cell"><div style="` + kindStyle + `"></div></div></div></div>`
		}, want: [4]float64{10, 10, 40, 20}},
		{name: "table-row-group", doc: func(decls string) string {
			return `<div style="display:table;margin:10px"><div style="display:table-row-group;` + decls + `"><div style="display:table-row"><div style="display:table-cell"><div style="` + kindStyle + `"></div></div></div></div></div>`
		}, want: [4]float64{10, 10, 40, 20}},
		// --- list items (outside marker: a child box that carries a translate of its own)
		{name: "list-item", doc: div(`<div style="display:list-item;list-style:disc outside;margin:10px 10px 10px 30px;`, `"></div>`), want: [4]float64{30, 10, 40, 20}},
		{name: "list-item-inside", doc: div(`<div style="display:list-item;list-style:disc inside;margin:10px;`, `"></div>`), want: [4]float64{10, 10, 40, 20}},
		// --- atomic inline-level boxes
		{name: "inline-block", doc: inLine("inline-block", `div`, `</div>`), want: [4]float64{30, 10, 40, 20}},
		{name: "inline-flex", doc: inLine("inline-flex", `div`, `</div>`), want: [4]float64{30, 10, 40, 20}},
		{name: "inline-grid", doc: inLine("inline-grid", `div`, `</div>`), want: [4]float64{30, 10, 40, 20}},
		// --- flex / grid containers and their (blockified) items
		{name: "flex-container", doc: div(`<div style="display:flex;margin:10px;`, `"></div>`), want: [4]float64{10, 10, 40, 20}},
		{name: "flex-item", doc: div(`<div style="display:flex;margin:10px"><div style="flex:none;`, `"></div></div>`), want: [4]float64{10, 10, 40, 20}},
		{name: "flex-item-inline", doc: div(`<div style="display:flex;margin:10px"><span style="flex:none;`, `"></span></div>`), want: [4]float64{10, 10, 40, 20}},
		{name: "grid-container", doc: div(`<div style="display:grid;margin:10px;`, `"></div>`), want: [4]float64{10, 10, 40, 20}},
		{name: "grid-item", doc: div(`<div style="display:grid;margin:10px;grid-template-columns:40px;grid-template-rows:20px"><div style="`, `"></div></div>`), want: [4]float64{10, 10, 40, 20}},
		// --- a block inside a column box
		{name: "column-child", doc: div(`<div style="position:absolute;left:10px;top:10px;columns:2;column-gap:0;width:100px"><div style="`, `"></div></div>`), want: [4]float64{10, 10, 40, 20}},
		// --- blockified inline, replaced elements
		{name: "float-inline", doc: div(`<div style="margin:10px"><span style="float:left;`, `"></span></div>`), want: [4]float64{10, 10, 40, 20}},
		{name: "abs-inline", doc: div(`<div style="margin:10px"><span style="position:absolute;left:10px;top:10px;`, `"></span></div>`), want: [4]float64{10, 10, 40, 20}},
		{name: "img-inline", doc: inLine("inline", `img src="`+kindImg+`"`, ``), want: [4]float64{30, 10, 40, 20}},
		{name: "img-block", doc: div(`<img src="`+kindSVG+`" style="display:block;margin:10px;`, `">`), want: [4]float64{10, 10, 40, 20}},
	}
}

// baseline renders the document of the kind without any transform declaration: the target must
// be painted with the expected rectangle through the identity; the number of Transform calls of
// that document is what "no Transform handed" is measured against.
func (k *boxKind) baseline(run func(desc string, f func()) string) {
	if k.baseDone {
		return
	}
	k.baseDone = true
	if msg := run("css["+k.name+"]: baseline without transform", func() {
		r := renderHTML(k.html(""))
		k.baseTransforms = r.transforms
		// a kind whose background is not painted at all is left to the cases (css-not-painted)
		if r.painted && (!isIdent(r.obs, 1e-9) || r.rect != k.want) {
			k.baseErr = fmt.Sprintf("baseline document of box kind %s: painted=%v rect=%v matrix=%v (want the identity on %v)", k.name, r.painted, r.rect, r.obs, k.want)
		}
	}); msg != "" {
		k.baseErr = "baseline document of box kind " + k.name + " panics: " + msg
	}
}

func kindByName(kinds []*boxKind, name string) *boxKind {
	for _, k := range kinds {
		if k.name == name {
			return k
		}
	}
	return nil
}

// kindOfDesc extracts the kind name of a case description "css[<kind>]: ...".
func kindOfDesc(desc string) (kind, rest string, ok bool) {
	if !strings.HasPrefix(desc, "css[") {
		return "", "", false
	}
	i := strings.Index(desc, "]: ")
	if i < 0 {
		return "", "", false
	}
	return desc[4:i], desc[i+3:], true
}

func kindNames(kinds []*boxKind) []string {
	var out []string
	for _, k := range kinds {
		out = append(out, k.name)
	}
	return out
}

// kindFeatures: the tags of the css family plus the kind, plus ref-width / ref-height when the
// reference matrix depends on the width / height of the reference box (a percentage in a
// translate function, or a non-zero percentage in the origin of a list that is not a pure
// translation): these are the cases that see WHICH box the percentages were resolved against.
func kindFeatures(list []fn, o origin, kind *boxKind) []string {
	extra := []string{o.tag, kind.tag()}
	pureTranslation, px, py := true, false, false
	for _, f := range list {
		if !strings.HasPrefix(f.name, "translate") {
			pureTranslation = false
		}
		px, py = px || f.pctX, py || f.pctY
	}
	if !pureTranslation {
		px = px || (o.x.unit == "%" && o.x.v != 0)
		py = py || (o.y.unit == "%" && o.y.v != 0)
	}
	if px {
		extra = append(extra, "ref-width")
	}
	if py {
		extra = append(extra, "ref-height")
	}
	return listFeatures("css", list, extra...)
}
