package c17

import (
	"math"
	"testing"
)

// Calibration of the reference model against worked values of CSS Transforms 1 / SVG 1.1.
func TestReference(t *testing.T) {
	pt := func(m M, x, y, wx, wy float64) {
		t.Helper()
		gx, gy := apply(m, x, y)
		if math.Abs(gx-wx) > 1e-12 || math.Abs(gy-wy) > 1e-12 {
			t.Errorf("%v (%g,%g): want (%g,%g) got (%g,%g)", m, x, y, wx, wy, gx, gy)
		}
	}
	pt(rotation(deg(90)), 1, 0, 0, 1)                       // positive angles turn +x towards +y
	pt(skewing(deg(45), 0), 0, 1, 1, 1)                     // skewX moves points along x in proportion to y
	pt(skewing(0, deg(45)), 1, 0, 1, 1)                     // skewY moves points along y in proportion to x
	pt(mul(translation(10, 0), scaling(2, 2)), 1, 0, 12, 0) // "translate(10) scale(2)": scale first, then translate
	pt(mul(scaling(2, 2), translation(10, 0)), 1, 0, 22, 0)
	pt(M{1, 2, 3, 4, 5, 6}, 1, 1, 9, 12) // matrix(a,b,c,d,e,f): x' = a x + c y + e
	m := M{0.5, -1, 2, 1, -5, 10}
	if !near(mul(m, inverse(m)), ident, 1e-12) || !near(mul(inverse(m), m), ident, 1e-12) {
		t.Error("inverse")
	}
	if angleRad(50, "grad") != math.Pi/4 || angleRad(0.25, "turn") != math.Pi/2 || angleRad(180, "deg") != math.Pi {
		t.Error("angles")
	}
	// every function of the menus has a distinct source text and a finite reference matrix
	for _, menu := range [][]fn{cssMenu(), svgMenu()} {
		seen := map[string]bool{}
		for _, f := range menu {
			if seen[f.text] {
				t.Errorf("duplicate %s", f.text)
			}
			seen[f.text] = true
			for _, v := range f.mat(40, 20) {
				if math.IsNaN(v) || math.IsInf(v, 0) {
					t.Errorf("%s: %v", f.text, f.mat(40, 20))
				}
			}
		}
	}
}
