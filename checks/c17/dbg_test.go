package c17

import (
	"fmt"
	"io"
	"os"
	"strings"
	"testing"

	fc "github.com/benoitkugler/textprocessing/fontconfig"
	"github.com/benoitkugler/textprocessing/pango/fcfonts"
	"github.com/benoitkugler/webrender/html/document"
	"github.com/benoitkugler/webrender/html/tree"
	"github.com/benoitkugler/webrender/logger"
	"github.com/benoitkugler/webrender/svg"
	"github.com/benoitkugler/webrender/text"
	"github.com/benoitkugler/webrender/utils"
	"github.com/benoitkugler/webrender/utils/testutils/tracer"
)

func TestDbg(t *testing.T) {
	logger.ProgressLogger.SetOutput(io.Discard)
	fs, _ := fc.Standard.Copy().ScanFontFile("/repo/resources_test/AHEM____.TTF")
	fontconfig := text.NewFontConfigurationPango(fcfonts.NewFontMap(fc.Standard.Copy(), fs))
	html := `<style>@page{size:200px 200px;margin:0} html{margin:0} body{margin:10px;font-family:ahem;font-size:10px;line-height:1}</style><div style="width:40px;height:20px;background:red;transform:rotate(30deg)"></div>`
	doc, _ := tree.NewHTML(utils.InputString(html), "", nil, "")
	rd := document.Render(doc, nil, false, fontconfig)
	dr := tracer.NewDrawerFile("/tmp/c17/out.txt")
	rd.Write(dr, 1, nil)
	b, _ := os.ReadFile("/tmp/c17/out.txt")
	fmt.Println(string(b))
	src := `<svg xmlns="http://www.w3.org/2000/svg" width="100" height="100"><rect x="10" y="10" width="40" height="20" fill="red" transform="rotate(30 5 6)"/></svg>`
	img, err := svg.Parse(strings.NewReader(src), "", nil, nil)
	fmt.Println(err)
	dr = tracer.NewDrawerFile("/tmp/c17/out.txt")
	img.Draw(dr, 100, 100, nil)
	b, _ = os.ReadFile("/tmp/c17/out.txt")
	fmt.Println(string(b))
}
