package c17

// Family (i): laws of package matrix over finite entry sets.
//
// The entries and arguments are small dyadic rationals, so products and sums of a few of them
// are exact in float32 and in float64: where implementation and reference perform the same
// arithmetic the comparison is exact (==). Where a division or a trigonometric function is
// involved the comparison is relative (1e-5).

import (
	"fmt"
	"math"

	"github.com/benoitkugler/webrender/matrix"

	"verif/internal/engine"
)

const relTol = 1e-5

var (
	// unary laws: 8^6 matrices. The two small powers of two (font units 1/2048, and 1/8192 ~ 1.2e-4:
	// the scale of a 914400-unit viewBox drawn on 100px) give matrices whose determinant is far
	// from 1 but not zero (down to 2^-26 ~ 1.5e-8): "Invert is a two-sided inverse whenever the
	// determinant is non-zero" is checked on them like on every other matrix of the set.
	set6 = []float64{-2, -1, 0, 0.5, 1, 3, 1.0 / 2048, 1.0 / 8192}
	set3 = []float64{0, 1, -2}             // pairs: (3^6)^2
	// triples (2^6)^3 per set
	sets2Quick    = [][]float64{{1, -2}}
	sets2Thorough = [][]float64{{1, -2}, {0, 3}, {-1, 0.5}}

	opArgs   = []float64{0, 1, -2, 0.5}
	opAngles = []float64{0, math.Pi / 6, math.Pi / 2, -math.Pi / 3}
	points   = [][2]float64{{0, 0}, {1, 0}, {0, 1}, {2, -3}}
)

// matAt decodes index i (base len(set), 6 digits, a is the most significant digit).
func matAt(set []float64, i int64) M {
	n := int64(len(set))
	var m M
	for k := 5; k >= 0; k-- {
		m[k] = set[i%n]
		i /= n
	}
	return m
}

func pow6(n int) int64 { return int64(n * n * n * n * n * n) }

func toT(m M) matrix.Transform {
	return matrix.New(fl(m[0]), fl(m[1]), fl(m[2]), fl(m[3]), fl(m[4]), fl(m[5]))
}

func algFeats(extra ...string) []string { return append([]string{"algebra"}, extra...) }

func (c *check) failAlg(ctx *engine.Ctx, clause, desc string, feats []string, format string, args ...any) {
	ctx.Fail(engine.Failure{Clause: clause, Features: feats, Case: desc, Detail: fmt.Sprintf(format, args...)})
}

// runConstructors: Identity/Translation/Scaling/Rotation/Skew against the CSS definitions.
func (c *check) runConstructors(ctx *engine.Ctx) {
	type res struct {
		desc  string
		feats []string
		got   func() matrix.Transform
		want  M
		exact bool
	}
	var cases []res
	cases = append(cases, res{"Identity()", algFeats("ctor:identity"), func() matrix.Transform { return matrix.Identity() }, ident, true})
	cases = append(cases, res{"New(1,2,3,4,5,6)", algFeats("ctor:new"), func() matrix.Transform { return matrix.New(1, 2, 3, 4, 5, 6) }, M{1, 2, 3, 4, 5, 6}, true})
	for _, x := range opArgs {
		for _, y := range opArgs {
			x, y := x, y
			cases = append(cases, res{fmt.Sprintf("Translation(%g,%g)", x, y), algFeats("ctor:translation"), func() matrix.Transform { return matrix.Translation(fl(x), fl(y)) }, translation(x, y), true})
			cases = append(cases, res{fmt.Sprintf("Scaling(%g,%g)", x, y), algFeats("ctor:scaling"), func() matrix.Transform { return matrix.Scaling(fl(x), fl(y)) }, scaling(x, y), true})
		}
	}
	for _, a := range opAngles {
		a := a
		a32 := float64(fl(a)) // the argument is a float32: the reference starts from the same number
		cases = append(cases, res{fmt.Sprintf("Rotation(%g)", a), algFeats("ctor:rotation"), func() matrix.Transform { return matrix.Rotation(fl(a)) }, rotation(a32), false})
		for _, b := range opAngles {
			b := b
			b32 := float64(fl(b))
			f := algFeats("ctor:skew")
			if a != b {
				f = append(f, "skew-asymmetric")
			}
			cases = append(cases, res{fmt.Sprintf("Skew(thetax=%g,thetay=%g)", a, b), f, func() matrix.Transform { return matrix.Skew(fl(a), fl(b)) }, skewing(a32, b32), false})
		}
	}
	for _, cs := range cases {
		desc := "constructor: " + cs.desc
		var got M
		ok := ctx.GuardFail(desc, cs.feats, func() { got = toM(cs.got()) })
		ctx.Trans(1)
		if !ok {
			ctx.Case(true, "panic")
			continue
		}
		ctx.Case(true, got.key())
		ctx.Count("law:constructor", 1)
		tol := relTol
		if cs.exact {
			tol = 0
		}
		if !near(got, cs.want, tol) {
			c.failAlg(ctx, "constructor", desc, cs.feats, "want matrix(a,b,c,d,e,f)=%v got %v", cs.want, got)
		}
	}
}

// runUnary: one matrix T with entries from set6.
func (c *check) runUnary(lo, hi int64, ctx *engine.Ctx) {
	for i := lo; i < hi; i++ {
		m := matAt(set6, i)
		desc := fmt.Sprintf("unary: T=matrix%v", m)
		feats := algFeats("unary")
		d := det(m)
		if d == 0 {
			feats = append(feats, "singular")
		} else if math.Abs(d) < 1e-3 {
			feats = append(feats, "small-determinant")
		}
		bad := func(clause, format string, args ...any) {
			c.failAlg(ctx, clause, desc, feats, format, args...)
		}
		var key string
		ok := ctx.GuardFail(desc, feats, func() {
			T := toT(m)
			// identity laws
			if g := toM(matrix.Mul(matrix.Identity(), T)); g != m {
				bad("identity", "Mul(I,T)=%v", g)
			}
			if g := toM(matrix.Mul(T, matrix.Identity())); g != m {
				bad("identity", "Mul(T,I)=%v", g)
			}
			l, r := T, T
			l.LeftMultBy(matrix.Identity())
			r.RightMultBy(matrix.Identity())
			if toM(l) != m || toM(r) != m {
				bad("identity", "LeftMultBy(I)=%v RightMultBy(I)=%v", toM(l), toM(r))
			}
			ctx.Count("law:identity", 1)
			// determinant
			// the two products are exact in float32, their difference is rounded once
			// (9 - 2^-26 is not a float32): the reference is the exact value rounded to float32
			if g, w := float64(T.Determinant()), float64(fl(d)); g != w {
				bad("determinant", "want %g got %g", w, g)
			}
			ctx.Count("law:determinant", 1)
			// apply
			for _, p := range points {
				gx, gy := T.Apply(fl(p[0]), fl(p[1]))
				wx, wy := apply(m, p[0], p[1])
				if float64(gx) != wx || float64(gy) != wy {
					bad("apply", "Apply(%g,%g): want (%g,%g) got (%g,%g)", p[0], p[1], wx, wy, gx, gy)
				}
			}
			ctx.Count("law:apply", 1)
			// inverse
			if d != 0 {
				inv := T
				err := inv.Invert()
				if err != nil {
					bad("invert", "det=%g but Invert returned %v", d, err)
				} else {
					want := inverse(m)
					gi := toM(inv)
					if !nearInverse(gi, want, m) {
						bad("invert", "want %v got %v", want, gi)
					}
					// two-sided, with the implementation's own product
					scale := maxAbs(m) * maxAbs(want)
					p1, p2 := toM(matrix.Mul(T, inv)), toM(matrix.Mul(inv, T))
					if !near(p1, ident, relTol*(1+scale)) || !near(p2, ident, relTol*(1+scale)) {
						bad("invert", "T·T⁻¹=%v T⁻¹·T=%v", p1, p2)
					}
					// and Apply(inv) undoes Apply(T)
					for _, p := range points {
						x, y := T.Apply(fl(p[0]), fl(p[1]))
						bx, by := inv.Apply(x, y)
						if !(math.Abs(float64(bx)-p[0]) <= relTol*(1+scale)*4 && math.Abs(float64(by)-p[1]) <= relTol*(1+scale)*4) {
							bad("invert", "T⁻¹(T(%g,%g)) = (%g,%g)", p[0], p[1], bx, by)
						}
					}
				}
				ctx.Count("law:invert", 1)
				if math.Abs(d) < 1e-6 {
					ctx.Count("law:invert(0<|det|<1e-6)", 1)
				}
				key = "inv " + toM(inv).key()
			} else {
				ctx.Count("invert:singular-skipped", 1)
				key = "singular"
			}
			// in-place operations == RightMultBy(constructor) == reference product
			for _, x := range opArgs {
				for _, y := range opArgs {
					a, b := T, T
					a.Translate(fl(x), fl(y))
					b.RightMultBy(matrix.Translation(fl(x), fl(y)))
					want := mul(m, translation(x, y))
					if toM(a) != toM(b) || toM(a) != want {
						bad("inplace-translate", "Translate(%g,%g): in-place %v RightMultBy(Translation) %v reference %v", x, y, toM(a), toM(b), want)
					}
					a, b = T, T
					a.Scale(fl(x), fl(y))
					b.RightMultBy(matrix.Scaling(fl(x), fl(y)))
					want = mul(m, scaling(x, y))
					if toM(a) != toM(b) || toM(a) != want {
						bad("inplace-scale", "Scale(%g,%g): in-place %v RightMultBy(Scaling) %v reference %v", x, y, toM(a), toM(b), want)
					}
				}
			}
			ctx.Count("law:inplace-translate-scale", 32)
			for _, th := range opAngles {
				a, b := T, T
				a.Rotate(fl(th))
				ctor := matrix.Rotation(fl(th))
				b.RightMultBy(ctor)
				want := mul(m, toM(ctor)) // reference product with the constructor's matrix as data
				if !near(toM(a), toM(b), relTol) || !near(toM(a), want, relTol) {
					bad("inplace-rotate", "Rotate(%g): in-place %v RightMultBy(Rotation) %v reference %v", th, toM(a), toM(b), want)
				}
				for _, th2 := range opAngles {
					a, b = T, T
					a.Skew(fl(th), fl(th2))
					ctor = matrix.Skew(fl(th), fl(th2))
					b.RightMultBy(ctor)
					want = mul(m, toM(ctor))
					if !near(toM(a), toM(b), relTol) || !near(toM(a), want, relTol) {
						bad("inplace-skew", "Skew(%g,%g): in-place %v RightMultBy(Skew) %v reference %v", th, th2, toM(a), toM(b), want)
					}
				}
			}
			ctx.Count("law:inplace-rotate-skew", 20)
		})
		ctx.Trans(1)
		if !ok {
			ctx.Case(true, "panic")
			continue
		}
		ctx.Case(true, key)
	}
}

// nearInverse compares an inverse with the reference: the linear part entry-wise (relative),
// the translation part -A⁻¹·(e,f) relative to the magnitude of the terms it sums (in float32 the
// sum of 1755·(-2) and 1170·3 is known to 2e-4 only, whatever its value).
func nearInverse(got, want, m M) bool {
	for i := 0; i < 4; i++ {
		if !(math.Abs(got[i]-want[i]) <= relTol*(1+math.Abs(want[i]))) {
			return false
		}
	}
	te := math.Abs(want[0]*m[4]) + math.Abs(want[2]*m[5])
	tf := math.Abs(want[1]*m[4]) + math.Abs(want[3]*m[5])
	return math.Abs(got[4]-want[4]) <= relTol*(1+te) && math.Abs(got[5]-want[5]) <= relTol*(1+tf)
}

func maxAbs(m M) float64 {
	v := 0.0
	for _, x := range m {
		if a := math.Abs(x); a > v {
			v = a
		}
	}
	return v
}

// runPairs: T fixed (index ti in set3), U ranges over the whole set.
func (c *check) runPairs(ti int64, ctx *engine.Ctx) {
	n := pow6(len(set3))
	t := matAt(set3, ti)
	for ui := int64(0); ui < n; ui++ {
		u := matAt(set3, ui)
		desc := fmt.Sprintf("pair: T=matrix%v U=matrix%v", t, u)
		feats := algFeats("pair")
		want := mul(t, u)
		var got M
		ok := ctx.GuardFail(desc, feats, func() {
			T, U := toT(t), toT(u)
			got = toM(matrix.Mul(T, U))
			if got != want {
				c.failAlg(ctx, "mul", desc, feats, "Mul(T,U): want %v got %v", want, got)
			}
			l := T
			l.LeftMultBy(U) // U·T
			if w := mul(u, t); toM(l) != w {
				c.failAlg(ctx, "leftmult", desc, feats, "T.LeftMultBy(U): want U·T=%v got %v", w, toM(l))
			}
			r := T
			r.RightMultBy(U) // T·U
			if toM(r) != want {
				c.failAlg(ctx, "rightmult", desc, feats, "T.RightMultBy(U): want T·U=%v got %v", want, toM(r))
			}
			// Apply is a homomorphism: (T·U)(p) = T(U(p))
			TU := matrix.Mul(T, U)
			for _, p := range points {
				x1, y1 := TU.Apply(fl(p[0]), fl(p[1]))
				ux, uy := U.Apply(fl(p[0]), fl(p[1]))
				x2, y2 := T.Apply(ux, uy)
				rx, ry := apply(u, p[0], p[1])
				rx, ry = apply(t, rx, ry)
				if x1 != x2 || y1 != y2 || float64(x1) != rx || float64(y1) != ry {
					c.failAlg(ctx, "apply-homomorphism", desc, feats, "p=(%g,%g): (T·U)(p)=(%g,%g) T(U(p))=(%g,%g) reference (%g,%g)", p[0], p[1], x1, y1, x2, y2, rx, ry)
				}
			}
			// det(T·U) = det T · det U
			if g, w := float64(TU.Determinant()), det(t)*det(u); g != w {
				c.failAlg(ctx, "determinant", desc, feats, "det(T·U): want %g got %g", w, g)
			}
		})
		ctx.Trans(1)
		if !ok {
			ctx.Case(true, "panic")
			continue
		}
		ctx.Count("law:mul-apply-homomorphism", 1)
		ctx.Case(true, got.key())
	}
}

// runTriples: R fixed, S and T range over the set.
func (c *check) runTriples(set []float64, ri int64, ctx *engine.Ctx) {
	n := pow6(len(set))
	r := matAt(set, ri)
	for si := int64(0); si < n; si++ {
		s := matAt(set, si)
		rs := mul(r, s)
		for ti := int64(0); ti < n; ti++ {
			t := matAt(set, ti)
			desc := fmt.Sprintf("triple: R=matrix%v S=matrix%v T=matrix%v", r, s, t)
			feats := algFeats("triple")
			want := mul(rs, t)
			var got M
			ok := ctx.GuardFail(desc, feats, func() {
				R, S, T := toT(r), toT(s), toT(t)
				a := toM(matrix.Mul(matrix.Mul(R, S), T))
				b := toM(matrix.Mul(R, matrix.Mul(S, T)))
				got = toM(matrix.Mul3(R, S, T))
				if a != b || a != want {
					c.failAlg(ctx, "associativity", desc, feats, "(R·S)·T=%v R·(S·T)=%v reference %v", a, b, want)
				}
				if got != want {
					c.failAlg(ctx, "mul3", desc, feats, "Mul3(R,S,T): want %v got %v", want, got)
				}
			})
			ctx.Trans(1)
			if !ok {
				ctx.Case(true, "panic")
				continue
			}
			ctx.Count("law:associativity-mul3", 1)
			ctx.Case(true, got.key())
		}
	}
}
