package c14

import (
	"fmt"
	"math"
	"sort"
	"strings"

	"github.com/benoitkugler/webrender/backend"
	"github.com/benoitkugler/webrender/html/boxes"

	"verif/internal/engine"
	"verif/internal/rec"
	"verif/internal/render"
)

// ---- box tree observation ----------------------------------------------------------------------

type boxInfo struct {
	page       int
	x, y, w, h float64 // hit area of the first box of the element on its first page
	inline     bool
}

func markerOf(b boxes.Box) int {
	el := b.Box().Element
	if el == nil || b.Box().PseudoType != "" {
		return 0
	}
	for _, a := range el.Attr {
		if a.Key == "data-m" {
			n := 0
			fmt.Sscan(a.Val, &n)
			return n
		}
	}
	return 0
}

type layoutObs struct {
	first     map[int]boxInfo      // marker -> first box (page order, then pre-order)
	pagesOf   map[int]map[int]bool // marker -> pages holding a box of the element
	pageTexts []map[string]bool    // trimmed texts of the text boxes of each page
}

func observeLayout(pages []*boxes.PageBox) layoutObs {
	o := layoutObs{first: map[int]boxInfo{}, pagesOf: map[int]map[int]bool{}}
	for pi, p := range pages {
		texts := map[string]bool{}
		var walk func(b boxes.Box)
		walk = func(b boxes.Box) {
			if tb, ok := b.(*boxes.TextBox); ok {
				texts[strings.TrimSpace(tb.TextS())] = true
			}
			if m := markerOf(b); m != 0 {
				_, isLine := b.(*boxes.LineBox)
				_, isText := b.(*boxes.TextBox)
				if !isLine && !isText {
					if o.pagesOf[m] == nil {
						o.pagesOf[m] = map[int]bool{}
					}
					o.pagesOf[m][pi] = true
					if _, seen := o.first[m]; !seen {
						r := boxes.HitArea(b)
						_, inl := b.(boxes.InlineBoxITF)
						o.first[m] = boxInfo{pi, float64(r[0]), float64(r[1]), float64(r[2]), float64(r[3]), inl}
					}
				}
			}
			// AllChildren: the column groups of a table are boxes of the tree too (not in Children)
			for _, c := range b.AllChildren() {
				walk(c)
			}
		}
		walk(p)
		o.pageTexts = append(o.pageTexts, texts)
	}
	return o
}

// ---- protocol walker -----------------------------------------------------------------------------
//
// Replays the recorder's path state machine over the recorded events of one canvas in order to
// attach a *site* (the violating call and the call before it) to every path violation. The
// recorder's own monitor stays the authority: the two must agree on the number of findings.

type pathViolation struct{ clause, site string }

func walkPath(evs []rec.Event, out *[]pathViolation, counts map[string]int64) {
	pathN, hasPoint := 0, false
	prev := "^"
	for _, e := range evs {
		switch e.Op {
		case "Rectangle", "MoveTo":
			pathN++
			hasPoint = true
		case "LineTo", "CubicTo":
			if !hasPoint {
				*out = append(*out, pathViolation{"current-point", e.Op + "<" + prev})
			}
			pathN++
		case "ClosePath":
			if !hasPoint {
				*out = append(*out, pathViolation{"current-point", e.Op + "<" + prev})
			}
		case "Paint", "Clip":
			counts[e.Op]++
			if pathN == 0 && !(e.Op == "Paint" && e.Args == "") {
				arg := ""
				if e.Op == "Paint" {
					arg = "(" + strings.ReplaceAll(e.Args, " ", "-") + ")"
				}
				*out = append(*out, pathViolation{"path-before-paint", e.Op + arg + "<" + prev})
			}
			pathN, hasPoint = 0, false
		}
		switch e.Op {
		case "DrawText", "DrawGradient", "DrawRasterImage", "SetDash", "DrawWithOpacity", "AddFont", "SetColorPattern", "SetAlphaMask", "Transform":
			counts[e.Op]++
		}
		if e.Sub != nil {
			walkPath(e.Sub, out, counts)
		}
		prev = e.Op
	}
}

func drawnTexts(evs []rec.Event, out *[]string) {
	for _, e := range evs {
		if e.Op == "DrawText" {
			*out = append(*out, e.Text)
		}
		if e.Sub != nil {
			drawnTexts(e.Sub, out)
		}
	}
}

// ---- the oracle ------------------------------------------------------------------------------------

func near(a, b float64) bool { return math.Abs(a-b) <= 1e-3*(1+math.Abs(b)) }

func setKey(m map[string]bool) string {
	var l []string
	for k := range m {
		l = append(l, k)
	}
	sort.Strings(l)
	return strings.Join(l, ",")
}

func bmString(ns []backend.BookmarkNode) string {
	var parts []string
	for _, n := range ns {
		s := fmt.Sprintf("%q@%d", n.Label, n.PageIndex)
		if !n.Open {
			s += "-"
		}
		if len(n.Children) > 0 {
			s += "(" + bmString(n.Children) + ")"
		}
		parts = append(parts, s)
	}
	return strings.Join(parts, " ")
}

func runCase(ctx *engine.Ctx, s *spec) {
	html, m := s.build()
	feats := s.features()
	desc := fmt.Sprintf("zoom=%g base=%q %s", s.zoom, s.base, html)
	// Phase 1 (layout) is not this property's subject: a crash or a runaway page loop there is
	// C01's finding and is only counted here. Phase 2 (Document.Write onto the recording
	// backend) is: a panic while writing is a failure of C14.
	var res *render.Result
	var rerr error
	opts := render.Options{HTML: html, Engine: "pango", BaseURL: s.base, PageBound: 40, NoWrite: true}
	if s.fonts2 {
		fcg, err := twoFontConfig()
		if err != nil {
			ctx.Fail(engine.Failure{Clause: "harness-load", Features: feats, Case: desc, Detail: err.Error()})
			ctx.Case(false, "load-error")
			return
		}
		opts.FontConfig = fcg
	}
	pi, skipped := ctx.Guard(desc, func() { res, rerr = render.Render(opts) })
	if skipped {
		ctx.Case(false, "skipped")
		return
	}
	if pi != nil {
		ctx.Count("not-rendered:layout-"+pi.Clause+"(C01's concern)", 1)
		ctx.Case(false, "layout-"+pi.Clause)
		return
	}
	if rerr != nil || res == nil {
		ctx.Fail(engine.Failure{Clause: "harness-load", Features: feats, Case: desc, Detail: fmt.Sprint(rerr)})
		ctx.Case(false, "load-error")
		return
	}
	res.Rec = rec.New()
	if !ctx.GuardFail(desc, feats, func() {
		res.Doc.Write(res.Rec, s.zoom, nil)
		res.Rec.Finish()
	}) {
		ctx.Case(true, "panic-in-write")
		return
	}
	fail := func(clause, site, detail string) {
		ctx.Fail(engine.Failure{Clause: clause, Site: site, Features: feats, Case: desc, Detail: detail})
	}
	r := res.Rec
	lo := observeLayout(res.Pages)
	nPages := len(res.Pages)
	var key strings.Builder

	// --- pages: exactly one AddPage per laid-out page, in order ---
	ctx.Count("clause:pages", 1)
	if len(r.Pages) != nPages {
		fail("pages", "-", fmt.Sprintf("laid-out pages %d, AddPage calls %d", nPages, len(r.Pages)))
	}
	if nPages >= 2 {
		ctx.Count("docs-with-2+-pages", 1)
	}
	nAdd := 0
	for _, e := range r.Events {
		if e.Op == "AddPage" {
			nAdd++
		}
	}
	if nAdd != len(r.Pages) {
		fail("pages", "-", fmt.Sprintf("AddPage events %d, pages %d", nAdd, len(r.Pages)))
	}
	for i, p := range r.Pages {
		if i >= nPages {
			break
		}
		var texts []string
		drawnTexts(p.Events, &texts)
		for _, t := range texts {
			t = strings.TrimSpace(t)
			if t == "" {
				continue
			}
			if lo.pageTexts[i][t] {
				ctx.Count("clause:page-order(texts)", 1)
				continue
			}
			// text of no laid-out text box at all (SVG <text>) says nothing about page order
			other := -1
			for j, pt := range lo.pageTexts {
				if pt[t] {
					other = j
				}
			}
			if other < 0 {
				ctx.Count("calibration:drawn-text-of-no-text-box(svg)", 1)
				continue
			}
			fail("page-order", "-", fmt.Sprintf("text %q drawn on backend page %d belongs to a text box of laid-out page %d only", t, i, other))
			break
		}
	}
	fmt.Fprintf(&key, "p%d;", len(r.Pages))

	// --- protocol monitor ---
	var pv []pathViolation
	counts := map[string]int64{}
	for _, p := range r.Pages {
		walkPath(p.Events, &pv, counts)
	}
	for k, n := range counts {
		ctx.Count("calls:"+k, n)
	}
	// fonts: the recorder checks every run of every DrawText against the fonts passed to AddFont so far
	// (clause font-registered below); here: how often a DrawText had runs of two and more fonts
	var nMulti int64
	for _, p := range r.Pages {
		nMulti += multiFontTexts(p.Events)
	}
	if nMulti > 0 {
		ctx.Count("clause:font-registered(text drawn with runs of 2+ fonts)", nMulti)
		fmt.Fprintf(&key, "mf%d;", nMulti)
	}
	if s.family == "F" && s.tags["mixed-line"] && nMulti == 0 {
		// the harness' two-font configuration does not give font fallback inside a line: the clause would be vacuous
		fail("harness-two-fonts", "-", "a line mixing characters of Ahem and of the fallback font was not drawn with runs of two fonts")
	}
	nRecPath := 0
	for _, v := range r.Violations {
		switch {
		case strings.HasPrefix(v, "empty-path:Paint() "):
			// Paint(0): end the path without painting; not a painting operation
			ctx.Count("calibration:Paint(0)-on-empty-path", 1)
		case strings.HasPrefix(v, "empty-path:"), strings.HasPrefix(v, "no-current-point:"):
			nRecPath++
		case strings.HasPrefix(v, "non-finite:"):
			site := strings.TrimPrefix(v, "non-finite:")
			if i := strings.Index(site, "("); i >= 0 {
				site = site[:i]
			}
			fail("finite", site, v)
			key.WriteString("NF;")
		case strings.HasPrefix(v, "font-not-registered:"):
			fail("font-registered", "-", v)
		default: // order:, unbalanced-stack:, foreign-canvas:
			fail("call-order", "-", v)
		}
	}
	seenSite := map[string]bool{}
	for _, v := range pv {
		if !seenSite[v.clause+v.site] {
			seenSite[v.clause+v.site] = true
			fail(v.clause, v.site, "backend call with "+map[string]string{"path-before-paint": "an empty current path", "current-point": "no current point"}[v.clause]+": "+v.site)
			key.WriteString(v.clause + v.site + ";")
		}
	}
	if len(r.Violations) < 50 && nRecPath != len(pv) {
		fail("harness-monitor-mismatch", "-", fmt.Sprintf("recorder reports %d path violations, walker %d: %v", nRecPath, len(pv), r.Violations))
	}
	// numbers that the recorder does not check: bookmark positions
	var bmFinite func(ns []backend.BookmarkNode)
	bmFinite = func(ns []backend.BookmarkNode) {
		for _, n := range ns {
			if math.IsNaN(float64(n.X)) || math.IsInf(float64(n.X), 0) || math.IsNaN(float64(n.Y)) || math.IsInf(float64(n.Y), 0) {
				fail("finite", "SetBookmarks", fmt.Sprintf("bookmark %q at %v,%v", n.Label, n.X, n.Y))
			}
			bmFinite(n.Children)
		}
	}
	bmFinite(r.Bookmarks)

	// --- anchors ---
	nontrivial := false
	calls := map[string]int{}
	for _, e := range r.Events {
		calls[e.Op]++
	}
	for _, op := range []string{"CreateAnchors", "SetBookmarks", "SetTitle", "SetDescription", "SetCreator", "SetAuthors", "SetKeywords"} {
		if calls[op] != 1 {
			fail("call-order", op, fmt.Sprintf("%s called %d times", op, calls[op]))
		}
	}
	ctx.Count("clause:anchors-per-page", 1)
	if len(r.Anchors) != len(r.Pages) {
		fail("anchors-per-page", "-", fmt.Sprintf("CreateAnchors got %d page lists for %d pages", len(r.Anchors), len(r.Pages)))
	}
	// expected: the first element (document order) with a given id that has a box, on the page of its first box
	expPage := map[string]int{}
	expMarker := map[string]int{}
	dup := false
	for _, io := range m.ids {
		bi, has := lo.first[io.marker]
		if !has {
			continue // no box: not an anchor candidate
		}
		if _, seen := expPage[io.id]; seen {
			dup = true
			continue
		}
		expPage[io.id] = bi.page
		expMarker[io.id] = io.marker
	}
	if dup {
		ctx.Count("docs-with-duplicate-ids", 1)
	}
	gotPage := map[string][]int{}
	gotPos := map[string][2]float64{}
	for pi, l := range r.Anchors {
		for _, a := range l {
			gotPage[a.Name] = append(gotPage[a.Name], pi)
			gotPos[a.Name] = [2]float64{float64(a.X), float64(a.Y)}
		}
	}
	var names []string
	for n := range gotPage {
		names = append(names, n)
	}
	sort.Strings(names)
	for _, n := range names {
		ps := gotPage[n]
		ctx.Count("clause:anchor-unique", 1)
		if len(ps) != 1 {
			fail("anchor-unique", "-", fmt.Sprintf("anchor %q defined %d times (pages %v)", n, len(ps), ps))
		}
		want, has := expPage[n]
		if !has {
			fail("anchor-first-element", "-", fmt.Sprintf("anchor %q defined on page %v but no element with that id has a box", n, ps))
		} else if ps[0] != want {
			fail("anchor-first-element", "-", fmt.Sprintf("anchor %q on page %d, the first element with that id (data-m=%d) is on page %d", n, ps[0], expMarker[n], want))
		}
		fmt.Fprintf(&key, "a:%s@%v;", n, ps)
	}
	for n, want := range expPage {
		ctx.Count("clause:anchor-first-element", 1)
		nontrivial = true
		if _, has := gotPage[n]; !has {
			fail("anchor-first-element", "-", fmt.Sprintf("no anchor %q: the element data-m=%d with that id is on page %d", n, expMarker[n], want))
		}
	}

	// --- links ---
	type lk struct {
		page int
		name string
	}
	gotInt := map[lk][][4]float64{}
	gotExt := map[lk]int{}
	for pi, p := range r.Pages {
		for _, e := range p.Events {
			switch e.Op {
			case "AddInternalLink":
				ctx.Count("clause:link-target-defined", 1)
				k := lk{pi, e.Text}
				gotInt[k] = append(gotInt[k], [4]float64{float64(e.Nums[0]), float64(e.Nums[1]), float64(e.Nums[2]), float64(e.Nums[3])})
				if _, def := gotPage[e.Text]; !def {
					fail("link-target-defined", "-", fmt.Sprintf("AddInternalLink %q on page %d names an anchor that CreateAnchors does not define", e.Text, pi))
				} else if anchorPage := gotPage[e.Text][0]; anchorPage > pi {
					ctx.Count("links-to-later-page-anchor", 1)
				} else if anchorPage < pi {
					ctx.Count("links-to-earlier-page-anchor", 1)
				}
			case "AddExternalLink":
				gotExt[lk{pi, e.Text}]++
			}
		}
	}
	expInt := map[lk]bool{}
	expExt := map[lk]bool{}
	for _, l := range m.links {
		pages := lo.pagesOf[l.marker]
		switch l.kind {
		case "internal":
			_, defined := expPage[l.target]
			if !defined {
				ctx.Count("clause:link-missing-dropped", 1)
				nontrivial = true
				for k := range gotInt {
					if k.name == l.target {
						fail("link-missing-dropped", "-", fmt.Sprintf("link to the missing anchor %q emitted on page %d", l.target, k.page))
					}
				}
				continue
			}
			for p := range pages {
				expInt[lk{p, l.target}] = true
			}
		case "external":
			for p := range pages {
				expExt[lk{p, l.target}] = true
			}
		}
	}
	for k := range expInt {
		ctx.Count("clause:link-emitted", 1)
		if len(gotInt[k]) == 0 {
			fail("link-emitted", "-", fmt.Sprintf("<a href=#%s> has a box on page %d and the anchor exists, but no AddInternalLink %q on that page", k.name, k.page, k.name))
		}
	}
	for k := range expExt {
		ctx.Count("clause:link-emitted(external)", 1)
		if gotExt[k] == 0 {
			fail("link-emitted", "external", fmt.Sprintf("<a href=%s> has a box on page %d but no AddExternalLink with that URL on that page (got %v)", k.name, k.page, gotExt))
		}
	}
	var lks []string
	for k, v := range gotInt {
		lks = append(lks, fmt.Sprintf("%d:%s*%d", k.page, k.name, len(v)))
		if _, def := gotPage[k.name]; def && !expInt[k] {
			fail("link-unexpected", "-", fmt.Sprintf("AddInternalLink %q on page %d: no <a href=#%s> has a box there", k.name, k.page, k.name))
		}
	}
	for k, v := range gotExt {
		lks = append(lks, fmt.Sprintf("%d:%s*%d", k.page, k.name, v))
	}
	sort.Strings(lks)
	key.WriteString("l:" + strings.Join(lks, ",") + ";")

	// --- geometry of the self link: anchor point == top-left corner of its own link rectangle ---
	if m.selfGeo {
		if bi, has := lo.first[m.selfM]; has {
			rects := gotInt[lk{bi.page, "s"}]
			pos, hasA := gotPos["s"]
			if hasA && len(rects) > 0 && expMarker["s"] == m.selfM {
				ctx.Count("clause:link-anchor-geometry", 1)
				found := false
				for _, rc := range rects {
					if near(rc[0], pos[0]) && near(rc[1], pos[1]) {
						found = true
					}
				}
				if !found {
					fail("link-anchor-geometry", "-", fmt.Sprintf("<a id=s href=#s>: anchor at (%.4f,%.4f) but its own link rectangle(s) are %v (zoom %g)", pos[0], pos[1], rects, s.zoom))
				}
				// and the rectangle has the size of the box scaled by 0.75*zoom
				sc := 0.75 * float64(s.zoom)
				okSize := false
				for _, rc := range rects {
					if near(math.Abs(rc[2]-rc[0]), bi.w*sc) && near(math.Abs(rc[3]-rc[1]), bi.h*sc) {
						okSize = true
					}
				}
				if !okSize {
					fail("link-anchor-geometry", "size", fmt.Sprintf("<a id=s href=#s>: hit area %gx%g px at zoom %g, link rectangle(s) %v", bi.w, bi.h, s.zoom, rects))
				}
				// The self link gives the map from CSS px to backend units without assuming a
				// convention: every other anchor must be the image of the top-left corner of the hit
				// area of the FIRST element with its id.
				if found && okSize && bi.w > 0 && bi.h > 0 {
					var rc [4]float64
					for _, c := range rects {
						if near(c[0], pos[0]) && near(c[1], pos[1]) {
							rc = c
						}
					}
					sx, sy := (rc[2]-rc[0])/bi.w, (rc[3]-rc[1])/bi.h
					tx, ty := rc[0]-bi.x*sx, rc[1]-bi.y*sy
					for n, mk := range expMarker {
						eb := lo.first[mk]
						gp, hasG := gotPos[n]
						if n == "s" || !m.geo[mk] || !hasG || gotPage[n][0] != expPage[n] {
							continue
						}
						ctx.Count("clause:anchor-position", 1)
						wx, wy := eb.x*sx+tx, eb.y*sy+ty
						if !near(gp[0], wx) || !near(gp[1], wy) {
							fail("anchor-position", "-", fmt.Sprintf("anchor %q at (%.4f,%.4f); the first element with that id (data-m=%d) has its hit area at (%g,%g) px = (%.4f,%.4f) in the units of the link rectangles", n, gp[0], gp[1], mk, eb.x, eb.y, wx, wy))
						}
					}
				}
			}
		}
	}

	// --- bookmarks ---
	var refHeads []refHead
	for _, h := range m.heads {
		bi, has := lo.first[h.marker]
		if !has {
			continue
		}
		refHeads = append(refHeads, refHead{h.level, h.label, bi.page, h.open})
	}
	want := refOutline(refHeads)
	got := fromBackend(r.Bookmarks)
	ctx.Count("clause:bookmarks-outline", 1)
	if len(refHeads) > 0 {
		nontrivial = true
	}
	if d := depthOf(want); d >= 2 {
		ctx.Count("bookmark-trees-nested", 1)
	}
	if s.tags["level-skip-down"] {
		ctx.Count("bookmark-level-skips", 1)
	}
	ws, gs := outlineString(want), outlineString(got)
	if ws != gs {
		fail("bookmarks-outline", "-", fmt.Sprintf("want %s\ngot  %s", ws, gs))
	}
	var chk func(ns []backend.BookmarkNode)
	chk = func(ns []backend.BookmarkNode) {
		for _, n := range ns {
			ctx.Count("clause:bookmark-page", 1)
			if n.PageIndex < 0 || n.PageIndex >= len(r.Pages) {
				fail("bookmark-page", "-", fmt.Sprintf("bookmark %q points to page %d of %d", n.Label, n.PageIndex, len(r.Pages)))
			}
			chk(n.Children)
		}
	}
	chk(r.Bookmarks)
	key.WriteString("b:" + gs + ";")

	// --- metadata ---
	ctx.Count("clause:metadata", 1)
	if m.title != "" || len(m.kwSrc) > 0 || len(m.authors) > 0 || m.desc != "" || m.gen != "" {
		nontrivial = true
	}
	if r.Title != m.title {
		fail("metadata-title", "-", fmt.Sprintf("want %q got %q", m.title, r.Title))
	}
	if r.Desc != m.desc {
		fail("metadata-description", "-", fmt.Sprintf("want %q got %q", m.desc, r.Desc))
	}
	if r.Creator != m.gen {
		fail("metadata-generator", "-", fmt.Sprintf("want %q got %q", m.gen, r.Creator))
	}
	if fmt.Sprintf("%q", r.Authors) != fmt.Sprintf("%q", m.authors) && !(len(r.Authors) == 0 && len(m.authors) == 0) {
		fail("metadata-authors", "-", fmt.Sprintf("want %q got %q", m.authors, r.Authors))
	}
	wk := refKeywords(m.kwSrc)
	gk := dropEmpty(r.Keywords)
	if len(wk) < countTokens(m.kwSrc) {
		ctx.Count("keywords-deduplicated-or-empty", 1)
	}
	if fmt.Sprintf("%q", gk) != fmt.Sprintf("%q", wk) {
		fail("metadata-keywords", "-", fmt.Sprintf("want %q got %q (from %q)", wk, r.Keywords, m.kwSrc))
	}
	fmt.Fprintf(&key, "m:%q|%q|%q|%q|%q;", r.Title, r.Desc, r.Creator, r.Authors, r.Keywords)
	if s.zoom != 1 {
		ctx.Count("docs-with-zoom!=1", 1)
	}
	if s.tags["table-part"] && s.tags["background"] && s.tags["part-without-cell"] {
		ctx.Count("docs-with-background-on-table-part-without-cell", 1)
	}
	if s.tags["clip-builds-no-path"] {
		ctx.Count("docs-with-svg-clip-or-mask-building-no-path", 1)
	}
	if s.tags["no-anchor-at-all"] {
		ctx.Count("docs-defining-no-anchor-at-all", 1)
	}
	ctx.Case(nontrivial, key.String())
}
