package c14

import (
	"fmt"
	"net/url"
	"strings"
)

// ---- table family (T) ------------------------------------------------------------------------------
//
// One symbol per branch of layoutBackgroundLayer (html/layout/backgrounds.go: row group / row / column
// (group) / other box) and of drawTable (html/document/draw.go: backgrounds of table, column groups,
// columns, row groups, rows, cells; separate vs collapsed borders; empty-cells), crossed with the
// content of the painted part: with cells, with empty cells, with an empty row, without any row.
//
//	<table> [caption] <colgroup><col><col></colgroup> [thead] tbody [tfoot] </table>
//
// "own" is the content of the row group that is (or holds) the painted part (tbody for the table,
// caption and column parts), "others" the content of the other row groups.

var tblParts = []string{"table", "caption", "colgroup", "col1", "col2", "thead", "tbody", "tfoot", "tr", "td"}

var tblOwn = []string{"rows2", "rows1", "emptycells", "emptyrow", "emptyrow+row", "emptygroup"}

var tblOthers = []string{"none", "full", "short"}

var tblPaints = []struct {
	css  string
	tags []string
}{
	{"background:red", []string{"background"}},
	{"background:linear-gradient(red,blue)", []string{"background", "gradient"}},
	{"background:url(" + png + ")", []string{"background", "background-image", "raster"}},
	{"background:red;border-radius:5px", []string{"background", "radius"}},
	{"border:2px solid red", []string{"border"}},
	{"border:3px dashed blue", []string{"border", "dashed-side"}},
	{"border:3px double green;border-radius:2px", []string{"border", "double", "radius"}},
	{"outline:2px solid", []string{"outline"}},
	{"outline:2px dashed red", []string{"outline", "dashed-outline"}},
	{"background:red;border:1px dotted;outline:1px solid", []string{"background", "border", "dashed-side", "outline"}},
}

var tblModels = []struct {
	name, css string
	tags      []string
}{
	{"separate", "", nil},
	{"collapse", "border-collapse:collapse", []string{"collapsed-borders"}},
	{"hide", "border-spacing:0;empty-cells:hide", []string{"empty-cells-hide"}},
}

type tblSpec struct{ part, own, others, paint, model string }

func tblHasCell(state string) (col1, col2 bool) {
	switch state {
	case "rows2", "emptycells", "emptyrow+row":
		return true, true
	case "rows1":
		return true, false
	}
	return false, false
}

// html builds the table and says whether the painted part exists and whether it has a cell.
func (t tblSpec) html() (src string, exists, hasCell bool) {
	modelCSS := ""
	for _, m := range tblModels {
		if m.name == t.model {
			modelCSS = m.css
		}
	}
	st := func(part string) string {
		if part == t.part {
			return fmt.Sprintf(` style="%s"`, t.paint)
		}
		return ""
	}
	ownGroup := "tbody"
	if t.part == "thead" || t.part == "tfoot" {
		ownGroup = t.part
	}
	letter := 0
	cell := func(paintable bool, empty bool) string {
		a := ""
		if paintable {
			a = st("td")
		}
		if empty {
			return "<td" + a + "></td>"
		}
		letter++
		return fmt.Sprintf("<td%s>%c</td>", a, 'q'+rune(letter))
	}
	rows := func(state string, own bool) string {
		trA := ""
		if own {
			trA = st("tr")
		}
		switch state {
		case "rows2":
			return "<tr" + trA + ">" + cell(own, false) + cell(false, false) + "</tr>"
		case "rows1":
			return "<tr" + trA + ">" + cell(own, false) + "</tr>"
		case "emptycells":
			return "<tr" + trA + ">" + cell(own, true) + cell(false, true) + "</tr>"
		case "emptyrow":
			return "<tr" + trA + "></tr>"
		case "emptyrow+row":
			return "<tr" + trA + "></tr><tr>" + cell(own, false) + cell(false, false) + "</tr>"
		case "emptygroup":
			return ""
		}
		panic("unknown table state " + state)
	}
	states := map[string]string{}
	for _, g := range []string{"thead", "tbody", "tfoot"} {
		switch {
		case g == ownGroup:
			states[g] = t.own
		case t.others == "full":
			states[g] = "rows2"
		case t.others == "short":
			states[g] = "rows1"
		}
	}
	var sb strings.Builder
	tst := []string{}
	if modelCSS != "" {
		tst = append(tst, modelCSS)
	}
	if t.part == "table" {
		tst = append(tst, t.paint)
	}
	sb.WriteString("<table")
	if len(tst) > 0 {
		fmt.Fprintf(&sb, ` style="%s"`, strings.Join(tst, ";"))
	}
	sb.WriteString(">")
	if t.part == "caption" {
		c1, _ := tblHasCell(t.own)
		txt := ""
		if c1 {
			txt = "p"
		}
		fmt.Fprintf(&sb, "<caption%s>%s</caption>", st("caption"), txt)
	}
	fmt.Fprintf(&sb, "<colgroup%s><col%s><col%s></colgroup>", st("colgroup"), st("col1"), st("col2"))
	any1, any2 := false, false
	for _, g := range []string{"thead", "tbody", "tfoot"} {
		state, present := states[g]
		if !present {
			continue
		}
		c1, c2 := tblHasCell(state)
		any1, any2 = any1 || c1, any2 || c2
		fmt.Fprintf(&sb, "<%s%s>%s</%s>", g, st(g), rows(state, g == ownGroup), g)
	}
	sb.WriteString("</table>")
	exists = true
	own1, _ := tblHasCell(t.own)
	switch t.part {
	case "table", "caption":
		hasCell = true // not clipped to cells
	case "colgroup", "col1":
		hasCell = any1
	case "col2":
		hasCell = any2
	case "thead", "tbody", "tfoot":
		hasCell = own1
	case "tr":
		exists = t.own != "emptygroup"
		hasCell = t.own == "rows2" || t.own == "rows1" || t.own == "emptycells"
	case "td":
		exists = own1
		hasCell = true
	}
	return sb.String(), exists, hasCell
}

func famTables(thorough bool) family {
	zs := []float32{1}
	if thorough {
		zs = []float32{1, 0.5, 2}
	}
	dims := []int64{int64(len(tblParts)), int64(len(tblOwn)), int64(len(tblOthers)), int64(len(tblPaints)), int64(len(tblModels)), int64(len(zs))}
	n := int64(1)
	for _, d := range dims {
		n *= d
	}
	return family{"T", n, func(i int64) (*spec, int) {
		var ix [6]int
		for k := len(dims) - 1; k >= 0; k-- {
			ix[k] = int(i % dims[k])
			i /= dims[k]
		}
		pt, md := tblPaints[ix[3]], tblModels[ix[4]]
		t := tblSpec{part: tblParts[ix[0]], own: tblOwn[ix[1]], others: tblOthers[ix[2]], paint: pt.css, model: md.name}
		s := defaultSpec()
		s.family = "T"
		s.elems = s.elems[:3]
		s.zoom = zs[ix[5]]
		src, exists, hasCell := t.html()
		s.repl = src
		s.tag("table", "table-part", "table-part-"+t.part, "table-own-"+t.own, "table-others-"+t.others)
		s.tag(pt.tags...)
		s.tag(md.tags...)
		switch {
		case !exists:
			s.tag("part-absent")
		case !hasCell:
			s.tag("part-without-cell")
		}
		dev := 1
		for _, x := range ix[1:] {
			if x != 0 {
				dev++
			}
		}
		if s.zoom != 1 {
			s.tag("zoom")
		}
		s.picks = []string{"part:" + t.part, "own:" + t.own, "others:" + t.others, "paint:" + t.paint, "model:" + t.model, fmt.Sprint("zoom:", s.zoom)}
		s.derive()
		return s, dev
	}}
}

// ---- svg clip-path / mask family (S) ----------------------------------------------------------------
//
// One symbol per kind of child that applyClipPath / applyMask (svg/svg.go) can meet: shapes that build a
// path, degenerate shapes that build none (drawNode with paint=false only emits path operations), empty
// containers, hidden children, no child at all; crossed with the units, the clipped element, the
// referencing attribute and the way the SVG enters the document.

var svgClipContents = []struct {
	name, xml string
	noPath    bool
}{
	{"rect", `<rect width="5" height="5"/>`, false},
	{"rect-w0", `<rect width="0" height="10"/>`, true},
	{"circle-r0", `<circle r="0"/>`, true},
	{"ellipse-rx0", `<ellipse rx="0" ry="3"/>`, true},
	{"path-empty", `<path d=""/>`, true},
	{"path-no-moveto", `<path d="L 5 5 z"/>`, true},
	{"polyline-empty", `<polyline points=""/>`, true},
	{"g-empty", `<g></g>`, true},
	{"g-rect", `<g><rect width="5" height="5"/></g>`, false},
	{"hidden", `<rect width="5" height="5" visibility="hidden"/>`, true},
	{"display-none", `<rect width="5" height="5" display="none"/>`, true},
	{"childless", ``, true},
	{"degenerate+real", `<rect width="0" height="5"/><circle cx="3" cy="3" r="2"/>`, false},
	{"real+degenerate", `<circle cx="3" cy="3" r="2"/><path d=""/>`, false},
	{"text", `<text y="8" font-family="ahem" font-size="8">5</text>`, false},
	{"line", `<line x2="5" y2="5"/>`, false},
}

var svgClipTargets = []struct{ name, open, rest string }{
	{"rect", `<rect`, ` width="10" height="8" fill="blue"/>`},
	{"path", `<path`, ` d="M0 0 L 10 10 L 0 10 z" stroke="red"/>`},
	{"g", `<g`, `><rect width="10" height="8"/></g>`},
	{"text", `<text`, ` y="10" font-family="ahem" font-size="10">7</text>`},
	{"circle-r0", `<circle`, ` r="0"/>`},
}

var svgClipRefs = []string{"clip-path", "mask"}

var svgClipUnits = []string{"default", "bbox"}

var svgHosts = []string{"inline", "img", "background"}

func famSVGClip(thorough bool) family {
	zs := []float32{1}
	if thorough {
		zs = []float32{1, 2}
	}
	dims := []int64{int64(len(svgClipContents)), int64(len(svgClipTargets)), int64(len(svgClipRefs)), int64(len(svgClipUnits)), int64(len(svgHosts)), int64(len(zs))}
	n := int64(1)
	for _, d := range dims {
		n *= d
	}
	return family{"S", n, func(i int64) (*spec, int) {
		var ix [6]int
		for k := len(dims) - 1; k >= 0; k-- {
			ix[k] = int(i % dims[k])
			i /= dims[k]
		}
		ct, tg, ref, un, host := svgClipContents[ix[0]], svgClipTargets[ix[1]], svgClipRefs[ix[2]], svgClipUnits[ix[3]], svgHosts[ix[4]]
		var def string
		if ref == "clip-path" {
			u := ""
			if un == "bbox" {
				u = ` clipPathUnits="objectBoundingBox"`
			}
			def = fmt.Sprintf(`<clipPath id="c"%s>%s</clipPath>`, u, ct.xml)
		} else {
			u := ""
			if un == "bbox" {
				u = ` maskUnits="userSpaceOnUse" x="0" y="0" width="10" height="10"`
			}
			def = fmt.Sprintf(`<mask id="c"%s>%s</mask>`, u, ct.xml)
		}
		body := def + tg.open + fmt.Sprintf(` %s="url(#c)"`, ref) + tg.rest
		s := defaultSpec()
		s.family = "S"
		s.elems = s.elems[:3]
		s.zoom = zs[ix[5]]
		switch host {
		case "inline":
			s.repl = `<svg width="20" height="10">` + body + `</svg>`
		case "img":
			s.repl = `<img src="` + svgData(body) + `">`
		case "background":
			s.bStyle = "height:10px;background:url(" + svgData(body) + ")"
		}
		s.tag("svg", "svg-"+map[string]string{"clip-path": "clip", "mask": "mask"}[ref], "clip-content-"+ct.name, "clip-target-"+tg.name, "clip-units-"+un, "svg-host-"+host)
		if host == "inline" {
			s.tag("svg-inline")
		} else {
			s.tag("svg-img")
		}
		if ct.noPath {
			s.tag("clip-builds-no-path")
		}
		if s.zoom != 1 {
			s.tag("zoom")
		}
		dev := 1
		for _, x := range ix {
			if x != 0 {
				dev++
			}
		}
		s.picks = []string{"content:" + ct.name, "target:" + tg.name, "ref:" + ref, "units:" + un, "host:" + host, fmt.Sprint("zoom:", s.zoom)}
		s.derive()
		return s, dev
	}}
}

func svgData(body string) string {
	src := `<svg xmlns="http://www.w3.org/2000/svg" width="20" height="10">` + body + `</svg>`
	return "data:image/svg+xml," + strings.ReplaceAll(url.PathEscape(src), "'", "%27")
}
