package c14

import (
	"encoding/json"
	"fmt"
	"strconv"

	"verif/internal/engine"
)

// "c14units <tier> [unit...]": development aid; lists the families with their first unit, or prints
// the description (picks, features, html) of the given units.
func init() {
	engine.Commands["c14units"] = func(args []string) int {
		if len(args) == 0 {
			fmt.Println("usage: c14units <tier> [unit...]")
			return 2
		}
		c := &check{}
		c.Init(args[0], 0)
		if len(args) == 1 {
			for i, f := range c.fams {
				fmt.Printf("%-4s start=%d n=%d\n", f.name, c.starts[i], f.n)
			}
			fmt.Println("total", c.total)
			return 0
		}
		for _, a := range args[1:] {
			u, _ := strconv.ParseInt(a, 10, 64)
			b, _ := json.MarshalIndent(c.Describe(u), "", " ")
			fmt.Println(string(b))
		}
		return 0
	}
}
