package c14

import (
	"fmt"
	"os"
	"path/filepath"
	"runtime/debug"
	"sort"
	"strings"
	"sync"

	fc "github.com/benoitkugler/textprocessing/fontconfig"
	"github.com/benoitkugler/textprocessing/pango/fcfonts"
	"github.com/benoitkugler/webrender/text"

	"verif/internal/rec"
	"verif/internal/render"
)

// ---- two fonts of different coverage ---------------------------------------------------------------
//
// "fonts are registered before text using them is drawn" quantifies over every run of every DrawText.
// With the harness' default configuration (Ahem alone) a line is always one run of one font, so the
// clause only ever sees the first run. The documents of the font family (F) and of the "paint-text"
// slot of the lattice are rendered with a configuration that knows two fonts: Ahem (Latin) and Go
// Regular (Latin + Cyrillic; its file is taken from the module cache: golang.org/x/image is a module the
// library already requires). With
// font-family:ahem a Cyrillic letter is taken from Go Regular: pango itemizes the line in runs of
// different fonts, in the order of the text.

const (
	txFirst    = "ab" // covered by the first family (Ahem)
	txFallback = "жд" // not covered by Ahem: comes from the fallback font
)

var (
	twoFontsOnce sync.Once
	twoFontsCfg  *fc.Config
	twoFontsSet  fc.Fontset
	twoFontsErr  error
)

// goFontFile returns the path of Go-Regular.ttf inside the module cache: golang.org/x/image is a
// requirement of the library under test, so the module (at the version the binary was built with) is
// there; the check does not import it, which would change the requirements of the harness' own module.
func goFontFile() (string, error) {
	version := ""
	if bi, ok := debug.ReadBuildInfo(); ok {
		for _, d := range bi.Deps {
			if d.Path == "golang.org/x/image" {
				version = d.Version
				if d.Replace != nil {
					version = d.Replace.Version
				}
			}
		}
	}
	var caches []string
	if c := os.Getenv("GOMODCACHE"); c != "" {
		caches = append(caches, c)
	}
	for _, gp := range filepath.SplitList(os.Getenv("GOPATH")) {
		caches = append(caches, filepath.Join(gp, "pkg", "mod"))
	}
	if home, err := os.UserHomeDir(); err == nil {
		caches = append(caches, filepath.Join(home, "go", "pkg", "mod"))
	}
	const rel = "font/gofont/ttfs/Go-Regular.ttf"
	for _, c := range caches {
		if version != "" {
			p := filepath.Join(c, "golang.org", "x", "image@"+version, rel)
			if _, err := os.Stat(p); err == nil {
				return p, nil
			}
		}
	}
	for _, c := range caches { // any version: the font file is what matters
		l, _ := filepath.Glob(filepath.Join(c, "golang.org", "x", "image@v*", rel))
		sort.Strings(l)
		if len(l) > 0 {
			return l[len(l)-1], nil
		}
	}
	return "", fmt.Errorf("Go-Regular.ttf (golang.org/x/image %s) not found in the module cache %v", version, caches)
}

// twoFontConfig returns a new font configuration (new font map, new caches) knowing Ahem and
// Go Regular; the fontconfig configuration and the scanned font set are shared per process, as
// render.LightFontConfig does.
func twoFontConfig() (fcg text.FontConfiguration, err error) {
	defer func() {
		if r := recover(); r != nil {
			err = fmt.Errorf("two-font configuration: %v", r)
		}
	}()
	twoFontsOnce.Do(func() {
		var file string
		if file, twoFontsErr = goFontFile(); twoFontsErr != nil {
			return
		}
		cfg := fc.Standard.Copy()
		var fs, fs2 fc.Fontset
		if fs, twoFontsErr = cfg.ScanFontFile(render.AhemPath); twoFontsErr != nil {
			return
		}
		if fs2, twoFontsErr = cfg.ScanFontFile(file); twoFontsErr != nil {
			return
		}
		twoFontsCfg, twoFontsSet = cfg, append(fs, fs2...)
	})
	if twoFontsErr != nil {
		return nil, twoFontsErr
	}
	return text.NewFontConfigurationPango(fcfonts.NewFontMap(twoFontsCfg, twoFontsSet)), nil
}

// multiFontTexts counts the DrawText events whose runs use at least two different fonts.
func multiFontTexts(evs []rec.Event) (n int64) {
	for _, e := range evs {
		if e.Op == "DrawText" {
			fonts := map[string]bool{}
			for _, p := range strings.Split(e.Args, " run(")[1:] {
				if i := strings.IndexAny(p, " )"); i > 0 {
					fonts[p[:i]] = true
				}
			}
			if len(fonts) >= 2 {
				n++
			}
		}
		if e.Sub != nil {
			n += multiFontTexts(e.Sub)
		}
	}
	return n
}

// ---- paint-text slot of the lattice ------------------------------------------------------------------

type fontText struct {
	name, text string
	mixed      bool
	tags       []string
}

var fontTexts = []fontText{
	{"first+fallback", txFirst + " " + txFallback, true, []string{"two-fonts", "mixed-line", "first-font-first"}},
	{"fallback+first", txFallback + " " + txFirst, true, []string{"two-fonts", "mixed-line", "fallback-font-first"}},
	{"first+fallback+first", txFirst + " " + txFallback + " yz", true, []string{"two-fonts", "mixed-line", "first-font-first"}},
	{"fallback+first+fallback", txFallback + " " + txFirst + " зк", true, []string{"two-fonts", "mixed-line", "fallback-font-first"}},
	{"fallback-alone", txFallback, false, []string{"two-fonts", "fallback-font-first"}},
	{"first-alone", txFirst, false, []string{"two-fonts"}},
}

// slotPaintText: the text of the paint element mixes characters of two fonts (both orders); combined by
// the lattice with every paint style (opacity groups, transforms, clips…), page break, link position, zoom.
func slotPaintText() slot {
	var cs []choice
	for _, t := range fontTexts[:2] {
		t := t
		cs = append(cs, choice{name: "text:" + t.name, tags: t.tags, apply: func(s *spec) { s.paintText, s.fonts2 = t.text, true }})
	}
	return slot{"paint-text", cs}
}

// ---- font family (F) -----------------------------------------------------------------------------------
//
// line (the text of the paint element) x line before it (element E1) x container of the line x page x
// position of the link paragraph (Ahem text before the line on its page, or only after it) x zoom.

var fontBefore = []struct {
	name, text string
	tags       []string
}{
	{"none", "", nil},
	{"first-font-line", "mn", []string{"after-first-font-line"}},
	{"fallback-font-line", "пр", []string{"after-fallback-font-line"}},
	{"mixed-line", "mn пр", []string{"after-mixed-line"}},
}

var fontContainers = []struct {
	name, css string
	tags      []string
}{
	{"plain", "", nil},
	{"opacity", "opacity:0.5", []string{"opacity"}},
	{"transform", "transform:rotate(10deg)", []string{"transform"}},
	{"clip", "overflow:hidden", []string{"overflow-hidden"}},
}

func famFonts() family {
	zs := []float32{1, 2}
	dims := []int64{int64(len(fontTexts)), int64(len(fontBefore)), int64(len(fontContainers)), 2, 2, int64(len(zs))}
	n := int64(1)
	for _, d := range dims {
		n *= d
	}
	return family{"F", n, func(i int64) (*spec, int) {
		var ix [6]int
		for k := len(dims) - 1; k >= 0; k-- {
			ix[k] = int(i % dims[k])
			i /= dims[k]
		}
		t, bf, ct := fontTexts[ix[0]], fontBefore[ix[1]], fontContainers[ix[2]]
		s := defaultSpec()
		s.family = "F"
		s.elems = s.elems[:2]
		s.fonts2 = true
		s.paintText = t.text
		s.tag(t.tags...)
		if bf.text == "" {
			s.elems[0].kind = "empty"
		} else {
			s.elems[0].inner = bf.text
		}
		s.tag(bf.tags...)
		s.bStyle = ct.css
		s.tag(ct.tags...)
		page := "first"
		if ix[3] == 1 {
			page = "second"
			s.elems[1].brk = true
			s.tag("forced-pages")
		}
		if ix[4] == 1 {
			s.linkPos = "bottom"
			s.tag("links-at-end")
		}
		s.zoom = zs[ix[5]]
		if s.zoom != 1 {
			s.tag("zoom")
		}
		dev := 0
		for _, x := range ix {
			if x != 0 {
				dev++
			}
		}
		s.picks = []string{"line:" + t.name, "before:" + bf.name, "container:" + ct.name, "page:" + page, "links:" + s.linkPos, fmt.Sprint("zoom:", s.zoom)}
		s.derive()
		return s, dev
	}}
}
