// Package c14: the backend receives a well-formed, self-consistent drawing.
//
// Bounded exhaustive exploration of small documents (deviation lattice over a skeleton plus
// dedicated product families for bookmarks, ids/links, metadata, border images, painted table
// parts with and without cells, svg clip paths / masks, and lines of text whose runs use two fonts
// (font fallback inside a line, fonts.go)), each rendered through the
// real pipeline onto the recording backend. Oracle: the protocol monitor of the recorder
// (pages, finite numbers, path before paint/clip, current point, fonts), link/anchor
// consistency against the generator's model and the laid-out box tree, the reference outline
// builder for bookmarks, and the reference extraction of <title>/<meta>.
package c14

import (
	"fmt"
	"os"
	"sort"
	"strings"

	"verif/internal/engine"
)

type family struct {
	name string
	n    int64
	at   func(i int64) (*spec, int) // spec and number of deviations (transitions)
}

type check struct {
	tier     string
	fams     []family
	total    int64
	starts   []int64
	bounds   map[string]any
	selfTest string
}

func init() { engine.Register(&check{}) }

func (c *check) ID() string { return "C14" }

// ---- deviation lattice ---------------------------------------------------------------------------

type lattice struct {
	slots []slot
	// cumulative counts
	n1     int64
	single []int64 // start of each slot in level 1
	pairs  []block
	n2     int64
	trip   []block
	n3     int64
}

type block struct {
	s     [3]int
	start int64
	size  int64
}

func newLattice(slots []slot) *lattice {
	l := &lattice{slots: slots}
	for _, s := range slots {
		l.single = append(l.single, l.n1)
		l.n1 += int64(len(s.choices))
	}
	for i := range slots {
		for j := i + 1; j < len(slots); j++ {
			sz := int64(len(slots[i].choices)) * int64(len(slots[j].choices))
			if sz == 0 {
				continue
			}
			l.pairs = append(l.pairs, block{[3]int{i, j, -1}, l.n2, sz})
			l.n2 += sz
		}
	}
	for i := range slots {
		for j := i + 1; j < len(slots); j++ {
			for k := j + 1; k < len(slots); k++ {
				sz := int64(len(slots[i].choices)) * int64(len(slots[j].choices)) * int64(len(slots[k].choices))
				if sz == 0 {
					continue
				}
				l.trip = append(l.trip, block{[3]int{i, j, k}, l.n3, sz})
				l.n3 += sz
			}
		}
	}
	return l
}

type pick struct{ slot, choice int }

func findBlock(bs []block, i int64) block {
	k := sort.Search(len(bs), func(k int) bool { return bs[k].start+bs[k].size > i })
	return bs[k]
}

func (l *lattice) level1(i int64) []pick {
	k := sort.Search(len(l.single), func(k int) bool { return l.single[k] > i }) - 1
	for len(l.slots[k].choices) == 0 {
		k--
	}
	return []pick{{k, int(i - l.single[k])}}
}

func (l *lattice) level2(i int64) []pick {
	b := findBlock(l.pairs, i)
	i -= b.start
	n2 := int64(len(l.slots[b.s[1]].choices))
	return []pick{{b.s[0], int(i / n2)}, {b.s[1], int(i % n2)}}
}

func (l *lattice) level3(i int64) []pick {
	b := findBlock(l.trip, i)
	i -= b.start
	n2 := int64(len(l.slots[b.s[1]].choices))
	n3 := int64(len(l.slots[b.s[2]].choices))
	return []pick{{b.s[0], int(i / (n2 * n3))}, {b.s[1], int((i / n3) % n2)}, {b.s[2], int(i % n3)}}
}

func (l *lattice) apply(s *spec, ps []pick) {
	for _, p := range ps {
		ch := l.slots[p.slot].choices[p.choice]
		ch.apply(s)
		s.tag(ch.tags...)
		s.picks = append(s.picks, ch.name)
	}
	s.derive()
}

func coreOnly(slots []slot) []slot {
	var out []slot
	for _, s := range slots {
		ns := slot{name: s.name}
		for _, c := range s.choices {
			if c.core {
				ns.choices = append(ns.choices, c)
			}
		}
		out = append(out, ns)
	}
	return out
}

// ---- families ------------------------------------------------------------------------------------

// famLattice returns the families of the general lattice: head = levels 0 and 1, tail = level 2
// (and 3 in the thorough tier). The dedicated product families run between the two, so that a run cut
// by the deadline loses the end of the (largest, most redundant) level-2 family and nothing else.
func famLattice(thorough bool) (head, fams []family) {
	full := newLattice(slotsG())
	head = []family{
		{"G0", 1, func(int64) (*spec, int) { return defaultSpec(), 0 }},
		{"G1", full.n1, func(i int64) (*spec, int) {
			s := defaultSpec()
			full.apply(s, full.level1(i))
			return s, 1
		}},
	}
	fams = []family{
		{"G2", full.n2, func(i int64) (*spec, int) {
			s := defaultSpec()
			full.apply(s, full.level2(i))
			return s, 2
		}},
	}
	if thorough {
		core := newLattice(coreOnly(slotsG()))
		fams = append(fams, family{"G3", core.n3, func(i int64) (*spec, int) {
			s := defaultSpec()
			core.apply(s, core.level3(i))
			return s, 3
		}})
	}
	return head, fams
}

// bookmark family: every sequence of levels of length <= maxLen over {1..4} x page patterns x variants.
var bmVariants = []string{"plain", "closed-last", "css-levels", "display-none-middle", "level-none-first", "zoom2"}

func bmPatterns(n int) []string {
	switch {
	case n == 1:
		return []string{"one-page"}
	case n == 2:
		return []string{"one-page", "break-second"}
	case n == 3:
		return []string{"one-page", "break-each", "break-second", "break-third"}
	}
	return []string{"one-page", "break-each", "break-second", "break-third", "break-even"}
}

func famBookmarks(maxLen int) family {
	type blk struct {
		n     int
		start int64
		size  int64
	}
	var blks []blk
	var tot int64
	p := int64(1)
	for n := 1; n <= maxLen; n++ {
		p *= 4
		sz := p * int64(len(bmPatterns(n))) * int64(len(bmVariants))
		blks = append(blks, blk{n, tot, sz})
		tot += sz
	}
	return family{"B", tot, func(i int64) (*spec, int) {
		k := sort.Search(len(blks), func(k int) bool { return blks[k].start+blks[k].size > i })
		b := blks[k]
		i -= b.start
		nv := int64(len(bmVariants))
		pats := bmPatterns(b.n)
		variant := bmVariants[i%nv]
		i /= nv
		pat := pats[i%int64(len(pats))]
		i /= int64(len(pats))
		levels := make([]int, b.n)
		for j := b.n - 1; j >= 0; j-- {
			levels[j] = int(i%4) + 1
			i /= 4
		}
		s := defaultSpec()
		s.family = "B"
		s.elems = s.elems[:2]
		dev := 0
		for j, l := range levels {
			e := el{tag: fmt.Sprintf("h%d", l)}
			if j == 0 {
				e.id = "c"
			}
			switch pat {
			case "break-each":
				e.brk = j > 0
			case "break-second":
				e.brk = j == 1
			case "break-third":
				e.brk = j == 2
			case "break-even":
				e.brk = j > 0 && j%2 == 0
			}
			if variant == "css-levels" {
				e.tag = "p"
				e.bmLevel = fmt.Sprint(l)
			}
			s.elems = append(s.elems, e)
			dev++
		}
		last, mid := len(s.elems)-1, 2+b.n/2
		switch variant {
		case "closed-last":
			s.elems[last].bmState = "closed"
			s.tag("bookmark-state")
		case "css-levels":
			s.tag("bookmark-level-explicit")
		case "display-none-middle":
			s.elems[mid].kind = "none"
			s.tag("heading-display-none")
		case "level-none-first":
			s.elems[2].bmLevel = "none"
			s.tag("bookmark-level-none")
		case "zoom2":
			s.zoom = 2
			s.tag("zoom")
		}
		if pat != "one-page" {
			s.tag("forced-pages")
		}
		s.tag("bookmark-sequence")
		prev := 0
		for _, l := range levels {
			if prev != 0 && l > prev+1 {
				s.tag("level-skip-down")
			}
			if prev != 0 && l < prev {
				s.tag("level-up")
			}
			prev = l
		}
		s.picks = []string{fmt.Sprint("levels:", levels), "pages:" + pat, "variant:" + variant}
		return s, dev
	}}
}

// link family: n elements with ids over {none,a,b}, every placement of <= 2 forced breaks, one
// element optionally of a special kind; link paragraphs on the first and on the last page.
var linkKinds = []string{"inline", "zero", "none", "rot", "scale0", "abs", "float", "iblock", "tall", "cell", "empty", "fixed"}

func breakSets(n int) [][]int {
	out := [][]int{nil}
	for i := 1; i < n; i++ {
		out = append(out, []int{i})
	}
	for i := 1; i < n; i++ {
		for j := i + 1; j < n; j++ {
			out = append(out, []int{i, j})
		}
	}
	return out
}

func famLinks(maxN, maxKindN int) family {
	type blk struct {
		n     int
		start int64
		size  int64
		nk    int64
	}
	var blks []blk
	var tot int64
	p := int64(1)
	for n := 1; n <= maxN; n++ {
		p *= 3
		// kind index 0 = no special kind, 1 = no special kind and no self link (with all ids at "none"
		// the document then defines no anchor at all), 2.. = one element of a special kind
		nk := int64(2)
		if n <= maxKindN {
			nk += int64(n * len(linkKinds))
		}
		sz := p * int64(len(breakSets(n))) * nk
		blks = append(blks, blk{n, tot, sz, nk})
		tot += sz
	}
	idv := []string{"", "a", "b"}
	return family{"L", tot, func(i int64) (*spec, int) {
		k := sort.Search(len(blks), func(k int) bool { return blks[k].start+blks[k].size > i })
		b := blks[k]
		i -= b.start
		kindIdx := i % b.nk
		i /= b.nk
		bs := breakSets(b.n)
		brk := bs[i%int64(len(bs))]
		i /= int64(len(bs))
		s := defaultSpec()
		s.family = "L"
		s.paint = -1
		s.elems = nil
		s.linkPos = "both"
		seen := map[string]int{}
		dev := 0
		for j := 0; j < b.n; j++ {
			s.elems = append(s.elems, el{tag: "div"})
		}
		for j := b.n - 1; j >= 0; j-- {
			s.elems[j].id = idv[i%3]
			i /= 3
		}
		for j := range s.elems {
			if id := s.elems[j].id; id != "" {
				seen[id]++
				dev++
			}
		}
		for _, n := range seen {
			if n > 1 {
				s.tag("duplicate-id")
			}
		}
		for _, j := range brk {
			s.elems[j].brk = true
			s.tag("forced-pages")
		}
		pk := "kind:-"
		if kindIdx == 1 {
			s.selfLink = "none"
			s.tag("no-self-link")
			pk = "kind:-,self:none"
			dev++
		} else if kindIdx > 1 {
			kindIdx -= 2
			pos, kd := int(kindIdx)/len(linkKinds), linkKinds[int(kindIdx)%len(linkKinds)]
			s.elems[pos].kind = kd
			s.tag("kind-" + kd)
			pk = fmt.Sprintf("kind:%s@%d", kd, pos)
			dev++
		}
		s.tag("links-at-end", "id-family")
		var ids []string
		for _, e := range s.elems {
			ids = append(ids, e.id)
		}
		s.picks = []string{"ids:" + strings.Join(ids, ","), fmt.Sprint("breaks-before:", brk), pk}
		s.derive()
		return s, dev + len(brk)
	}}
}

// metadata family: full product of the three metadata slots.
func famMeta() family {
	nt, nk, no := int64(len(titleMenu)+1), int64(len(keywordMenu)+1), int64(len(otherMetaMenu)+1)
	return family{"M", nt * nk * no, func(i int64) (*spec, int) {
		s := defaultSpec()
		s.family = "M"
		dev := 0
		ti, ki, oi := i/(nk*no), (i/no)%nk, i%no
		if ti > 0 {
			t := titleMenu[ti-1]
			s.titles = t.titles
			s.tag(t.tags...)
			s.picks = append(s.picks, "title:"+t.name)
			dev++
		}
		if ki > 0 {
			t := keywordMenu[ki-1]
			s.metas = append(s.metas, t.metas...)
			s.tag(t.tags...)
			s.picks = append(s.picks, "keywords:"+t.name)
			dev++
		}
		if oi > 0 {
			t := otherMetaMenu[oi-1]
			s.metas = append(s.metas, t.metas...)
			s.tag(t.tags...)
			s.picks = append(s.picks, "meta:"+t.name)
			dev++
		}
		return s, dev
	}}
}

// border-image family: deviation level <= 4 inside the group (quick), full product (thorough).
func famBorderImage(thorough bool) []family {
	slots := slotsBI()
	if thorough {
		total := int64(1)
		for _, sl := range slots {
			total *= int64(len(sl.choices) + 1)
		}
		return []family{{"I", total, func(i int64) (*spec, int) {
			s := biSpecBase()
			var ps []pick
			for k := len(slots) - 1; k >= 0; k-- {
				n := int64(len(slots[k].choices) + 1)
				if c := int(i % n); c > 0 {
					ps = append([]pick{{k, c - 1}}, ps...)
				}
				i /= n
			}
			l := &lattice{slots: slots}
			l.apply(s, ps)
			return s, len(ps)
		}}}
	}
	l := newLattice(slots)
	mk := func(name string, n int64, dev int, f func(int64) []pick) family {
		return family{name, n, func(i int64) (*spec, int) {
			s := biSpecBase()
			l.apply(s, f(i))
			return s, dev
		}}
	}
	n4, level4 := levelK(slots, 4)
	return []family{
		mk("I0", 1, 0, func(int64) []pick { return nil }),
		mk("I1", l.n1, 1, l.level1),
		mk("I2", l.n2, 2, l.level2),
		mk("I3", l.n3, 3, l.level3),
		mk("I4", n4, 4, level4),
	}
}

// levelK enumerates the cases with exactly k deviations: every k-subset of the slots (in
// lexicographic order) times the product of their menus.
func levelK(slots []slot, k int) (int64, func(int64) []pick) {
	type blk struct {
		s     []int
		start int64
		size  int64
	}
	var blks []blk
	var tot int64
	var rec func(from int, cur []int)
	rec = func(from int, cur []int) {
		if len(cur) == k {
			sz := int64(1)
			for _, i := range cur {
				sz *= int64(len(slots[i].choices))
			}
			if sz > 0 {
				blks = append(blks, blk{append([]int(nil), cur...), tot, sz})
				tot += sz
			}
			return
		}
		for i := from; i < len(slots); i++ {
			rec(i+1, append(cur, i))
		}
	}
	rec(0, nil)
	return tot, func(i int64) []pick {
		b := blks[sort.Search(len(blks), func(j int) bool { return blks[j].start+blks[j].size > i })]
		i -= b.start
		ps := make([]pick, k)
		for j := k - 1; j >= 0; j-- {
			n := int64(len(slots[b.s[j]].choices))
			ps[j] = pick{b.s[j], int(i % n)}
			i /= n
		}
		return ps
	}
}

func (c *check) Init(tier string, seed int64) engine.Space {
	c.tier = tier
	thorough := tier == "thorough"
	c.selfTest = refSelfTest()
	c.fams = nil
	head, tail := famLattice(thorough)
	c.fams = append(c.fams, head...)
	c.fams = append(c.fams, famFonts(), famSVGClip(thorough), famTables(thorough), famMeta())
	if thorough {
		c.fams = append(c.fams, famLinks(4, 4), famBookmarks(5))
	} else {
		c.fams = append(c.fams, famLinks(4, 3), famBookmarks(4))
	}
	c.fams = append(c.fams, famBorderImage(thorough)...)
	c.fams = append(c.fams, tail...)
	// development aid: VERIF_C14_FAMILIES=T,S restricts the run to the named families (reported in the bounds)
	if only := os.Getenv("VERIF_C14_FAMILIES"); only != "" {
		var keep []family
		for _, f := range c.fams {
			for _, n := range strings.Split(only, ",") {
				if f.name == n {
					keep = append(keep, f)
				}
			}
		}
		c.fams = keep
	}
	c.total = 0
	c.starts = nil
	sizes := map[string]any{}
	for _, f := range c.fams {
		c.starts = append(c.starts, c.total)
		c.total += f.n
		sizes[f.name] = f.n
	}
	if c.selfTest != "" {
		// a broken reference must not produce verdicts
		c.total = 0
	}
	slots := map[string]any{}
	for _, s := range slotsG() {
		nc := 0
		for _, ch := range s.choices {
			if ch.core {
				nc++
			}
		}
		slots[s.name] = map[string]int{"choices": len(s.choices), "core": nc}
	}
	c.bounds = map[string]any{
		"families": sizes, "restricted_to_families(dev)": os.Getenv("VERIF_C14_FAMILIES"), "restricted_to_picks(dev)": os.Getenv("VERIF_C14_PICK"), "lattice_slots": slots,
		"table_family":             map[string]any{"parts": tblParts, "own_group": tblOwn, "other_groups": tblOthers, "paints": len(tblPaints), "models": len(tblModels)},
		"svg_clip_family":          map[string]any{"contents": len(svgClipContents), "targets": len(svgClipTargets), "refs": svgClipRefs, "units": svgClipUnits, "hosts": svgHosts},
		"deviation_level":          map[string]any{"quick": "<=2 over the full menus", "thorough": "<=2 over the full menus, 3 over the core menus"}[tier],
		"bookmark_level_sequences": map[string]any{"alphabet": "{1,2,3,4}", "max_length": map[string]int{"quick": 4, "thorough": 5}[tier]},
		"zoom":                     []float32{1, 0.5, 2}, "page": "100x140 px, <= 3 forced pages", "engine": "pango, Ahem (two-fonts documents: Ahem + Go Regular)",
		"font_family":         map[string]any{"lines": len(fontTexts), "before": len(fontBefore), "containers": len(fontContainers), "pages": 2, "link_positions": 2, "zooms": 2},
		"reference_self_test": map[bool]string{true: "ok", false: c.selfTest}[c.selfTest == ""],
	}
	budget := 150.0
	if thorough {
		budget = 1400
	}
	return engine.Space{
		Units: c.total, Chunk: 48, Level: "model_checking",
		Rule:   "one unit = one document: G0..G2 (G3 thorough) = every document with <= 2 (3: core menus) deviations from the skeleton over the listed slots; B = every bookmark-level sequence x page pattern x variant; L = every assignment of ids {none,a,b} to 1..4 elements x every placement of <= 2 forced page breaks x (at most one special box kind | no self link: with no id the document defines no anchor at all); T = table-part paint: painted part (table, caption, colgroup, col 1/2, thead, tbody, tfoot, tr, td) x content of its row group (2 cells, 1 cell, empty cells, empty row, empty row + row, no row) x other row groups (none, full, short) x paint (backgrounds, borders, outlines) x border model (separate, collapse, empty-cells:hide) (x zoom, thorough); S = svg clip-path/mask: content of the clipPath/mask (shapes, degenerate shapes, empty containers, hidden children, childless) x clipped element x attribute x units x host (inline, img, background) (x zoom, thorough); F = font registration: text of a line (characters of the first family, of a fallback font, both in both orders, three runs) x line before it (none, first font, fallback font, mixed) x container (plain, opacity group, transform, clip) x page (first, second) x link paragraph (Ahem text) before or after x zoom, rendered with two fonts of different coverage (Ahem, Go Regular); M = full product of the title/keywords/other-meta menus; I = border-image group (source x slice x repeat x width x outset x border widths x box x zoom): every document with <= 4 deviations inside the group (thorough: the full product). A case is non-trivial when the render completed and the document produced at least one anchor, link, bookmark or metadata value that the oracle compared.",
		Bounds: c.bounds,
		Assumptions: []string{
			"Paint(0) (the 'end path without painting' operation) on an empty path is not counted as painting",
			"keywords are compared modulo empty tokens (HTML5 and Infra 'split on commas' differ on them)",
			"the order of anchors inside one page of CreateAnchors is not compared (map order, property C15)",
			"the page of an element is read from the laid-out box tree (layout itself is C10-C12's concern)",
			"only the pango engine is used; fonts: Ahem alone, except the documents tagged two-fonts (family F, slot paint-text), rendered with Ahem + Go Regular as fallback font; attachments only through data: URLs",
		},
		BudgetS: budget, CaseCPUs: 10, MinOutcomes: 50,
	}
}

func (c *check) caseAt(u int64) (*spec, int, string) {
	k := sort.Search(len(c.starts), func(k int) bool { return c.starts[k] > u }) - 1
	f := c.fams[k]
	s, dev := f.at(u - c.starts[k])
	return s, dev, f.name
}

func (c *check) Describe(u int64) any {
	if u >= c.total {
		return nil
	}
	s, dev, fam := c.caseAt(u)
	html, _ := s.build()
	return map[string]any{"family": fam, "deviations": dev, "picks": s.picks, "zoom": s.zoom, "base_url": s.base, "features": s.features(), "html": html}
}

func (c *check) Run(u int64, ctx *engine.Ctx) {
	s, dev, fam := c.caseAt(u)
	// development aid: VERIF_C14_PICK=text: skips the documents without a pick beginning with that word
	// (reported in the bounds; the run then says nothing about the skipped units)
	if only := os.Getenv("VERIF_C14_PICK"); only != "" {
		keep := false
		for _, p := range s.picks {
			keep = keep || strings.HasPrefix(p, only)
		}
		if !keep {
			ctx.Count("skipped(dev):VERIF_C14_PICK", 1)
			return
		}
	}
	ctx.Trans(int64(dev))
	ctx.Count("family:"+fam, 1)
	runCase(ctx, s)
}
