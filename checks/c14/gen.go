package c14

import (
	"fmt"
	"sort"
	"strings"
)

// ---- document specification ------------------------------------------------------------------
//
// A document is described by a spec; build() turns it into HTML plus the *model*: what the
// generator knows about the document (ids, links, headings, metadata) in document order. The
// oracle never parses the HTML: expectations come from the model and from the laid-out box
// tree (which page holds which element).

type el struct {
	tag   string // p, div, h1..h4, span
	id    string
	brk   bool   // break-before:page
	style string // extra declarations
	inner string // inner HTML; "" = default two-letter text
	kind  string // "", inline, zero, none, rot, abs, float, iblock, tall, cell, empty, fixed, scale0
	// bookmark variations (for headings, or to make a non-heading a bookmark)
	bmState string // "", "closed"
	bmLevel string // "" (UA rule), "none", "1".."4" (explicit bookmark-level)
	bmLabel string // "" (UA rule: content(text)) or a quoted CSS string such as "'X y'" ("none" is not a valid value)
	nested  bool   // label text split over a nested span and an entity
}

type titleV struct{ src, val string }

type metaV struct {
	nameSrc string // attribute source of name= (may be mixed case)
	name    string // lower-cased name
	src     string // attribute source of content= (inside double quotes)
	val     string // decoded value
}

type linkV struct {
	href   string // attribute source
	kind   string // internal | external | none | attachment
	target string // decoded anchor name or absolute URL
	block  bool   // display:block
	nested bool   // <a><span>..</span></a>
	text   string
}

type spec struct {
	family  string
	titles  []titleV
	metas   []metaV
	elems   []el
	paint   int // index in elems of the paint element (-1 none)
	bStyle  string
	iStyle  string
	repl    string  // replaced content appended to the paint element
	bi      *biSpec // border-image group (family I): composed into the paint element's style
	links   []linkV
	linkPos string // top | bottom | both
	selfTr  string // extra style on the self link's parent (never a transform in the geometry clause)
	// content of the paint element: "" (text + span "op"), "empty" (no child at all), "empty-span"
	// (only an empty styled span), "none-child" (only a display:none child)
	paintContent string
	// self link <a id=s href="#s">: "" (present), "none" (absent: the skeleton then defines no id of its
	// own), "no-id" (<a href="#s"> only: dangling unless another element has id s), "no-href" (<a id=s> only)
	selfLink string
	// text of the paint element instead of its two letters ("" = default); fonts2: the document is rendered
	// with the two-font configuration (Ahem + a fallback font of wider coverage, see fonts.go)
	paintText string
	fonts2    bool
	zoom      float32
	base      string
	tags      map[string]bool
	picks     []string
}

func (s *spec) tag(ts ...string) {
	for _, t := range ts {
		s.tags[t] = true
	}
}

func (s *spec) features() []string {
	var out []string
	for t := range s.tags {
		out = append(out, t)
	}
	sort.Strings(out)
	return out
}

type idOcc struct {
	id     string
	marker int
}

type linkOcc struct {
	marker int
	kind   string
	target string
}

type headOcc struct {
	marker int
	level  int
	label  string
	open   bool
}

type model struct {
	ids     []idOcc
	links   []linkOcc
	heads   []headOcc
	title   string
	desc    string
	gen     string
	authors []string
	kwSrc   []string     // decoded content of every keywords meta, in order
	selfM   int          // marker of the self link <a id=s href="#s">
	selfGeo bool         // the self link is in an untransformed context
	geo     map[int]bool // markers of elements whose anchor position is comparable (no transform involved)
	text    map[int]string
}

const prelude = `<style>@page{size:100px 140px;margin:0} html,body{margin:0;font-family:ahem;font-size:10px;line-height:1} h1,h2,h3,h4,p{margin:0;font-size:10px;font-weight:normal}</style>`

func defaultLinks() []linkV {
	return []linkV{
		{href: "#a", kind: "internal", target: "a", text: "la"},
		{href: "#b", kind: "internal", target: "b", text: "lb"},
		{href: "#c", kind: "internal", target: "c", text: "lc"},
		{href: "#zz", kind: "internal", target: "zz", text: "lz"},
		{href: "http://e.org/x#a", kind: "external", target: "http://e.org/x#a", text: "le"},
	}
}

// defaultSpec is the skeleton of the general lattice: link paragraph, an element carrying the
// "kind" slot (id a), the paint element (id b), four heading slots (first one h1 with id c),
// and a self link.
func defaultSpec() *spec {
	return &spec{
		family: "G",
		titles: []titleV{{"Doc", "Doc"}},
		elems: []el{
			{tag: "div", id: "a"},
			{tag: "div", id: "b"},
			{tag: "h1", id: "c"},
			{tag: "p"},
			{tag: "p"},
			{tag: "p"},
		},
		paint:   1,
		links:   defaultLinks(),
		linkPos: "top",
		zoom:    1,
		tags:    map[string]bool{},
	}
}

func twoLetters(i int) string {
	return string(rune('A'+2*i)) + string(rune('b'+2*i))
}

func kindStyle(k string) (style string, boxless, geoOK bool) {
	switch k {
	case "", "inline", "empty":
		return "", false, true
	case "zero":
		return "width:0;height:0", false, true
	case "none":
		return "display:none", true, false
	case "rot":
		return "transform:rotate(90deg)", false, false
	case "scale0":
		return "transform:scale(0)", false, false
	case "abs":
		return "position:absolute;top:50px;left:20px", false, true
	case "float":
		return "float:right", false, true
	case "iblock":
		return "display:inline-block", false, true
	case "tall":
		return "height:180px", false, true
	case "cell":
		return "display:table-cell", false, false
	case "fixed":
		return "position:fixed;top:120px;left:50px", false, false
	}
	panic("unknown kind " + k)
}

func htmlEsc(s string) string {
	return strings.NewReplacer("&", "&amp;", "<", "&lt;", "\"", "&quot;").Replace(s)
}

func (s *spec) linkPara(sb *strings.Builder, m *model, marker *int, word string) {
	pm := *marker
	*marker++
	fmt.Fprintf(sb, `<p data-m=%d>%s`, pm, word)
	m.text[pm] = word
	for _, l := range s.links {
		lm := *marker
		*marker++
		st := ""
		if l.block {
			st = ` style="display:block"`
		}
		rel := ""
		if l.kind == "attachment" {
			rel = ` rel=attachment`
		}
		txt := l.text
		if l.nested {
			txt = "<span>" + l.text + "</span>"
		}
		fmt.Fprintf(sb, ` <a data-m=%d%s href="%s"%s>%s</a>`, lm, rel, l.href, st, txt)
		m.links = append(m.links, linkOcc{lm, l.kind, l.target})
		m.text[lm] = l.text
	}
	sb.WriteString("</p>\n")
}

// build renders the spec and returns the model.
func (s *spec) build() (string, *model) {
	m := &model{text: map[int]string{}, geo: map[int]bool{}}
	var sb strings.Builder
	sb.WriteString("<html><head>")
	for i, t := range s.titles {
		fmt.Fprintf(&sb, "<title>%s</title>", t.src)
		if i == 0 {
			m.title = t.val
		}
	}
	seenDesc, seenGen := false, false
	for _, mt := range s.metas {
		fmt.Fprintf(&sb, `<meta name=%s content="%s">`, mt.nameSrc, mt.src)
		switch mt.name {
		case "keywords":
			m.kwSrc = append(m.kwSrc, mt.val)
		case "author":
			m.authors = append(m.authors, mt.val)
		case "description":
			if !seenDesc {
				m.desc, seenDesc = mt.val, true
			}
		case "generator":
			if !seenGen {
				m.gen, seenGen = mt.val, true
			}
		}
	}
	sb.WriteString(prelude)
	sb.WriteString("</head><body>\n")
	marker := 100
	if s.linkPos == "top" || s.linkPos == "both" {
		s.linkPara(&sb, m, &marker, "k")
	}
	for i, e := range s.elems {
		em := 10 + i
		tag := e.tag
		if e.kind == "inline" {
			tag = "span"
		}
		ks, boxless, geoOK := kindStyle(e.kind)
		if i == s.paint && strings.Contains(s.bStyle, "transform") {
			geoOK = false
		}
		m.geo[em] = geoOK && !strings.Contains(e.style, "transform")
		var st []string
		if e.brk {
			st = append(st, "break-before:page")
		}
		if ks != "" {
			st = append(st, ks)
		}
		if e.style != "" {
			st = append(st, e.style)
		}
		if i == s.paint && s.bStyle != "" {
			st = append(st, s.bStyle)
		}
		if i == s.paint && s.bi != nil {
			st = append(st, s.bi.css())
		}
		if e.bmState != "" {
			st = append(st, "bookmark-state:"+e.bmState)
		}
		if e.bmLevel != "" {
			st = append(st, "bookmark-level:"+e.bmLevel)
			if e.bmLabel == "" && !strings.HasPrefix(e.tag, "h") {
				st = append(st, "bookmark-label:content(text)")
			}
		}
		if e.bmLabel != "" {
			st = append(st, "bookmark-label:"+e.bmLabel)
		}
		txt := twoLetters(i)
		label := txt
		inner := txt
		if e.nested {
			// label = text content of the element: "X&y" + nested span
			inner = txt[:1] + "&amp;<span>" + txt[1:] + "</span>"
			label = txt[:1] + "&" + txt[1:]
		}
		if e.inner != "" {
			inner = e.inner
		}
		if i == s.paint && s.paintText != "" {
			inner = s.paintText
		}
		if e.kind == "empty" {
			inner, label, txt = "", "", ""
		}
		if i == s.paint {
			switch s.paintContent {
			case "":
				inner += fmt.Sprintf(`<span data-m=7 style="%s">op</span>`, s.iStyle)
				label += "op"
				m.text[7] = "op"
			case "empty":
				inner, label, txt = "", "", ""
			case "empty-span":
				inner, label, txt = fmt.Sprintf(`<span data-m=7 style="%s"></span>`, s.iStyle), "", ""
			case "none-child":
				ist := "display:none"
				if s.iStyle != "" {
					ist += ";" + s.iStyle
				}
				inner, label, txt = fmt.Sprintf(`<span data-m=7 style="%s">op</span>`, ist), "", ""
			default:
				panic("unknown paint content " + s.paintContent)
			}
			inner += s.repl
		}
		idAttr := ""
		if e.id != "" {
			idAttr = fmt.Sprintf(` id="%s"`, htmlEsc(e.id))
			if !boxless {
				m.ids = append(m.ids, idOcc{e.id, em})
			}
		}
		styleAttr := ""
		if len(st) > 0 {
			styleAttr = fmt.Sprintf(` style="%s"`, strings.Join(st, ";"))
		}
		fmt.Fprintf(&sb, "<%s data-m=%d%s%s>%s</%s>\n", tag, em, idAttr, styleAttr, inner, tag)
		m.text[em] = txt
		// bookmark expectation
		level := 0
		if strings.HasPrefix(e.tag, "h") && len(e.tag) == 2 && e.kind != "inline" {
			level = int(e.tag[1] - '0')
		}
		if e.kind == "inline" && strings.HasPrefix(e.tag, "h") {
			level = 0 // rendered as a span: no UA bookmark rule
		}
		switch e.bmLevel {
		case "":
		case "none":
			level = 0
		default:
			level = int(e.bmLevel[0] - '0')
		}
		if e.bmLabel != "" {
			label = strings.Trim(e.bmLabel, "'")
		}
		if level > 0 && label != "" && !boxless {
			m.heads = append(m.heads, headOcc{em, level, label, e.bmState != "closed"})
		}
	}
	// self link: an element that is both an anchor and a link to itself
	m.selfM = 6
	m.selfGeo = true
	switch s.selfLink {
	case "":
		fmt.Fprintf(&sb, `<p data-m=5 style="%s">w <a data-m=6 id=s href="#s">st</a></p>`+"\n", s.selfTr)
		m.ids = append(m.ids, idOcc{"s", 6})
		m.links = append(m.links, linkOcc{6, "internal", "s"})
	case "none":
		fmt.Fprintf(&sb, `<p data-m=5 style="%s">w st</p>`+"\n", s.selfTr)
	case "no-id":
		fmt.Fprintf(&sb, `<p data-m=5 style="%s">w <a data-m=6 href="#s">st</a></p>`+"\n", s.selfTr)
		m.links = append(m.links, linkOcc{6, "internal", "s"})
	case "no-href":
		fmt.Fprintf(&sb, `<p data-m=5 style="%s">w <a data-m=6 id=s>st</a></p>`+"\n", s.selfTr)
		m.ids = append(m.ids, idOcc{"s", 6})
	default:
		panic("unknown self link " + s.selfLink)
	}
	m.text[5], m.text[6] = "w", "st"
	if s.linkPos == "bottom" || s.linkPos == "both" {
		s.linkPara(&sb, m, &marker, "q")
	}
	sb.WriteString("</body></html>")
	return sb.String(), m
}

// ---- menus -------------------------------------------------------------------------------------

type choice struct {
	name  string
	apply func(*spec)
	tags  []string
	core  bool // part of the compact menu used at deviation level 3
}

type slot struct {
	name    string
	choices []choice // non-default choices
}

func styleChoices(block bool, list []styleEntry) []choice {
	var out []choice
	for _, e := range list {
		e := e
		if !block && e.blockOnly {
			continue
		}
		pre := "i:"
		if block {
			pre = "b:"
		}
		out = append(out, choice{name: pre + e.css, tags: e.tags, core: e.core, apply: func(s *spec) {
			if block {
				s.bStyle = e.css
			} else {
				s.iStyle = e.css
			}
		}})
	}
	return out
}

type styleEntry struct {
	css       string
	tags      []string
	core      bool
	blockOnly bool
}

func se(css string, core bool, tags ...string) styleEntry {
	return styleEntry{css: css, tags: tags, core: core}
}

func sb(css string, core bool, tags ...string) styleEntry {
	return styleEntry{css: css, tags: tags, core: core, blockOnly: true}
}

// paintStyles: one entry per branch of draw.go (drawBorder / clipBorderSegment / drawRoundedBorder /
// drawOutlines / drawBackground / drawStackingContext) and of images/gradients.go, forced onto
// zero-sized boxes wherever a division by a length occurs.
var paintStyles = []styleEntry{
	// sizes
	sb("width:0", false, "zero-width"),
	sb("height:0", false, "zero-height"),
	sb("width:0;height:0", true, "zero-size", "tiny-box"),
	sb("width:0;height:0;background:red", true, "zero-size", "tiny-box", "background"),
	sb("height:0;background:red;border-radius:5px", false, "zero-height", "background", "radius"),
	se("background:red", false, "background"),
	// uniform borders
	se("border:2px solid red", true, "border"),
	se("border:1px dashed blue", true, "border", "dashed-side"),
	se("border:2px dotted", false, "border", "dashed-side"),
	se("border:3px double green", true, "border", "double"),
	se("border:5px groove", false, "border", "groove"),
	se("border:5px ridge red", false, "border", "groove"),
	se("border:5px inset", false, "border", "inset"),
	se("border:5px outset blue", false, "border", "inset"),
	se("border:2px solid transparent", false, "border", "transparent-border"),
	se("border:2px solid red;border-radius:5px", true, "border", "radius"),
	se("border:2px dashed;border-radius:5px", true, "border", "radius", "dashed-side", "rounded-dashes"),
	se("border:3px dotted;border-radius:50%", false, "border", "radius", "dashed-side", "rounded-dashes"),
	se("border-radius:50%;background:red", false, "radius", "background"),
	// mixed borders (drawn side by side through clipBorderSegment)
	se("border-top:3px solid red;border-left:3px dashed blue", true, "border", "mixed-border-styles", "dashed-side"),
	se("border-top:1px solid red;border-left:6px dotted blue", false, "border", "mixed-border-styles", "dashed-side"),
	se("border-left:3px dashed;border-right:3px dashed", false, "border", "mixed-border-styles", "dashed-side"),
	se("border:2px solid;border-color:red blue", false, "border", "mixed-border-colors"),
	se("border-top:3px double;border-bottom:1px solid", false, "border", "mixed-border-styles", "double"),
	se("border-top:3px dashed;border-radius:5px", false, "border", "mixed-border-styles", "dashed-side", "radius", "rounded-dashes"),
	// the same on zero-sized boxes
	sb("width:0;height:0;border:2px solid red", true, "zero-size", "tiny-box", "border"),
	sb("width:0;height:0;border:3px dashed blue", true, "zero-size", "tiny-box", "border", "dashed-side"),
	sb("width:0;height:0;border:3px dotted blue", false, "zero-size", "tiny-box", "border", "dashed-side"),
	sb("width:0;height:0;border:3px double green", false, "zero-size", "tiny-box", "border", "double"),
	sb("width:0;height:0;border:4px ridge", false, "zero-size", "tiny-box", "border", "groove"),
	sb("width:0;height:0;border-top:3px solid red;border-left:3px dashed blue", true, "zero-size", "tiny-box", "border", "mixed-border-styles", "dashed-side"),
	sb("width:0;height:0;border-top:1px solid red;border-left:6px dotted blue", false, "zero-size", "tiny-box", "border", "mixed-border-styles", "dashed-side"),
	sb("height:0;border-left:3px dashed blue;border-right:3px dashed blue", true, "zero-height", "tiny-box", "border", "mixed-border-styles", "dashed-side"),
	sb("width:0;border-top:3px dotted;border-bottom:3px dotted", false, "zero-width", "tiny-box", "border", "mixed-border-styles", "dashed-side"),
	sb("width:0;height:0;border:2px solid;border-radius:5px", true, "zero-size", "tiny-box", "border", "radius"),
	sb("width:0;height:0;border:2px dashed;border-radius:5px", true, "zero-size", "tiny-box", "border", "radius", "dashed-side", "rounded-dashes"),
	sb("width:0;height:0;border:2px dotted red;border-radius:1px", false, "zero-size", "tiny-box", "border", "radius", "dashed-side", "rounded-dashes"),
	sb("width:0;height:0;border-radius:5px;background:red", false, "zero-size", "tiny-box", "radius", "background"),
	// outlines
	se("outline:1px solid", true, "outline"),
	se("outline:2px dashed red", false, "outline", "dashed-outline"),
	se("outline:2px dotted", false, "outline", "dashed-outline"),
	se("outline:3px double", false, "outline"),
	se("outline:4px groove", false, "outline"),
	sb("width:0;height:0;outline:2px solid", true, "zero-size", "tiny-box", "outline"),
	sb("width:0;height:0;outline:2px dashed", true, "zero-size", "tiny-box", "outline", "dashed-outline"),
	sb("width:0;height:0;outline:1px dotted", false, "zero-size", "tiny-box", "outline", "dashed-outline"),
	sb("width:0;height:0;outline:3px double", false, "zero-size", "tiny-box", "outline"),
	// stacking context features
	se("opacity:0.5", true, "opacity"),
	se("opacity:0", false, "opacity"),
	sb("opacity:0.5;width:0;height:0", false, "opacity", "zero-size", "tiny-box"),
	sb("overflow:hidden", true, "overflow-hidden"),
	sb("overflow:hidden;border-radius:5px", false, "overflow-hidden", "radius"),
	sb("overflow:hidden;width:0;height:0", true, "overflow-hidden", "zero-size", "tiny-box"),
	sb("overflow:hidden;width:0;height:0;border-radius:5px;border:1px solid", false, "overflow-hidden", "zero-size", "tiny-box", "radius", "border"),
	sb("transform:rotate(10deg)", true, "transform"),
	sb("transform:scale(2)", false, "transform"),
	sb("transform:translate(5px,50%)", false, "transform"),
	sb("transform:scale(0)", true, "transform", "singular-transform"),
	sb("transform:scale(0,1)", false, "transform", "singular-transform"),
	sb("transform:matrix(1,2,2,4,0,0)", true, "transform", "singular-transform"),
	sb("transform:matrix(1,2,3,4,5,6)", false, "transform"),
	sb("transform:rotate(10deg);width:0;height:0;border:1px solid", false, "transform", "zero-size", "tiny-box", "border"),
	sb("transform:rotate(45deg);transform-origin:0 0;opacity:0.5;overflow:hidden", false, "transform", "opacity", "overflow-hidden"),
	sb("position:absolute;clip:rect(0,0,0,0)", false, "clip-rect"),
	sb("position:absolute;clip:rect(1px,5px,5px,1px)", false, "clip-rect"),
	se("position:relative;top:1px", false, "positioned"),
	se("mix-blend-mode:multiply", false, "blend"),
	se("visibility:hidden;border:1px solid", false, "hidden", "border"),
	// text
	se("font-size:0", true, "font-size-0", "tiny-box"),
	se("font-size:0;border-top:3px solid red;border-left:3px dashed blue", true, "font-size-0", "tiny-box", "border", "mixed-border-styles", "dashed-side"),
	se("line-height:0", false, "line-height-0"),
	se("text-decoration:underline", true, "text-decoration"),
	se("text-decoration:underline wavy", true, "text-decoration", "wavy"),
	se("text-decoration:line-through dashed", false, "text-decoration"),
	se("text-decoration:overline dotted", false, "text-decoration"),
	se("text-decoration:underline double", false, "text-decoration"),
	se("font-size:0;text-decoration:underline wavy", false, "font-size-0", "tiny-box", "text-decoration", "wavy"),
	se("letter-spacing:2px;word-spacing:3px", false, "spacing"),
	// layout modes
	se("display:inline-block", false, "inline-block"),
	se("display:inline-block;width:0;height:0;border:1px dashed", false, "inline-block", "zero-size", "tiny-box", "border", "dashed-side"),
	sb("float:left", false, "float"),
	sb("display:list-item;list-style:square;margin-left:20px", false, "list-item"),
	sb("display:list-item;list-style:circle inside", false, "list-item"),
	sb("display:flex", false, "flex"),
	sb("display:table;border:1px solid", false, "table", "border"),
	sb("display:table;border-collapse:collapse;border:1px dashed", false, "table", "collapsed-borders"),
	sb("columns:2;column-rule:1px solid", false, "columns"),
	sb("columns:2;column-rule:3px dashed red", false, "columns", "dashed-rule"),
	// the paint element as a table part (anonymous table around it): backgrounds of rows, row groups and
	// columns are clipped to their cells (layoutBackgroundLayer), which an empty part does not have
	sb("display:table-row;background:red", true, "table-part", "background"),
	sb("display:table-row-group;background:red", false, "table-part", "background"),
	sb("display:table-header-group;background:linear-gradient(red,blue)", false, "table-part", "background", "gradient"),
	sb("display:table-column;background:red", true, "table-part", "background", "part-without-cell"),
	sb("display:table-column-group;background:red;border:1px solid", false, "table-part", "background", "border", "part-without-cell"),
	sb("display:table-cell;background:red;border:1px solid", false, "table-part", "background", "border"),
	sb("display:table-cell;empty-cells:hide;background:red;border:1px dashed;outline:1px solid", false, "table-part", "background", "border", "dashed-side", "outline", "empty-cells-hide"),
	sb("display:table-caption;background:red;outline:1px dashed", false, "table-part", "background", "outline", "dashed-outline"),
	se("margin:-5px", false, "negative-margin"),
	se("padding:3px;border:1px solid", false, "border", "padding"),
	// border images
	se("border:4px solid;border-image:linear-gradient(red,blue) 1", false, "border-image", "gradient"),
	sb("width:0;height:0;border:4px solid;border-image:linear-gradient(red,blue) 1", false, "border-image", "gradient", "zero-size", "tiny-box"),
	se("border:3px solid;border-image:linear-gradient(red,blue) 0 10 10 10", true, "border-image", "gradient", "bi-zero-slice"),
	se("border:3px solid;border-image:url(file:///repo/resources_test/pattern.png) 1 0 round", false, "border-image", "raster", "bi-zero-slice"),
	se("border-style:solid;border-width:3px 0;border-image:linear-gradient(red,blue) 10 fill space", false, "border-image", "gradient", "bi-zero-border-side"),
	// gradients
	se("background:linear-gradient(red,blue)", true, "gradient"),
	se("background:linear-gradient(to top left,red,blue)", false, "gradient"),
	se("background:linear-gradient(red 50%,blue 50%)", true, "gradient", "coincident-stops"),
	se("background:linear-gradient(red,lime 0,blue 0)", false, "gradient", "coincident-stops"),
	se("background:linear-gradient(red 5px,blue 2px)", false, "gradient", "decreasing-stops"),
	se("background:linear-gradient(red -10px,blue -5px)", false, "gradient", "negative-stops"),
	se("background:repeating-linear-gradient(red,blue 3px)", true, "gradient", "repeating"),
	se("background:repeating-linear-gradient(red 5px,blue 5px)", true, "gradient", "repeating", "coincident-stops"),
	se("background:repeating-linear-gradient(45deg,red -3px,lime,blue 2px)", false, "gradient", "repeating", "negative-stops"),
	se("background:radial-gradient(circle,red,blue)", true, "gradient", "radial"),
	se("background:radial-gradient(0px 0px,red,blue)", true, "gradient", "radial", "degenerate-radial"),
	se("background:radial-gradient(0px 5px,red,blue)", false, "gradient", "radial", "degenerate-radial"),
	se("background:radial-gradient(5px 0px,red,blue)", false, "gradient", "radial", "degenerate-radial"),
	se("background:radial-gradient(circle 0px,red,blue)", false, "gradient", "radial", "degenerate-radial"),
	se("background:radial-gradient(closest-side at 0 0,red,blue)", false, "gradient", "radial", "degenerate-radial"),
	se("background:radial-gradient(red 50%,blue 50%)", false, "gradient", "radial", "coincident-stops"),
	se("background:radial-gradient(red -10px,blue -5px)", false, "gradient", "radial", "negative-stops"),
	se("background:radial-gradient(red -5px,blue 5px)", false, "gradient", "radial", "negative-stops"),
	se("background:repeating-radial-gradient(circle 3px,red,blue)", true, "gradient", "radial", "repeating"),
	se("background:repeating-radial-gradient(red 2px,blue 4px)", false, "gradient", "radial", "repeating"),
	se("background:repeating-radial-gradient(red 5px,blue 5px)", true, "gradient", "radial", "repeating", "coincident-stops"),
	se("background:repeating-radial-gradient(red -5px,blue -5px)", true, "gradient", "radial", "repeating", "coincident-stops", "negative-stops"),
	se("background:repeating-radial-gradient(red -5px,blue 2px)", false, "gradient", "radial", "repeating", "negative-stops"),
	se("background:linear-gradient(red,blue) 0 0/0 0", false, "gradient", "zero-background-size"),
	se("background:radial-gradient(red,blue) 0 0/10px 0", false, "gradient", "radial", "zero-background-size"),
	se("background:linear-gradient(red,blue) space", false, "gradient", "background-repeat"),
	se("background:url(file:///repo/resources_test/pattern.png)", false, "background-image", "raster"),
	se("background:url(file:///repo/resources_test/pattern.png) round", false, "background-image", "raster", "background-repeat"),
}

const (
	png    = "file:///repo/resources_test/pattern.png"
	svgImg = "file:///repo/resources_test/pattern.svg"
)

type replEntry struct {
	html string
	tags []string
	core bool
}

var replMenu = []replEntry{
	{`<img src="` + png + `">`, []string{"img", "raster"}, true},
	{`<img src="` + png + `" style="width:0">`, []string{"img", "raster", "zero-width"}, true},
	{`<img src="` + png + `" style="width:10px;height:0">`, []string{"img", "raster", "zero-height"}, false},
	{`<img src="` + png + `" style="width:20px;height:10px;border:1px dashed;opacity:0.5">`, []string{"img", "raster", "opacity", "border", "dashed-side"}, false},
	{`<img src="file:///repo/resources_test/blue.jpg" style="width:5px">`, []string{"img", "raster", "jpeg"}, false},
	{`<img src="file:///repo/resources_test/pattern.gif" style="image-rendering:pixelated">`, []string{"img", "raster", "gif"}, false},
	{`<img src="data:image/png;base64,iVBORw0KGgoAAAANSUhEUgAAAAEAAAABCAYAAAAfFcSJAAAADUlEQVR42mP8z8BQDwAEhQGAhKmMIQAAAABJRU5ErkJggg==">`, []string{"img", "raster", "data-url"}, false},
	{`<img src="file:///repo/resources_test/missing.png" alt="zq">`, []string{"img", "missing-image"}, false},
	{`<img src="` + svgImg + `" style="width:8px;height:8px">`, []string{"img", "svg", "svg-img"}, true},
	{`<svg width="20" height="10"><path d="M0 0 L 10 10 L 0 10 z" fill="blue" stroke="red"/></svg>`, []string{"svg", "svg-inline", "svg-path"}, true},
	{`<svg width="20" height="10" fill="none"><path d="M0 0 L 10 10" stroke="red"/></svg>`, []string{"svg", "svg-inline", "svg-path", "svg-root-fill-none"}, true},
	{`<svg width="20" height="10"><path d="M0 0 L 10 10 20 0" fill="none" stroke="red" stroke-dasharray="2 1"/></svg>`, []string{"svg", "svg-inline", "svg-path", "svg-dasharray"}, true},
	{`<svg width="20" height="10"><path d="M0 0 h 10" stroke="red" stroke-dasharray="0 0"/></svg>`, []string{"svg", "svg-inline", "svg-path", "svg-dasharray", "svg-dasharray-zero"}, false},
	{`<svg width="20" height="10"><path d="M0 0 h 10" stroke="red" stroke-dasharray="3" stroke-dashoffset="-2"/></svg>`, []string{"svg", "svg-inline", "svg-path", "svg-dasharray"}, false},
	{`<svg width="20" height="10"><path d="M0 0 h 10" stroke="red" stroke-dasharray="1 -1"/></svg>`, []string{"svg", "svg-inline", "svg-path", "svg-dasharray", "svg-dasharray-negative"}, false},
	{`<svg width="20" height="10" viewBox="0 0 0 0"><rect width="5" height="5" fill="blue"/></svg>`, []string{"svg", "svg-inline", "svg-viewbox-zero"}, true},
	{`<svg width="20" height="10" viewBox="0 0 0 0"><path d="M0 0 L 10 10 z" stroke="red" stroke-dasharray="2 1"/></svg>`, []string{"svg", "svg-inline", "svg-path", "svg-dasharray", "svg-viewbox-zero"}, false},
	{`<svg width="20" height="10" viewBox="0 0 40 20"><circle cx="10" cy="10" r="5"/><ellipse rx="0" ry="3"/><line x2="10" stroke="red"/></svg>`, []string{"svg", "svg-inline", "svg-shapes"}, false},
	{`<svg width="0" height="0"><rect width="5" height="5"/></svg>`, []string{"svg", "svg-inline", "zero-size"}, false},
	{`<svg viewBox="0 0 10 0"><rect width="5" height="5"/></svg>`, []string{"svg", "svg-inline", "svg-viewbox-zero"}, false},
	{`<svg width="20" height="10"><path d="L 10 10 z" stroke="red"/></svg>`, []string{"svg", "svg-inline", "svg-path", "svg-path-no-moveto"}, true},
	{`<svg width="20" height="10"><path d="M 0 0 z" stroke="red"/><path d="" stroke="red"/><polyline points="" stroke="red"/></svg>`, []string{"svg", "svg-inline", "svg-path", "svg-empty-path"}, false},
	{`<svg width="20" height="10"><g opacity="0.5" transform="scale(0)"><rect width="5" height="5"/></g></svg>`, []string{"svg", "svg-inline", "svg-group", "opacity", "singular-transform"}, false},
	{`<svg width="20" height="10"><rect width="5" height="5" rx="9" fill="url(#g)"/><linearGradient id="g" x2="0"><stop offset="0" stop-color="red"/><stop offset="0" stop-color="blue"/></linearGradient></svg>`, []string{"svg", "svg-inline", "svg-gradient", "coincident-stops"}, false},
	{`<svg width="20" height="10"><text x="0" y="10" font-family="ahem" font-size="10">59</text></svg>`, []string{"svg", "svg-inline", "svg-text"}, true},
	{`<svg width="20" height="10"><title>Sv</title><rect width="5" height="5"/></svg>`, []string{"svg", "svg-inline", "svg-title"}, true},
	// clip paths and masks (the full product is family S)
	{`<svg width="20" height="10"><clipPath id="cp"><rect width="5" height="5"/></clipPath><rect width="10" height="8" clip-path="url(#cp)"/></svg>`, []string{"svg", "svg-inline", "svg-clip"}, true},
	{`<svg width="20" height="10"><clipPath id="cp"><rect width="0" height="5"/><path d=""/><g></g></clipPath><rect width="10" height="8" clip-path="url(#cp)"/></svg>`, []string{"svg", "svg-inline", "svg-clip", "clip-builds-no-path"}, true},
	{`<svg width="20" height="10"><mask id="mk"><circle r="0"/></mask><rect width="10" height="8" mask="url(#mk)"/></svg>`, []string{"svg", "svg-inline", "svg-mask", "clip-builds-no-path"}, false},
	// tables whose painted part has no cell (the full product is family T)
	{`<table><tr style="background:red"></tr><tr><td>5</td></tr></table>`, []string{"table", "table-part", "table-part-tr", "background", "part-without-cell"}, true},
	{`<table><col style="background:red"><col style="background:blue"><tr><td>5</td></tr></table>`, []string{"table", "table-part", "table-part-col2", "background", "part-without-cell"}, false},
	{`<table style="border-collapse:collapse"><thead style="background:blue;border:1px solid"></thead><tr><td style="border:1px dashed">5</td></tr></table>`, []string{"table", "table-part", "table-part-thead", "background", "part-without-cell", "collapsed-borders"}, false},
}

var zooms = []float32{0.5, 2}

type seqEntry struct {
	tags [4]string
	core bool
}

var headPatterns = []seqEntry{
	{[4]string{"p", "p", "p", "p"}, true},
	{[4]string{"h1", "h2", "p", "p"}, true},
	{[4]string{"h1", "h3", "p", "p"}, true},
	{[4]string{"h3", "h1", "p", "p"}, true},
	{[4]string{"h2", "h2", "p", "p"}, false},
	{[4]string{"h1", "h2", "h3", "h4"}, true},
	{[4]string{"h4", "h3", "h2", "h1"}, true},
	{[4]string{"h1", "h3", "h2", "h4"}, true},
	{[4]string{"h2", "h4", "h1", "h3"}, false},
	{[4]string{"h3", "h3", "h1", "h2"}, false},
	{[4]string{"h1", "h4", "h4", "h2"}, true},
	{[4]string{"h4", "h1", "h4", "h1"}, false},
	{[4]string{"h2", "h1", "h2", "h1"}, false},
	{[4]string{"p", "h2", "p", "h1"}, true},
	{[4]string{"h1", "h4", "h2", "h3"}, false},
	{[4]string{"h4", "h2", "h3", "h1"}, false},
}

const firstHead = 2 // index in elems of the first heading slot of the general skeleton

func headSeqTag(t [4]string) []string {
	var tags []string
	prev := 0
	n := 0
	for _, x := range t {
		if x == "p" {
			continue
		}
		l := int(x[1] - '0')
		n++
		if prev != 0 && l > prev+1 {
			tags = append(tags, "level-skip-down")
		}
		if prev != 0 && l < prev {
			tags = append(tags, "level-up")
		}
		prev = l
	}
	if n == 0 {
		tags = append(tags, "no-heading")
	}
	return tags
}

// slotsG returns the slots of the general lattice.
func slotsG() []slot {
	var out []slot
	out = append(out, slot{"block-style", styleChoices(true, paintStyles)})
	out = append(out, slot{"inline-style", styleChoices(false, paintStyles)})

	// replaced content
	var rc []choice
	for _, r := range replMenu {
		r := r
		rc = append(rc, choice{name: "repl:" + r.html, tags: r.tags, core: r.core, apply: func(s *spec) { s.repl = r.html }})
	}
	out = append(out, slot{"replaced", rc})

	// kind of the element carrying id a
	var kc []choice
	for _, k := range []struct {
		k    string
		core bool
	}{{"inline", true}, {"zero", true}, {"none", true}, {"rot", true}, {"scale0", true}, {"abs", true}, {"float", true}, {"iblock", true}, {"tall", true}, {"cell", true}, {"empty", true}, {"fixed", true}} {
		k := k
		kc = append(kc, choice{name: "kind:" + k.k, tags: []string{"kind-" + k.k}, core: k.core, apply: func(s *spec) { s.elems[0].kind = k.k }})
	}
	out = append(out, slot{"anchor-kind", kc})

	// ids on (E1, E2, H1, H2); default (a, b, c, -)
	var ic []choice
	for _, p := range []struct {
		ids  [4]string
		tags []string
		core bool
	}{
		{[4]string{"a", "a", "c", ""}, []string{"duplicate-id"}, true},
		{[4]string{"a", "b", "a", ""}, []string{"duplicate-id"}, true},
		{[4]string{"a", "b", "b", "a"}, []string{"duplicate-id"}, true},
		{[4]string{"a", "a", "a", "a"}, []string{"duplicate-id"}, true},
		{[4]string{"b", "a", "b", "c"}, []string{"duplicate-id"}, false},
		{[4]string{"c", "c", "b", "b"}, []string{"duplicate-id"}, false},
		{[4]string{"", "", "", ""}, []string{"no-id"}, true},
		{[4]string{"", "", "a", "a"}, []string{"duplicate-id"}, false},
		{[4]string{"a", "", "", "c"}, nil, false},
		{[4]string{"s", "b", "c", ""}, []string{"duplicate-id", "duplicate-of-self-link"}, true},
		{[4]string{"é", "b", "c", "x y"}, []string{"non-ascii-id"}, false},
		{[4]string{"a", "b", "c", "zz"}, []string{"all-links-resolve"}, false},
	} {
		p := p
		ic = append(ic, choice{name: "ids:" + strings.Join(p.ids[:], ","), tags: p.tags, core: p.core, apply: func(s *spec) {
			for i, j := range []int{0, 1, 2, 3} {
				s.elems[j].id = p.ids[i]
			}
		}})
	}
	out = append(out, slot{"ids", ic})

	// forced page breaks before (E2, H1, H3), at most 3 pages
	var pc []choice
	for _, b := range [][]int{{1}, {2}, {4}, {1, 2}, {1, 4}, {2, 4}} {
		b := b
		pc = append(pc, choice{name: fmt.Sprint("breaks-before:", b), tags: []string{"forced-pages"}, core: true, apply: func(s *spec) {
			for _, i := range b {
				s.elems[i].brk = true
			}
		}})
	}
	out = append(out, slot{"pages", pc})

	// links
	lc := []choice{
		{name: "links:bottom", tags: []string{"links-at-end"}, core: true, apply: func(s *spec) { s.linkPos = "bottom" }},
		{name: "links:both", tags: []string{"links-at-end"}, apply: func(s *spec) { s.linkPos = "both" }},
		{name: "links:percent-escape", tags: []string{"escaped-fragment"}, core: true, apply: func(s *spec) {
			s.links = []linkV{{href: "#%61", kind: "internal", target: "a", text: "la"}, {href: "#%7A%7a", kind: "internal", target: "zz", text: "lz"}}
		}},
		{name: "links:empty-fragment", tags: []string{"empty-href"}, core: true, apply: func(s *spec) {
			s.links = []linkV{{href: "#", kind: "other", target: "", text: "la"}, {href: "", kind: "none", target: "", text: "lb"}, {href: "#c", kind: "internal", target: "c", text: "lc"}}
		}},
		{name: "links:nested-span", tags: []string{"nested-link"}, core: true, apply: func(s *spec) {
			s.links[0].nested = true
			s.links[3].nested = true
		}},
		{name: "links:display-block", tags: []string{"block-link"}, apply: func(s *spec) {
			s.links[1].block = true
			s.links[3].block = true
		}},
		{name: "links:only-missing", tags: []string{"only-missing"}, core: true, apply: func(s *spec) {
			s.links = []linkV{{href: "#zz", kind: "internal", target: "zz", text: "lz"}, {href: "#A", kind: "internal", target: "A", text: "lA"}}
		}},
		{name: "links:twice", tags: []string{"repeated-link"}, apply: func(s *spec) {
			s.links = append(s.links, linkV{href: "#a", kind: "internal", target: "a", text: "lA"})
		}},
		{name: "links:base-url", tags: []string{"base-url"}, core: true, apply: func(s *spec) {
			s.base = "http://v.test/d/doc.html"
			s.links = []linkV{
				{href: "doc.html#a", kind: "internal", target: "a", text: "la"},
				{href: "http://v.test/d/doc.html#zz", kind: "internal", target: "zz", text: "lz"},
				{href: "other.html#a", kind: "external", target: "http://v.test/d/other.html#a", text: "le"},
				{href: "#c", kind: "internal", target: "c", text: "lc"},
			}
		}},
		{name: "links:attachment", tags: []string{"attachment"}, apply: func(s *spec) {
			s.links = append(s.links, linkV{href: "data:text/plain,hi", kind: "attachment", target: "data:text/plain,hi", text: "lt"})
		}},
		{name: "links:non-ascii", tags: []string{"non-ascii-id"}, apply: func(s *spec) {
			s.elems[0].id = "é"
			s.links = []linkV{{href: "#%C3%A9", kind: "internal", target: "é", text: "la"}, {href: "#é", kind: "internal", target: "é", text: "lb"}, {href: "#e", kind: "internal", target: "e", text: "lz"}}
		}},
		{name: "links:none", tags: []string{"no-links"}, apply: func(s *spec) { s.links = nil }},
	}
	out = append(out, slot{"links", lc})

	// heading patterns of the four heading slots; default (h1,p,p,p)
	var hc []choice
	for _, p := range headPatterns {
		p := p
		hc = append(hc, choice{name: "heads:" + strings.Join(p.tags[:], ","), tags: headSeqTag(p.tags), core: p.core, apply: func(s *spec) {
			for i, t := range p.tags {
				s.elems[firstHead+i].tag = t
			}
		}})
	}
	out = append(out, slot{"headings", hc})

	// bookmark variants, applied to heading slots 1 and 2
	bc := []choice{
		{name: "bm:closed-first", tags: []string{"bookmark-state"}, core: true, apply: func(s *spec) { s.elems[firstHead].bmState = "closed" }},
		{name: "bm:closed-second", tags: []string{"bookmark-state"}, core: true, apply: func(s *spec) { s.elems[firstHead+1].bmState = "closed" }},
		{name: "bm:level-none-first", tags: []string{"bookmark-level-none"}, core: true, apply: func(s *spec) { s.elems[firstHead].bmLevel = "none" }},
		{name: "bm:label-string", tags: []string{"bookmark-label"}, core: true, apply: func(s *spec) { s.elems[firstHead].bmLabel = "'X y'" }},
		{name: "bm:nested-label", tags: []string{"bookmark-label"}, core: true, apply: func(s *spec) { s.elems[firstHead].nested = true }},
		{name: "bm:explicit-level-on-p", tags: []string{"bookmark-level-explicit"}, core: true, apply: func(s *spec) { s.elems[firstHead+3].bmLevel = "2" }},
		{name: "bm:level-override", tags: []string{"bookmark-level-explicit"}, core: true, apply: func(s *spec) { s.elems[firstHead].bmLevel = "3" }},
		{name: "bm:heading-display-none", tags: []string{"heading-display-none"}, core: true, apply: func(s *spec) { s.elems[firstHead].kind = "none" }},
		{name: "bm:heading-tall", tags: []string{"heading-split"}, core: true, apply: func(s *spec) { s.elems[firstHead].kind = "tall" }},
		{name: "bm:heading-rotated", tags: []string{"heading-transformed"}, core: true, apply: func(s *spec) { s.elems[firstHead].kind = "rot" }},
		{name: "bm:paint-element-is-bookmark", tags: []string{"bookmark-level-explicit"}, core: true, apply: func(s *spec) { s.elems[1].bmLevel, s.elems[1].bmLabel = "1", "'Pq'" }},
	}
	out = append(out, slot{"bookmark-variant", bc})

	// metadata
	var tc []choice
	for _, t := range titleMenu {
		t := t
		tc = append(tc, choice{name: "title:" + t.name, tags: t.tags, core: t.core, apply: func(s *spec) { s.titles = t.titles }})
	}
	out = append(out, slot{"title", tc})
	var kwc []choice
	for _, k := range keywordMenu {
		k := k
		kwc = append(kwc, choice{name: "keywords:" + k.name, tags: k.tags, core: k.core, apply: func(s *spec) { s.metas = append(s.metas, k.metas...) }})
	}
	out = append(out, slot{"keywords", kwc})
	var mc []choice
	for _, k := range otherMetaMenu {
		k := k
		mc = append(mc, choice{name: "meta:" + k.name, tags: k.tags, core: k.core, apply: func(s *spec) { s.metas = append(s.metas, k.metas...) }})
	}
	out = append(out, slot{"other-meta", mc})

	// zoom
	var zc []choice
	for _, z := range zooms {
		z := z
		zc = append(zc, choice{name: fmt.Sprint("zoom:", z), tags: []string{"zoom"}, core: true, apply: func(s *spec) { s.zoom = z }})
	}
	out = append(out, slot{"zoom", zc})

	// content of the paint element (boxes without content: the styles of the block-style and
	// inline-style slots then apply to an empty block / an empty inline box / a table part without cell)
	out = append(out, slot{"paint-content", []choice{
		{name: "content:empty", tags: []string{"no-content"}, core: true, apply: func(s *spec) { s.paintContent = "empty" }},
		{name: "content:empty-span", tags: []string{"no-content", "empty-inline"}, core: true, apply: func(s *spec) { s.paintContent = "empty-span" }},
		{name: "content:display-none-child", tags: []string{"no-content", "display-none-child"}, apply: func(s *spec) { s.paintContent = "none-child" }},
	}})
	// the self link is the only id that the skeleton defines on its own: without it (and with the
	// ids slot at "no-id") the document defines no anchor at all
	out = append(out, slot{"self-link", []choice{
		{name: "self:none", tags: []string{"no-self-link"}, core: true, apply: func(s *spec) { s.selfLink = "none" }},
		{name: "self:no-id", tags: []string{"no-self-link", "self-link-dangling"}, core: true, apply: func(s *spec) { s.selfLink = "no-id" }},
		{name: "self:no-href", tags: []string{"no-self-link"}, apply: func(s *spec) { s.selfLink = "no-href" }},
	}})
	// the text of the paint element needs two fonts (font fallback inside one line)
	out = append(out, slotPaintText())
	return out
}

// derive adds the feature tags that depend on several slots at once (computed from the input alone).
func (s *spec) derive() {
	if s.paint >= 0 && s.repl == "" && (s.paintContent == "empty" || s.paintContent == "none-child") {
		for _, d := range []string{"display:table-row", "display:table-header-group", "display:table-footer-group"} {
			if strings.Contains(s.bStyle, d) {
				s.tag("part-without-cell")
			}
		}
	}
	anyID := s.selfLink == "" || s.selfLink == "no-href"
	for _, e := range s.elems {
		if e.id != "" && e.kind != "none" {
			anyID = true
		}
	}
	if !anyID {
		s.tag("no-anchor-at-all")
	}
}

type metaEntry struct {
	name   string
	titles []titleV
	metas  []metaV
	tags   []string
	core   bool
}

func kw(src, val string) metaV { return metaV{"keywords", "keywords", src, val} }

var titleMenu = []metaEntry{
	{name: "none", titles: nil, tags: []string{"no-title"}, core: true},
	{name: "empty", titles: []titleV{{"", ""}}, tags: []string{"empty-title"}, core: true},
	{name: "entities", titles: []titleV{{"A &amp; B &lt;c&gt; &#233;", "A & B <c> é"}}, tags: []string{"title-entities"}, core: true},
	{name: "spaces", titles: []titleV{{" A  B ", " A  B "}}, tags: []string{"title-spaces"}, core: true},
	{name: "newline-tab", titles: []titleV{{"A\tB\nC", "A\tB\nC"}}, tags: []string{"title-spaces"}, core: true},
	{name: "markup", titles: []titleV{{"A<b>c</b>", "A<b>c</b>"}}, tags: []string{"title-rcdata"}, core: true},
	{name: "two", titles: []titleV{{"One", "One"}, {"Two", "Two"}}, tags: []string{"two-titles"}, core: true},
	{name: "empty-then-text", titles: []titleV{{"", ""}, {"Two", "Two"}}, tags: []string{"two-titles", "title-empty-then-title"}, core: true},
	{name: "only-spaces", titles: []titleV{{"  ", "  "}}, tags: []string{"title-spaces"}},
}

var keywordMenu = []metaEntry{
	{name: "plain", metas: []metaV{kw("x,y", "x,y")}, core: true},
	{name: "spaces", metas: []metaV{kw(" x , y z ", " x , y z ")}, tags: []string{"keyword-spaces"}, core: true},
	{name: "repeated", metas: []metaV{kw("x,y,x, y ,X", "x,y,x, y ,X")}, tags: []string{"repeated-keywords"}, core: true},
	{name: "empty", metas: []metaV{kw("", "")}, tags: []string{"empty-keywords"}, core: true},
	{name: "empty-tokens", metas: []metaV{kw("x,,y,", "x,,y,")}, tags: []string{"empty-keywords"}, core: true},
	{name: "entities", metas: []metaV{kw("a &amp; b,&lt;", "a & b,<")}, tags: []string{"meta-entities"}, core: true},
	{name: "two-elements", metas: []metaV{kw("x,y", "x,y"), kw("y,z", "y,z")}, tags: []string{"repeated-keywords", "two-keyword-metas"}, core: true},
	{name: "upper-name", metas: []metaV{{"KeyWords", "keywords", "x,y", "x,y"}}, tags: []string{"meta-name-case"}, core: true},
	{name: "tab-newline", metas: []metaV{kw("x\t,\ny", "x\t,\ny")}, tags: []string{"keyword-spaces"}},
}

var otherMetaMenu = []metaEntry{
	{name: "author", metas: []metaV{{"author", "author", "Me", "Me"}}, core: true},
	{name: "author-spaces", metas: []metaV{{"author", "author", " Me  You ", " Me  You "}}, tags: []string{"meta-spaces"}, core: true},
	{name: "two-authors", metas: []metaV{{"author", "author", "Me", "Me"}, {"AUTHOR", "author", "Me", "Me"}, {"author", "author", "A &amp; B", "A & B"}}, tags: []string{"repeated-authors", "meta-name-case", "meta-entities"}, core: true},
	{name: "description", metas: []metaV{{"description", "description", "d &lt; e", "d < e"}}, tags: []string{"meta-entities"}, core: true},
	{name: "description-spaces", metas: []metaV{{"Description", "description", " d  e ", " d  e "}}, tags: []string{"meta-spaces", "meta-name-case"}, core: true},
	{name: "generator", metas: []metaV{{"generator", "generator", "Gen 1.0", "Gen 1.0"}}, core: true},
	{name: "all", metas: []metaV{{"author", "author", "Me", "Me"}, {"description", "description", "Dd", "Dd"}, {"generator", "generator", " g ", " g "}, {"viewport", "viewport", "zz", "zz"}}, tags: []string{"meta-spaces"}, core: true},
	{name: "empty-values", metas: []metaV{{"description", "description", "", ""}, {"generator", "generator", "", ""}}, tags: []string{"empty-meta"}},
}

// ---- border-image group (family I) ------------------------------------------------------------------
//
// One symbol per branch of drawBorderImage (html/document/draw.go): every region (4 corners, 4 edges,
// middle) can have a zero width/height, a zero slice width/height, or a zero intrinsic size; every
// repeat keyword takes its own branch; outsets and widths are numbers, lengths or auto.

type biSpec struct {
	source, slice, repeat, width, outset, bw, box string
}

func defaultBI() *biSpec {
	return &biSpec{source: "linear-gradient(red,blue)", slice: "10", bw: "3px"}
}

const svgDataURL = "url(data:image/svg+xml,%3Csvg%20xmlns=%27http://www.w3.org/2000/svg%27%20width=%2730%27%20height=%2730%27%3E%3Crect%20width=%2730%27%20height=%2730%27%20fill=%27red%27/%3E%3C/svg%3E)"

func (b *biSpec) css() string {
	st := []string{"border-style:solid", "border-color:blue", "border-width:" + b.bw, "border-image-source:" + b.source, "border-image-slice:" + b.slice}
	if b.repeat != "" {
		st = append(st, "border-image-repeat:"+b.repeat)
	}
	if b.width != "" {
		st = append(st, "border-image-width:"+b.width)
	}
	if b.outset != "" {
		st = append(st, "border-image-outset:"+b.outset)
	}
	if b.box != "" {
		st = append(st, b.box)
	}
	return strings.Join(st, ";")
}

func biTag(slot, v string) string {
	return "bi-" + slot + "=" + strings.NewReplacer(" ", "_", ",", "_", ";", "_").Replace(v)
}

func slotsBI() []slot {
	mk := func(name string, set func(*biSpec, string), vals []string, extra map[string][]string) slot {
		sl := slot{name: "bi-" + name}
		for _, v := range vals {
			v := v
			tags := append([]string{biTag(name, v)}, extra[v]...)
			sl.choices = append(sl.choices, choice{name: "bi-" + name + ":" + v, tags: tags, core: true, apply: func(s *spec) { set(s.bi, v) }})
		}
		return sl
	}
	out := []slot{
		{name: "bi-source", choices: []choice{
			{name: "bi-source:raster", tags: []string{"bi-source=raster", "raster"}, core: true, apply: func(s *spec) { s.bi.source = "url(" + png + ")" }},
			{name: "bi-source:svg-data-url", tags: []string{"bi-source=svg", "svg", "svg-img"}, core: true, apply: func(s *spec) { s.bi.source = svgDataURL }},
		}},
		mk("slice", func(b *biSpec, v string) { b.slice = v }, []string{"0 10 10 10", "10 10 0 10", "10 0 10 10", "0 25%", "100%", "10 fill"},
			map[string][]string{"0 10 10 10": {"bi-zero-slice"}, "10 10 0 10": {"bi-zero-slice"}, "10 0 10 10": {"bi-zero-slice"}, "0 25%": {"bi-zero-slice"}}),
		mk("repeat", func(b *biSpec, v string) { b.repeat = v }, []string{"repeat", "round", "space", "round space"},
			map[string][]string{"space": {"bi-space"}, "round space": {"bi-space"}}),
		// "2" and "5px 0" make the image regions wider than the 3px border: on a zero-sized box they overlap
		mk("width", func(b *biSpec, v string) { b.width = v }, []string{"0", "2", "5px 0"},
			map[string][]string{"0": {"bi-zero-width"}, "5px 0": {"bi-zero-width", "bi-wide-regions"}, "2": {"bi-wide-regions"}}),
		mk("outset", func(b *biSpec, v string) { b.outset = v }, []string{"0", "2", "5px 0"}, nil),
		mk("border-width", func(b *biSpec, v string) { b.bw = v }, []string{"3px 0", "0 3px"}, map[string][]string{"3px 0": {"bi-zero-border-side"}, "0 3px": {"bi-zero-border-side"}}),
		mk("box", func(b *biSpec, v string) { b.box = v }, []string{"width:0;height:0", "width:20px;height:20px"}, map[string][]string{"width:0;height:0": {"zero-size", "tiny-box"}}),
	}
	var zc []choice
	for _, z := range zooms {
		z := z
		zc = append(zc, choice{name: fmt.Sprint("zoom:", z), tags: []string{"zoom"}, core: true, apply: func(s *spec) { s.zoom = z }})
	}
	out = append(out, slot{"zoom", zc})
	return out
}

func biSpecBase() *spec {
	s := defaultSpec()
	s.family = "I"
	s.bi = defaultBI()
	s.tag("border-image")
	return s
}
