package c14

import (
	"fmt"
	"strings"

	"github.com/benoitkugler/webrender/backend"
)

// ---- reference outline builder -------------------------------------------------------------------
//
// CSS GCPM bookmarks / PDF outlines: the bookmarks of a document, in document order, form a
// tree in which the parent of an entry is the nearest preceding entry with a smaller level
// (none: top level).

type refHead struct {
	level int
	label string
	page  int
	open  bool
}

type outNode struct {
	label    string
	page     int
	open     bool
	level    int
	children []*outNode
}

func refOutline(hs []refHead) []*outNode {
	root := &outNode{level: 0}
	nodes := []*outNode{}
	for _, h := range hs {
		n := &outNode{label: h.label, page: h.page, open: h.open, level: h.level}
		parent := root
		for j := len(nodes) - 1; j >= 0; j-- {
			if nodes[j].level < h.level {
				parent = nodes[j]
				break
			}
		}
		parent.children = append(parent.children, n)
		nodes = append(nodes, n)
	}
	return root.children
}

func fromBackend(ns []backend.BookmarkNode) []*outNode {
	var out []*outNode
	for _, n := range ns {
		out = append(out, &outNode{label: n.Label, page: n.PageIndex, open: n.Open, children: fromBackend(n.Children)})
	}
	return out
}

func outlineString(ns []*outNode) string {
	var parts []string
	for _, n := range ns {
		s := fmt.Sprintf("%q@%d", n.label, n.page)
		if !n.open {
			s += "-closed"
		}
		if len(n.children) > 0 {
			s += "(" + outlineString(n.children) + ")"
		}
		parts = append(parts, s)
	}
	return strings.Join(parts, " ")
}

func depthOf(ns []*outNode) int {
	d := 0
	for _, n := range ns {
		if c := 1 + depthOf(n.children); c > d {
			d = c
		}
	}
	return d
}

// ---- reference keyword extraction ---------------------------------------------------------------
//
// HTML "standard metadata names", keywords: split the content of every keywords meta on commas,
// strip leading and trailing ASCII white space of each token, remove duplicates (first
// occurrence kept). Empty tokens are dropped on both sides of the comparison (the HTML5 and
// Infra versions of "split on commas" disagree on them).

const htmlSpace = " \t\n\f\r"

func refKeywords(contents []string) []string {
	out := []string{}
	seen := map[string]bool{}
	for _, c := range contents {
		tok := ""
		flush := func() {
			t := strings.Trim(tok, htmlSpace)
			if t != "" && !seen[t] {
				seen[t] = true
				out = append(out, t)
			}
			tok = ""
		}
		for _, r := range c {
			if r == ',' {
				flush()
			} else {
				tok += string(r)
			}
		}
		flush()
	}
	return out
}

func countTokens(contents []string) int {
	n := 0
	for _, c := range contents {
		n += strings.Count(c, ",") + 1
	}
	return n
}

func dropEmpty(l []string) []string {
	out := []string{}
	for _, s := range l {
		if s != "" {
			out = append(out, s)
		}
	}
	return out
}

// refSelfTest runs the specification examples of the reference models; "" = ok.
func refSelfTest() string {
	type tc struct {
		levels []int
		want   string
	}
	for _, t := range []tc{
		{[]int{1}, `"0"@0`},
		{[]int{1, 2, 3}, `"0"@0("1"@0("2"@0))`},
		{[]int{1, 3}, `"0"@0("1"@0)`},
		{[]int{3, 1}, `"0"@0 "1"@0`},
		{[]int{2, 2}, `"0"@0 "1"@0`},
		{[]int{1, 3, 2}, `"0"@0("1"@0 "2"@0)`},
		{[]int{1, 4, 4, 2, 3, 1}, `"0"@0("1"@0 "2"@0 "3"@0("4"@0)) "5"@0`},
		{[]int{2, 4, 1, 3}, `"0"@0("1"@0) "2"@0("3"@0)`},
		{[]int{3, 2, 1}, `"0"@0 "1"@0 "2"@0`},
		{[]int{1, 3, 2, 3}, `"0"@0("1"@0 "2"@0("3"@0))`},
	} {
		var hs []refHead
		for i, l := range t.levels {
			hs = append(hs, refHead{l, fmt.Sprint(i), 0, true})
		}
		if got := outlineString(refOutline(hs)); got != t.want {
			return fmt.Sprintf("outline reference self-test failed on %v: got %s want %s", t.levels, got, t.want)
		}
	}
	if got := fmt.Sprintf("%q", refKeywords([]string{" x , y z ,x", "", "y z,,w"})); got != `["x" "y z" "w"]` {
		return "keywords reference self-test failed: " + got
	}
	return ""
}
