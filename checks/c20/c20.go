// Package c20: serialized CSS re-parses to the same component values.
//
// Prefix-tree exploration of input strings; for every string whose token list has no
// parse error: Tokenize(Serialize(Tokenize(x))) must equal Tokenize(x) modulo comments and
// positions. Same for rules and declarations. Plus the closure over adjacent token pairs.
package c20

import (
	"fmt"
	"strings"

	pa "github.com/benoitkugler/webrender/css/parser"

	"verif/internal/cssn"
	"verif/internal/engine"
)

type check struct {
	ms    engine.MultiStr
	pairs []pa.Token // token menu of the pair closure
	tri   []pa.Token // reduced menu of the triple closure
	nStr  int64      // units belonging to the string spaces
}

func init() { engine.Register(&check{}) }

func (c *check) ID() string { return "C20" }

func split(s string) []string {
	var out []string
	for _, r := range s {
		out = append(out, string(r))
	}
	return out
}

var sigma0 = append(split("aeuU-\\0.+/*\"'\n (){}[];:!#@%<>,?=|é"), "\t", "\x7f", "\x01")

func (c *check) Init(tier string, seed int64) engine.Space {
	full, foc := 4, 7
	if tier == "thorough" {
		full, foc = 5, 8
	}
	c.ms = engine.MultiStr{Batch: 2048, Spaces: []*engine.StrSpace{
		{Name: "full", Alphabet: sigma0, MaxLen: full},
		{Name: "escapes", Alphabet: split("\\0af \n\"é-"), MaxLen: foc},
		{Name: "controls", Alphabet: append(split("a-(\" #@1"), "\\7f ", "\\1 ", "\\b ", "\x7f", "\x01", "url(", ")"), MaxLen: foc - 2},
		// escapes of the code points that CSS treats as newlines (LF, CR, FF): each needs its own escape when written back
		{Name: "newline-escapes", Alphabet: append(split("\"'a "), "\\c ", "\\a ", "\\d ", "\\C", "url(", ")"), MaxLen: foc - 2},
		{Name: "numbers", Alphabet: split("0.eE+-%a1"), MaxLen: foc},
		{Name: "urls", Alphabet: append(split("/*() \"\\'"), "url"), MaxLen: foc},
		{Name: "blocks", Alphabet: split("()[]{}a;"), MaxLen: foc},
		{Name: "fusing", Alphabet: split("a1-+.#@e%/*(u?>"), MaxLen: foc - 1},
		{Name: "atcdo", Alphabet: split("@a;{}<!->"), MaxLen: foc},
		{Name: "skipped-comments", Alphabet: append(split("@a1-:;{ #"), "/**/"), MaxLen: foc - 1},
	}}
	c.nStr = c.ms.Units()
	c.pairs = pairMenu()
	c.tri = tripleMenu()
	np := int64(len(c.pairs))
	units := c.nStr + np + int64(len(c.tri)) // one unit per first token of a pair / triple
	return engine.Space{
		Units: units, Chunk: 8, Level: "model_checking",
		Rule:   "every string of the prefix trees over the listed alphabets up to the listed lengths (index-addressable, shortest first) plus every ordered pair of a menu of component values; a case is non-trivial when its token list is error-free and non-empty, so that the round trip is actually compared",
		Bounds: map[string]any{"string_spaces": c.ms.Bounds(), "pair_menu_tokens": np, "triple_menu_tokens": len(c.tri), "strings_total": c.ms.Total()},
		Assumptions: []string{
			"code points outside the class representatives of the alphabets behave like their representative",
			"strings longer than the bounds are not explored",
			"the EOF error flag of string/url tokens is not part of the compared value (the property lists types, values, numeric representation, integer flag, units, nesting)",
		},
	}
}

var nopt = cssn.Options{MergeWS: true}

func features(toks []pa.Token) []string {
	// feature tags computed from the (input) token list
	set := map[string]bool{}
	var walk func(l []pa.Token)
	walk = func(l []pa.Token) {
		for i, t := range l {
			switch t := t.(type) {
			case pa.Dimension:
				if strings.HasPrefix(t.Unit, "E") {
					set["dim-unit-E"] = true
				}
				if len(t.Unit) >= 2 && (t.Unit[0] == 'e' || t.Unit[0] == 'E') && t.Unit[1] >= '0' && t.Unit[1] <= '9' {
					set["dim-unit-e-digit"] = true
				}
				if len(t.Unit) >= 2 && t.Unit[0] == '-' && t.Unit[1] >= '0' && t.Unit[1] <= '9' {
					set["name-dash-digit"] = true
				}
			case pa.Ident:
				dashDigit(t.Value, set)
				if i+1 < len(l) {
					if lit, ok := l[i+1].(pa.Literal); ok {
						if strings.HasSuffix(t.Value, "--") && lit.Value == ">" {
							set["ident--+gt"] = true
						}
						if (t.Value == "u" || t.Value == "U") && lit.Value == "+" {
							set["ident-u+plus"] = true
						}
					}
				}
			case pa.AtKeyword:
				dashDigit(t.Value, set)
			case pa.Hash:
				dashDigit(t.Value, set)
			case pa.FunctionBlock:
				dashDigit(t.Name, set)
				walk(t.Arguments)
			case pa.ParenthesesBlock:
				walk(t.Arguments)
			case pa.SquareBracketsBlock:
				walk(t.Arguments)
			case pa.CurlyBracketsBlock:
				walk(t.Arguments)
			}
		}
	}
	walk(toks)
	var out []string
	for k := range set {
		out = append(out, k)
	}
	return out
}

func dashDigit(v string, set map[string]bool) {
	if len(v) >= 2 && v[0] == '-' && v[1] >= '0' && v[1] <= '9' {
		set["name-dash-digit"] = true
	}
}

func (c *check) roundTrip(ctx *engine.Ctx, desc string, toks []pa.Token) {
	toks = mergeWS(toks)
	if cssn.HasError(toks) {
		ctx.Case(false, "error")
		return
	}
	want := cssn.List(toks, nopt)
	var got, ser string
	ok := ctx.GuardFail(desc, nil, func() {
		ser = pa.Serialize(toks)
		got = cssn.List(pa.Tokenize([]byte(ser), false), nopt)
	})
	if !ok {
		ctx.Case(true, "panic")
		return
	}
	ctx.Case(len(toks) > 0, want)
	if got != want {
		ctx.Fail(engine.Failure{Clause: "token-roundtrip", Features: append(features(toks), firstDiff(desc, toks, pa.Tokenize([]byte(ser), true))), Case: desc,
			Detail: fmt.Sprintf("serialized=%q\nwant %s\ngot  %s", ser, want, got)})
	}
}

func (c *check) Run(u int64, ctx *engine.Ctx) {
	// order: pair closure, triple closure, then the string spaces (cheap structural families first)
	if u < int64(len(c.pairs)) {
		c.runPairs(u, ctx)
		return
	}
	u -= int64(len(c.pairs))
	if u < int64(len(c.tri)) {
		c.runTriples(u, ctx)
		return
	}
	u -= int64(len(c.tri))
	sp, lo, hi := c.ms.Unit(u)
	for i := lo; i < hi; i++ {
		x := sp.At(i)
		desc := fmt.Sprintf("%s:%q", sp.Name, x)
		var toks []pa.Token
		if !ctx.GuardFail(desc, nil, func() { toks = pa.Tokenize([]byte(x), false) }) {
			ctx.Case(false, "panic")
			continue
		}
		ctx.Trans(1)
		c.roundTrip(ctx, desc, toks)
		// the same text tokenized with comments skipped: tokens that a comment kept apart are now adjacent
		noc := toks
		if strings.Contains(x, "/*") {
			if ctx.GuardFail(desc+" [skipComments]", nil, func() { noc = pa.Tokenize([]byte(x), true) }) {
				c.roundTrip(ctx, desc+" [skipComments]", noc)
			}
		}
		// rule level: every rule / declaration parsed from x, serialized and parsed again
		c.ruleLevel(ctx, desc, noc)
	}
}

func compoundHasError(l []pa.Compound) bool {
	for _, c := range l {
		switch c := c.(type) {
		case pa.ParseError:
			return true
		case pa.QualifiedRule:
			if cssn.HasError(c.Prelude) || cssn.HasError(c.Content) {
				return true
			}
		case pa.AtRule:
			if cssn.HasError(c.Prelude) || cssn.HasError(c.Content) {
				return true
			}
		case pa.Declaration:
			if cssn.HasError(c.Value) {
				return true
			}
		}
	}
	return false
}

func (c *check) ruleLevel(ctx *engine.Ctx, desc string, toks []pa.Token) {
	if cssn.HasError(toks) || len(toks) == 0 {
		return
	}
	type mode struct {
		name  string
		parse func([]pa.Token) []pa.Compound
	}
	modes := []mode{
		{"stylesheet", func(t []pa.Token) []pa.Compound { return pa.ParseStylesheet(t, true, true) }},
		{"declarations", func(t []pa.Token) []pa.Compound { return pa.ParseDeclarationList(t, true, true) }},
	}
	for _, m := range modes {
		d := desc + " as " + m.name
		var want, got, ser string
		skip := false
		ok := ctx.GuardFail(d, nil, func() {
			comps := m.parse(toks)
			if compoundHasError(comps) {
				skip = true
				return
			}
			want = cssn.Compounds(comps, nopt)
			var sb strings.Builder
			for _, cp := range comps {
				s, ok := pa.VerifSerializeCompound(cp)
				if !ok {
					skip = true
					return
				}
				sb.WriteString(s)
				if _, isDecl := cp.(pa.Declaration); isDecl {
					sb.WriteString(";")
				}
			}
			ser = sb.String()
			got = cssn.Compounds(m.parse(pa.Tokenize([]byte(ser), false)), nopt)
		})
		if !ok || skip {
			continue
		}
		ctx.Count("rule-level-roundtrips:"+m.name, 1)
		if got != want {
			ctx.Fail(engine.Failure{Clause: "rule-roundtrip", Features: append(features(toks), m.name), Case: d,
				Detail: fmt.Sprintf("serialized=%q\nwant %s\ngot  %s", ser, want, got)})
		}
	}
}

// ---- adjacent pair closure ---------------------------------------------------------------

// pairMenu builds a menu of component values: several values per token kind, obtained by
// tokenizing small sources (so that every token is one the tokenizer can produce).
func pairMenu() []pa.Token {
	srcs := []string{
		"a", "-", "--", "-a", "u", "U", "e", "E", "e1", "x-", "\\31 ", "é", "url",
		"@a", "@-", "@--", "#a", "#1", "#-", "#-1",
		"1", "+1", "-1", "1.5", ".5", "1e3", "0",
		"1%", "-1%", "1px", "1e", "1E", "1e-", "1E-2", "1\\65 3", "1-", "1--", "1u",
		"'s'", "\"\"", "url(x)", "url()", "url('x')", "U+1", "U+1-2", "U+1?",
		"f(", "-f(", "--f(", "--x", "u(", "url((", "(", "[", "{", "(a)", "f(1)",
		" ", "\n", "/**/",
		"+", ".", "/", "*", "<", ">", "!", "#", "@", "%", "?", "=", "|", "~", "^", "$", ":", ";", ",", "\\\n",
		"<!--", "-->", "~=", "|=", "^=", "$=", "*=", "||", "&",
	}
	var out []pa.Token
	for _, s := range srcs {
		t := safeTokenize(s)
		if len(t) == 1 && !cssn.HasError(t) {
			out = append(out, t[0])
		} else if len(t) == 1 {
			// blocks closed by EOF carry no error token: still usable
			out = append(out, t[0])
		}
	}
	return out
}

func (c *check) runPairs(first int64, ctx *engine.Ctx) {
	a := c.pairs[first]
	for _, b := range c.pairs {
		l := []pa.Token{a, b}
		desc := fmt.Sprintf("pair:[%s][%s]", strings.TrimSpace(cssn.List(l[:1], nopt)), strings.TrimSpace(cssn.List(l[1:], nopt)))
		ctx.Trans(1)
		c.roundTrip(ctx, desc, l)
	}
}

// tripleMenu is the whole pair menu: three-token fusions (such as "<" "!" "--x", read back as the CDO
// token) involve kinds that no reduced menu can be known to contain.
func tripleMenu() []pa.Token {
	return pairMenu()
}

func (c *check) runTriples(first int64, ctx *engine.Ctx) {
	a := c.tri[first]
	for _, b := range c.tri {
		for _, d := range c.tri {
			l := []pa.Token{a, b, d}
			desc := fmt.Sprintf("triple:%s", strings.TrimSpace(cssn.List(l, nopt)))
			ctx.Trans(1)
			c.roundTrip(ctx, desc, l)
		}
	}
}

func (c *check) Describe(u int64) any {
	if u < int64(len(c.pairs)) {
		return map[string]any{"pair_first_token": strings.TrimSpace(cssn.List(c.pairs[u:u+1], nopt)), "against": "every token of the menu"}
	}
	u -= int64(len(c.pairs))
	if u < int64(len(c.tri)) {
		return map[string]any{"triple_first_token": strings.TrimSpace(cssn.List(c.tri[u:u+1], nopt)), "against": "every pair of the reduced menu"}
	}
	u -= int64(len(c.tri))
	sp, lo, hi := c.ms.Unit(u)
	return map[string]any{"space": sp.Name, "first": sp.At(lo), "last": sp.At(hi - 1), "strings": hi - lo}
}

func safeTokenize(s string) (t []pa.Token) {
	defer func() {
		if recover() != nil {
			t = nil
		}
	}()
	return pa.Tokenize([]byte(s), false)
}

func stype(t pa.Token) string {
	if l, ok := t.(pa.Literal); ok {
		return l.Value
	}
	return t.Kind().String()
}

func dropComments(l []pa.Token) []pa.Token {
	var out []pa.Token
	for _, t := range l {
		if _, ok := t.(pa.Comment); !ok {
			out = append(out, t)
		}
	}
	return out
}

// firstDiff names the serialization types of the first token that differs and of its
// predecessor (top level only).
func firstDiff(desc string, a, b []pa.Token) string {
	a, b = dropComments(a), dropComments(b)
	if strings.HasPrefix(desc, "pair:") && len(a) == 2 {
		return "at=" + strings.ReplaceAll(stype(a[0])+"+"+stype(a[1]), " ", "_")
	}
	for i := range a {
		if i >= len(b) || cssn.List(a[i:i+1], nopt) != cssn.List(b[i:i+1], nopt) {
			// the damaged token is either a[i] or, when a[i-1] fused with it, a[i-1]
			prev := "^"
			if i > 0 {
				prev = stype(a[i-1])
			}
			next := "$"
			if i+1 < len(a) {
				next = stype(a[i+1])
			}
			_ = next
			return "at=" + strings.ReplaceAll(prev+"+"+stype(a[i]), " ", "_")
		}
	}
	return "at=end"
}

// mergeWS removes comments and merges runs of white space tokens: white space tokens are
// maximal in CSS Syntax, so two adjacent ones (left by a skipped comment) are one token.
func mergeWS(l []pa.Token) []pa.Token {
	var out []pa.Token
	for _, t := range l {
		if _, ok := t.(pa.Whitespace); ok && len(out) > 0 {
			if _, ok := out[len(out)-1].(pa.Whitespace); ok {
				continue
			}
		}
		out = append(out, t)
	}
	return out
}
