package c11

import (
	"fmt"
	"os"
	"sort"
	"strings"
	"testing"

	"verif/internal/render"
)

// TestSurvey (development aid) runs the sweeps named in C11_SURVEY in-process and prints the
// failures grouped by (clause, features).
func TestSurvey(t *testing.T) {
	names := os.Getenv("C11_SURVEY")
	if names == "" {
		t.Skip()
	}
	os.Setenv("C11_ONLY", names)
	c := &check{}
	tier := os.Getenv("C11_TIER")
	if tier == "" {
		tier = "quick"
	}
	sp := c.Init(tier, 0)
	type grp struct {
		n       int
		example string
	}
	groups := map[string]*grp{}
	total := 0
	for u := int64(0); u < sp.Units; u++ {
		si, sw, p, rows := c.locate(u)
		fcs := map[string]any{}
		_ = fcs
		fcP, fcG := render.NewFontConfig("pango"), render.NewFontConfig("gotext")
		for _, r := range rows {
			if !compatible(p, r) || c.coveredEarlier(si, p, r) {
				continue
			}
			fc := fcP
			if r.engine == "gotext" {
				fc = fcG
			}
			maxW := widthCap(p, r, sw.maxW)
			for w := 1; w <= maxW; w++ {
				total++
				html := document(p, r, w, 2000)
				m := newModel(p, r, w)
				ref := m.lines()
				var clause, detail string
				func() {
					defer func() {
						if e := recover(); e != nil {
							clause, detail = "panic", fmt.Sprint(e)
						}
					}()
					pages, _ := render.Layout(render.Options{HTML: html, Engine: r.engine, PageBound: 20, FontConfig: fc})
					obs, _ := collectLines(pages)
					compare(func(string, int64) {}, r, m, ref, obs, func(cl, d string) {
						if clause == "" {
							clause, detail = cl, d+"\n      want "+refCanon(ref)+"\n      got  "+canon(obs)
						}
					})
				}()
				if clause != "" {
					k := clause + " | " + strings.Join(features(p, r, w), ",")
					g := groups[k]
					if g == nil {
						g = &grp{}
						groups[k] = g
						g.example = caseDesc(p, r, w) + "\n      " + detail
					}
					g.n++
				}
			}
		}
	}
	var keys []string
	for k := range groups {
		keys = append(keys, k)
	}
	nf := func(k string) int { return strings.Count(k, ",") }
	sort.Slice(keys, func(i, j int) bool {
		if nf(keys[i]) != nf(keys[j]) {
			return nf(keys[i]) < nf(keys[j])
		}
		return keys[i] < keys[j]
	})
	fmt.Println("cases", total)
	// minimal groups: a group is folded into an earlier one with the same clause and a subset of its features
	type base struct {
		clause string
		feats  map[string]bool
		key    string
		n, sub int
	}
	var bases []*base
	for _, k := range keys {
		parts := strings.SplitN(k, " | ", 2)
		fs := strings.Split(parts[1], ",")
		has := map[string]bool{}
		for _, f := range fs {
			has[f] = true
		}
		folded := false
		for _, b := range bases {
			if b.clause != parts[0] {
				continue
			}
			ok := true
			for f := range b.feats {
				if !has[f] {
					ok = false
				}
			}
			if ok {
				b.n += groups[k].n
				b.sub++
				folded = true
				break
			}
		}
		if !folded {
			bases = append(bases, &base{clause: parts[0], feats: has, key: k, n: groups[k].n})
		}
	}
	for _, b := range bases {
		fmt.Printf("%5d (+%d signatures) %s\n      %s\n", b.n, b.sub, b.key, groups[b.key].example)
	}
}
