package c11

import (
	"fmt"
	"os"
	"strconv"
	"strings"
	"testing"

	"verif/internal/render"
)

// TestDebug lays out one case given by environment variables and prints reference and observation:
// C11_TEXT (Go-quoted or plain), C11_W, C11_WS, C11_ALIGN, C11_LAST, C11_INDENT, C11_LH, C11_WRAP, C11_ST, C11_ENGINE
func TestDebug(t *testing.T) {
	txt := os.Getenv("C11_TEXT")
	if txt == "" {
		t.Skip()
	}
	if u, err := strconv.Unquote(txt); err == nil {
		txt = u
	}
	p := parsePara(txt)
	r := defaultRow
	get := func(k, d string) string {
		if v := os.Getenv(k); v != "" {
			return v
		}
		return d
	}
	r.ws = get("C11_WS", r.ws)
	r.align = get("C11_ALIGN", r.align)
	r.alignLast = get("C11_LAST", r.alignLast)
	r.indent, _ = strconv.ParseFloat(get("C11_INDENT", "0"), 64)
	r.lh, _ = strconv.Atoi(get("C11_LH", "0"))
	r.wrap = get("C11_WRAP", "")
	r.engine = get("C11_ENGINE", "pango")
	for i, n := range structName {
		if n == get("C11_ST", "none") {
			r.st = i
		}
	}
	ws := strings.Split(get("C11_W", "3"), ",")
	for _, wss := range ws {
		w, _ := strconv.Atoi(wss)
		html := document(p, r, w, 2000)
		m := newModel(p, r, w)
		ref := m.lines()
		pages, err := render.Layout(render.Options{HTML: html, Engine: r.engine})
		if err != nil {
			t.Fatal(err)
		}
		obs, _ := collectLines(pages)
		fmt.Printf("W=%d %s\n  html %s\n  ref %s\n  got %s\n", w, r, html, refCanon(ref), canon(obs))
	}
}
