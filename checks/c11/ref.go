package c11

import (
	"math"
	"strings"
)

// Reference model of CSS inline layout restricted to the alphabet of this check:
// CSS Text 3 §4.1 (white space processing, phases I and II), §5 (line breaking; UAX #14
// restricted to letters, SPACE, TAB, NO-BREAK SPACE, HYPHEN-MINUS and atomic inlines),
// §7.1 (text-align, text-align-last, overflowing lines are start-aligned), §8.1 (text-indent),
// CSS 2.1 §10.8 (line height calculation). Written from the specifications, boring on
// purpose: slices and straight loops, float64.
//
// Every Ahem glyph (letters, space, no-break space, hyphen) advances by the font size.

const baseFS = 10.0

type spanInfo struct{ fs, lh float64 }

// rchar is one typographic unit of the inline formatting context after phase I.
type rchar struct {
	r         rune
	adv       float64 // advance; for a preserved tab computed when positioned
	pre, post float64 // spacing of inline boxes that start right before / end right after it
	spans     []int   // enclosing spans, outermost first
	atomic    bool
	ascent    float64 // atomic: height above the baseline
	collapsib bool    // a collapsible space
	fs        float64
	elem      int // index of the source text run (text boxes never span two of them)
}

func (c rchar) isSpace() bool  { return c.r == ' ' && !c.atomic }
func (c rchar) isTab() bool    { return c.r == '\t' && !c.atomic }
func (c rchar) total() float64 { return c.pre + c.adv + c.post }

type refLine struct {
	text    string  // letters, preserved/inner spaces, objRune for atomic inlines; trailing removed spaces are absent
	hang    int     // number of trailing preserved white space characters that hang (pre-wrap) and are not in text
	first   bool    // first formatted line of the block
	last    bool    // last line of the block
	forced  bool    // ends with a forced break
	s, e    int     // range of chars (after removal of leading spaces; e excludes removed trailing spaces)
	cw      float64 // content width without hanging/removed spaces
	cwHang  float64 // content width including hanging preserved spaces
	avail   float64 // available width for this line (container minus text-indent on the first line)
	start   float64 // x of the start edge of the line's content area
	x       float64 // expected x of the first glyph
	xAlt    float64 // alternative accepted x (hanging preserved spaces counted), = x when not applicable
	adv     float64 // expected distance from the first glyph's start to the last glyph's end
	advAlt  float64 // alternative accepted advance (justification optional), = adv when not applicable
	just    bool    // the line is justified (and must fill avail)
	y, h    float64
	overfl  bool // the content is wider than avail (single unbreakable unit)
	exact   bool // the content fits exactly (cw == avail)
	boxes   []refBox
	nRemLd  int  // leading collapsible spaces removed
	nRemTr  int  // trailing collapsible spaces removed
	single  bool // the line holds a single unbreakable unit
	hasTabs bool
}

// refBox is a maximal run of characters of one source text run on one line (what the
// implementation exposes as a TextBox), or an atomic inline.
type refBox struct {
	text   string
	x, w   float64
	atomic bool
}

type model struct {
	chars []rchar
	spans []spanInfo
	row   row
	avail float64 // container width
}

func collapses(ws string) bool { return ws == "normal" || ws == "nowrap" || ws == "pre-line" }
func wraps(ws string) bool     { return ws == "normal" || ws == "pre-wrap" || ws == "pre-line" }

// buildChars performs phase I of the white space processing model on the inline content.
func buildChars(els []elem, r row) ([]rchar, []spanInfo) {
	lhv := lineHeights[r.lh]
	var spans []spanInfo
	var stack []int
	var pendingPre float64
	var raw []rchar
	curFS := func() float64 {
		if len(stack) > 0 {
			return spans[stack[len(stack)-1]].fs
		}
		return baseFS
	}
	for ei, el := range els {
		switch el.kind {
		case 1:
			fs := curFS()
			if el.span.fs != 0 {
				fs = el.span.fs
			}
			lh := lhv.used(fs)
			spans = append(spans, spanInfo{fs, lh})
			stack = append(stack, len(spans)-1)
			pendingPre += el.span.left
		case 2:
			stack = stack[:len(stack)-1]
			if len(raw) > 0 {
				raw[len(raw)-1].post += el.span.right
			}
		case 3:
			c := rchar{r: objRune, adv: el.atomic.width, atomic: true, pre: pendingPre, spans: append([]int(nil), stack...), fs: curFS(), elem: ei}
			pendingPre = 0
			if el.atomic.height == 0 {
				c.ascent = -1 // same metrics as the strut (one line of inherited text)
			} else {
				c.ascent = el.atomic.height
			}
			raw = append(raw, c)
		case 0:
			for _, ru := range el.text {
				c := rchar{r: ru, adv: curFS(), pre: pendingPre, spans: append([]int(nil), stack...), fs: curFS(), elem: ei}
				pendingPre = 0
				raw = append(raw, c)
			}
		}
	}
	if !collapses(r.ws) {
		return raw, spans
	}
	// collapsing modes. Step 1: spaces and tabs around a segment break are removed.
	isSpTab := func(c rchar) bool { return !c.atomic && (c.r == ' ' || c.r == '\t') }
	keep := make([]bool, len(raw))
	for i := range keep {
		keep[i] = true
	}
	for i, c := range raw {
		if c.r == '\n' && !c.atomic {
			for j := i - 1; j >= 0 && isSpTab(raw[j]); j-- {
				keep[j] = false
			}
			for j := i + 1; j < len(raw) && isSpTab(raw[j]); j++ {
				keep[j] = false
			}
		}
	}
	var out []rchar
	carry := 0.0
	for i, c := range raw {
		if !keep[i] {
			carry += c.pre + c.post // never happens with the generated structures
			continue
		}
		c.pre += carry
		carry = 0
		if !c.atomic {
			// Step 2: segment breaks are transformed (normal, nowrap: to a space); step 3: tabs to spaces
			if c.r == '\n' && r.ws != "pre-line" {
				c.r = ' '
			}
			if c.r == '\t' {
				c.r = ' '
			}
			if c.r == ' ' {
				c.collapsib = true
				// Step 4: a collapsible space following another collapsible space is removed
				if len(out) > 0 && out[len(out)-1].collapsib {
					out[len(out)-1].post += c.pre + c.post
					continue
				}
			}
		}
		out = append(out, c)
	}
	return out, spans
}

// opportunity tells whether a soft wrap opportunity exists between chars[i-1] and chars[i].
func (m *model) opportunity(i int) bool {
	if !wraps(m.row.ws) {
		return false
	}
	a, b := m.chars[i-1], m.chars[i]
	if (!a.atomic && a.r == '\n') || (!b.atomic && b.r == '\n') {
		return false
	}
	if b.isSpace() || b.isTab() {
		return false // LB7: no break before spaces; tab is BA (no break before)
	}
	if a.isSpace() || a.isTab() {
		return true // LB18: break after spaces
	}
	if a.atomic || b.atomic {
		return true // CSS Text 3 §5.1: before and after each atomic inline
	}
	if a.r == '\u00a0' || b.r == '\u00a0' {
		return false // LB12, LB12a
	}
	if a.r == '-' {
		return true // HY ÷ AL
	}
	if b.r == '-' {
		return false // LB21: × HY
	}
	return m.row.wrap == "break-all" // letters
}

const tabStop = 8 * baseFS

// measure returns the width of chars[s:e] laid out from x0 (relative to the start edge of the
// block content box, needed for tab stops), and the width without the trailing white space that
// is removed (collapsible) or hangs (preserved, pre-wrap).
func (m *model) measure(s, e int, x0 float64) (full, content float64) {
	x := x0
	contentEnd := x0
	for i := s; i < e; i++ {
		c := m.chars[i]
		if c.isTab() {
			x += c.pre
			n := math.Floor(x/tabStop+1e-9) + 1
			x = n*tabStop + c.post
		} else {
			x += c.total()
		}
		if !(c.isSpace() || c.isTab()) {
			contentEnd = x
		}
	}
	return x - x0, contentEnd - x0
}

const eps = 1e-3

func (m *model) lines() []refLine {
	n := len(m.chars)
	r := m.row
	var out []refLine
	pos := 0
	first := true
	y := 0.0
	for pos < n {
		ln := refLine{first: first}
		s := pos
		if collapses(r.ws) {
			for s < n && m.chars[s].collapsib {
				s++
				ln.nRemLd++
			}
		}
		if s >= n {
			break
		}
		ln.start = 0
		if first {
			ln.start = r.indent
		}
		ln.avail = m.avail - ln.start
		// forced break
		k := n
		for i := s; i < n; i++ {
			if !m.chars[i].atomic && m.chars[i].r == '\n' {
				k = i
				break
			}
		}
		var cands []int
		for e := s + 1; e <= k; e++ {
			if e == k || m.opportunity(e) {
				cands = append(cands, e)
			}
		}
		if k == s {
			cands = []int{s} // empty line ended by a forced break
		}
		fitW := func(e int) float64 {
			full, content := m.measure(s, e, ln.start)
			if collapses(r.ws) || r.ws == "pre-wrap" {
				return content
			}
			return full
		}
		best := -1
		for _, e := range cands {
			if fitW(e) <= ln.avail+eps {
				best = e
			}
		}
		if best == -1 {
			best = cands[0]
			if wraps(r.ws) && (r.wrap == "anywhere" || r.wrap == "break-word") {
				// an otherwise unbreakable sequence may be broken at an arbitrary point
				b2 := -1
				for e := s + 1; e <= cands[0]; e++ {
					if _, content := m.measure(s, e, ln.start); content <= ln.avail+eps {
						b2 = e
					}
				}
				if b2 == -1 {
					b2 = s + 1
				}
				// a break that would only strand white space at the start of the next line is no gain
				best = b2
			}
		}
		e := best
		ln.forced = e == k && k < n
		next := e
		if ln.forced {
			next = e + 1
		}
		ln.last = next >= n
		// trailing white space
		end := e
		if collapses(r.ws) {
			for end > s && m.chars[end-1].collapsib {
				end--
				ln.nRemTr++
			}
		} else if r.ws == "pre-wrap" {
			for end > s && (m.chars[end-1].isSpace() || m.chars[end-1].isTab()) {
				end--
				ln.hang++
			}
		}
		ln.s, ln.e = s, end
		ln.cw, _ = m.measure(s, end, ln.start)
		ln.cwHang, _ = m.measure(s, e, ln.start)
		if collapses(r.ws) {
			ln.cwHang = ln.cw
		}
		var sb strings.Builder
		for i := s; i < end; i++ {
			sb.WriteRune(m.chars[i].r)
			if m.chars[i].isTab() {
				ln.hasTabs = true
			}
		}
		ln.text = sb.String()
		ln.single = true
		for i := s + 1; i < end; i++ {
			if m.opportunity(i) {
				ln.single = false
			}
		}
		ln.overfl = ln.cw > ln.avail+eps
		ln.exact = math.Abs(ln.cw-ln.avail) <= eps
		m.position(&ln)
		ln.y = y
		// hanging preserved spaces are glyphs of their inline boxes: the boxes are on the line
		hEnd := end
		if r.ws == "pre-wrap" {
			hEnd = e
		}
		ln.h = m.height(s, hEnd)
		y += ln.h
		out = append(out, ln)
		pos = next
		first = false
	}
	if len(out) > 0 {
		out[len(out)-1].last = true
		// the alignment of the last line may have changed
		m.position(&out[len(out)-1])
	}
	return out
}

// position computes the alignment of a line.
func (m *model) position(ln *refLine) {
	r := m.row
	al := r.align
	if ln.last || ln.forced {
		if r.alignLast != "auto" {
			al = r.alignLast
		} else if al == "justify" {
			al = "left"
		}
	}
	xFor := func(cw float64) float64 {
		if cw > ln.avail+eps {
			return ln.start // an overflowing line is start-aligned
		}
		switch al {
		case "right":
			return ln.start + ln.avail - cw
		case "center":
			return ln.start + (ln.avail-cw)/2
		}
		return ln.start
	}
	ln.x = xFor(ln.cw)
	ln.xAlt = xFor(ln.cwHang)
	ln.adv, ln.advAlt = ln.cw, ln.cw
	ln.just = false
	if al == "justify" && ln.cw < ln.avail-eps {
		spaces, nbsp := 0, 0
		for i := ln.s; i < ln.e; i++ {
			if m.chars[i].isSpace() {
				spaces++
			}
			if !m.chars[i].atomic && m.chars[i].r == '\u00a0' {
				nbsp++
			}
		}
		switch {
		case spaces > 0 && collapses(r.ws) && !ln.hasTabs:
			ln.just = true
			ln.adv, ln.advAlt = ln.avail, ln.avail
		case spaces > 0 || nbsp > 0:
			// non-collapsible white space: the UA is not required to justify (CSS Text 3 §7.1);
			// a no-break space is a word separator but how much it takes is up to the UA
			ln.advAlt = ln.avail
		}
	}
	// boxes
	ln.boxes = ln.boxes[:0]
	x := ln.x
	rel := ln.start // position used for tab stops is relative to the block, only left-aligned rows use tabs
	_ = rel
	for i := ln.s; i < ln.e; i++ {
		c := m.chars[i]
		w := c.adv
		if c.isTab() {
			px := x + c.pre
			nn := math.Floor(px/tabStop+1e-9) + 1
			w = nn*tabStop - px
		}
		x += c.pre
		newBox := c.atomic || len(ln.boxes) == 0 || ln.boxes[len(ln.boxes)-1].atomic || m.chars[i-1].elem != c.elem
		if newBox {
			ln.boxes = append(ln.boxes, refBox{x: x, atomic: c.atomic})
		}
		b := &ln.boxes[len(ln.boxes)-1]
		b.text += string(c.r)
		b.w += w
		x += w + c.post
	}
}

// height computes the height of the line box holding chars[s:e] (CSS 2.1 §10.8.1): every inline
// box on the line, and the strut of the block, contributes its ascent and descent around the
// shared baseline, each enlarged by its half-leading.
func (m *model) height(s, e int) float64 {
	lhv := lineHeights[m.row.lh]
	ad := func(fs, lh float64) (float64, float64) {
		half := (lh - fs) / 2
		return 0.8*fs + half, 0.2*fs + half
	}
	A, D := ad(baseFS, lhv.used(baseFS))
	sA, sD := A, D
	for i := s; i < e; i++ {
		c := m.chars[i]
		for _, sp := range c.spans {
			a, d := ad(m.spans[sp].fs, m.spans[sp].lh)
			A, D = math.Max(A, a), math.Max(D, d)
		}
		if c.atomic {
			a, d := c.ascent, 0.0
			if c.ascent < 0 {
				a, d = sA, sD
			}
			A, D = math.Max(A, a), math.Max(D, d)
		}
	}
	return A + D
}

func newModel(p para, r row, wEm int) *model {
	m := &model{row: r, avail: float64(wEm) * 10}
	m.chars, m.spans = buildChars(content(p, r.st), r)
	return m
}
