package c11

import (
	"fmt"
	"strconv"
	"strings"
)

// ---- paragraphs ------------------------------------------------------------------------

// separators between two words
const (
	sepSpace  = iota // " "
	sepSpace2        // "  "
	sepNL            // "\n"
	sepTab           // "\t"
	sepNBSP          // U+00A0
	sepHyphen        // "-"
	sepSpNLSp        // " \n " (spaces around a segment break)
	nSeps
)

var sepText = [nSeps]string{" ", "  ", "\n", "\t", "\u00a0", "-", " \n "}
var sepName = [nSeps]string{"space", "space2", "nl", "tab", "nbsp", "hyphen", "sp-nl-sp"}

// para is a paragraph: word lengths and the separators between consecutive words.
type para struct {
	lens []int
	seps []int
}

const letters = "abcde"

func (p para) word(i int) string { return strings.Repeat(string(letters[i]), p.lens[i]) }

// source returns the plain source text of the paragraph.
func (p para) source() string {
	var sb strings.Builder
	for i := range p.lens {
		if i > 0 {
			sb.WriteString(sepText[p.seps[i-1]])
		}
		sb.WriteString(p.word(i))
	}
	return sb.String()
}

func (p para) key() string { return p.source() }

func (p para) hasSep(k int) bool {
	for _, s := range p.seps {
		if s == k {
			return true
		}
	}
	return false
}

// paragraphs enumerates every sequence of 1..maxWords words with lengths from lens and every
// assignment of separators from seps, shortest first.
func paragraphs(maxWords int, lens []int, seps []int) []para {
	var out []para
	for n := 1; n <= maxWords; n++ {
		var rec func(cur para)
		rec = func(cur para) {
			if len(cur.lens) == n {
				out = append(out, para{append([]int(nil), cur.lens...), append([]int(nil), cur.seps...)})
				return
			}
			for _, l := range lens {
				if len(cur.lens) == 0 {
					rec(para{append(cur.lens, l), cur.seps})
					continue
				}
				for _, s := range seps {
					rec(para{append(cur.lens, l), append(cur.seps, s)})
				}
			}
		}
		rec(para{})
	}
	return out
}

// ---- style rows --------------------------------------------------------------------------

type lineHeight struct {
	css    string
	number float64 // multiple of the font size, or 0
	px     float64 // absolute, or 0
}

func (l lineHeight) used(fs float64) float64 {
	if l.number != 0 {
		return l.number * fs
	}
	return l.px
}

var lineHeights = []lineHeight{{"1", 1, 0}, {"1.5", 1.5, 0}, {"25px", 0, 25}}

// inline structure deviations
const (
	stNone     = iota
	stSpan     // plain span around words 2-3
	stMargin   // span, margin: 0 2px
	stPadding  // span, padding: 0 5px (and vertical padding, which must not change the line)
	stBorder   // span, border: 2px solid (vertical borders must not change the line height)
	stMarginL  // span, margin-left: 5px
	stMarginR  // span, margin-right: 5px
	stAll      // span, margin 2 + border 2 + padding 5 on both sides
	stNested   // span(padding 0 2px) around words 2-3, inner span(margin 0 5px) around word 3
	stIBlock   // word 2 replaced by an empty inline-block 25px x 15px
	stIBlockTx // word 2 replaced by an inline-block of width 25px containing "xy"
	stBigFont  // span, font-size: 20px around words 2-3
	stPadAsym  // span, padding: 1px 5px 6px (bottom larger than top: must not change the line either)
	stVertAll  // span, vertical margins, borders and paddings that differ between top and bottom, nothing horizontal
	stGlued    // plain span that opens inside word 2 (no break opportunity at its start) and closes after word 3
	// word 2 replaced by an atomic inline of width 35px that holds the two words "x y": the space
	// inside it belongs to another inline formatting context (it is no justification opportunity
	// of the line, no break opportunity of the paragraph, and does not collapse with the
	// paragraph's spaces)
	stIBlockSp // display: inline-block
	stITableSp // display: inline-table
	stIFlexSp  // display: inline-flex
	nStruct
)

// atomicSpec describes the atomic inline a structure puts in place of word 2.
type atomicSpec struct {
	display string
	width   float64
	height  float64 // 0: auto (one line of text)
	text    string
	css     string // further declarations
}

var atomics = map[int]atomicSpec{
	stIBlock:   {"inline-block", ibWidth, ibHeight, "", ""},
	stIBlockTx: {"inline-block", ibWidth, 0, "xy", ""},
	// text-indent is inherited: with the paragraph's 20px the two words would not fit the 35px
	// any more and the atomic inline would be two lines high (calibration: the unchanged tree does
	// just that); it is reset so that the inside stays one line whatever the row
	stIBlockSp: {"inline-block", ibSpWidth, 0, "x y", ";text-indent:0"},
	stITableSp: {"inline-table", ibSpWidth, 0, "x y", ";text-indent:0"},
	stIFlexSp:  {"inline-flex", ibSpWidth, 0, "x y", ";text-indent:0"},
}

func isAtomicStruct(st int) bool { _, ok := atomics[st]; return ok }

var structName = [nStruct]string{"none", "span", "span-margin", "span-padding", "span-border", "span-margin-left",
	"span-margin-right", "span-mbp", "nested-spans", "inline-block", "inline-block-text", "big-font", "span-padding-bottom-heavy", "span-vertical-mbp", "span-glued",
	"inline-block-spaced", "inline-table-spaced", "inline-flex-spaced"}

type row struct {
	ws        string // normal nowrap pre pre-wrap pre-line
	align     string // left right center justify
	alignLast string // auto right center justify
	indent    float64
	lh        int    // index into lineHeights
	wrap      string // "" | anywhere | break-word | break-all
	st        int
	engine    string // pango | gotext
}

var defaultRow = row{ws: "normal", align: "left", alignLast: "auto", indent: 0, lh: 0, wrap: "", st: stNone, engine: "pango"}

func (r row) key() string {
	return fmt.Sprintf("%s/%s/%s/%g/%d/%s/%d/%s", r.ws, r.align, r.alignLast, r.indent, r.lh, r.wrap, r.st, r.engine)
}

func (r row) String() string {
	return fmt.Sprintf("white-space:%s text-align:%s text-align-last:%s text-indent:%gpx line-height:%s wrap:%s structure:%s engine:%s",
		r.ws, r.align, r.alignLast, r.indent, lineHeights[r.lh].css, orDash(r.wrap), structName[r.st], r.engine)
}

func orDash(s string) string {
	if s == "" {
		return "-"
	}
	return s
}

// ---- documents ---------------------------------------------------------------------------

type spanSpec struct {
	css         string
	left, right float64 // horizontal margin+border+padding on each side
	fs          float64 // font size of the span (0 = inherited)
}

var (
	spPlain   = spanSpec{css: "", left: 0, right: 0}
	spMargin  = spanSpec{css: "margin:0 2px", left: 2, right: 2}
	spPadding = spanSpec{css: "padding:3px 5px", left: 5, right: 5}
	spBorder  = spanSpec{css: "border:2px solid", left: 2, right: 2}
	spMarginL = spanSpec{css: "margin-left:5px", left: 5}
	spMarginR = spanSpec{css: "margin-right:5px", right: 5}
	spAll     = spanSpec{css: "margin:0 2px;border:2px solid;padding:0 5px", left: 9, right: 9}
	spOuter   = spanSpec{css: "padding:0 2px", left: 2, right: 2}
	spInner   = spanSpec{css: "margin:0 5px", left: 5, right: 5}
	spBig     = spanSpec{css: "font-size:20px", fs: 20}
	spPadAsym = spanSpec{css: "padding:1px 5px 6px", left: 5, right: 5}
	spVertAll = spanSpec{css: "margin:4px 0 9px;border-style:solid;border-width:4px 0 1px;padding:1px 0 7px"}
)

const (
	ibWidth   = 25.0
	ibHeight  = 15.0
	ibSpWidth = 35.0     // "x y" is 30px wide: one line inside, 5px to spare
	objRune   = '\uFFFC' // stands for an atomic inline in line texts
)

// element of the inline content of the paragraph, in document order
type elem struct {
	kind   int // 0 text, 1 span open, 2 span close, 3 atomic
	text   string
	span   spanSpec
	atomic atomicSpec
}

// content builds the inline content of (p, structure).
func content(p para, st int) []elem {
	n := len(p.lens)
	s, e := 1, 2 // the structure applies to words s..e (0-based), clipped to the paragraph
	if s > n-1 {
		s = n - 1
	}
	if e > n-1 {
		e = n - 1
	}
	var out []elem
	text := func(t string) {
		if t == "" {
			return
		}
		if len(out) > 0 && out[len(out)-1].kind == 0 {
			out[len(out)-1].text += t
			return
		}
		out = append(out, elem{kind: 0, text: t})
	}
	var outer, inner *spanSpec
	switch st {
	case stSpan:
		outer = &spPlain
	case stMargin:
		outer = &spMargin
	case stPadding:
		outer = &spPadding
	case stBorder:
		outer = &spBorder
	case stMarginL:
		outer = &spMarginL
	case stMarginR:
		outer = &spMarginR
	case stAll:
		outer = &spAll
	case stNested:
		outer, inner = &spOuter, &spInner
	case stBigFont:
		outer = &spBig
	case stPadAsym:
		outer = &spPadAsym
	case stVertAll:
		outer = &spVertAll
	case stGlued:
		outer = &spPlain
	}
	for i := 0; i < n; i++ {
		if i > 0 {
			text(sepText[p.seps[i-1]])
		}
		if st == stGlued && i == s && p.lens[i] >= 2 {
			// the span opens after the first letter of the word
			w := p.word(i)
			text(w[:1])
			out = append(out, elem{kind: 1, span: *outer})
			out = append(out, elem{kind: 0, text: w[1:]})
			if i == e {
				out = append(out, elem{kind: 2, span: *outer})
			}
			continue
		}
		if outer != nil && i == s {
			out = append(out, elem{kind: 1, span: *outer})
		}
		if inner != nil && i == e {
			out = append(out, elem{kind: 1, span: *inner})
		}
		if isAtomicStruct(st) && i == s {
			out = append(out, elem{kind: 3, atomic: atomics[st]})
		} else {
			text(p.word(i))
		}
		if inner != nil && i == e {
			out = append(out, elem{kind: 2, span: *inner})
		}
		if outer != nil && i == e {
			out = append(out, elem{kind: 2, span: *outer})
		}
	}
	return out
}

var htmlEsc = strings.NewReplacer("\u00a0", "&nbsp;", "\t", "&#9;", "\n", "&#10;")

// document builds the HTML source of one case.
func document(p para, r row, wEm int, pageH int) string {
	var sb strings.Builder
	fmt.Fprintf(&sb, `<style>@page{size:%dpx %dpx;margin:0} html,body{margin:0;font-family:ahem;font-size:10px;line-height:%s} `,
		wEm*10, pageH, lineHeights[r.lh].css)
	fmt.Fprintf(&sb, `p{margin:0;white-space:%s;text-align:%s`, r.ws, r.align)
	if r.alignLast != "auto" {
		fmt.Fprintf(&sb, `;text-align-last:%s`, r.alignLast)
	}
	if r.indent != 0 {
		fmt.Fprintf(&sb, `;text-indent:%gpx`, r.indent)
	}
	switch r.wrap {
	case "anywhere", "break-word":
		fmt.Fprintf(&sb, `;overflow-wrap:%s`, r.wrap)
	case "break-all":
		sb.WriteString(`;word-break:break-all`)
	}
	sb.WriteString(`}</style><p>`)
	for _, el := range content(p, r.st) {
		switch el.kind {
		case 0:
			sb.WriteString(htmlEsc.Replace(el.text))
		case 1:
			if el.span.css == "" {
				sb.WriteString(`<span>`)
			} else {
				fmt.Fprintf(&sb, `<span style="%s">`, el.span.css)
			}
		case 2:
			sb.WriteString(`</span>`)
		case 3:
			a := el.atomic
			if a.height == 0 {
				fmt.Fprintf(&sb, `<span style="display:%s;width:%gpx%s">%s</span>`, a.display, a.width, a.css, a.text)
			} else {
				fmt.Fprintf(&sb, `<span style="display:%s;width:%gpx;height:%gpx%s">%s</span>`, a.display, a.width, a.height, a.css, a.text)
			}
		}
	}
	sb.WriteString(`</p>`)
	return sb.String()
}

// parsePara reads back a source text made of the generator's letters and separators.
func parsePara(s string) para {
	var p para
	rs := []rune(s)
	i := 0
	for i < len(rs) {
		j := i
		for j < len(rs) && strings.ContainsRune(letters, rs[j]) {
			j++
		}
		if j > i {
			p.lens = append(p.lens, j-i)
		}
		k := j
		for k < len(rs) && !strings.ContainsRune(letters, rs[k]) {
			k++
		}
		if k > j && k < len(rs) {
			sep := string(rs[j:k])
			found := false
			for si, st := range sepText {
				if st == sep {
					p.seps = append(p.seps, si)
					found = true
				}
			}
			if !found {
				panic("unknown separator " + strconv.Quote(sep))
			}
		}
		i = k
	}
	return p
}
