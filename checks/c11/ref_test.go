package c11

import (
	"strings"
	"testing"
)

// Unit tests of the reference model: each calibration learned from the pilots and from the
// triage of this check is pinned here.

func refTexts(t *testing.T, src string, r row, w int) ([]refLine, string) {
	t.Helper()
	m := newModel(parsePara(src), r, w)
	ls := m.lines()
	var parts []string
	for _, l := range ls {
		parts = append(parts, l.text)
	}
	return ls, strings.Join(parts, "|")
}

func with(f func(r *row)) row {
	r := defaultRow
	f(&r)
	return r
}

func TestRefGreedy(t *testing.T) {
	cases := []struct {
		src  string
		w    int
		want string
	}{
		{"a bb ccc", 1, "a|bb|ccc"},
		{"a bb ccc", 4, "a bb|ccc"}, // "a bb" fits exactly
		{"a bb ccc", 7, "a bb|ccc"},
		{"a bb ccc", 8, "a bb ccc"},
		{"aaaaa b", 3, "aaaaa|b"}, // single unbreakable unit overflows
		{"a-bb", 2, "a-|bb"},      // break after a hyphen
		{"a bb", 2, "a bb"},
		{"a  b\nc", 9, "a b c"}, // collapsing
	}
	for _, c := range cases {
		if _, got := refTexts(t, c.src, defaultRow, c.w); got != c.want {
			t.Errorf("%q at %dem: got %q want %q", c.src, c.w, got, c.want)
		}
	}
}

func TestRefWhiteSpaceModes(t *testing.T) {
	cases := []struct {
		src, ws string
		w       int
		want    string
	}{
		{"a b\nc", "nowrap", 1, "a b c"},
		{"a  b\nc", "pre", 1, "a  b|c"},
		{"a  b \n c", "pre-line", 9, "a b|c"},
		{"a b  c", "pre-wrap", 3, "a b|c"},    // two preserved spaces hang (CSS Text 3 §4.1.2 phase II, 4)
		{"a b \n c", "pre-wrap", 3, "a b| c"}, // a preserved space before a forced break hangs conditionally
		{"a\tb", "normal", 9, "a b"},
	}
	for _, c := range cases {
		r := with(func(r *row) { r.ws = c.ws })
		if _, got := refTexts(t, c.src, r, c.w); got != c.want {
			t.Errorf("%q %s at %dem: got %q want %q", c.src, c.ws, c.w, got, c.want)
		}
	}
}

func TestRefOverflowingLineIsStartAligned(t *testing.T) { // DESIGN appendix A, item 1
	for _, al := range []string{"right", "center", "justify"} {
		ls, _ := refTexts(t, "aaaaa b", with(func(r *row) { r.align = al }), 3)
		if ls[0].x != 0 || !ls[0].overfl {
			t.Errorf("%s: overflowing line at x=%v", al, ls[0].x)
		}
	}
	ls, _ := refTexts(t, "aaaaa b", with(func(r *row) { r.align = "right" }), 3)
	if ls[1].x != 20 {
		t.Errorf("right: second line at x=%v, want 20", ls[1].x)
	}
}

func TestRefJustify(t *testing.T) {
	ls, _ := refTexts(t, "a b ccc dd", with(func(r *row) { r.align = "justify" }), 5)
	// "a b" | "ccc" | "dd": only line 1 has an opportunity and is neither last nor forced
	if !ls[0].just || ls[0].adv != 50 || ls[1].just || ls[len(ls)-1].just {
		t.Errorf("justify: %+v", ls)
	}
	ls, _ = refTexts(t, "a b\nc d e", with(func(r *row) { r.align = "justify"; r.ws = "pre-line" }), 4)
	if ls[0].just { // forced line
		t.Errorf("forced line justified")
	}
	ls, _ = refTexts(t, "a b", with(func(r *row) { r.alignLast = "justify" }), 5)
	if !ls[0].just {
		t.Errorf("text-align-last:justify not applied to the last line")
	}
}

func TestRefIndent(t *testing.T) {
	ls, _ := refTexts(t, "a\nb c", with(func(r *row) { r.indent = 20; r.ws = "pre-line" }), 2)
	if ls[0].x != 20 || ls[1].x != 0 || ls[2].x != 0 {
		t.Errorf("indent: %v %v %v", ls[0].x, ls[1].x, ls[2].x)
	}
	// the indent reduces the room of the first line only
	_, got := refTexts(t, "a bb cc", with(func(r *row) { r.indent = 20 }), 4)
	if got != "a|bb|cc" {
		t.Errorf("indent fit: %q", got)
	}
	_, got = refTexts(t, "aa bb", with(func(r *row) { r.indent = -10 }), 4)
	if got != "aa bb" {
		t.Errorf("negative indent fit: %q", got)
	}
	ls, _ = refTexts(t, "a", with(func(r *row) { r.indent = 20; r.align = "center" }), 5)
	if ls[0].x != 30 { // centred in the 30px that remain after the indent
		t.Errorf("indent+center: %v", ls[0].x)
	}
}

func TestRefHeights(t *testing.T) {
	h := func(src string, st, lh int, w int) []float64 {
		ls, _ := refTexts(t, src, with(func(r *row) { r.st = st; r.lh = lh }), w)
		var out []float64
		for _, l := range ls {
			out = append(out, l.h)
		}
		return out
	}
	if got := h("a b", stBigFont, 0, 1); got[0] != 10 || got[1] != 20 {
		t.Errorf("big font, line-height 1: %v", got)
	}
	if got := h("a b", stBigFont, 2, 9); got[0] != 28 { // 25px on both: strut 15.5/9.5, span 18.5/6.5
		t.Errorf("big font, line-height 25px: %v", got)
	}
	if got := h("a b", stIBlock, 1, 9); got[0] != 19.5 { // 15 above the baseline, strut descent 4.5
		t.Errorf("inline-block, line-height 1.5: %v", got)
	}
	// a line that holds nothing but a hanging preserved space of a larger span is as tall as the span
	ls, _ := refTexts(t, "a b \n c", with(func(r *row) { r.st = stBigFont; r.ws = "pre-wrap" }), 1)
	if len(ls) != 4 || ls[2].h != 20 {
		t.Errorf("hanging space in big span: %+v", ls)
	}
	if got := h("a b", stPadding, 0, 9); got[0] != 10 { // vertical padding of inline boxes is ignored
		t.Errorf("padding: %v", got)
	}
}

func TestRefSpans(t *testing.T) {
	ls, got := refTexts(t, "a b c", with(func(r *row) { r.st = stMarginL }), 3)
	if got != "a|b|c" || ls[1].cw != 15 {
		t.Errorf("margin-left span: %q %v", got, ls[1].cw)
	}
	_, got = refTexts(t, "a b c", with(func(r *row) { r.st = stMarginL }), 4)
	if got != "a b|c" {
		t.Errorf("margin-left span at 4em: %q", got)
	}
	ls, got = refTexts(t, "a b c", with(func(r *row) { r.st = stNested }), 4)
	if got != "a b|c" || ls[0].cw != 32 || ls[1].cw != 22 {
		t.Errorf("nested spans: %q %v %v", got, ls[0].cw, ls[1].cw)
	}
}

func TestRefWrapDeviations(t *testing.T) {
	_, got := refTexts(t, "a bbbbb", with(func(r *row) { r.wrap = "anywhere" }), 3)
	if got != "a|bbb|bb" {
		t.Errorf("anywhere: %q", got)
	}
	_, got = refTexts(t, "a bbbbb", with(func(r *row) { r.wrap = "break-all" }), 3)
	if got != "a b|bbb|b" {
		t.Errorf("break-all: %q", got)
	}
	_, got = refTexts(t, "aa-b", with(func(r *row) { r.wrap = "break-all" }), 2)
	if got != "a|a-|b" { // no break before a hyphen even with break-all
		t.Errorf("break-all, hyphen: %q", got)
	}
}

func TestDescRoundTrip(t *testing.T) {
	p := para{lens: []int{1, 2, 3}, seps: []int{sepNBSP, sepSpNLSp}}
	r := row{ws: "pre-wrap", align: "center", alignLast: "justify", indent: -10, lh: 2, wrap: "break-all", st: stNested, engine: "gotext"}
	p2, r2, w, ok := parseDesc(caseDesc(p, r, 7))
	if !ok || w != 7 || r2 != r || p2.source() != p.source() {
		t.Errorf("round trip: %v %v %d %v", p2, r2, w, ok)
	}
}
