// Package c11: lines are broken greedily and fit their container.
//
// Bounded exhaustive enumeration of paragraphs (word-length sequences x separators) x container
// widths x white-space / text-align / text-align-last / text-indent / line-height /
// overflow-wrap / word-break / inline-structure values, laid out by the real pipeline with the
// Ahem font, against a reference greedy line breaker written from CSS Text 3 and CSS 2.1 §10.8.
package c11

import (
	"fmt"
	"math"
	"os"
	"regexp"
	"strconv"
	"strings"

	bo "github.com/benoitkugler/webrender/html/boxes"

	"github.com/benoitkugler/webrender/text"

	"verif/internal/engine"
	"verif/internal/render"
)

type sweep struct {
	name    string
	paras   []para
	rows    []row
	maxW    int
	paraSet map[string]bool
	rowSet  map[string]bool
	off     int64 // first unit
	blockSz int   // style rows per unit
	blocks  int   // units per paragraph
}

type check struct {
	tier   string
	sweeps []*sweep
	units  int64
	pageH  int
	// font configurations in use: renewed every fontUnits consecutive units and shared by their
	// layouts (building one per layout costs twice the layout itself, and every copy of the
	// fontconfig configuration stays reachable for ever: 0.5 MB each)
	fonts    map[string]text.FontConfiguration
	lastUnit int64
}

const fontUnits = 4

func (c *check) fontConfig(engine string) (fc text.FontConfiguration) {
	if fc = c.fonts[engine]; fc == nil {
		fc = render.NewFontConfig(engine)
		c.fonts[engine] = fc
	}
	return fc
}

func init() { engine.Register(&check{}) }

func (c *check) ID() string { return "C11" }

// product of style slots
type slots struct {
	ws, align, last, wrap, engine []string
	indent                        []float64
	lh, st                        []int
}

func (s slots) rows() []row {
	def := func(l []string, d string) []string {
		if len(l) == 0 {
			return []string{d}
		}
		return l
	}
	ws, al, la, wr, en := def(s.ws, "normal"), def(s.align, "left"), def(s.last, "auto"), def(s.wrap, ""), def(s.engine, "pango")
	ind, lh, st := s.indent, s.lh, s.st
	if len(ind) == 0 {
		ind = []float64{0}
	}
	if len(lh) == 0 {
		lh = []int{0}
	}
	if len(st) == 0 {
		st = []int{stNone}
	}
	var out []row
	for _, e := range en {
		for _, w := range ws {
			for _, a := range al {
				for _, l := range la {
					for _, i := range ind {
						for _, h := range lh {
							for _, wp := range wr {
								for _, t := range st {
									out = append(out, row{ws: w, align: a, alignLast: l, indent: i, lh: h, wrap: wp, st: t, engine: e})
								}
							}
						}
					}
				}
			}
		}
	}
	return out
}

var (
	allWS      = []string{"normal", "nowrap", "pre", "pre-wrap", "pre-line"}
	allAlign   = []string{"left", "right", "center", "justify"}
	allLast    = []string{"auto", "right", "center", "justify"}
	allIndent  = []float64{0, 20, -10}
	allLH      = []int{0, 1, 2}
	allWrap    = []string{"", "anywhere", "break-word", "break-all"}
	allSeps    = []int{sepSpace, sepSpace2, sepNL, sepTab, sepNBSP, sepHyphen, sepSpNLSp}
	lens4      = []int{1, 2, 3, 5}
	lens3      = []int{1, 2, 3}
	lens2      = []int{1, 3}
	bothEngine = []string{"pango", "gotext"}
)

func allStruct() []int {
	var l []int
	for i := 0; i < nStruct; i++ {
		l = append(l, i)
	}
	return l
}

func (c *check) add(name string, paras []para, s slots, maxW int) {
	if only := os.Getenv("C11_ONLY"); only != "" && !strings.Contains(","+only+",", ","+name+",") {
		return // development aid
	}
	sw := &sweep{name: name, paras: paras, rows: s.rows(), maxW: maxW, paraSet: map[string]bool{}, rowSet: map[string]bool{}}
	for _, p := range paras {
		sw.paraSet[p.key()] = true
	}
	for _, r := range sw.rows {
		sw.rowSet[r.key()] = true
	}
	sw.off = c.units
	sw.blockSz = 120 / maxW // about a hundred layouts per unit
	sw.blocks = (len(sw.rows) + sw.blockSz - 1) / sw.blockSz
	c.units += int64(len(paras) * sw.blocks)
	c.sweeps = append(c.sweeps, sw)
}

func (c *check) Init(tier string, seed int64) engine.Space {
	c.tier = tier
	c.sweeps = nil
	c.units = 0
	c.pageH = 2000
	thorough := tier == "thorough"
	spaceOnly := []int{sepSpace}
	spNL := []int{sepSpace, sepNL}

	// A. the greedy breaker and the four alignments (pilot p10); the same with the second engine in G
	nw := 4
	if thorough {
		nw = 5
	}
	c.add("words-x-align", paragraphs(nw, lens4, spaceOnly), slots{align: allAlign}, 12)
	// B. white-space x separators (pilot p35)
	if thorough {
		c.add("white-space-x-separators", paragraphs(3, lens4, allSeps), slots{ws: allWS, engine: bothEngine}, 12)
		c.add("white-space-x-separators-4", paragraphs(4, lens2, allSeps), slots{ws: allWS}, 12)
	} else {
		c.add("white-space-x-separators", paragraphs(3, lens3, allSeps), slots{ws: allWS}, 12)
	}
	// C. last / forced lines: white-space x text-align x text-align-last; text-indent x alignment x white-space
	pc := paragraphs(3, lens2, spNL)
	if thorough {
		pc = paragraphs(3, lens3, spNL)
	}
	c.add("align-x-last-x-white-space", pc, slots{ws: allWS, align: allAlign, last: allLast}, 9)
	c.add("indent-x-align-x-white-space", pc, slots{ws: allWS, align: allAlign, indent: allIndent}, 9)
	if thorough {
		c.add("indent-x-align-x-last-x-white-space", pc, slots{ws: allWS, align: allAlign, last: allLast, indent: allIndent}, 9)
	}
	// D. inline structure x line-height, inline structure x alignment / indent
	pd := paragraphs(3, lens4, spaceOnly)
	if thorough {
		pd = paragraphs(4, lens4, spaceOnly)
	}
	c.add("structure-x-line-height", pd, slots{st: allStruct(), lh: allLH}, 12)
	c.add("structure-x-align", pd, slots{st: allStruct(), align: allAlign}, 12)
	c.add("structure-x-indent", paragraphs(3, lens4, spaceOnly), slots{st: allStruct(), indent: allIndent}, 12)
	// D". an atomic inline in the middle of a justified line: with text-align-last: justify the line that holds
	// the whole paragraph (and every last line) is justified as well, with the atomic inline between two words
	atomicSt := []int{stIBlock, stIBlockTx, stIBlockSp, stITableSp, stIFlexSp}
	pj := paragraphs(3, lens3, spaceOnly)
	if thorough {
		pj = paragraphs(4, lens3, spaceOnly)
	}
	c.add("atomic-x-align-x-last-justify", pj, slots{st: atomicSt, align: allAlign, last: []string{"justify"}}, 12)
	// D'. a span glued to the preceding text (no break opportunity at its start) x every white-space mode: the line
	// overflows inside the span and must be broken at an opportunity inside the earlier sibling
	c.add("glued-x-white-space", paragraphs(3, lens4, spaceOnly), slots{st: []int{stGlued, stSpan, stNested}, ws: allWS}, 12)
	// E. overflow-wrap / word-break x separators x wrapping white-space modes
	pe := paragraphs(2, lens4, allSeps)
	pe = append(pe, paragraphs(3, lens4, spaceOnly)...)
	if thorough {
		pe = paragraphs(3, lens3, allSeps)
		pe = append(pe, paragraphs(4, lens4, spaceOnly)...)
	}
	c.add("wrap-x-separators-x-white-space", dedup(pe), slots{wrap: allWrap, ws: []string{"normal", "pre-wrap", "pre-line", "nowrap"}}, 12)
	c.add("wrap-x-align-x-indent", paragraphs(3, lens2, spaceOnly), slots{wrap: allWrap, align: allAlign, indent: allIndent}, 9)
	// F. inline structure x separators (x white-space in thorough)
	pf := paragraphs(3, lens2, allSeps)
	if thorough {
		c.add("structure-x-separators-x-white-space", pf, slots{st: allStruct(), ws: allWS}, 12)
		c.add("structure-x-wrap", paragraphs(3, lens4, spaceOnly), slots{st: allStruct(), wrap: allWrap}, 12)
		c.add("structure-x-align-x-line-height", paragraphs(3, lens3, spaceOnly), slots{st: allStruct(), align: allAlign, lh: allLH, indent: allIndent}, 12)
	} else {
		c.add("structure-x-separators", pf, slots{st: []int{stSpan, stMarginL, stNested, stIBlock, stBigFont, stIBlockSp}}, 12)
	}
	// G. the second text engine
	gotext := []string{"gotext"}
	if thorough {
		c.add("gotext-words-x-align", paragraphs(4, lens4, spaceOnly), slots{align: allAlign, engine: gotext}, 12)
		c.add("gotext-white-space-x-wrap", paragraphs(3, lens2, []int{sepSpace, sepNL, sepNBSP, sepHyphen, sepSpace2}),
			slots{ws: allWS, wrap: allWrap, engine: gotext}, 9)
		c.add("gotext-structure", paragraphs(3, lens2, spaceOnly), slots{st: allStruct(), lh: allLH, align: allAlign, engine: gotext}, 9)
	} else {
		c.add("gotext-words-x-align", paragraphs(3, lens4, spaceOnly), slots{align: allAlign, engine: gotext}, 12)
		c.add("gotext-white-space-x-wrap", paragraphs(3, lens2, []int{sepSpace, sepNL, sepNBSP}),
			slots{ws: allWS, wrap: allWrap, engine: gotext}, 9)
		c.add("gotext-structure", paragraphs(3, lens2, spaceOnly), slots{st: allStruct(), align: allAlign, engine: gotext}, 9)
	}

	chunk := int64(2)
	bounds := map[string]any{}
	var sws []map[string]any
	for _, s := range c.sweeps {
		sws = append(sws, map[string]any{"sweep": s.name, "paragraphs": len(s.paras), "style_rows": len(s.rows), "max_width_em": s.maxW})
	}
	bounds["sweeps"] = sws
	bounds["word_lengths"] = lens4
	bounds["separators"] = sepName
	bounds["structures"] = structName
	budget := 120.0
	if thorough {
		budget = 1500
	}
	assumptions := []string{
		"Ahem: every glyph of the alphabet (letters, space, no-break space, hyphen-minus) advances by exactly the font size; ascent .8em, descent .2em",
		"LTR only; no hyphenation, letter-spacing or word-spacing; fonts other than Ahem are not covered (the real-font inequality clauses of the design are not implemented)",
		"one fresh font configuration per group of 4 consecutive units (a unit = a paragraph and a block of style rows), shared by their layouts; the documents contain no @font-face",
		"preserved tabs only in left-aligned rows without text-indent, not in pre-wrap, and (preserved) only in a single text run: the statement says nothing about tab stops",
		"an atomic inline next to a no-break space or a hyphen is not generated (CSS Text 3 of 2020 and its earlier drafts disagree about the wrap opportunity there)",
		"for lines ending in preserved white space (pre-wrap) both alignments, with and without the hanging spaces, are accepted; justification of non-collapsible text and expansion of no-break spaces are optional; positions inside a justified line are not compared (only its start and its total advance)",
	}
	if only := os.Getenv("C11_ONLY"); only != "" {
		assumptions = append(assumptions, "DEVELOPMENT FILTER ACTIVE (C11_ONLY="+only+"): only the named sweeps are explored")
	}
	return engine.Space{
		Units: c.units, Chunk: chunk, Level: "model_checking", BudgetS: budget, CaseCPUs: 10,
		Rule:        "union of full products (sweeps): paragraph (word lengths x separators) x style row x container width 1..min(max, natural width + 2) em; a (paragraph,row) pair already covered by an earlier sweep is not repeated; a unit is one paragraph of one sweep with a block of its style rows (about a hundred layouts: all widths); a case is non-trivial when the reference produces at least two lines (a break decision was compared)",
		Bounds:      bounds,
		Assumptions: assumptions,
	}
}

func dedup(ps []para) []para {
	seen := map[string]bool{}
	var out []para
	for _, p := range ps {
		if !seen[p.key()] {
			seen[p.key()] = true
			out = append(out, p)
		}
	}
	return out
}

// locate decodes a unit: sweep, paragraph and block of style rows.
func (c *check) locate(u int64) (int, *sweep, para, []row) {
	for i := len(c.sweeps) - 1; i >= 0; i-- {
		if sw := c.sweeps[i]; u >= sw.off {
			k := int(u - sw.off)
			lo := (k % sw.blocks) * sw.blockSz
			hi := lo + sw.blockSz
			if hi > len(sw.rows) {
				hi = len(sw.rows)
			}
			return i, sw, sw.paras[k/sw.blocks], sw.rows[lo:hi]
		}
	}
	panic("unit out of range")
}

// compatible restricts the product where the statement / specification gives no exact answer.
func compatible(p para, r row) bool {
	if p.hasSep(sepTab) {
		// tab stops are measured from the block's edge: only assert plain left-aligned rows
		if r.align != "left" || r.alignLast != "auto" || r.indent != 0 {
			return false
		}
		// preserved tabs are only asserted where they cannot end a line
		if r.ws == "pre-wrap" {
			return false
		}
		// ... and in a single text run that starts at the block's edge (the implementation measures
		// tab stops from the start of the text box, CSS from the block's content edge; the property
		// statement says nothing about tab stops)
		if r.st != stNone && !collapses(r.ws) {
			return false
		}
	}
	if isAtomicStruct(r.st) {
		// Between an atomic inline and an adjacent no-break space or hyphen, CSS Text 3 (2020, "for
		// Web-compatibility") puts a soft wrap opportunity where its earlier drafts (atomic inline =
		// class ID of UAX #14, followed by the implementation) had none: not asserted.
		n := len(p.lens)
		s := 1
		if s > n-1 {
			s = n - 1
		}
		for _, i := range []int{s - 1, s} {
			if i >= 0 && i < len(p.seps) && (p.seps[i] == sepNBSP || p.seps[i] == sepHyphen) {
				return false
			}
		}
	}
	return true
}

func (c *check) coveredEarlier(si int, p para, r row) bool {
	pk, rk := p.key(), r.key()
	for j := 0; j < si; j++ {
		if c.sweeps[j].paraSet[pk] && c.sweeps[j].rowSet[rk] {
			return true
		}
	}
	return false
}

func widthCap(p para, r row, maxW int) int {
	m := newModel(p, defaultRowWith(r), 1000)
	tot := 0.0
	for _, ch := range m.chars {
		if ch.isTab() {
			tot += tabStop
		} else {
			tot += ch.total()
		}
	}
	tot += math.Abs(r.indent)
	capW := int(math.Ceil(tot/10)) + 2
	if capW > maxW {
		capW = maxW
	}
	return capW
}

// defaultRowWith keeps the structure of r but preserves every character (used to measure the
// natural width of the source).
func defaultRowWith(r row) row {
	d := r
	d.ws = "pre"
	return d
}

func features(p para, r row, w int) []string {
	f := []string{"ws:" + r.ws}
	if avail := float64(w) * 10; avail-r.indent < 0 || (isAtomicStruct(r.st) && avail < atomics[r.st].width) {
		// text is laid out in a negative width (after the indent, or after an atomic inline wider than the line)
		f = append(f, "negative-room")
	}
	if r.align != "left" {
		f = append(f, "align:"+r.align)
	}
	if r.alignLast != "auto" {
		f = append(f, "align-last:"+r.alignLast)
	}
	if r.indent > 0 {
		f = append(f, "indent:positive")
	} else if r.indent < 0 {
		f = append(f, "indent:negative")
	}
	if r.lh != 0 {
		f = append(f, "line-height:"+lineHeights[r.lh].css)
	}
	if r.wrap != "" {
		f = append(f, "wrap:"+r.wrap)
	}
	if r.st != stNone {
		f = append(f, "struct:"+structName[r.st])
		if isAtomicStruct(r.st) {
			f = append(f, "atomic-inline")
			if strings.Contains(atomics[r.st].text, " ") {
				f = append(f, "space-inside-atomic-inline")
			}
		} else {
			f = append(f, "inline-box")
		}
		for _, el := range content(p, r.st) {
			if el.kind == 1 && el.span.left > 0 {
				f = append(f, "span-left-spacing")
				break
			}
		}
	}
	if r.engine != "pango" {
		f = append(f, "engine:"+r.engine)
	}
	for k := 0; k < nSeps; k++ {
		if k != sepSpace && p.hasSep(k) {
			f = append(f, "sep:"+sepName[k])
		}
	}
	if els := content(p, r.st); len(els) > 1 {
		for i, el := range els[:len(els)-1] {
			if el.kind != 0 || els[i+1].kind == 0 {
				continue
			}
			last := el.text[len(el.text)-1]
			if last == ' ' || (collapses(r.ws) && (last == '\t' || last == '\n')) {
				f = append(f, "text-run-ends-with-space")
				break
			}
		}
	}
	if r.ws != "normal" && r.ws != "nowrap" && (p.hasSep(sepNL) || p.hasSep(sepSpNLSp)) {
		f = append(f, "preserved-line-feed")
	}
	if !collapses(r.ws) && p.hasSep(sepSpace2) {
		f = append(f, "preserved-space-run")
	}
	if !collapses(r.ws) && p.hasSep(sepSpNLSp) {
		f = append(f, "preserved-space-at-line-feed")
	}
	return f
}

func caseDesc(p para, r row, w int) string {
	return fmt.Sprintf("text=%q width=%dem %s", p.source(), w, r.String())
}

func (c *check) Run(u int64, ctx *engine.Ctx) {
	si, sw, p, rows := c.locate(u)
	if c.fonts == nil || u != c.lastUnit+1 || u%fontUnits == 0 {
		c.fonts = map[string]text.FontConfiguration{}
	}
	c.lastUnit = u
	for _, r := range rows {
		if !compatible(p, r) || c.coveredEarlier(si, p, r) {
			continue
		}
		maxW := widthCap(p, r, sw.maxW)
		for w := 1; w <= maxW; w++ {
			c.runCase(ctx, p, r, w, features(p, r, w))
		}
	}
}

func (c *check) runCase(ctx *engine.Ctx, p para, r row, w int, feats []string) {
	desc := caseDesc(p, r, w)
	html := document(p, r, w, c.pageH)
	m := newModel(p, r, w)
	ref := m.lines()
	var pages []*bo.PageBox
	var err error
	ctx.Trans(1)
	fcfg := c.fontConfig(r.engine)
	if !ctx.GuardFail(desc, feats, func() {
		pages, err = render.Layout(render.Options{HTML: html, Engine: r.engine, PageBound: 20, FontConfig: fcfg})
	}) {
		delete(c.fonts, r.engine) // do not reuse a configuration that was in use during a panic
		ctx.Case(len(ref) >= 2, "panic")
		return
	}
	if err != nil {
		ctx.Case(false, "error")
		ctx.Fail(engine.Failure{Clause: "harness-error", Features: feats, Case: desc, Detail: err.Error()})
		return
	}
	obs, npages := collectLines(pages)
	ctx.Case(len(ref) >= 2, canon(obs))
	fail := func(clause, detail string) {
		ctx.Fail(engine.Failure{Clause: clause, Features: feats, Case: desc,
			Detail: detail + "\nexpected " + refCanon(ref) + "\ngot      " + canon(obs) + "\nhtml: " + html})
	}
	if npages != 1 {
		fail("harness-error", fmt.Sprintf("%d pages", npages))
		return
	}
	compare(ctx.Count, r, m, ref, obs, fail)
}

func refCanon(ls []refLine) string {
	var sb strings.Builder
	for _, l := range ls {
		fmt.Fprintf(&sb, "[y%s h%s x%s adv%s %q", q(l.y), q(l.h), q(l.x), q(l.adv), l.text)
		if l.forced {
			sb.WriteString(" forced")
		}
		if l.just {
			sb.WriteString(" justified")
		}
		sb.WriteString("]")
	}
	return sb.String()
}

func stripWS(s string) string {
	return strings.Map(func(r rune) rune {
		if r == ' ' || r == '\t' || r == '\n' {
			return -1
		}
		return r
	}, s)
}

func near(a, b float64) bool { return math.Abs(a-b) <= eps }

// compare evaluates the oracle clauses on one case.
func compare(count func(name string, n int64), r row, m *model, ref []refLine, obs []obsLine, fail func(clause, detail string)) {
	// observed line texts; preserved white space that hangs at the end of a pre-wrap line is
	// not part of the compared text (the reference drops it as well)
	got := make([]string, len(obs))
	for i, l := range obs {
		got[i] = l.text()
		if r.ws == "pre-wrap" {
			got[i] = strings.TrimRight(got[i], " \t")
		}
	}
	// phantom (empty, zero-height) line boxes carry no content and take no room
	var obs2 []obsLine
	var got2 []string
	for i, l := range obs {
		if len(l.boxes) == 0 && l.h == 0 {
			continue
		}
		obs2, got2 = append(obs2, l), append(got2, got[i])
	}
	obs, got = obs2, got2

	count("lines-compared", int64(len(ref)))
	// ---- clause group 1: the sequence of lines and the text on each -----------------------
	var refAll, gotAll strings.Builder
	for _, l := range ref {
		refAll.WriteString(stripWS(l.text))
	}
	for _, g := range got {
		gotAll.WriteString(stripWS(g))
	}
	if refAll.String() != gotAll.String() {
		fail("line-text", fmt.Sprintf("the lines do not carry the characters of the paragraph in order: want %q got %q", refAll.String(), gotAll.String()))
		return
	}
	for k := 0; k < len(ref) || k < len(got); k++ {
		var rt, gt string
		var rl refLine
		if k < len(ref) {
			rt, rl = ref[k].text, ref[k]
		}
		if k < len(got) {
			gt = got[k]
		}
		if rt == gt {
			continue
		}
		rs, gs := stripWS(rt), stripWS(gt)
		switch {
		case rs == gs:
			fail("white-space-on-line", fmt.Sprintf("line %d: white space on the line differs: want %q got %q", k+1, rt, gt))
		case strings.HasPrefix(rs, gs):
			fail("premature-break", fmt.Sprintf("line %d holds %q but %q fits the available width %s (content width %s)", k+1, gt, rt, q(rl.avail), q(rl.cw)))
		case k < len(ref) && rl.forced && strings.HasPrefix(gs, rs):
			fail("forced-break-missed", fmt.Sprintf("line %d: want %q (ended by a preserved line feed) got %q", k+1, rt, gt))
		case strings.HasPrefix(gs, rs):
			// the observed line holds more than the largest fitting candidate: either it overflows
			// or it was broken where no opportunity exists
			w := 0.0
			if k < len(obs) {
				w = obs[k].cEnd - obs[k].cStart
			}
			if w > rl.avail+eps {
				fail("line-overflow", fmt.Sprintf("line %d holds %q (width %s) in an available width of %s although it could break after %q", k+1, gt, q(w), q(rl.avail), rt))
			} else {
				fail("forbidden-break", fmt.Sprintf("line %d: want %q got %q: the observed break is not at a soft wrap opportunity", k+1, rt, gt))
			}
		default:
			fail("line-text", fmt.Sprintf("line %d: want %q got %q", k+1, rt, gt))
		}
		return
	}
	// ---- clause group 2: geometry -----------------------------------------------------------
	for k, rl := range ref {
		ol := obs[k]
		if rl.overfl {
			count("overflowing-single-unit-lines", 1)
		}
		if rl.exact {
			count("exactly-fitting-lines", 1)
		}
		if rl.forced {
			count("forced-break-lines", 1)
		}
		if rl.nRemTr > 0 {
			count("trailing-collapsible-spaces-removed", 1)
		}
		if rl.nRemLd > 0 {
			count("leading-collapsible-spaces-removed", 1)
		}
		if rl.hang > 0 {
			count("hanging-preserved-spaces", 1)
		}
		if rl.just {
			count("justified-lines", 1)
		}
		if rl.first && r.indent != 0 {
			count("indented-first-lines", 1)
		}
		// stacking
		wantY := 0.0
		if k > 0 {
			wantY = obs[k-1].y + obs[k-1].h
		}
		if !near(ol.y, wantY) {
			fail("line-stacking", fmt.Sprintf("line %d starts at y=%s, the previous line ends at %s", k+1, q(ol.y), q(wantY)))
			return
		}
		if !near(ol.h, rl.h) {
			fail("line-height", fmt.Sprintf("line %d (%q) is %s high, want %s", k+1, rl.text, q(ol.h), q(rl.h)))
			return
		}
		if len(ol.boxes) == 0 {
			continue
		}
		// alignment: x of the first glyph
		pre0 := m.chars[rl.s].pre
		x0 := ol.cStart // start edge of the line's content (margin edge of the first inline box)
		if !near(x0, rl.x) && !near(x0, rl.xAlt) {
			clause := "align-x"
			if r.indent != 0 {
				clause = "indent-x"
			}
			fail(clause, fmt.Sprintf("line %d (%q; first=%v last=%v forced=%v; content %s of %s): content starts at x=%s, want %s", k+1, rl.text, rl.first, rl.last, rl.forced, q(rl.cw), q(rl.avail), q(x0), q(rl.x)))
			return
		}
		// total advance; the hanging preserved spaces of a pre-wrap line are not measured
		lastB := ol.boxes[len(ol.boxes)-1]
		end := ol.cEnd
		if r.ws == "pre-wrap" && !lastB.atomic {
			t := []rune(lastB.text)
			n := 0
			for n < len(t) && (t[len(t)-1-n] == ' ' || t[len(t)-1-n] == '\t') {
				n++
			}
			if n > 0 && !rl.hasTabs {
				// all glyphs of a text box have the same advance
				end -= float64(n) * lastB.w / float64(len(t))
			}
		}
		adv := end - x0
		if !near(adv, rl.adv) && !near(adv, rl.advAlt) {
			clause := "content-advance"
			if rl.just {
				clause = "justify-advance"
			}
			fail(clause, fmt.Sprintf("line %d (%q): the content spans %s, want %s (available %s)", k+1, rl.text, q(adv), q(rl.adv), q(rl.avail)))
			return
		}
		// positions of the individual boxes (not on justified lines: the distribution is up to the UA)
		if near(adv, rl.cw) && !rl.hasTabs {
			xs := m.charX(&rl, x0+pre0)
			off := 0
			for bi, b := range ol.boxes {
				n := len([]rune(b.text))
				if off+n > len(xs) {
					break // hanging spaces beyond the compared text
				}
				if !near(b.x, xs[off]) {
					fail("inline-box-x", fmt.Sprintf("line %d (%q): box %d %q at x=%s, want %s", k+1, rl.text, bi+1, b.text, q(b.x), q(xs[off])))
					return
				}
				off += n
			}
		}
	}
}

// charX returns the expected x of the start of every character of the line, the first glyph
// being at x0 (margin edge for atomic inlines).
func (m *model) charX(ln *refLine, x0 float64) []float64 {
	var xs []float64
	x := x0 - m.chars[ln.s].pre
	for i := ln.s; i < ln.e; i++ {
		c := m.chars[i]
		x += c.pre
		xs = append(xs, x)
		x += c.adv + c.post
	}
	return xs
}

var descRe = regexp.MustCompile(`^text=("(?:[^"\\]|\\.)*") width=(\d+)em white-space:(\S+) text-align:(\S+) text-align-last:(\S+) text-indent:(\S+)px line-height:(\S+) wrap:(\S+) structure:(\S+) engine:(\S+)`)

// parseDesc reads a case description back.
func parseDesc(desc string) (p para, r row, w int, ok bool) {
	m := descRe.FindStringSubmatch(desc)
	if m == nil {
		return
	}
	txt, err := strconv.Unquote(m[1])
	if err != nil {
		return
	}
	defer func() {
		if recover() != nil {
			ok = false
		}
	}()
	p = parsePara(txt)
	w, _ = strconv.Atoi(m[2])
	r = row{ws: m[3], align: m[4], alignLast: m[5], engine: m[10]}
	r.indent, _ = strconv.ParseFloat(m[6], 64)
	for i, l := range lineHeights {
		if l.css == m[7] {
			r.lh = i
		}
	}
	if m[8] != "-" {
		r.wrap = m[8]
	}
	for i, n := range structName {
		if n == m[9] {
			r.st = i
		}
	}
	return p, r, w, true
}

// FeaturesOf lets the master tag a case that killed its worker (fatal error, hang): the
// description carries every parameter of the case.
func (c *check) FeaturesOf(desc string) []string {
	if p, r, w, ok := parseDesc(desc); ok {
		return features(p, r, w)
	}
	return nil
}

func (c *check) Describe(u int64) any {
	_, sw, p, rs := c.locate(u)
	rows := []string{}
	for i, r := range rs {
		if i == 0 || i == len(rs)-1 {
			rows = append(rows, r.String())
		}
	}
	return map[string]any{"sweep": sw.name, "text": p.source(), "style_rows": len(rs), "first_last_row": rows, "widths_em": fmt.Sprintf("1..%d", sw.maxW)}
}
