package c11

import (
	"fmt"
	"strings"

	bo "github.com/benoitkugler/webrender/html/boxes"
)

// what is observed of the laid-out paragraph
type obsBox struct {
	text   string
	x, w   float64
	atomic bool
}

type obsLine struct {
	x, y, w, h float64
	// margin edges of the first and last in-flow inline-level child of the line box: the extent of
	// the line's content including the margins, borders and padding of inline boxes
	cStart, cEnd float64
	boxes        []obsBox // text boxes and atomic inlines in visual (= document) order; empty text boxes are dropped
}

func (l obsLine) text() string {
	var sb strings.Builder
	for _, b := range l.boxes {
		sb.WriteString(b.text)
	}
	return sb.String()
}

// collectLines returns the line boxes of the outermost inline formatting context found in the
// pages (the lines of inline-blocks are not entered).
func collectLines(pages []*bo.PageBox) (out []obsLine, npages int) {
	npages = len(pages)
	var walk func(b bo.Box)
	walk = func(b bo.Box) {
		if lb, ok := b.(*bo.LineBox); ok {
			f := lb.Box()
			ln := obsLine{x: float64(f.PositionX), y: float64(f.PositionY), w: float64(f.Width.V()), h: float64(f.Height.V())}
			var in func(x bo.Box)
			in = func(x bo.Box) {
				switch t := x.(type) {
				case *bo.TextBox:
					if len(t.Text) == 0 {
						return
					}
					ln.boxes = append(ln.boxes, obsBox{text: string(t.Text), x: float64(t.PositionX), w: float64(t.Width.V())})
				case *bo.InlineBox:
					for _, c := range t.Box().Children {
						in(c)
					}
				default:
					xf := x.Box()
					if !xf.IsInNormalFlow() {
						return
					}
					ln.boxes = append(ln.boxes, obsBox{text: string(objRune), atomic: true,
						x: float64(xf.PositionX), w: float64(xf.MarginWidth())})
				}
			}
			firstChild := true
			for _, c := range f.Children {
				in(c)
				if cf := c.Box(); cf.IsInNormalFlow() {
					if tb, ok := c.(*bo.TextBox); ok && len(tb.Text) == 0 {
						continue
					}
					if firstChild {
						ln.cStart = float64(cf.PositionX)
						firstChild = false
					}
					ln.cEnd = float64(cf.PositionX + cf.MarginWidth())
				}
			}
			out = append(out, ln)
			return
		}
		for _, c := range b.Box().Children {
			walk(c)
		}
	}
	for _, p := range pages {
		walk(p)
	}
	return out, npages
}

func q(f float64) string {
	return strings.TrimSuffix(strings.TrimSuffix(fmt.Sprintf("%.2f", f), "0"), ".0")
}

func canon(ls []obsLine) string {
	var sb strings.Builder
	for _, l := range ls {
		fmt.Fprintf(&sb, "[y%s h%s x%s..%s", q(l.y), q(l.h), q(l.cStart), q(l.cEnd))
		for _, b := range l.boxes {
			fmt.Fprintf(&sb, " %q@%s+%s", b.text, q(b.x), q(b.w))
		}
		sb.WriteString("]")
	}
	return sb.String()
}
