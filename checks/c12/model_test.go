package c12

import (
	"strings"
	"testing"
)

// The reference models carry their own examples (selfTest, also run by Init before exploring).
func TestReferenceSelfTest(t *testing.T) { selfTest() }

func TestReferenceExamples(t *testing.T) {
	pg := func(spec string, H float64, v variant) string {
		s, _ := parseDoc(spec)
		f := buildFlow(s)
		r := f.paginate(H, v)
		return r.String(f)
	}
	std := variant{startRight: true}
	for _, c := range []struct {
		spec string
		H    float64
		want string
	}{
		// break-after on the last child of a wrapper propagates to the wrapper
		{"[1,1],1 #2.after=page", 50, "R a0@0 b0@10 | L c0@0"},
		// forced break inside a break-inside:avoid wrapper is honoured
		{"[1,1] #0.inside=avoid #2.before=page", 50, "R a0@0 | L b0@0"},
		// break-inside:avoid on a wrapper forbids the break between its children
		{"1,[1,1] #1.inside=avoid", 20, "R a0@0 | L b0@0 c0@10"},
		// verso = left in ltr: no blank page after a right page
		{"1,1 #0.after=verso", 20, "R a0@0 | L b0@0"},
		// later side value wins: break-before of the next sibling over break-after
		{"1,1 #0.after=left #1.before=right", 20, "R a0@0 | L blank | R b0@0"},
		// the closing border of a paragraph must fit: the last line moves
		{"3 #0.border=3px", 32, "R a0@3 a1@13 | L a2@0"},
		// widows 3 with 4 lines on a 3-line page: only 1 line can stay
		{"4 #0.widows=3", 30, "R a0@0 | L a1@0 a2@10 a3@20"},
		// orphans 2 + widows 2 on 3 lines: unbreakable -> pushed whole when something precedes
		{"1,3 #1.orphans=2 #1.widows=2", 30, "R a0@0 | L b0@0 b1@10 b2@20"},
	} {
		if got := pg(c.spec, c.H, std); got != c.want {
			t.Errorf("%s H=%g: got %q want %q", c.spec, c.H, got, c.want)
		}
	}
	// wrapper closing decoration at the top of a page: strict and lenient readings differ
	if a, b := pg("[2,2] #0.pad=3px", 45, std), pg("[2,2] #0.pad=3px", 45, variant{startRight: true, lenientTop: true}); a == b {
		t.Errorf("lenient variant should differ: %q", a)
	}
	// a forced break inside a break-inside:avoid wrapper that does not fit: both readings
	if a, b := pg("2,[2,2] #1.inside=avoid #2.after=page", 40, std), pg("2,[2,2] #1.inside=avoid #2.after=page", 40, variant{startRight: true, avoidUnit: true}); a != "R a0@0 a1@10 b0@20 b1@30 | L c0@0 c1@10" || b != "R a0@0 a1@10 | L b0@0 b1@10 | R c0@0 c1@10" {
		t.Errorf("avoid unit: %q / %q", a, b)
	}
	// ... but when the whole wrapper fits there is only one reading
	if a, b := pg("2,[2,2] #1.inside=avoid #2.after=page", 60, std), pg("2,[2,2] #1.inside=avoid #2.after=page", 60, variant{startRight: true, avoidUnit: true}); a != b {
		t.Errorf("avoid unit (fits): %q / %q", a, b)
	}
	// all-distinct sequences
	if n := len(ruleSequences(13, 3)); n != 1+13+13*12+13*12*11 {
		t.Errorf("sequences: %d", n)
	}
}

// TestSpaceSizes prints the size of both tiers (go test -v) and checks the page-level menu.
func TestSpaceSizes(t *testing.T) {
	for _, tier := range []string{"quick", "thorough"} {
		c := &check{}
		sp := c.Init(tier, 0)
		t.Logf("%s: units=%d cascade=%v pagebox=%v flow=%v", tier, sp.Units, sp.Bounds["cascade_cases"], sp.Bounds["pagebox_cases"], sp.Bounds["flow_cases"])
	}
	for _, n := range pageDecoAll {
		d, ok := pageDecos[n]
		if !ok {
			t.Fatalf("page decoration %q is not defined", n)
		}
		if n != "symmetric" && !d.asymmetric() {
			t.Errorf("page decoration %q must differ between the two sides of an axis", n)
		}
	}
}

func TestPageDecoPrelude(t *testing.T) {
	got := flowPreludeDeco(30, "@top-center", "", pageDecos["border-bottom"])
	want := `<style>@page{size:20px 46px;margin:10px 0 0 0;border-bottom:6px solid;@top-center{content:counter(page) "/" counter(pages)}}@page m{size:30px 46px}` +
		`html,body{margin:0;font-family:ahem;font-size:10px;line-height:1;orphans:1;widows:1}p,div{margin:0}</style>`
	if got != want {
		t.Errorf("got  %s\nwant %s", got, want)
	}
	// without decoration the text is the historical one (replay files match on it)
	if p := flowPrelude(30, "@top-center", ""); !strings.Contains(p, "@page{size:20px 40px;margin:10px 0 0 0;@top-center{") {
		t.Errorf("plain prelude changed: %s", p)
	}
}
