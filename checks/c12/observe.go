package c12

import (
	"fmt"
	"strings"

	bo "github.com/benoitkugler/webrender/html/boxes"
)

// what is observed of one laid-out page
type opage struct {
	index             int
	side, name        string
	first, blank      bool
	width, height     float64 // content box
	mt, mr, mb, ml    float64
	pt, pr, pb, pl    float64   // padding
	bt, br, bb, bl    float64   // border widths
	texts             []string  // text boxes of the flow, document order
	ys                []float64 // their top edge relative to the top of the page content box
	bottoms           []float64
	margin            map[string]string // margin box at-keyword -> text
	nonMarginChildren int
}

func collectText(b bo.Box, top float64, p *opage) {
	if tb, ok := b.(*bo.TextBox); ok {
		p.texts = append(p.texts, strings.TrimSpace(tb.TextS()))
		y := float64(tb.PositionY) - top
		p.ys = append(p.ys, y)
		p.bottoms = append(p.bottoms, y+float64(tb.Height.V()))
		return
	}
	for _, c := range b.Box().Children {
		collectText(c, top, p)
	}
}

func allText(b bo.Box, sb *strings.Builder) {
	if tb, ok := b.(*bo.TextBox); ok {
		sb.WriteString(tb.TextS())
	}
	for _, c := range b.Box().Children {
		allText(c, sb)
	}
}

func observe(pages []*bo.PageBox) []opage {
	out := make([]opage, len(pages))
	for i, pg := range pages {
		p := &out[i]
		p.index = pg.PageType.Index
		p.side, p.name, p.first, p.blank = pg.PageType.Side, pg.PageType.Name, pg.PageType.First, pg.PageType.Blank
		p.width, p.height = float64(pg.Width.V()), float64(pg.Height.V())
		p.mt, p.mr, p.mb, p.ml = float64(pg.MarginTop.V()), float64(pg.MarginRight.V()), float64(pg.MarginBottom.V()), float64(pg.MarginLeft.V())
		p.pt, p.pr, p.pb, p.pl = float64(pg.PaddingTop.V()), float64(pg.PaddingRight.V()), float64(pg.PaddingBottom.V()), float64(pg.PaddingLeft.V())
		p.bt, p.br, p.bb, p.bl = float64(pg.BorderTopWidth.V()), float64(pg.BorderRightWidth.V()), float64(pg.BorderBottomWidth.V()), float64(pg.BorderLeftWidth.V())
		p.margin = map[string]string{}
		top := float64(pg.ContentBoxY())
		for _, c := range pg.Children {
			if mb, ok := c.(*bo.MarginBox); ok {
				var sb strings.Builder
				allText(mb, &sb)
				p.margin[mb.AtKeyword] = sb.String()
				continue
			}
			p.nonMarginChildren++
			collectText(c, top, p)
		}
	}
	return out
}

// marginBoxW/H: the size of the page's margin box (what must coincide with the sheet).
func (p *opage) marginBoxW() float64 {
	return p.ml + p.bl + p.pl + p.width + p.pr + p.br + p.mr
}

func (p *opage) marginBoxH() float64 {
	return p.mt + p.bt + p.pt + p.height + p.pb + p.bb + p.mb
}

func (p *opage) typeString() string {
	s := fmt.Sprintf("#%d %s", p.index, p.side)
	if p.first {
		s += " first"
	}
	if p.blank {
		s += " blank"
	}
	if p.name != "" {
		s += " name=" + p.name
	}
	return s
}

// canon is the canonical form of the observable pagination (outcome key).
func canon(ps []opage) string {
	var sb strings.Builder
	for i, p := range ps {
		if i > 0 {
			sb.WriteString(" | ")
		}
		sb.WriteString(p.typeString())
		for k, t := range p.texts {
			fmt.Fprintf(&sb, " %s@%g", t, round3(p.ys[k]))
		}
	}
	return sb.String()
}

func round3(v float64) float64 {
	if v < 0 {
		return -round3(-v)
	}
	return float64(int64(v*1000+0.5)) / 1000
}

func near(a, b float64) bool {
	d := a - b
	if d < 0 {
		d = -d
	}
	m := b
	if m < 0 {
		m = -m
	}
	return d <= 1e-3+1e-5*m
}
