// Package c12: pages have the declared geometry and break where CSS allows.
//
// Four exhaustively enumerated families, every case laid out by the real pipeline and compared
// with a reference written from css-page-3 / css-break-3:
//
//	(i)   @page cascade: every sequence of <= 3 (thorough 4) distinct rules of a 13 rule menu
//	      (after a fixed base rule) x 10 documents of 1-5 forced pages with named pages;
//	      second generation: a 46 rule menu of :nth(An+B) selectors (A negative / zero / positive,
//	      B below, at and inside the page range, other spellings) alone and before/after every
//	      rule of the first menu (thorough: pairs of :nth rules, and every position in every
//	      ordered pair of first menu rules) x 2 documents of 7 and 8 pages (nth.go);
//	(ib)  page box dimensions: width/height x auto/length/percentage margins x padding and
//	      border on each side separately (so that the two sides of an axis differ) x min/max
//	      constraints;
//	(ii)  break placement: flow shapes x page content height 10..70 step 5 x every set of
//	      <= 2 (thorough: 3 on the small shapes) deviations of the per-box menu
//	      break-before/after, break-inside, orphans, widows, padding, border, page, counter-reset,
//	      and of the page-level menu (border/padding of the PAGE box, one-sided / mixed /
//	      all different / symmetric);
//	(iii) counter(page)/counter(pages) in a margin box on every case of (ii), in each of the 16
//	      margin boxes, and with page-context resets/increments; second generation: two margin
//	      boxes per page, one manipulating page / pages (increment, reset, set), the other showing
//	      the counters, every ordered pair of the 16 boxes x 3 page contexts.
package c12

import (
	"fmt"
	"os"
	"strconv"
	"strings"

	bo "github.com/benoitkugler/webrender/html/boxes"
	"github.com/benoitkugler/webrender/text"

	"verif/internal/engine"
	"verif/internal/render"
)

type unit struct {
	fam         int // 0 cascade, 1 page box, 2 flow, 3 counters
	doc, lo, hi int
	shape, h    int
	level, i    int
}

type check struct {
	tier     string
	units    []unit
	seqs     [][]int
	nthSeqs  [][]int
	shapes   []string
	heights  []int
	pbCases  int
	cntCases int
}

func init() { engine.Register(&check{}) }

func (c *check) ID() string { return "C12" }

const (
	famCascade = iota
	famPageBox
	famFlow
	famCounters
	famNth // second generation of the cascade family: the :nth(An+B) menu
)

// shapes, simplest first. small = explored one deviation level deeper.
var shapesQuickL2 = []string{"2,1", "1,3", "3,3", "2,4", "1,2,3", "[2,2],2", "2,[3]", "[2],[2]", "1,[1,1]"}

var shapesL1 = []string{
	"1,1", "1,2", "2,1", "2,2", "1,3", "3,1", "2,3", "3,2", "3,3", "1,4", "4,1", "2,4", "4,2", "3,4", "4,3", "4,4",
	"1,5", "5,1", "2,5", "5,2", "3,5", "5,3", "1,6", "6,1", "2,6", "6,2", "3,6", "6,3", "4,5", "5,4", "5,5", "4,6", "6,4", "5,6", "6,5", "6,6",
	"1,1,1", "1,2,3", "3,2,1", "2,2,2", "3,1,2", "1,4,1", "4,1,4", "2,1,5", "5,1,2", "3,3,3", "2,6,1", "1,6,2", "4,2,3",
	"1,1,1,1", "2,1,1,2", "1,3,1,3", "3,1,3,1", "2,2,2,2", "1,2,3,4", "4,3,2,1",
	"[2]", "[3]", "[2],2", "2,[2]", "[2,2]", "[2,2],2", "2,[2,2]", "[3],[3]", "[2],[2]", "2,[3]", "[3],2", "[1,3],2", "2,[3,1]", "[[2]],2", "2,[[3]]", "[[2],2]", "[2,[2]]", "[1,1],[1,1]", "1,[1,1]", "1,[[1,1]]", "1,[4],1", "[6]", "[4,2]",
}

// presets: flows whose wrappers start and end on different named pages (the page created
// when such a wrapper is cancelled must take the name of its FIRST content). Each preset is
// explored at every height, alone and with every single further deviation.
var presetDocs = []string{
	`1,[[1,1]] #4.page=m`,
	`1,[[1,1]] #4.page=n`,
	`1,[[1,1]] #0.page=n #3.page=n #4.page=m`,
	`1,[[1,1]] #0.page=m #3.page=m #4.page=n`,
	`1,[[1,1]] #0.page=n #2.page=n #4.page=m`,
	`2,[[2,2],1] #0.page=n #1.page=n #4.page=m`,
	`2,[[2,2]] #0.page=n #1.page=n #4.page=m #3.orphans=2`,
	`1,1,[[1,1]] #0.page=n #1.page=n #2.page=n #5.page=m`,
}

var shapesThoroughL3 = []string{"1,2", "2,1", "2,2", "1,3", "3,3", "[3]", "[2,2]", "[2],2"}

func (c *check) Init(tier string, seed int64) engine.Space {
	c.tier = tier
	thorough := tier == "thorough"
	selfTest()
	c.units = nil
	// (i)
	maxLen := 3
	if thorough {
		maxLen = 4
	}
	c.seqs = ruleSequences(len(ruleMenu), maxLen)
	const batch = 96
	nCascade := 0
	for d := range cascadeDocs {
		for lo := 0; lo < len(c.seqs); lo += batch {
			hi := lo + batch
			if hi > len(c.seqs) {
				hi = len(c.seqs)
			}
			c.units = append(c.units, unit{fam: famCascade, doc: d, lo: lo, hi: hi})
			nCascade += hi - lo
		}
	}
	// (i) second generation: :nth(An+B)
	c.nthSeqs = nthSequences(thorough)
	nNth := 0
	for d := range nthDocs {
		for lo := 0; lo < len(c.nthSeqs); lo += batch {
			hi := lo + batch
			if hi > len(c.nthSeqs) {
				hi = len(c.nthSeqs)
			}
			c.units = append(c.units, unit{fam: famNth, doc: d, lo: lo, hi: hi})
			nNth += hi - lo
		}
	}
	// (ib)
	c.pbCases = len(pageBoxCases())
	for lo := 0; lo < c.pbCases; lo += batch {
		hi := lo + batch
		if hi > c.pbCases {
			hi = c.pbCases
		}
		c.units = append(c.units, unit{fam: famPageBox, lo: lo, hi: hi})
	}
	// (iii) extras
	c.cntCases = len(counterCases())
	for lo := 0; lo < c.cntCases; lo += batch {
		hi := lo + batch
		if hi > c.cntCases {
			hi = c.cntCases
		}
		c.units = append(c.units, unit{fam: famCounters, lo: lo, hi: hi})
	}
	// (ii)
	c.heights = nil
	for h := 10; h <= 70; h += 5 {
		c.heights = append(c.heights, h)
	}
	c.shapes = shapesL1
	idx := map[string]int{}
	for i, s := range c.shapes {
		idx[s] = i
	}
	for _, l := range [][]string{shapesQuickL2, shapesThoroughL3} {
		for _, sp := range l {
			if _, ok := idx[sp]; !ok {
				panic("c12: shape " + sp + " is not in the level-1 list")
			}
		}
	}
	var nFlow int64
	for si, sp := range c.shapes {
		m := int64(len(menuFor(parseShape(sp), thorough, 1)))
		for hi := range c.heights {
			c.units = append(c.units, unit{fam: famFlow, shape: si, h: hi, level: 1})
			nFlow += 1 + m
		}
	}
	for k, d := range presetDocs {
		s, pre := parseDoc(d)
		for hi := range c.heights {
			c.units = append(c.units, unit{fam: famFlow, doc: k, h: hi, level: 4})
			nFlow += 1 + int64(len(presetExtras(s, pre, thorough)))
		}
	}
	l2 := shapesQuickL2
	if thorough {
		l2 = shapesL1
	}
	for _, sp := range l2 {
		ch := menuFor(parseShape(sp), thorough, 2)
		for hi := range c.heights {
			for i := range ch {
				c.units = append(c.units, unit{fam: famFlow, shape: idx[sp], h: hi, level: 2, i: i})
			}
		}
		nFlow += int64(len(c.heights)) * countSets(ch, 2)
	}
	if thorough {
		for _, sp := range shapesThoroughL3 {
			ch := menuFor(parseShape(sp), thorough, 3)
			for hi := range c.heights {
				for i := range ch {
					c.units = append(c.units, unit{fam: famFlow, shape: idx[sp], h: hi, level: 3, i: i})
				}
			}
			nFlow += int64(len(c.heights)) * countSets(ch, 3)
		}
	}
	// development knob: C12_ONLY=cascade,nth,pagebox,counters,flow keeps the units of the named
	// families only (never set by bin/check or the evidence runs)
	var only []string
	if v := os.Getenv("C12_ONLY"); v != "" {
		only = strings.Split(v, ",")
		names := map[int]string{famCascade: "cascade", famNth: "nth", famPageBox: "pagebox", famCounters: "counters", famFlow: "flow"}
		var keep []unit
		for _, u := range c.units {
			for _, o := range only {
				if names[u.fam] == o {
					keep = append(keep, u)
				}
			}
		}
		c.units = keep
	}
	chunk := int64(4)
	return engine.Space{
		Units: int64(len(c.units)), Chunk: chunk, Level: "model_checking", CaseCPUs: 5,
		Rule: "deviation-bounded product, simplest first: (i) every sequence of distinct @page rules up to the bound x every forced-page document; (ib) the product of page box width/height/margin/padding (each side)/border (each side)/min/max choices; (iii) every margin box name and page-context counter manipulation; (ii) per flow shape and page content height: the default flow, then every single deviation of the per-box menu and of the page-level menu (border/padding of the page box on one side, on opposite sides, all different, symmetric; the sheet grows so that the content box is unchanged), then every pair (then triples) of deviations in distinct slots. One case = one document laid out by layout.Layout and compared with the reference. A case is non-trivial when the reference pagination has >= 2 pages (flows) or the rule sequence/choice changes the geometry of at least one page (cascade, page box)",
		Bounds: map[string]any{
			"restricted_to_families(C12_ONLY)": only,
			"cascade_rule_menu":                ruleTexts(), "cascade_max_rules": maxLen, "cascade_docs": cascadeDocs, "cascade_cases": nCascade,
			"cascade_nth_menu": nthTexts(), "cascade_nth_docs": nthDocs, "cascade_nth_cases": nNth,
			"cascade_nth_sequences": map[bool]string{false: "[x]; [x r], [r x] (x: a rule of the :nth menu, r: a rule of the first menu)", true: "[x]; [x r], [r x]; [x y] (ordered pairs of distinct :nth rules); [x r s], [r x s], [r s x] (ordered pairs of distinct rules of the first menu)"}[thorough],
			"pagebox_cases":         c.pbCases, "counter_cases": c.cntCases,
			"flow_shapes_level1": c.shapes, "flow_shapes_level2": l2, "flow_shapes_level3": map[bool][]string{true: shapesThoroughL3, false: nil}[thorough],
			"flow_heights_px": c.heights, "flow_cases": nFlow,
			"per_box_menu":           "break-before/after {avoid,page,left,right,recto,verso}, break-inside avoid, orphans {2,3}, widows {2,3}, padding 3px, border 3px, page n (thorough: m), counter-reset page 5",
			"page_level_menu_level1": pageDecoCSS(pageChoices(1, thorough)), "page_level_menu_level2": pageDecoCSS(pageChoices(2, thorough)), "page_level_menu_level3": pageDecoCSS(pageChoices(3, thorough)),
		},
		Assumptions: []string{
			"font Ahem 10px/1: every line is exactly 10px high; page width 20px = one two-glyph word per line",
			"margins of flow boxes are 0 (margin truncation at breaks is outside the property); box-decoration-break: slice",
			"ltr, horizontal writing mode: the first page is a right page, recto = right",
			"open points accepted in either reading: the specificity of :nth() (counted like :first or not at all); the page name of an inserted blank page (none or the next page's); conflicting left/right values on a chain of last children (edge order or tree order); a side-forcing break-before on the first block (ignored, selects the side of the first page, or inserts a blank first page)",
			"where the greedy reference finds no legal fitting break on a page (rules must be dropped, order UA-defined) only the pages before it are compared exactly; the rest is subject to the invariants",
			"size:auto / UA default margins are UA-defined: every document sets size and margins in a base @page rule",
		},
	}
}

func pageDecoCSS(ch []choice) []string {
	var out []string
	for _, c := range ch {
		out = append(out, c.value+" = @page{"+pageDecos[c.value].css()+"} (sheet enlarged by the same amount)")
	}
	return out
}

func nthTexts() []string {
	var out []string
	for _, r := range nthMenu {
		out = append(out, r.text)
	}
	return out
}

func ruleTexts() []string {
	out := []string{baseRule.text + " (always first)"}
	for _, r := range ruleMenu {
		out = append(out, r.text)
	}
	return out
}

// presetExtras: the single deviations that can be added to a preset (other slots only).
func presetExtras(s *shape, pre []choice, thorough bool) []choice {
	var out []choice
	for _, ch := range menuFor(s, thorough, 1) {
		ok := true
		for _, p := range pre {
			if sameSlot(p, ch) {
				ok = false
			}
		}
		if ok {
			out = append(out, ch)
		}
	}
	return out
}

func sameSlot(a, b choice) bool { return a.node == b.node && a.slot == b.slot }

func countSets(ch []choice, k int) int64 {
	var n int64
	switch k {
	case 2:
		for i := range ch {
			for j := i + 1; j < len(ch); j++ {
				if !sameSlot(ch[i], ch[j]) {
					n++
				}
			}
		}
	case 3:
		for i := range ch {
			for j := i + 1; j < len(ch); j++ {
				if sameSlot(ch[i], ch[j]) {
					continue
				}
				for l := j + 1; l < len(ch); l++ {
					if !sameSlot(ch[i], ch[l]) && !sameSlot(ch[j], ch[l]) {
						n++
					}
				}
			}
		}
	}
	return n
}

func (c *check) Describe(u int64) any {
	un := c.units[u]
	switch un.fam {
	case famCascade:
		return map[string]any{"family": "cascade", "doc": cascadeDocs[un.doc], "rule_sequences": fmt.Sprintf("%d..%d", un.lo, un.hi-1), "first": seqText(c.seqs[un.lo]), "last": seqText(c.seqs[un.hi-1])}
	case famNth:
		return map[string]any{"family": "cascade-nth", "doc": nthDocs[un.doc], "rule_sequences": fmt.Sprintf("%d..%d", un.lo, un.hi-1), "first": seqText(c.nthSeqs[un.lo]), "last": seqText(c.nthSeqs[un.hi-1])}
	case famPageBox:
		pc := pageBoxCases()
		return map[string]any{"family": "pagebox", "first": pc[un.lo].css, "last": pc[un.hi-1].css}
	case famCounters:
		cc := counterCases()
		return map[string]any{"family": "counters", "cases": un.hi - un.lo, "first": cc[un.lo].describe(), "last": cc[un.hi-1].describe()}
	}
	if un.level == 4 {
		return map[string]any{"family": "flow", "preset": presetDocs[un.doc], "content_height_px": c.heights[un.h],
			"cases": "the preset, then the preset with each single further deviation in another slot"}
	}
	d := map[string]any{"family": "flow", "shape": c.shapes[un.shape], "content_height_px": c.heights[un.h], "level": un.level}
	ch := menuFor(parseShape(c.shapes[un.shape]), c.tier == "thorough", un.level)
	switch un.level {
	case 1:
		d["cases"] = "no deviation, then each of the " + fmt.Sprint(len(ch)) + " single deviations"
	case 2:
		d["cases"] = ch[un.i].String() + " with every later deviation in another slot"
	case 3:
		d["cases"] = ch[un.i].String() + " with every pair of later deviations in other slots"
	}
	return d
}

func seqText(seq []int) string {
	var l []string
	for _, i := range seq {
		l = append(l, fullMenu[i].text)
	}
	return strings.Join(l, " ")
}

func (c *check) Run(u int64, ctx *engine.Ctx) {
	un := c.units[u]
	switch un.fam {
	case famCascade:
		for k := un.lo; k < un.hi; k++ {
			c.runCascade(ctx, cascadeDocs[un.doc], c.seqs[k])
		}
	case famNth:
		for k := un.lo; k < un.hi; k++ {
			c.runCascade(ctx, nthDocs[un.doc], c.nthSeqs[k])
		}
	case famPageBox:
		pc := pageBoxCases()
		for k := un.lo; k < un.hi; k++ {
			runPageBox(ctx, pc[k])
		}
	case famCounters:
		cc := counterCases()
		for k := un.lo; k < un.hi; k++ {
			runCounterCase(ctx, cc[k])
		}
	case famFlow:
		thorough := c.tier == "thorough"
		if un.level == 4 {
			s, pre := parseDoc(presetDocs[un.doc])
			H := c.heights[un.h]
			c.runFlow(ctx, s.spec, H, pre)
			for _, x := range presetExtras(s, pre, thorough) {
				c.runFlow(ctx, s.spec, H, append(append([]choice(nil), pre...), x))
			}
			return
		}
		spec := c.shapes[un.shape]
		ch := menuFor(parseShape(spec), thorough, un.level)
		H := c.heights[un.h]
		switch un.level {
		case 1:
			c.runFlow(ctx, spec, H, nil)
			for i := range ch {
				c.runFlow(ctx, spec, H, []choice{ch[i]})
			}
		case 2:
			for j := un.i + 1; j < len(ch); j++ {
				if !sameSlot(ch[un.i], ch[j]) {
					c.runFlow(ctx, spec, H, []choice{ch[un.i], ch[j]})
				}
			}
		case 3:
			for j := un.i + 1; j < len(ch); j++ {
				if sameSlot(ch[un.i], ch[j]) {
					continue
				}
				for l := j + 1; l < len(ch); l++ {
					if !sameSlot(ch[un.i], ch[l]) && !sameSlot(ch[j], ch[l]) {
						c.runFlow(ctx, spec, H, []choice{ch[un.i], ch[j], ch[l]})
					}
				}
			}
		}
	}
}

// one font configuration per worker process: the documents of this check declare no
// @font-face, so the configuration is never mutated (a fresh one per render costs ~0.5 MB
// that is never released).
var sharedFonts text.FontConfiguration

func layoutDoc(o render.Options) ([]*bo.PageBox, error) {
	if sharedFonts == nil {
		sharedFonts = render.NewFontConfig("pango")
	}
	o.FontConfig = sharedFonts
	return render.Layout(o)
}

// ---- family (ii)+(iii): flows --------------------------------------------------------------

type mismatch struct{ clause, detail string }

func sideName(right bool) string {
	if right {
		return "right"
	}
	return "left"
}

// flowFeatures: tags computed from the input alone.
func flowFeatures(s *shape, f *flow, H int, dev []choice, primary *mresult) []string {
	set := map[string]bool{}
	for _, d := range dev {
		switch d.slot {
		case "before", "after":
			set["break-"+d.slot+"="+d.value] = true
			if sideOf(d.value) != "" {
				set["side-break"] = true
			}
		case "inside":
			set["break-inside=avoid"] = true
		case "orphans":
			set["orphans>1"] = true
		case "widows":
			set["widows>1"] = true
		case "pad":
			set["padding"] = true
		case "border":
			set["border"] = true
		case "page":
			set["named-page"] = true
		case "creset":
			set["counter-reset-page-on-element"] = true
		case "deco":
			pd := pageDecos[d.value]
			if pd.hasBorder() {
				set["page-border"] = true
			}
			if pd.hasPadding() {
				set["page-padding"] = true
			}
			if pd.asymmetric() {
				set["page-decoration-asymmetric"] = true
			}
		}
	}
	for _, n := range s.nodes() {
		if !n.para {
			set["nested"] = true
		}
	}
	for _, ca := range f.a {
		if ca.nameChange {
			if ca.toDefault {
				set["named-to-default-page"] = true
			} else {
				set["to-named-page"] = true
			}
		}
		if ca.forced && ca.sides[0] != ca.sides[1] {
			set["conflicting-sides-on-chain"] = true
		}
		if ca.forced && ca.inAvoid {
			set["forced-break-inside-avoid-box"] = true
		}
	}
	if f.firstSide[0] != "" {
		set["side-break-before-first-block"] = true
	}
	// wrappers whose first and last paragraphs are on different named pages
	for pi := 0; pi+1 < len(f.paras); pi++ {
		a, b := f.paras[pi], f.paras[pi+1]
		for k := 0; k < len(a.path)-1 && k < len(b.path)-1 && a.path[k] == b.path[k]; k++ {
			if a.page != b.page {
				set["wrapper-start-end-page-differ"] = true
			}
		}
	}
	if H%10 != 0 {
		set["height-not-multiple-of-line"] = true
	}
	if primary.stuck {
		set["needs-rule-dropping"] = true
	}
	if set["nested"] && (set["padding"] || set["border"]) {
		lenient := f.paginate(float64(H), variant{startRight: true, lenientTop: true})
		if lenient.String(f) != primary.String(f) {
			set["wrapper-closing-decoration-at-page-top-decides"] = true
		}
	}
	return sortedKeys(set)
}

// forcedInvariant: every forced break separates its two sides by a page boundary of the
// requested side, with a blank page exactly when the parity is wrong.
func forcedInvariant(f *flow, ops []opage) []mismatch {
	type loc struct{ page, pos, n int }
	where := map[string]*loc{}
	for pi, p := range ops {
		for k, t := range p.texts {
			if l := where[t]; l != nil {
				l.n++
			} else {
				where[t] = &loc{pi, k, 1}
			}
		}
	}
	var ms []mismatch
	for p, ca := range f.a {
		if !ca.forced {
			continue
		}
		P, Q := f.paras[p], f.paras[p+1]
		la, lb := lineLabel(p, P.n.lines-1), lineLabel(p+1, 0)
		a, b := where[la], where[lb]
		if a == nil || b == nil || a.n != 1 || b.n != 1 {
			continue // conservation is C02's clause
		}
		what := "forced break"
		if ca.nameChange {
			what = fmt.Sprintf("change of page name %q -> %q", P.page, Q.page)
		}
		if b.page <= a.page {
			ms = append(ms, mismatch{"forced-break", fmt.Sprintf("%s between %s and %s: both are on page %d", what, la, lb, a.page)})
			continue
		}
		if b.pos != 0 || !near(ops[b.page].ys[0], f.pre[Q.first]) {
			ms = append(ms, mismatch{"forced-break", fmt.Sprintf("%s before %s: it is not at the top of its page (position %d, y=%g, expected y=%g)", what, lb, b.pos, ops[b.page].ys[b.pos], f.pre[Q.first])})
			continue
		}
		between := b.page - a.page - 1
		okGap := false
		var wants []string
		for _, sd := range ca.sides {
			need := 0
			natural := "left"
			if ops[a.page].side == "left" {
				natural = "right"
			}
			if sd != "" && sd != natural {
				need = 1
			}
			if between == need && (sd == "" || ops[b.page].side == sd) {
				okGap = true
			}
			wants = append(wants, fmt.Sprintf("side %q with %d blank page(s)", sd, need))
		}
		if !okGap {
			ms = append(ms, mismatch{"forced-break-side", fmt.Sprintf("%s before %s: %s is on a %s page %d, %s on a %s page %d with %d page(s) between; want %s", what, lb, la, ops[a.page].side, a.page, lb, ops[b.page].side, b.page, between, strings.Join(wants, " or "))})
			continue
		}
		for k := a.page + 1; k < b.page; k++ {
			if !ops[k].blank || len(ops[k].texts) != 0 {
				ms = append(ms, mismatch{"forced-break-side", fmt.Sprintf("page %d inserted for the side of %s is not a blank page (%s, %d texts)", k, lb, ops[k].typeString(), len(ops[k].texts))})
			}
		}
		if ops[b.page].name != Q.page {
			ms = append(ms, mismatch{"page-name", fmt.Sprintf("page %d starts with %s whose page is %q but the page type has name %q", b.page, lb, Q.page, ops[b.page].name)})
		}
	}
	return ms
}

// diffModel compares the observed pages with one reading of the reference.
func diffModel(f *flow, r *mresult, ops []opage) []mismatch {
	var ms []mismatch
	add := func(cl, format string, a ...any) { ms = append(ms, mismatch{cl, fmt.Sprintf(format, a...)}) }
	for k, mp := range r.pages {
		if k >= len(ops) {
			add("break-placement", "the document has %d pages, the reference at least %d", len(ops), len(r.pages))
			return ms
		}
		op := ops[k]
		var want []string
		for g := mp.s; g < mp.e; g++ {
			want = append(want, lineLabel(f.lines[g].p, f.lines[g].i))
		}
		if strings.Join(want, " ") != strings.Join(op.texts, " ") {
			add("break-placement", "page %d holds [%s], reference [%s]", k, strings.Join(op.texts, " "), strings.Join(want, " "))
			return ms
		}
		if mp.blank != op.blank {
			add("page-type", "page %d: blank=%v, reference %v", k, op.blank, mp.blank)
		}
		if op.side != sideName(mp.right) {
			add("page-type", "page %d: side %s, reference %s", k, op.side, sideName(mp.right))
		}
		if mp.blank {
			if op.name != "" && op.name != mp.next {
				add("page-name", "blank page %d has name %q (reference: none or %q)", k, op.name, mp.next)
			}
		} else if op.name != mp.name {
			add("page-name", "page %d has name %q, its first line belongs to page %q", k, op.name, mp.name)
		}
		for i := range mp.ys {
			if !near(op.ys[i], mp.ys[i]) {
				add("line-position", "page %d line %s at y=%g, reference %g", k, op.texts[i], op.ys[i], mp.ys[i])
				break
			}
		}
	}
	if !r.stuck && len(ops) != len(r.pages) {
		add("break-placement", "the document has %d pages, the reference %d", len(ops), len(r.pages))
	}
	return ms
}

// invariants that hold for every conforming pagination, decidable or not.
func pageInvariants(H float64, ops []opage) []mismatch {
	var ms []mismatch
	for k, p := range ops {
		if p.index != k || p.first != (k == 0) {
			ms = append(ms, mismatch{"page-type", fmt.Sprintf("page %d has type %s", k, p.typeString())})
		}
		if k > 0 && p.side == ops[k-1].side {
			ms = append(ms, mismatch{"page-type", fmt.Sprintf("pages %d and %d are both %s pages", k-1, k, p.side)})
		}
		if !p.blank && len(p.texts) == 0 {
			ms = append(ms, mismatch{"no-progress", fmt.Sprintf("page %d is not a blank page and holds no line", k)})
		}
		if p.blank && len(p.texts) != 0 {
			ms = append(ms, mismatch{"page-type", fmt.Sprintf("blank page %d holds content %v", k, p.texts)})
		}
		for i, b := range p.bottoms {
			if b > H+eps && i > 0 {
				ms = append(ms, mismatch{"overflow-with-earlier-break", fmt.Sprintf("page %d: line %s ends at y=%g below the content box (%g) although a break opportunity exists before it on the page", k, p.texts[i], b, H)})
				break
			}
		}
	}
	return ms
}

// flowGeo is the declared page geometry of a flow document: content box pageW (30 on pages named m)
// x h under a 10px top margin, with the page-level decoration around it.
type flowGeo struct {
	h    float64
	deco pageDeco
}

// nameInvariant: every page that holds content has the name required by the FIRST content
// placed on it; with widths, every page has the width its own name selects.
func nameInvariant(f *flow, ops []opage, geo *flowGeo) []mismatch {
	pageOf := map[string]string{}
	for g := range f.lines {
		pageOf[lineLabel(f.lines[g].p, f.lines[g].i)] = f.paras[f.lines[g].p].page
	}
	var ms []mismatch
	for k, p := range ops {
		if len(p.texts) > 0 {
			if want, ok := pageOf[p.texts[0]]; ok && want != p.name {
				ms = append(ms, mismatch{"page-name", fmt.Sprintf("page %d starts with %s whose page is %q but the page type has name %q", k, p.texts[0], want, p.name)})
			}
		}
		if geo != nil {
			w := float64(pageW)
			if p.name == "m" {
				w = pageWm
			}
			d := geo.deco
			if !near(p.width, w) || !near(p.mt, 10) || !near(p.ml, 0) || !near(p.mr, 0) || !near(p.mb, 0) {
				ms = append(ms, mismatch{"page-geometry", fmt.Sprintf("page %d (%s): content width %g margins t=%g r=%g b=%g l=%g; its name selects width %g margins 10 0 0 0", k, p.typeString(), p.width, p.mt, p.mr, p.mb, p.ml, w)})
			} else if !near(p.height, geo.h) {
				// declared: sheet height - margins - borders - paddings
				ms = append(ms, mismatch{"page-geometry", fmt.Sprintf("page %d (%s): content height %g; the sheet is %g high, margins 10+0, borders %g+%g, paddings %g+%g -> content height %g", k, p.typeString(), p.height, geo.h+10+d.vert(), d.bt, d.bb, d.pt, d.pb, geo.h)})
			}
			if !near(p.bt, d.bt) || !near(p.br, d.br) || !near(p.bb, d.bb) || !near(p.bl, d.bl) || !near(p.pt, d.pt) || !near(p.pr, d.pr) || !near(p.pb, d.pb) || !near(p.pl, d.pl) {
				ms = append(ms, mismatch{"page-geometry", fmt.Sprintf("page %d (%s): borders t=%g r=%g b=%g l=%g paddings t=%g r=%g b=%g l=%g; declared borders t=%g r=%g b=%g l=%g paddings t=%g r=%g b=%g l=%g", k, p.typeString(), p.bt, p.br, p.bb, p.bl, p.pt, p.pr, p.pb, p.pl, d.bt, d.br, d.bb, d.bl, d.pt, d.pr, d.pb, d.pl)})
			}
			if sw, sh := w+d.horiz(), geo.h+10+d.vert(); !near(p.marginBoxW(), sw) || !near(p.marginBoxH(), sh) {
				ms = append(ms, mismatch{"page-box-size", fmt.Sprintf("page %d (%s): the margin box of the page is %gx%g, the declared size is %gx%g (nothing is over-constrained: height and width are auto)", k, p.typeString(), p.marginBoxW(), p.marginBoxH(), sw, sh)})
			}
		}
	}
	return ms
}

func counterMismatch(ops []opage, at string) []mismatch {
	for k, p := range ops {
		want := fmt.Sprintf("%d/%d", k+1, len(ops))
		if got, ok := p.margin[at]; !ok || got != want {
			return []mismatch{{"page-counter", fmt.Sprintf("page %d of %d: %s shows %q, want %q", k+1, len(ops), at, got, want)}}
		}
	}
	return nil
}

func (c *check) runFlow(ctx *engine.Ctx, spec string, H int, dev []choice) {
	s := parseShape(spec)
	var dl []string
	for _, d := range dev {
		s.apply(d)
		dl = append(dl, d.String())
	}
	f := buildFlow(s)
	pdeco := pageDecos[s.pdeco] // zero value: none
	html := flowPreludeDeco(H, "@top-center", "", pdeco) + s.body()
	desc := fmt.Sprintf("flow shape=%s H=%d dev=[%s] html=%s", spec, H, strings.Join(dl, " "), html)
	vs := f.variants()
	primary := f.paginate(float64(H), vs[0])
	feats := flowFeatures(s, f, H, dev, &primary)
	ctx.Trans(int64(len(dev)))
	var ops []opage
	ok := ctx.GuardFail(desc, feats, func() {
		pages, err := layoutDoc(render.Options{HTML: html, PageBound: 8 + 4*len(f.lines)})
		if err != nil {
			panic("harness: " + err.Error())
		}
		ops = observe(pages)
	})
	if !ok {
		ctx.Case(true, "panic")
		return
	}
	ctx.Case(len(primary.pages) >= 2 || primary.stuck, canon(ops))
	// reach counters
	if primary.stuck {
		ctx.Count("flow:undecidable-tail(rule dropping needed)", 1)
	} else {
		ctx.Count("flow:fully-decidable", 1)
	}
	if len(primary.pages) >= 2 {
		ctx.Count("flow:reference>=2-pages", 1)
	}
	ctx.Count("flow:forced-breaks-taken", int64(primary.nForced))
	ctx.Count("flow:blank-pages-expected", int64(primary.nBlank))
	ctx.Count("flow:unforced-breaks-between-blocks", int64(primary.nClassA))
	ctx.Count("flow:unforced-breaks-between-lines", int64(primary.nClassB))
	ctx.Count("flow:pages-where-avoid/orphans/widows-moved-the-break", int64(primary.nBinding))
	ctx.Count("flow:pages-compared-exactly", int64(len(primary.pages)))
	ctx.Count("counter:margin-boxes-compared", int64(len(ops)))

	var ms []mismatch
	ms = append(ms, pageInvariants(float64(H), ops)...)
	ms = append(ms, nameInvariant(f, ops, &flowGeo{float64(H), pdeco})...)
	fi := forcedInvariant(f, ops)
	ms = append(ms, fi...)
	if len(fi) == 0 {
		var first []mismatch
		matched := false
		for i, v := range vs {
			r := primary
			if i > 0 {
				r = f.paginate(float64(H), v)
			}
			d := diffModel(f, &r, ops)
			if len(d) == 0 {
				matched = true
				break
			}
			if i == 0 {
				first = d
			}
		}
		if !matched {
			ms = append(ms, first...)
		}
	}
	ms = append(ms, counterMismatch(ops, "@top-center")...)
	report(ctx, desc, feats, ms, "reference: "+primary.String(f)+"\ngot: "+canon(ops))
}

// report emits one failure per violated clause.
func report(ctx *engine.Ctx, desc string, feats []string, ms []mismatch, tail string) {
	seen := map[string]bool{}
	for _, m := range ms {
		if seen[m.clause] {
			continue
		}
		seen[m.clause] = true
		ctx.Fail(engine.Failure{Clause: m.clause, Features: feats, Case: desc, Detail: m.detail + "\n" + tail})
	}
}

// ---- family (i): @page cascade -------------------------------------------------------------

func (c *check) runCascade(ctx *engine.Ctx, docSpec string, seq []int) {
	s, dev := parseDoc(docSpec)
	f := buildFlow(s)
	rules := []prule{baseRule}
	var css strings.Builder
	css.WriteString(baseRule.text)
	set := map[string]bool{"cascade": true}
	for _, i := range seq {
		rules = append(rules, fullMenu[i])
		css.WriteString(fullMenu[i].text)
		nthFeatures(fullMenu[i], set)
		for _, sl := range fullMenu[i].sels {
			if sl.hasNth {
				set["sel-nth"] = true
			}
			if sl.blank {
				set["sel-blank"] = true
			}
			if sl.first {
				set["sel-first"] = true
			}
			if sl.side != "" {
				set["sel-side"] = true
			}
			if sl.name != "" {
				set["sel-name"] = true
			}
		}
		if len(fullMenu[i].sels) > 1 {
			set["selector-list"] = true
		}
		for _, d := range fullMenu[i].decls {
			if d.important {
				set["important"] = true
			}
			if strings.HasPrefix(d.prop, "border-") {
				set["page-border"] = true
			}
			if strings.HasPrefix(d.prop, "padding-") {
				set["page-padding"] = true
			}
		}
	}
	html := "<style>" + css.String() + "html,body{margin:0;font-family:ahem;font-size:10px;line-height:1;orphans:1;widows:1}p,div{margin:0}</style>" + s.body()
	desc := fmt.Sprintf("cascade doc=%q html=%s", docSpec, html)
	primary := f.paginate(1e6, variant{startRight: true})
	for _, t := range flowFeatures(s, f, 10, dev, &primary) {
		if t == "named-to-default-page" || t == "to-named-page" || t == "side-break" {
			set[t] = true
		}
	}
	feats := sortedKeys(set)
	ctx.Trans(int64(len(seq)))
	var ops []opage
	ok := ctx.GuardFail(desc, feats, func() {
		pages, err := layoutDoc(render.Options{HTML: html, PageBound: 30})
		if err != nil {
			panic("harness: " + err.Error())
		}
		ops = observe(pages)
	})
	if !ok {
		ctx.Case(true, "panic")
		return
	}
	// page sequence (types) against the placement reference
	var ms []mismatch
	ms = append(ms, pageInvariants(1e6, ops)...)
	ms = append(ms, nameInvariant(f, ops, nil)...)
	fi := forcedInvariant(f, ops)
	ms = append(ms, fi...)
	if len(fi) == 0 {
		ms = append(ms, diffModel(f, &primary, ops)...)
	}
	// geometry of every page from its own type
	var key strings.Builder
	changed := false
	for _, p := range ops {
		t := ptype{index: p.index, first: p.first, blank: p.blank, side: p.side, name: p.name}
		fmt.Fprintf(&key, "%s:%gx%g %g %g %g %g b%g %g %g %g p%g %g %g %g|", p.typeString(), p.width, p.height, p.mt, p.mr, p.mb, p.ml, p.bt, p.br, p.bb, p.bl, p.pt, p.pr, p.pb, p.pl)
		if cascadePage(rules, t, 1) != cascadePage(rules[:1], t, 1) {
			changed = true
		}
	}
	gm := geomMismatch(rules, ops, 1)
	if len(gm) > 0 && set["sel-nth"] && len(geomMismatch(rules, ops, 0)) == 0 {
		gm = nil // the other reading of the unspecified :nth() specificity
	}
	ms = append(ms, gm...)
	ctx.Case(changed, key.String())
	ctx.Count("cascade:pages-compared", int64(len(ops)))
	if changed {
		ctx.Count("cascade:cases-where-a-menu-rule-wins-somewhere", 1)
	}
	report(ctx, desc, feats, ms, "reference pages: "+primary.String(f)+"\ngot: "+key.String())
}

func geomMismatch(rules []prule, ops []opage, nthG int) []mismatch {
	var gm []mismatch
	for k, p := range ops {
		t := ptype{index: p.index, first: p.first, blank: p.blank, side: p.side, name: p.name}
		g := cascadePage(rules, t, nthG)
		d := g.deco
		ew, eh := g.w-g.ml-g.mr-d.horiz(), g.h-g.mt-g.mb-d.vert()
		if !near(p.width, ew) || !near(p.height, eh) || !near(p.mt, g.mt) || !near(p.mr, g.mr) || !near(p.mb, g.mb) || !near(p.ml, g.ml) ||
			!near(p.bt, d.bt) || !near(p.br, d.br) || !near(p.bb, d.bb) || !near(p.bl, d.bl) || !near(p.pt, d.pt) || !near(p.pr, d.pr) || !near(p.pb, d.pb) || !near(p.pl, d.pl) {
			gm = append(gm, mismatch{"page-geometry", fmt.Sprintf("page %d (%s): content %gx%g margins t=%g r=%g b=%g l=%g borders t=%g r=%g b=%g l=%g paddings t=%g r=%g b=%g l=%g; the matching rules give size %gx%g margins t=%g r=%g b=%g l=%g borders t=%g r=%g b=%g l=%g paddings t=%g r=%g b=%g l=%g -> content %gx%g",
				k, p.typeString(), p.width, p.height, p.mt, p.mr, p.mb, p.ml, p.bt, p.br, p.bb, p.bl, p.pt, p.pr, p.pb, p.pl,
				g.w, g.h, g.mt, g.mr, g.mb, g.ml, d.bt, d.br, d.bb, d.bl, d.pt, d.pr, d.pb, d.pl, ew, eh)})
		}
		if !near(p.marginBoxW(), g.w) || !near(p.marginBoxH(), g.h) {
			gm = append(gm, mismatch{"page-box-size", fmt.Sprintf("page %d (%s): the margin box of the page is %gx%g, the size selected by the matching rules is %gx%g", k, p.typeString(), p.marginBoxW(), p.marginBoxH(), g.w, g.h)})
		}
	}
	return gm
}

// ---- family (ib): page box dimensions ------------------------------------------------------

type pbCase struct {
	css    string
	hx, vx axisIn
	feats  []string
}

type axisChoice struct {
	inner  string // "" auto
	mA, mB string // "" unset(0) | auto | Npx | N%
	pad    string // padding on the A side (left/top)
	padB   string // padding on the B side (right/bottom)
	bordA  string // border width on the A side
	bordB  string // border width on the B side
	max    string
	min    string
}

func parseLen(v string, cb float64) (val float64, auto bool) {
	switch {
	case v == "":
		return 0, false
	case v == "auto":
		return 0, true
	case strings.HasSuffix(v, "%"):
		x, _ := strconv.ParseFloat(strings.TrimSuffix(v, "%"), 64)
		return x * cb / 100, false
	}
	x, err := strconv.ParseFloat(strings.TrimSuffix(v, "px"), 64)
	if err != nil {
		panic("c12: bad length " + v)
	}
	return x, false
}

// axisChoices: the first 96 entries are the product without B-side padding and without borders
// (simplest first); then the same product under every other combination of {padding B, border A,
// border B}: each operand of "padding + border" of the axis is present alone, so that the two
// sides differ, and together.
func axisChoices(inner, min string) []axisChoice {
	var out []axisChoice
	for _, deco := range [][3]string{
		{"", "", ""},
		{"4px", "", ""}, {"", "2px", ""}, {"", "", "6px"},
		{"4px", "2px", ""}, {"4px", "", "6px"}, {"", "2px", "6px"}, {"4px", "2px", "6px"},
	} {
		for _, in := range []string{"", inner} {
			for _, a := range []string{"5px", "auto", "10%"} {
				for _, b := range []string{"7px", "auto"} {
					for _, p := range []string{"", "3px"} {
						for _, mx := range []string{"", "40px"} {
							for _, mn := range []string{"", min} {
								out = append(out, axisChoice{in, a, b, p, deco[0], deco[1], deco[2], mx, mn})
							}
						}
					}
				}
			}
		}
	}
	return out
}

var pbCache []pbCase

// pageBoxCases: the horizontal product with a default vertical axis, then the vertical
// product with a default horizontal axis, then the diagonal (same choice index on both).
func pageBoxCases() []pbCase {
	if pbCache != nil {
		return pbCache
	}
	const W, H = 100.0, 80.0
	hs := axisChoices("50px", "95px")
	vs := axisChoices("30px", "75px")
	mk := func(h, v axisChoice) pbCase {
		var d []string
		set := map[string]bool{"pagebox": true}
		put := func(prop, val string) {
			if val != "" {
				d = append(d, prop+":"+val)
			}
		}
		put("width", h.inner)
		put("margin-left", h.mA)
		put("margin-right", h.mB)
		put("padding-left", h.pad)
		put("padding-right", h.padB)
		putBorder := func(side, w string) {
			if w != "" {
				d = append(d, "border-"+side+":"+w+" solid")
			}
		}
		putBorder("left", h.bordA)
		putBorder("right", h.bordB)
		put("max-width", h.max)
		put("min-width", h.min)
		put("height", v.inner)
		put("margin-top", v.mA)
		put("margin-bottom", v.mB)
		put("padding-top", v.pad)
		put("padding-bottom", v.padB)
		putBorder("top", v.bordA)
		putBorder("bottom", v.bordB)
		put("max-height", v.max)
		put("min-height", v.min)
		ax := func(c axisChoice, cb float64, name string) axisIn {
			in := axisIn{cb: cb, maxInner: -1}
			in.inner, in.innerAuto = parseLen(c.inner, cb)
			if c.inner == "" {
				in.innerAuto = true
			} else {
				set[name+"-set"] = true
			}
			in.mA, in.mAAuto = parseLen(c.mA, cb)
			in.mB, in.mBAuto = parseLen(c.mB, cb)
			if in.mAAuto || in.mBAuto {
				set[name+"-auto-margin"] = true
			}
			if strings.HasSuffix(c.mA, "%") {
				set[name+"-percent-margin"] = true
			}
			in.padA, _ = parseLen(c.pad, cb)
			in.padB, _ = parseLen(c.padB, cb)
			in.bordA, _ = parseLen(c.bordA, cb)
			in.bordB, _ = parseLen(c.bordB, cb)
			if c.pad != "" || c.padB != "" {
				set[name+"-padding"] = true
			}
			if c.bordA != "" || c.bordB != "" {
				set[name+"-border"] = true
			}
			if in.padA != in.padB || in.bordA != in.bordB {
				set[name+"-decoration-asymmetric"] = true
			}
			if c.max != "" {
				in.maxInner, _ = parseLen(c.max, cb)
				set[name+"-max"] = true
			}
			if c.min != "" {
				in.minInner, _ = parseLen(c.min, cb)
				set[name+"-min"] = true
			}
			return in
		}
		pc := pbCase{css: fmt.Sprintf("@page{size:%gpx %gpx;%s}", W, H, strings.Join(d, ";"))}
		pc.hx, pc.vx = ax(h, W, "width"), ax(v, H, "height")
		pc.feats = sortedKeys(set)
		return pc
	}
	var out []pbCase
	for _, h := range hs {
		out = append(out, mk(h, vs[0]))
	}
	for _, v := range vs[1:] {
		out = append(out, mk(hs[0], v))
	}
	for i := 1; i < len(hs); i++ {
		out = append(out, mk(hs[i], vs[i]))
	}
	pbCache = out
	return out
}

func runPageBox(ctx *engine.Ctx, pc pbCase) {
	html := "<style>" + pc.css + "html,body{margin:0;font-family:ahem;font-size:10px;line-height:1}</style><p style=\"margin:0\">aa</p>"
	desc := "pagebox html=" + html
	ctx.Trans(1)
	var ops []opage
	if !ctx.GuardFail(desc, pc.feats, func() {
		pages, err := layoutDoc(render.Options{HTML: html, PageBound: 30})
		if err != nil {
			panic("harness: " + err.Error())
		}
		ops = observe(pages)
	}) {
		ctx.Case(true, "panic")
		return
	}
	w, ml, mr := solveAxis(pc.hx)
	h, mt, mb := solveAxis(pc.vx)
	p := ops[0]
	key := fmt.Sprintf("%gx%g %g %g %g %g", p.width, p.height, p.mt, p.mr, p.mb, p.ml)
	ctx.Case(len(pc.feats) > 1, key)
	ctx.Count("pagebox:cases", 1)
	if len(ops) != 1 {
		ctx.Fail(engine.Failure{Clause: "break-placement", Features: pc.feats, Case: desc, Detail: fmt.Sprintf("%d pages for a one-line document", len(ops))})
		return
	}
	hx, vx := pc.hx, pc.vx
	if !near(p.width, w) || !near(p.ml, ml) || !near(p.mr, mr) || !near(p.height, h) || !near(p.mt, mt) || !near(p.mb, mb) ||
		!near(p.pl, hx.padA) || !near(p.pt, vx.padA) || !near(p.pr, hx.padB) || !near(p.pb, vx.padB) ||
		!near(p.bl, hx.bordA) || !near(p.bt, vx.bordA) || !near(p.br, hx.bordB) || !near(p.bb, vx.bordB) {
		ctx.Fail(engine.Failure{Clause: "page-box-dimensions", Features: pc.feats, Case: desc,
			Detail: fmt.Sprintf("got content %gx%g margins t=%g r=%g b=%g l=%g padding t=%g r=%g b=%g l=%g border t=%g r=%g b=%g l=%g; want content %gx%g margins t=%g r=%g b=%g l=%g padding t=%g r=%g b=%g l=%g border t=%g r=%g b=%g l=%g",
				p.width, p.height, p.mt, p.mr, p.mb, p.ml, p.pt, p.pr, p.pb, p.pl, p.bt, p.br, p.bb, p.bl,
				w, h, mt, mr, mb, ml, vx.padA, hx.padB, vx.padB, hx.padA, vx.bordA, hx.bordB, vx.bordB, hx.bordA)})
	}
	// the margin box of the page coincides with the sheet unless the axis is over-constrained (then
	// the containing block is resized to the margin edges: css-page-3 "page box model"); both are
	// the sum of the reference's used values
	if ew, eh := w+ml+mr+hx.deco(), h+mt+mb+vx.deco(); !near(p.marginBoxW(), ew) || !near(p.marginBoxH(), eh) {
		ctx.Fail(engine.Failure{Clause: "page-box-size", Features: pc.feats, Case: desc,
			Detail: fmt.Sprintf("the margin box of the page is %gx%g, want %gx%g (declared size %gx%g)", p.marginBoxW(), p.marginBoxH(), ew, eh, hx.cb, vx.cb)})
	}
}

// ---- family (iii) extras: every margin box, page-context counter manipulation ---------------

type counterCase struct {
	at     string
	also   string // second generation: another margin box of the same page, which manipulates the counters
	extra  string // extra css
	body   string
	expect func(i, n int) []string // acceptable texts of page i (0 based) of n
	feats  []string
}

var marginBoxNames = []string{
	"@top-left-corner", "@top-left", "@top-center", "@top-right", "@top-right-corner",
	"@left-top", "@left-middle", "@left-bottom", "@right-top", "@right-middle", "@right-bottom",
	"@bottom-left-corner", "@bottom-left", "@bottom-center", "@bottom-right", "@bottom-right-corner",
}

func counterCases() []counterCase {
	plain := func(i, n int) []string { return []string{fmt.Sprintf("%d/%d", i+1, n)} }
	bodies := []string{
		`<p>a0 a1 a2 a3 a4 a5 a6</p>`,
		`<p>a0</p><p style="break-before:left">b0</p><p style="break-before:left">c0 c1 c2 c3</p>`,
		`<p>a0 a1 a2</p><p style="counter-reset:page 5;break-before:page">b0 b1 b2 b3</p>`,
	}
	var out []counterCase
	for _, at := range marginBoxNames {
		for _, b := range bodies {
			out = append(out, counterCase{at: at, body: b, expect: plain, feats: []string{"counters", "margin-box=" + at}})
		}
	}
	// page-context manipulations: the page on which the reset happens may show the reset
	// value or the reset value plus the automatic increment (css-page-3 §7.1 is read both
	// ways); the following pages count on from it; pages is never affected.
	resetAt := func(k, v int) func(i, n int) []string {
		return func(i, n int) []string {
			if i < k {
				return []string{fmt.Sprintf("%d/%d", i+1, n)}
			}
			return []string{fmt.Sprintf("%d/%d", v+i-k, n), fmt.Sprintf("%d/%d", v+1+i-k, n)}
		}
	}
	out = append(out,
		counterCase{at: "@top-center", extra: "@page :first{counter-reset:page 5}", body: bodies[0], expect: resetAt(0, 5), feats: []string{"counters", "page-context-counter-reset"}},
		counterCase{at: "@top-center", extra: "@page :nth(2){counter-reset:page 5}", body: bodies[0], expect: resetAt(1, 5), feats: []string{"counters", "page-context-counter-reset"}},
		counterCase{at: "@top-center", extra: "@page{counter-increment:page 2}", body: bodies[0], expect: func(i, n int) []string { return []string{fmt.Sprintf("%d/%d", 2*(i+1), n)} }, feats: []string{"counters", "page-context-counter-increment"}},
		counterCase{at: "@bottom-center", extra: "@page{counter-increment:page 1 pages 3}", body: bodies[0], expect: plain, feats: []string{"counters", "pages-in-counter-increment"}},
	)
	out = append(out, counterPairCases(bodies)...)
	return out
}

// second generation of family (iii): TWO margin boxes on every page. One (the "manipulator")
// declares counter-increment / counter-reset / counter-set on page or pages and shows the
// counters; the other one only shows counter(page) "/" counter(pages) and must show the page's
// position and the total whatever the first one does: every ordered pair of the 16 margin boxes
// (so both generation orders of every pair: top, bottom, left, right, then the corners), x 4
// manipulations x 3 page contexts (plain; blank pages; counter-increment:page 2 in the page
// context, where the position counts in steps of 2).
var counterManips = []struct{ css, tag string }{
	{"counter-increment:page", "margin-box-counter-increment-page"},
	{"counter-reset:page 7", "margin-box-counter-reset-page"},
	{"counter-set:page 9", "margin-box-counter-set-page"},
	{"counter-increment:pages 3", "margin-box-counter-increment-pages"},
}

func counterPairCases(bodies []string) []counterCase {
	plain := func(i, n int) []string { return []string{fmt.Sprintf("%d/%d", i+1, n)} }
	twice := func(i, n int) []string { return []string{fmt.Sprintf("%d/%d", 2*(i+1), n)} }
	contexts := []struct {
		extra, body, tag string
		expect           func(i, n int) []string
	}{
		{"", bodies[0], "", plain},
		{"", bodies[1], "blank-pages", plain},
		{"@page{counter-increment:page 2}", bodies[0], "page-context-counter-increment", twice},
	}
	var out []counterCase
	for _, cx := range contexts {
		for _, m := range counterManips {
			for _, also := range marginBoxNames {
				for _, at := range marginBoxNames {
					if at == also {
						continue
					}
					feats := []string{"counters", "two-margin-boxes", m.tag}
					if cx.tag != "" {
						feats = append(feats, cx.tag)
					}
					out = append(out, counterCase{at: at, also: also, body: cx.body, expect: cx.expect, feats: feats,
						extra: cx.extra + "@page{" + also + "{" + m.css + `;content:counter(page) "/" counter(pages)}}`})
				}
			}
		}
	}
	return out
}

func (cc counterCase) describe() string {
	if cc.also != "" {
		return cc.at + " shows the counters, " + cc.extra
	}
	return cc.at + " shows the counters " + cc.extra
}

func runCounterCase(ctx *engine.Ctx, cc counterCase) {
	html := flowPrelude(20, cc.at, cc.extra) + cc.body
	desc := "counters html=" + html
	ctx.Trans(1)
	var ops []opage
	if !ctx.GuardFail(desc, cc.feats, func() {
		pages, err := layoutDoc(render.Options{HTML: html, PageBound: 40})
		if err != nil {
			panic("harness: " + err.Error())
		}
		ops = observe(pages)
	}) {
		ctx.Case(true, "panic")
		return
	}
	var key strings.Builder
	var bad string
	consistent := -1
	for i, p := range ops {
		got := p.margin[cc.at]
		key.WriteString(got + " ")
		if cc.also != "" {
			key.WriteString("(" + p.margin[cc.also] + ") ")
		}
		acc := cc.expect(i, len(ops))
		hit := -1
		for k, a := range acc {
			if a == got {
				hit = k
			}
		}
		if len(acc) > 1 && hit >= 0 {
			if consistent >= 0 && consistent != hit {
				hit = -1 // the two readings must not be mixed
			}
			if hit >= 0 {
				consistent = hit
			}
		}
		if hit < 0 && bad == "" {
			bad = fmt.Sprintf("page %d of %d: %s shows %q, want %s", i+1, len(ops), cc.at, got, strings.Join(acc, " or "))
		}
	}
	ctx.Case(len(ops) >= 2, key.String())
	ctx.Count("counter:extra-cases", 1)
	if cc.also != "" {
		ctx.Count("counter:two-margin-box-cases", 1)
	}
	if bad != "" {
		ctx.Fail(engine.Failure{Clause: "page-counter", Features: cc.feats, Case: desc, Detail: bad + "\nall pages: " + key.String()})
	}
}

// ---- reference self-tests (run before exploring) -------------------------------------------

func selfTest() {
	must := func(ok bool, what string) {
		if !ok {
			panic("c12: reference self-test failed: " + what)
		}
	}
	pg := func(spec string, H float64) string {
		s, _ := parseDoc(spec)
		f := buildFlow(s)
		r := f.paginate(H, variant{startRight: true})
		return r.String(f)
	}
	// plain greedy filling
	must(pg("5", 20) == "R a0@0 a1@10 | L a2@0 a3@10 | R a4@0", "greedy lines")
	// widows pull a line to the next page; orphans push the paragraph
	must(pg("3 #0.widows=2", 20) == "R a0@0 | L a1@0 a2@10", "widows")
	must(pg("1,3 #1.orphans=2", 20) == "R a0@0 | L b0@0 b1@10 | R b2@0", "orphans")
	// calibration A.5: break-before on the first block creates no empty page
	must(pg("1,1 #0.before=page", 20) == "R a0@0 b0@10", "break-before on first block")
	// forced break + side: blank page when the parity is wrong (css-page-3 example)
	must(pg("1,1 #1.before=right", 20) == "R a0@0 | L blank | R b0@0", "blank page")
	must(pg("1,1 #1.before=left", 20) == "R a0@0 | L b0@0", "no blank page")
	// avoid between siblings moves the break inside the previous paragraph
	must(pg("3,1 #1.before=avoid", 30) == "R a0@0 a1@10 | L a2@0 b0@10", "break-before avoid")
	// named page change forces a break, in both directions
	must(pg("1,1,1 #1.page=n", 50) == "R a0@0 | L(n) b0@0 | R c0@0", "named page")
	// slice: no bottom padding before a break, no top padding after it
	must(pg("3 #0.pad=3px", 25) == "R a0@3 a1@13 | L a2@0", "padding sliced")
	// no legal break: stuck
	must(strings.HasSuffix(pg("3 #0.inside=avoid", 20), "STUCK"), "stuck")
	// @page cascade: specificity beats order, important beats specificity, order breaks ties
	rules := []prule{baseRule, ruleMenu[0], ruleMenu[9]}
	g := cascadePage(rules, ptype{index: 0, first: true, side: "right"}, 1)
	must(g.mt == 11 && g.ml == 12 && g.w == 100, "important")
	g = cascadePage([]prule{baseRule, ruleMenu[8], ruleMenu[1]}, ptype{index: 1, side: "left"}, 1)
	must(g.ml == 20 && g.mt == 6, "order")
	g = cascadePage([]prule{baseRule, ruleMenu[4], ruleMenu[0]}, ptype{index: 0, first: true, side: "right", name: "n"}, 1)
	must(g.mt == 7 && g.w == 80, "named beats :first")
	must(!(psel{hasNth: true, a: 2, b: 1}).matches(ptype{index: 1}) && (psel{hasNth: true, a: 2, b: 1}).matches(ptype{index: 2}), "nth")
	// :nth(-n+3) = the first three pages; :nth(-2n+5) = pages 5, 3, 1; :nth(n+5) = from the fifth; :nth(0) = none
	nthSet := func(a, b int) string {
		var l []string
		for i := 0; i < 8; i++ {
			if (psel{hasNth: true, a: a, b: b}).matches(ptype{index: i}) {
				l = append(l, strconv.Itoa(i+1))
			}
		}
		return strings.Join(l, ",")
	}
	must(nthSet(-1, 3) == "1,2,3" && nthSet(-2, 5) == "1,3,5" && nthSet(1, 5) == "5,6,7,8" && nthSet(0, 0) == "" && nthSet(3, -1) == "2,5,8" && nthSet(2, 0) == "2,4,6,8" && nthSet(-1, -1) == "", "nth with negative / zero step")
	// page box: auto margins centre a fixed width
	w, a, b := solveAxis(axisIn{cb: 100, inner: 50, mAAuto: true, mBAuto: true, maxInner: -1})
	must(w == 50 && a == 25 && b == 25, "auto margins")
}
