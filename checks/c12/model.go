package c12

import (
	"fmt"
	"strings"
)

// ---- reference fragmentation model (CSS Fragmentation 3 §3-4, css-page-3 §"using named
// pages", restricted to the flow grammar of flow.go) -----------------------------------------
//
// Everything is derived from the input: lines are 10px, decorations 3px, margins 0.
// Break opportunities: class A between two consecutive paragraphs (it lies between the two
// sibling boxes X, Y below their lowest common container), class B between two lines of a
// paragraph. box-decoration-break is slice: a box broken at a point draws no bottom
// padding/border before it and no top padding/border after it.

const lineH = 10.0
const eps = 1e-3

type mpara struct {
	n           *node
	path        []*node // top-level item ... the paragraph itself
	first       int     // global index of its first line
	orph, wid   int
	page        string
	insideAvoid bool // itself or an ancestor has break-inside:avoid
}

type gline struct{ p, i int }

// classA describes the break point between paragraph p and p+1.
type classA struct {
	forced     bool
	sides      [2]string // requested side under the two readings of "latest element wins" ("" = any)
	avoid      bool
	nameChange bool
	toDefault  bool // a change from a named page to the default page
	inAvoid    bool // lies inside a break-inside:avoid container
}

type flow struct {
	paras []*mpara
	lines []gline
	pre   []float64 // top decorations opening right before line g
	post  []float64 // bottom decorations closing right after line g
	a     []classA  // a[p] = point between paragraph p and p+1
	// requested side of a break-before propagated from the first block to the root ("" none)
	firstSide [2]string
}

func deco(n *node, top bool) float64 {
	v := 0.0
	if n.pad {
		v += 3
	}
	if n.border {
		v += 3
	}
	return v
}

func isForced(v string) bool {
	return v == "page" || v == "left" || v == "right" || v == "recto" || v == "verso"
}

func sideOf(v string) string {
	switch v {
	case "left", "verso": // ltr
		return "left"
	case "right", "recto":
		return "right"
	}
	return ""
}

func lastSide(vals []string) string {
	s := ""
	for _, v := range vals {
		if x := sideOf(v); x != "" {
			s = x
		}
	}
	return s
}

func buildFlow(s *shape) *flow {
	f := &flow{}
	var walk func(l []*node, path []*node)
	walk = func(l []*node, path []*node) {
		for _, n := range l {
			p := append(append([]*node(nil), path...), n)
			if n.para {
				mp := &mpara{n: n, path: p, orph: 1, wid: 1}
				for _, a := range p { // nearest setting wins: walk from the outside in
					if a.orphans != 0 {
						mp.orph = a.orphans
					}
					if a.widows != 0 {
						mp.wid = a.widows
					}
					if a.page != "" {
						mp.page = a.page
					}
					if a.inside == "avoid" {
						mp.insideAvoid = true
					}
				}
				mp.first = len(f.lines)
				for i := 0; i < n.lines; i++ {
					f.lines = append(f.lines, gline{len(f.paras), i})
				}
				f.paras = append(f.paras, mp)
			} else {
				walk(n.kids, p)
			}
		}
	}
	walk(s.items, nil)
	f.pre = make([]float64, len(f.lines))
	f.post = make([]float64, len(f.lines))
	common := func(a, b []*node) int {
		c := 0
		for c < len(a) && c < len(b) && a[c] == b[c] {
			c++
		}
		return c
	}
	for pi, mp := range f.paras {
		// boxes opening at this paragraph: those not shared with the previous paragraph
		c := 0
		if pi > 0 {
			c = common(f.paras[pi-1].path, mp.path)
		}
		for _, n := range mp.path[c:] {
			f.pre[mp.first] += deco(n, true)
		}
		// boxes closing at this paragraph: those not shared with the next one
		c = 0
		if pi+1 < len(f.paras) {
			c = common(mp.path, f.paras[pi+1].path)
		}
		last := mp.first + mp.n.lines - 1
		for _, n := range mp.path[c:] {
			f.post[last] += deco(n, false)
		}
		if pi+1 < len(f.paras) {
			q := f.paras[pi+1]
			var ca classA
			xchain, ychain := mp.path[c:], q.path[c:]
			// edge order: ends of the X chain innermost first, then starts of the Y chain
			var edge, tree []string
			for k := len(xchain) - 1; k >= 0; k-- {
				edge = append(edge, xchain[k].after)
			}
			for _, n := range xchain {
				tree = append(tree, n.after)
			}
			for _, n := range ychain {
				edge = append(edge, n.before)
				tree = append(tree, n.before)
			}
			for _, v := range edge {
				if isForced(v) {
					ca.forced = true
				}
				if v == "avoid" {
					ca.avoid = true
				}
			}
			if ca.forced {
				ca.avoid = false
				ca.sides = [2]string{lastSide(edge), lastSide(tree)}
			}
			if mp.page != q.page {
				ca.forced, ca.nameChange, ca.avoid = true, true, false
				ca.toDefault = q.page == ""
			}
			for _, n := range mp.path[:c] {
				if n.inside == "avoid" {
					ca.inAvoid = true
				}
			}
			f.a = append(f.a, ca)
		}
	}
	if len(f.paras) > 0 {
		var vals []string
		for _, n := range f.paras[0].path {
			vals = append(vals, n.before)
		}
		s := lastSide(vals)
		f.firstSide = [2]string{s, s}
	}
	return f
}

type mpage struct {
	blank bool
	right bool
	name  string // used page name of the first line's paragraph ("" on blank pages)
	next  string // blank pages: name of the page that follows
	s, e  int    // global line range
	ys    []float64
}

type mresult struct {
	pages []mpage
	stuck bool // the page after pages[len-1] has no legal fitting break: rules must be dropped
	// statistics (reach counters)
	nForced, nBlank, nClassA, nClassB, nBinding int
}

// variant selects between readings the specifications leave open.
type variant struct {
	startRight   bool // side of the first page
	leadingBlank bool // a blank page before the first block
	sideMode     int  // 0 edge order, 1 tree order for conflicting side values on one chain
	// lenientTop: the closing padding/border of a wrapper whose fragment starts at the top
	// of the page is not required to fit (what the implementation does; used only to
	// compute the feature tag that isolates those cases, never accepted)
	lenientTop bool
	// avoidUnit: a break-inside:avoid wrapper that contains a forced break and does not fit
	// in the rest of the page is treated as one unit (moved to the next page) although it
	// has to be broken anyway
	avoidUnit bool
}

// avoidBoxStart: first line of the outermost break-inside:avoid wrapper that contains both
// line g-1 and line g (-1 if none).
func (f *flow) avoidBoxStart(g int) (start, last int) {
	a, b := f.paras[f.lines[g-1].p], f.paras[f.lines[g].p]
	for k := 0; k < len(a.path) && k < len(b.path) && a.path[k] == b.path[k]; k++ {
		w := a.path[k]
		if w.inside != "avoid" {
			continue
		}
		start, last = -1, -1
		for _, p := range f.paras {
			if k < len(p.path) && p.path[k] == w {
				if start < 0 {
					start = p.first
				}
				last = p.first + p.n.lines - 1
			}
		}
		return start, last
	}
	return -1, -1
}

// closingWrapperDeco: bottom decorations, closing right after line g, of wrappers that
// contain line pos.
func (f *flow) closingWrapperDeco(pos, g int) float64 {
	P, L := f.paras[f.lines[pos].p], f.paras[f.lines[g].p]
	if f.lines[g].i != L.n.lines-1 {
		return 0
	}
	c := 0
	if f.lines[g].p+1 < len(f.paras) {
		nx := f.paras[f.lines[g].p+1].path
		for c < len(L.path) && c < len(nx) && L.path[c] == nx[c] {
			c++
		}
	}
	v := 0.0
	for k := c; k < len(L.path)-1; k++ { // wrappers only
		if k < len(P.path)-1 && P.path[k] == L.path[k] {
			v += deco(L.path[k], false)
		}
	}
	return v
}

func (f *flow) cumAfter(pos int) []float64 {
	c := make([]float64, len(f.lines))
	sum := 0.0
	for g := pos; g < len(f.lines); g++ {
		sum += f.pre[g] + lineH + f.post[g]
		c[g] = sum
	}
	return c
}

// legal says whether an unforced break between line g and g+1 is allowed on a page that
// starts at line pos. strictMiddle reports a middle fragment shorter than widows.
func (f *flow) legal(g, pos int) (ok bool, strictMiddle bool) {
	a, b := f.lines[g], f.lines[g+1]
	if a.p == b.p {
		P := f.paras[a.p]
		if P.insideAvoid {
			return false, false
		}
		start := P.first
		cont := false
		if pos > start {
			start, cont = pos, true
		}
		on := g - start + 1
		if on < P.orph {
			return false, false
		}
		if P.n.lines-(a.i+1) < P.wid {
			return false, false
		}
		return true, cont && on < P.wid
	}
	ca := f.a[a.p]
	return !ca.avoid && !ca.inAvoid, false
}

func (f *flow) paginate(H float64, v variant) mresult {
	var r mresult
	N := len(f.lines)
	pos := 0
	right := v.startRight
	pending := ""
	if v.leadingBlank {
		r.pages = append(r.pages, mpage{blank: true, right: right})
		right = !right
	}
	for pos < N {
		if pending != "" && (pending == "right") != right {
			r.pages = append(r.pages, mpage{blank: true, right: right, next: f.paras[f.lines[pos].p].page})
			r.nBlank++
			right = !right
		}
		F := N
		for g := pos + 1; g < N; g++ {
			if f.lines[g].i == 0 && f.a[f.lines[g].p-1].forced {
				F = g
				break
			}
		}
		cum := f.cumAfter(pos)
		if v.lenientTop {
			for g := pos; g < F; g++ {
				cum[g] -= f.closingWrapperDeco(pos, g)
			}
		}
		e := -1
		limit := F
		if v.avoidUnit && F < N && cum[F-1] <= H+eps {
			if ws, wl := f.avoidBoxStart(F); ws > pos && cum[wl] > H+eps {
				limit = ws
			}
		}
		if limit == F && cum[F-1] <= H+eps {
			e = F
		} else {
			sawFit := false
			// candidates: a break after line g; the point before line F itself is the forced
			// one, the point before the avoid wrapper (limit < F) is an ordinary candidate
			top := F - 2
			if limit < F {
				top = limit - 1
			}
			for g := top; g >= pos; g-- {
				if cum[g] > H+eps {
					continue
				}
				ok, strict := f.legal(g, pos)
				if ok {
					if strict {
						// a fragment after a break with fewer lines than widows: no
						// conforming break under the strict reading -> undecidable
						r.stuck = true
						return r
					}
					e = g + 1
					if sawFit {
						r.nBinding++
					}
					break
				}
				sawFit = true
			}
			if e == -1 {
				r.stuck = true
				return r
			}
			if f.lines[e-1].p == f.lines[e].p {
				r.nClassB++
			} else {
				r.nClassA++
			}
		}
		pg := mpage{right: right, name: f.paras[f.lines[pos].p].page, s: pos, e: e}
		y := 0.0
		for g := pos; g < e; g++ {
			pg.ys = append(pg.ys, y+f.pre[g])
			y += f.pre[g] + lineH + f.post[g]
		}
		r.pages = append(r.pages, pg)
		pending = ""
		if e == F && F < N {
			r.nForced++
			pending = f.a[f.lines[F].p-1].sides[v.sideMode]
		}
		pos = e
		right = !right
	}
	return r
}

// variants lists the readings to accept for this flow: the first is the primary one.
func (f *flow) variants() []variant {
	vs := []variant{{startRight: true}}
	ambiguous := false
	for _, ca := range f.a {
		if ca.forced && ca.sides[0] != ca.sides[1] {
			ambiguous = true
		}
	}
	if s := f.firstSide[0]; s != "" {
		// a side-forcing break-before on the first block propagates to the root: whether it
		// is ignored, selects the side of the first page, or inserts a blank page is open
		if s == "left" {
			vs = append(vs, variant{startRight: false}, variant{startRight: true, leadingBlank: true})
		}
	}
	for _, ca := range f.a {
		if ca.forced && ca.inAvoid {
			n := len(vs)
			for i := 0; i < n; i++ {
				w := vs[i]
				w.avoidUnit = true
				vs = append(vs, w)
			}
			break
		}
	}
	if ambiguous {
		n := len(vs)
		for i := 0; i < n; i++ {
			w := vs[i]
			w.sideMode = 1
			vs = append(vs, w)
		}
	}
	return vs
}

func (r *mresult) String(f *flow) string {
	var sb strings.Builder
	for i, p := range r.pages {
		if i > 0 {
			sb.WriteString(" | ")
		}
		side := "L"
		if p.right {
			side = "R"
		}
		sb.WriteString(side)
		if p.blank {
			sb.WriteString(" blank")
			continue
		}
		if p.name != "" {
			sb.WriteString("(" + p.name + ")")
		}
		for g := p.s; g < p.e; g++ {
			fmt.Fprintf(&sb, " %s@%g", lineLabel(f.lines[g].p, f.lines[g].i), p.ys[g-p.s])
		}
	}
	if r.stuck {
		sb.WriteString(" | STUCK")
	}
	return sb.String()
}
