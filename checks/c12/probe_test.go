package c12

import (
	"fmt"
	"os"
	"strings"
	"testing"

	bo "github.com/benoitkugler/webrender/html/boxes"

	"verif/internal/render"
)

func dump(b bo.Box, depth int, sb *strings.Builder) {
	f := b.Box()
	name := fmt.Sprintf("%T", b)
	el := ""
	if f.Element != nil {
		el = f.Element.Data
	}
	txt := ""
	if tb, ok := b.(*bo.TextBox); ok {
		txt = " text=" + tb.TextS()
	}
	if mb, ok := b.(*bo.MarginBox); ok {
		txt += " at=" + mb.AtKeyword
	}
	fmt.Fprintf(sb, "%s%s <%s> x=%v y=%v w=%v h=%v m=[%v %v %v %v] p=[%v %v] b=[%v %v]%s\n", strings.Repeat("  ", depth), name, el,
		f.PositionX, f.PositionY, f.Width, f.Height, f.MarginTop, f.MarginRight, f.MarginBottom, f.MarginLeft, f.PaddingTop, f.PaddingBottom, f.BorderTopWidth, f.BorderBottomWidth, txt)
	for _, c := range f.Children {
		dump(c, depth+1, sb)
	}
}

func TestProbe(t *testing.T) {
	src := os.Getenv("PROBE")
	if src == "" {
		t.Skip()
	}
	if strings.HasPrefix(src, "@") {
		b, _ := os.ReadFile(src[1:])
		src = string(b)
	}
	pages, err := render.Layout(render.Options{HTML: src, PageBound: 50})
	if err != nil {
		t.Fatal(err)
	}
	var sb strings.Builder
	for i, p := range pages {
		fmt.Fprintf(&sb, "== page %d type=%+v\n", i, p.PageType)
		dump(p, 0, &sb)
	}
	fmt.Println(sb.String())
}
