package c12

import (
	"fmt"
	"strings"
)

// ---- reference @page matching and cascade (css-page-3 §5: page selectors, specificity;
// CSS Cascade: importance, specificity, order) -------------------------------------------------

type psel struct {
	name         string
	first, blank bool
	side         string
	hasNth       bool
	a, b         int
}

type pdecl struct {
	// size | margin-top | margin-right | margin-bottom | margin-left | border-<side> (the shorthand
	// "border-<side>: Npx solid": width and style always travel together, so the winner of the width
	// is the winner of the style) | padding-<side>
	prop      string
	v, v2     float64
	important bool
}

type prule struct {
	text  string
	sels  []psel
	decls []pdecl
}

type ptype struct {
	index        int // 0 based
	first, blank bool
	side, name   string
}

func (s psel) matches(t ptype) bool {
	if s.name != "" && s.name != t.name {
		return false
	}
	if s.first && !t.first {
		return false
	}
	if s.blank && !t.blank {
		return false
	}
	if s.side != "" && s.side != t.side {
		return false
	}
	if s.hasNth {
		// An+B over the 1-based page number: "there is an n >= 0 with a*n + b = number", by search
		// (no division: the signs of / and % are what the implementation can get wrong)
		number, hit := t.index+1, false
		for n := 0; n <= number+maxAbs(s.b) && !hit; n++ {
			hit = s.a*n+s.b == number
		}
		if !hit {
			return false
		}
	}
	return true
}

func maxAbs(v int) int {
	if v < 0 {
		return -v
	}
	return v
}

// spec: (f, g, h) = (named page, :first/:blank, :left/:right). The specificity of :nth() is
// not defined by any specification (csswg-drafts #3524): nthG is the reading under test.
func (s psel) spec(nthG int) [3]int {
	var x [3]int
	if s.name != "" {
		x[0]++
	}
	if s.first {
		x[1]++
	}
	if s.blank {
		x[1]++
	}
	if s.hasNth {
		x[1] += nthG
	}
	if s.side != "" {
		x[2]++
	}
	return x
}

func specLess(a, b [3]int) bool {
	for i := 0; i < 3; i++ {
		if a[i] != b[i] {
			return a[i] < b[i]
		}
	}
	return false
}

type pgeom struct {
	w, h           float64 // size
	mt, mr, mb, ml float64
	deco           pageDeco // borders and paddings
}

// cascadePage computes the declared geometry of a page of type t under the rule list.
func cascadePage(rules []prule, t ptype, nthG int) pgeom {
	type win struct {
		has  bool
		imp  bool
		spec [3]int
		d    pdecl
	}
	best := map[string]*win{}
	for _, r := range rules {
		for _, s := range r.sels {
			if !s.matches(t) {
				continue
			}
			sp := s.spec(nthG)
			for _, d := range r.decls {
				w := best[d.prop]
				if w == nil {
					w = &win{}
					best[d.prop] = w
				}
				better := !w.has
				if w.has {
					switch {
					case d.important != w.imp:
						better = d.important
					case sp != w.spec:
						better = specLess(w.spec, sp)
					default:
						better = true // later in order
					}
				}
				if better {
					*w = win{true, d.important, sp, d}
				}
			}
		}
	}
	var g pgeom
	get := func(p string) float64 {
		if w := best[p]; w != nil {
			return w.d.v
		}
		return 0
	}
	if w := best["size"]; w != nil {
		g.w, g.h = w.d.v, w.d.v2
	}
	g.mt, g.mr, g.mb, g.ml = get("margin-top"), get("margin-right"), get("margin-bottom"), get("margin-left")
	g.deco = pageDeco{
		bt: get("border-top"), br: get("border-right"), bb: get("border-bottom"), bl: get("border-left"),
		pt: get("padding-top"), pr: get("padding-right"), pb: get("padding-bottom"), pl: get("padding-left"),
	}
	return g
}

func margin4(v float64, imp bool) []pdecl {
	return []pdecl{{"margin-top", v, 0, imp}, {"margin-right", v, 0, imp}, {"margin-bottom", v, 0, imp}, {"margin-left", v, 0, imp}}
}

var baseRule = prule{text: "@page{size:100px 60px;margin:5px}", sels: []psel{{}},
	decls: append([]pdecl{{"size", 100, 60, false}}, margin4(5, false)...)}

var ruleMenu = []prule{
	{"@page :first{margin-top:10px}", []psel{{first: true}}, []pdecl{{"margin-top", 10, 0, false}}},
	// the three rules below also carry one-sided borders/paddings (top != bottom, left != right):
	// :left and n compete on border-top on the left pages named n
	{"@page :left{margin-left:20px;border-top:4px solid;padding-bottom:2px}", []psel{{side: "left"}}, []pdecl{{"margin-left", 20, 0, false}, {"border-top", 4, 0, false}, {"padding-bottom", 2, 0, false}}},
	{"@page :right{margin-left:2px;border-left:3px solid;padding-right:1px}", []psel{{side: "right"}}, []pdecl{{"margin-left", 2, 0, false}, {"border-left", 3, 0, false}, {"padding-right", 1, 0, false}}},
	{"@page :blank{margin:1px}", []psel{{blank: true}}, margin4(1, false)},
	{"@page n{size:80px 70px;margin-top:7px;border-top:1px solid;border-bottom:3px solid}", []psel{{name: "n"}}, []pdecl{{"size", 80, 70, false}, {"margin-top", 7, 0, false}, {"border-top", 1, 0, false}, {"border-bottom", 3, 0, false}}},
	{"@page n:first{margin-top:3px;margin-left:4px}", []psel{{name: "n", first: true}}, []pdecl{{"margin-top", 3, 0, false}, {"margin-left", 4, 0, false}}},
	{"@page :nth(2){margin-top:8px;margin-bottom:9px}", []psel{{hasNth: true, a: 0, b: 2}}, []pdecl{{"margin-top", 8, 0, false}, {"margin-bottom", 9, 0, false}}},
	{"@page :nth(2n+1){margin-left:9px}", []psel{{hasNth: true, a: 2, b: 1}}, []pdecl{{"margin-left", 9, 0, false}}},
	{"@page :left{margin-left:6px;margin-top:6px}", []psel{{side: "left"}}, []pdecl{{"margin-left", 6, 0, false}, {"margin-top", 6, 0, false}}},
	{"@page{margin-top:11px !important;margin-left:12px}", []psel{{}}, []pdecl{{"margin-top", 11, 0, true}, {"margin-left", 12, 0, false}}},
	{"@page :first:right{margin-top:12px;size:90px 65px}", []psel{{first: true, side: "right"}}, []pdecl{{"margin-top", 12, 0, false}, {"size", 90, 65, false}}},
	{"@page n, :blank{margin-bottom:14px;margin-left:13px}", []psel{{name: "n"}, {blank: true}}, []pdecl{{"margin-bottom", 14, 0, false}, {"margin-left", 13, 0, false}}},
	{"@page n:left{margin-left:16px !important}", []psel{{name: "n", side: "left"}}, []pdecl{{"margin-left", 16, 0, true}}},
}

// docs of family (i): flows whose pages are all produced by forced breaks (every page holds
// at most two lines, which fit in every geometry of the menu).
var cascadeDocs = []string{
	`1`,
	`1,1 #1.before=page`,
	`1,1,1,1,1 #1.before=page #2.before=page #3.before=page #4.before=page`,
	`1,1,1,1 #1.page=n #2.page=n`,
	`1,1,1 #1.before=right #2.before=left`,
	`1,1 #0.page=n #1.page=n #1.before=page`,
	`1,1,1 #0.page=n #1.page=m #2.page=n`,
	`1,1,1 #1.page=n #1.before=right #2.page=n #2.before=verso`,
	`1,1,1 #0.after=left #1.page=n #2.page=n #2.before=recto`,
	`[1,1],1 #0.page=n #2.before=page #3.page=m`,
}

func parseDoc(spec string) (*shape, []choice) {
	fs := strings.Fields(spec)
	s := parseShape(fs[0])
	var cs []choice
	for _, f := range fs[1:] {
		var c choice
		f = strings.TrimPrefix(f, "#")
		dot := strings.Index(f, ".")
		eq := strings.Index(f, "=")
		fmt.Sscanf(f[:dot], "%d", &c.node)
		c.slot, c.value = f[dot+1:eq], f[eq+1:]
		cs = append(cs, c)
		s.apply(c)
	}
	return s, cs
}

// sequences of distinct menu indices of length <= maxLen, shortest first.
func ruleSequences(n, maxLen int) [][]int {
	out := [][]int{{}}
	var rec func(cur []int, l int)
	for l := 1; l <= maxLen; l++ {
		rec = func(cur []int, l int) {
			if len(cur) == l {
				out = append(out, append([]int(nil), cur...))
				return
			}
			for i := 0; i < n; i++ {
				dup := false
				for _, c := range cur {
					if c == i {
						dup = true
					}
				}
				if !dup {
					rec(append(cur, i), l)
				}
			}
		}
		rec(nil, l)
	}
	return out
}

// ---- reference page box dimensions (css-page-3 §"page box model": computed like a
// non-replaced block in normal flow in both axes; over-constrained values are kept) -----------

// axis values: NaN-free encoding with auto flags
type axisIn struct {
	cb             float64 // page size in this axis
	inner          float64
	innerAuto      bool
	mA, mB         float64
	mAAuto, mBAuto bool
	padA, padB     float64
	bordA, bordB   float64
	maxInner       float64 // <0: none
	minInner       float64
}

// deco: padding + border of the axis, both sides.
func (in axisIn) deco() float64 { return in.padA + in.padB + in.bordA + in.bordB }

func solveAxis(in axisIn) (inner, mA, mB float64) {
	solve := func(inner float64, innerAuto bool) (float64, float64, float64) {
		mA, mB := in.mA, in.mB
		rem := in.cb - in.deco()
		switch {
		case innerAuto:
			if in.mAAuto {
				mA = 0
			}
			if in.mBAuto {
				mB = 0
			}
			inner = rem - mA - mB
		case in.mAAuto && in.mBAuto:
			mA = (rem - inner) / 2
			mB = mA
		case in.mAAuto:
			mA = rem - inner - mB
		case in.mBAuto:
			mB = rem - inner - mA
		}
		return inner, mA, mB
	}
	inner, mA, mB = solve(in.inner, in.innerAuto)
	if in.maxInner >= 0 && inner > in.maxInner {
		inner, mA, mB = solve(in.maxInner, false)
	}
	if inner < in.minInner {
		inner, mA, mB = solve(in.minInner, false)
	}
	return
}
