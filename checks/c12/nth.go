package c12

import (
	"fmt"
)

// ---- second generation of family (i): the :nth(An+B) page selector ---------------------------
//
// The first generation menu holds two :nth() rules (a = 0 and a = 2, b > 0). pageTypeMatch
// (html/tree/style.go) decides "there is an n >= 0 with a*n + b = page number" with a division and a
// remainder whose signs depend on the signs of a and of the offset: one symbol per sign of a
// (negative, zero, positive; |a| = 1 and > 1) and per position of b (below the first page, zero,
// the first page, inside the document, the last pages), on documents of 7 and 8 pages so that
// "the first three pages" / "every page from the fifth" / "pages 5, 3, 1" are all distinguishable.
// Every :nth rule is explored alone and before/after every rule of the first generation menu
// (thorough: with every other :nth rule, and in every position of every ordered pair of first
// generation rules).

var nthSteps = []int{-2, -1, 0, 1, 2, 3}
var nthOffsets = []int{-1, 0, 1, 2, 3, 5, 6}

// nthSpelling is the canonical text of An+B.
func nthSpelling(a, b int) string {
	if a == 0 {
		return fmt.Sprint(b)
	}
	var s string
	switch a {
	case 1:
		s = "n"
	case -1:
		s = "-n"
	default:
		s = fmt.Sprintf("%dn", a)
	}
	switch {
	case b > 0:
		s += fmt.Sprintf("+%d", b)
	case b < 0:
		s += fmt.Sprint(b)
	}
	return s
}

func nthRule(k int, spelling string, a, b int) prule {
	// margin-top competes with :first / :left / n / :nth(2) / !important of the first generation;
	// margin-right is declared by no other rule but :blank{margin:1px}: it shows the set of matched
	// pages directly. The values depend on the rule so that two :nth rules can be told apart.
	mt, mr := float64(13+k%4), float64(15+k%3)
	return prule{
		text:  fmt.Sprintf("@page :nth(%s){margin-top:%gpx;margin-right:%gpx}", spelling, mt, mr),
		sels:  []psel{{hasNth: true, a: a, b: b}},
		decls: []pdecl{{"margin-top", mt, 0, false}, {"margin-right", mr, 0, false}},
	}
}

func buildNthMenu() []prule {
	var out []prule
	for _, a := range nthSteps {
		for _, b := range nthOffsets {
			out = append(out, nthRule(len(out), nthSpelling(a, b), a, b))
		}
	}
	// other spellings of the same values
	out = append(out, nthRule(len(out), "even", 2, 0))
	out = append(out, nthRule(len(out), "odd", 2, 1))
	out = append(out, nthRule(len(out), "0n+3", 0, 3))
	out = append(out, nthRule(len(out), "-n + 3", -1, 3))
	return out
}

var nthMenu = buildNthMenu()

// fullMenu: the first generation menu, then the :nth menu. Rule sequences are index lists into it.
var fullMenu = append(append([]prule(nil), ruleMenu...), nthMenu...)

// documents of 7 and 8 pages, all made by forced breaks: plain; with two blank pages, a first
// page and two pages named n at the end (no change back to the default page: known defect).
var nthDocs = []string{
	`1,1,1,1,1,1,1 #1.before=page #2.before=page #3.before=page #4.before=page #5.before=page #6.before=page`,
	`1,1,1,1,1,1 #1.before=right #2.before=page #3.before=left #4.page=n #5.page=n #5.before=page`,
}

// nthSequences: simplest first. x = a :nth rule, r = a first generation rule.
//
//	quick:    [x]; [x r], [r x]
//	thorough: + [x y] for every ordered pair of distinct :nth rules;
//	          + [x r s], [r x s], [r s x] for every ordered pair of distinct first generation rules.
func nthSequences(thorough bool) [][]int {
	base := len(ruleMenu)
	var out [][]int
	for x := range nthMenu {
		out = append(out, []int{base + x})
	}
	for x := range nthMenu {
		for r := 0; r < base; r++ {
			out = append(out, []int{base + x, r}, []int{r, base + x})
		}
	}
	if !thorough {
		return out
	}
	for x := range nthMenu {
		for y := range nthMenu {
			if x != y {
				out = append(out, []int{base + x, base + y})
			}
		}
	}
	for x := range nthMenu {
		for r := 0; r < base; r++ {
			for s := 0; s < base; s++ {
				if r != s {
					out = append(out, []int{base + x, r, s}, []int{r, base + x, s}, []int{r, s, base + x})
				}
			}
		}
	}
	return out
}

// nthFeatures: tags of the :nth selectors of a rule (from the input alone).
func nthFeatures(r prule, set map[string]bool) {
	for _, sl := range r.sels {
		if !sl.hasNth {
			continue
		}
		switch {
		case sl.a < 0:
			set["nth-negative-step"] = true
		case sl.a == 0:
			set["nth-zero-step"] = true
		default:
			set["nth-positive-step"] = true
		}
		if sl.b <= 0 {
			set["nth-offset-not-positive"] = true
		}
		if sl.a == 0 && sl.b == 0 {
			set["nth-zero-step-zero-offset"] = true // :nth(0): the value the implementation uses for "no :nth()"
		}
	}
}
