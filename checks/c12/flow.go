package c12

import (
	"fmt"
	"sort"
	"strings"
)

// ---- the flow grammar of family (ii)/(iii) ---------------------------------------------------
//
// A flow is the content of <body>: a list of items, each a paragraph <p> of k one-word lines
// (every word is 2 Ahem glyphs = the page width, so every word is its own 10px line) or a
// wrapper <div> holding items (nesting depth <= 2 below body). Every box has margin 0.
// A shape fixes the structure and the line counts; the per-box attributes are the deviation
// slots.

type node struct {
	para  bool
	lines int     // paragraphs
	kids  []*node // wrappers
	id    int     // pre-order index in the shape

	// deviation slots ("" / 0 / false = default)
	before, after string // break-before / break-after
	inside        string // break-inside
	orphans       int
	widows        int
	pad, border   bool   // 3px top and bottom
	page          string // page: <name>
	creset        bool   // counter-reset: page 5
}

type shape struct {
	items []*node
	spec  string
	pdeco string // page-level deviation: key of pageDecos ("" = the page box has no border/padding)
}

// parseShape reads e.g. "3,2" (two paragraphs), "[2,2],3" (a wrapper with two paragraphs
// then a paragraph), "[[2]],1".
func parseShape(spec string) *shape {
	pos := 0
	var parseList func(close byte) []*node
	parseList = func(close byte) []*node {
		var out []*node
		for pos < len(spec) {
			c := spec[pos]
			switch {
			case c == close:
				pos++
				return out
			case c == ',':
				pos++
			case c == '[':
				pos++
				n := &node{}
				n.kids = parseList(']')
				out = append(out, n)
			case c >= '1' && c <= '9':
				out = append(out, &node{para: true, lines: int(c - '0')})
				pos++
			default:
				panic("c12: bad shape " + spec)
			}
		}
		return out
	}
	s := &shape{items: parseList(0), spec: spec}
	id := 0
	var number func(l []*node)
	number = func(l []*node) {
		for _, n := range l {
			n.id = id
			id++
			number(n.kids)
		}
	}
	number(s.items)
	return s
}

func (s *shape) nodes() []*node {
	var out []*node
	var walk func(l []*node)
	walk = func(l []*node) {
		for _, n := range l {
			out = append(out, n)
			walk(n.kids)
		}
	}
	walk(s.items)
	return out
}

func (s *shape) reset() {
	s.pdeco = ""
	for _, n := range s.nodes() {
		*n = node{para: n.para, lines: n.lines, kids: n.kids, id: n.id}
	}
}

// choice is one non-default value in one slot of one node.
type choice struct {
	node  int
	slot  string
	value string
}

func (c choice) String() string {
	if c.node < 0 {
		return fmt.Sprintf("@page.%s=%s", c.slot, c.value)
	}
	return fmt.Sprintf("#%d.%s=%s", c.node, c.slot, c.value)
}

// ---- page-level deviations: border and padding of the PAGE box ------------------------------
//
// The sheet grows by the decoration so that the page content box stays pageW x H: the reference
// pagination is unchanged, and the declared geometry is: margin box = sheet, content box = sheet
// - margins - borders - paddings on each side. One symbol per operand of the sums in
// newVerticalBox / newHorizontalBox (pages.go), every one alone (the other side 0), then mixed,
// all different on the four sides, and the symmetric one (the only kind the test-suite has).

type pageDeco struct {
	bt, br, bb, bl float64 // border widths
	pt, pr, pb, pl float64 // paddings
}

func (d pageDeco) vert() float64    { return d.bt + d.bb + d.pt + d.pb }
func (d pageDeco) horiz() float64   { return d.bl + d.br + d.pl + d.pr }
func (d pageDeco) hasBorder() bool  { return d.bt+d.br+d.bb+d.bl > 0 }
func (d pageDeco) hasPadding() bool { return d.pt+d.pr+d.pb+d.pl > 0 }
func (d pageDeco) asymmetric() bool {
	return d.bt != d.bb || d.bl != d.br || d.pt != d.pb || d.pl != d.pr
}

// css renders the declarations side by side, the way a header/footer rule is written:
// untouched sides keep border-style none.
func (d pageDeco) css() string {
	var sb strings.Builder
	side := func(prop string, v float64, suffix string) {
		if v != 0 {
			fmt.Fprintf(&sb, "%s:%gpx%s;", prop, v, suffix)
		}
	}
	side("border-top", d.bt, " solid")
	side("border-right", d.br, " solid")
	side("border-bottom", d.bb, " solid")
	side("border-left", d.bl, " solid")
	side("padding-top", d.pt, "")
	side("padding-right", d.pr, "")
	side("padding-bottom", d.pb, "")
	side("padding-left", d.pl, "")
	return sb.String()
}

var pageDecos = map[string]pageDeco{
	"border-top":            {bt: 6},
	"border-bottom":         {bb: 6},
	"padding-top":           {pt: 4},
	"padding-bottom":        {pb: 4},
	"border-top+pad-bottom": {bt: 6, pb: 4},
	"border-bottom+pad-top": {bb: 6, pt: 4},
	"border-left+pad-right": {bl: 5, pr: 3},
	"border-right+pad-left": {br: 5, pl: 3},
	"all-different":         {bt: 1, br: 2, bb: 3, bl: 4, pt: 4, pr: 3, pb: 2, pl: 1},
	"symmetric":             {bt: 3, br: 3, bb: 3, bl: 3, pt: 2, pr: 2, pb: 2, pl: 2},
}

// the menus, simplest first. Level 1 (every shape, presets): all; deeper levels: the two mixed
// vertical ones (each holds a border and a padding, on opposite sides, and they mirror each other).
var pageDecoAll = []string{"border-top", "border-bottom", "padding-top", "padding-bottom",
	"border-top+pad-bottom", "border-bottom+pad-top", "border-left+pad-right", "border-right+pad-left",
	"all-different", "symmetric"}
var pageDecoDeep = []string{"border-top+pad-bottom", "border-bottom+pad-top"}
var pageDecoDeepThorough = []string{"border-top", "border-bottom", "border-top+pad-bottom", "border-bottom+pad-top"}

func pageChoices(level int, thorough bool) []choice {
	names := pageDecoAll
	switch {
	case level == 2 && thorough:
		names = pageDecoDeepThorough
	case level >= 2:
		names = pageDecoDeep
	}
	var out []choice
	for _, n := range names {
		out = append(out, choice{-1, "deco", n})
	}
	return out
}

// menuFor is the deviation menu of a shape at a level: the per-box menu, then the page-level one.
func menuFor(s *shape, thorough bool, level int) []choice {
	return append(choicesFor(s, thorough), pageChoices(level, thorough)...)
}

var breakValues = []string{"avoid", "page", "left", "right", "recto", "verso"}

// choicesFor lists the deviation menu of a shape (simplest slots first inside each node).
func choicesFor(s *shape, thorough bool) []choice {
	var out []choice
	for _, n := range s.nodes() {
		for _, v := range breakValues {
			out = append(out, choice{n.id, "before", v})
		}
		for _, v := range breakValues {
			out = append(out, choice{n.id, "after", v})
		}
		out = append(out, choice{n.id, "inside", "avoid"})
		out = append(out, choice{n.id, "orphans", "2"}, choice{n.id, "orphans", "3"})
		out = append(out, choice{n.id, "widows", "2"}, choice{n.id, "widows", "3"})
		out = append(out, choice{n.id, "pad", "3px"}, choice{n.id, "border", "3px"})
		out = append(out, choice{n.id, "page", "n"}, choice{n.id, "page", "m"})
		out = append(out, choice{n.id, "creset", "page 5"})
	}
	return out
}

func (s *shape) apply(c choice) {
	if c.node < 0 {
		if _, ok := pageDecos[c.value]; !ok || c.slot != "deco" {
			panic("c12: bad page-level choice " + c.String())
		}
		s.pdeco = c.value
		return
	}
	n := s.nodes()[c.node]
	switch c.slot {
	case "before":
		n.before = c.value
	case "after":
		n.after = c.value
	case "inside":
		n.inside = c.value
	case "orphans":
		n.orphans = int(c.value[0] - '0')
	case "widows":
		n.widows = int(c.value[0] - '0')
	case "pad":
		n.pad = true
	case "border":
		n.border = true
	case "page":
		n.page = c.value
	case "creset":
		n.creset = true
	}
}

func (n *node) styleAttr() string {
	var d []string
	if n.before != "" {
		d = append(d, "break-before:"+n.before)
	}
	if n.after != "" {
		d = append(d, "break-after:"+n.after)
	}
	if n.inside != "" {
		d = append(d, "break-inside:"+n.inside)
	}
	if n.orphans != 0 {
		d = append(d, fmt.Sprintf("orphans:%d", n.orphans))
	}
	if n.widows != 0 {
		d = append(d, fmt.Sprintf("widows:%d", n.widows))
	}
	if n.pad {
		d = append(d, "padding:3px 0")
	}
	if n.border {
		d = append(d, "border-style:solid;border-width:3px 0")
	}
	if n.page != "" {
		d = append(d, "page:"+n.page)
	}
	if n.creset {
		d = append(d, "counter-reset:page 5")
	}
	if len(d) == 0 {
		return ""
	}
	return ` style="` + strings.Join(d, ";") + `"`
}

// lineLabel is the text of line i of paragraph p (distinct for every line of a flow).
func lineLabel(p, i int) string { return string([]byte{byte('a' + p), byte('0' + i)}) }

// body renders the flow as HTML.
func (s *shape) body() string {
	var sb strings.Builder
	p := 0
	var walk func(l []*node)
	walk = func(l []*node) {
		for _, n := range l {
			if n.para {
				sb.WriteString("<p" + n.styleAttr() + ">")
				for i := 0; i < n.lines; i++ {
					if i > 0 {
						sb.WriteByte(' ')
					}
					sb.WriteString(lineLabel(p, i))
				}
				sb.WriteString("</p>")
				p++
			} else {
				sb.WriteString("<div" + n.styleAttr() + ">")
				walk(n.kids)
				sb.WriteString("</div>")
			}
		}
	}
	walk(s.items)
	return sb.String()
}

const pageW = 20  // px: two Ahem glyphs
const pageWm = 30 // px: width of the pages named m

// flowPrelude is the style sheet of family (ii): page content box pageW x h px below a 10px top
// margin that holds the counter margin box.
func flowPrelude(h int, atKeyword string, extra string) string {
	return flowPreludeDeco(h, atKeyword, extra, pageDeco{})
}

// flowPreludeDeco: the same with a border/padding on the page box; the sheet grows by the
// decoration (the content box stays pageW x h).
func flowPreludeDeco(h int, atKeyword string, extra string, d pageDeco) string {
	// pages named m are 10px wider (the one-word lines break the same way): the width of every
	// page must be the one its name selects
	sh := float64(h+10) + d.vert()
	return fmt.Sprintf(`<style>@page{size:%gpx %gpx;margin:10px 0 0 0;%s%s{content:counter(page) "/" counter(pages)}}@page m{size:%gpx %gpx}`+
		`html,body{margin:0;font-family:ahem;font-size:10px;line-height:1;orphans:1;widows:1}p,div{margin:0}%s</style>`,
		pageW+d.horiz(), sh, d.css(), atKeyword, pageWm+d.horiz(), sh, extra)
}

func sortedKeys(m map[string]bool) []string {
	out := make([]string, 0, len(m))
	for k := range m {
		out = append(out, k)
	}
	sort.Strings(out)
	return out
}
