// Package c15: rendering is deterministic and renders do not interfere.
//
// Four families of units:
//
//	hist  every sequence of renders (documents of D) of length L in ONE fresh process: every
//	      render's trace must equal the trace of that document rendered alone in a fresh process;
//	e2    every single deviation (thorough: pairs) of the runtime's map iteration order: the trace
//	      must equal the baseline (needs the runtime overlay, tag verifrt);
//	e3    every interleaving with ≤ B preemptions of N concurrent renders under the cooperative
//	      scheduler: each render's trace must equal its solo trace; no deadlock (tag verifrt);
//	race  free-running concurrent renders in a -race build: no data race report with a repo frame.
package c15

import (
	"crypto/sha1"
	"encoding/json"
	"fmt"
	"os"
	"os/exec"
	"strconv"
	"strings"

	"verif/internal/engine"
	"verif/internal/maporder"
)

type golden struct {
	Hash  []string  `json:"hash"`  // per document: sha1 of the trace in a fresh process
	Iters []int     `json:"iters"` // per document: number of controlled map iterations
	B     [][]uint8 `json:"b"`     // per document, per iteration: log2(#buckets)
}

type e2unit struct {
	doc   int
	i, j  int  // j = -1: single deviation
	fresh bool // run in a fresh child process (covers the iterations of one-time lazy initialisation)
}

// warmRec is the iteration record of a document rendered in THIS worker process after a
// warm-up render (iteration ordinals differ from a fresh process, which also runs lazy
// initialisation code).
type warmRec struct {
	n int
	b []uint8
}

type e3unit struct {
	scen  int
	shard int
}

type check struct {
	docs   []doc
	gold   golden
	tier   string
	histL  int
	nHist  int64
	e2     []e2unit
	e3     []e3unit
	race   []int
	solo   map[int]string // per worker: solo trace hash computed in this process
	warm   map[int]*warmRec
	e3info string
}

const e3Shards = 8

func init() {
	c := &check{}
	engine.Register(c)
	engine.Commands["c15child"] = c.child
}

func (c *check) ID() string { return "C15" }

func hashOf(s string) string { return fmt.Sprintf("%x", sha1.Sum([]byte(s))) }

// child: `c15child hist i,j,k` renders the sequence in this (fresh) process and prints one
// JSON line per render.
func (c *check) child(args []string) int {
	if len(args) < 2 {
		return 2
	}
	ds := docs()
	switch args[0] {
	case "hist":
		for _, f := range strings.Split(args[1], ",") {
			k, _ := strconv.Atoi(f)
			maporder.Begin(nil, nil)
			tr := renderTrace(&ds[k])
			n := maporder.Count()
			bs := make([]uint8, 0, n)
			for i := 0; i < n && i < maporder.LogLen; i++ {
				bs = append(bs, uint8(maporder.B(i)))
			}
			b, _ := json.Marshal(map[string]any{"doc": k, "hash": hashOf(tr), "iters": n, "b": bs})
			fmt.Println(string(b))
		}
		return 0
	case "e2":
		// e2 <doc> <iteration> <start>: one render in this fresh process with one deviation
		k, _ := strconv.Atoi(args[1])
		at, _ := strconv.ParseUint(args[2], 10, 64)
		val, _ := strconv.ParseUint(args[3], 10, 64)
		maporder.Begin([]uint64{at}, []uint64{val})
		tr := renderTrace(&ds[k])
		fmt.Println(hashOf(tr))
		return 0
	case "trace":
		k, _ := strconv.Atoi(args[1])
		fmt.Print(renderTrace(&ds[k]))
		return 0
	case "race":
		return raceChild(ds, args[1:])
	}
	return 2
}

type childLine struct {
	Doc   int
	Hash  string
	Iters int
	B     []uint8
}

func runChild(seq []int) ([]childLine, string, error) {
	var fs []string
	for _, k := range seq {
		fs = append(fs, strconv.Itoa(k))
	}
	cmd := exec.Command(os.Args[0], "c15child", "hist", strings.Join(fs, ","))
	cmd.Env = append(os.Environ(), "GOMAXPROCS=1", "GODEBUG=madvdontneed=0")
	var stderr strings.Builder
	cmd.Stderr = &stderr
	out, err := cmd.Output()
	var lines []childLine
	for _, l := range strings.Split(strings.TrimSpace(string(out)), "\n") {
		if l == "" {
			continue
		}
		var cl childLine
		if json.Unmarshal([]byte(l), &cl) == nil {
			lines = append(lines, cl)
		}
	}
	return lines, stderr.String(), err
}

func (c *check) loadGolden() error {
	path := os.Getenv("VERIF_C15_GOLDEN")
	if path != "" {
		b, err := os.ReadFile(path)
		if err == nil && json.Unmarshal(b, &c.gold) == nil && len(c.gold.Hash) == len(c.docs) {
			return nil
		}
	}
	// master: every document alone in a fresh process, twice (two fresh processes must agree)
	c.gold = golden{}
	for k := range c.docs {
		a, stderr, err := runChild([]int{k})
		if err != nil || len(a) != 1 {
			return fmt.Errorf("document %s cannot be rendered in a fresh process: %v %s", c.docs[k].name, err, firstLines(stderr))
		}
		b, _, err2 := runChild([]int{k})
		if err2 != nil || len(b) != 1 || a[0].Hash != b[0].Hash || a[0].Iters != b[0].Iters {
			return fmt.Errorf("FRESH-PROCESS-NONDETERMINISM document %s: two fresh processes disagree", c.docs[k].name)
		}
		c.gold.Hash = append(c.gold.Hash, a[0].Hash)
		c.gold.Iters = append(c.gold.Iters, a[0].Iters)
		c.gold.B = append(c.gold.B, a[0].B)
	}
	os.MkdirAll("/verif/.work", 0o755)
	f, err := os.CreateTemp("/verif/.work", "c15-golden-*.json")
	if err != nil {
		return err
	}
	b, _ := json.Marshal(c.gold)
	f.Write(b)
	f.Close()
	os.Setenv("VERIF_C15_GOLDEN", f.Name())
	return nil
}

func firstLines(s string) string {
	l := strings.Split(s, "\n")
	if len(l) > 6 {
		l = l[:6]
	}
	return strings.Join(l, " | ")
}

// scenarios of concurrent renders (indices into docs), chosen to collide on one piece of
// shared machinery each.
var scenarios = [][]string{
	{"d6-counter-style-AB", "d6'-counter-style-XYZ"},                                 // UA counter styles + hyphenation dictionary cache
	{"d7-img-bytes-1", "d7'-img-bytes-2"},                                            // same image URL, different bytes
	{"d8-font-face-ahem", "d8'-font-face-weasyprint"},                                // same @font-face family, different fonts
	{"d6-counter-style-AB", "d6-counter-style-AB"},                                   // identical documents (lazy initialisation raced twice)
	{"d1-anchors", "d3-strings-targets-bookmarks"},                                   // anchors / target counters
	{"d6-counter-style-AB", "d6''-counter-style-undefined"},                          // definer ∥ user of the same counter style name
	{"d7-img-bytes-1", "d7''-img-missing"},                                           // definer ∥ user of the same image URL
	{"d8'-font-face-weasyprint", "d8''-font-face-undefined"},                         // definer ∥ user of the same font family
	{"d6-counter-style-AB", "d6'-counter-style-XYZ", "d3-strings-targets-bookmarks"}, // triple (thorough)
}

func (c *check) docIndex(name string) int {
	for i, d := range c.docs {
		if d.name == name {
			return i
		}
	}
	panic("unknown doc " + name)
}

func pow(a int64, b int) int64 {
	r := int64(1)
	for i := 0; i < b; i++ {
		r *= a
	}
	return r
}

func (c *check) Init(tier string, seed int64) engine.Space {
	c.tier = tier
	c.docs = docs()
	c.solo = map[int]string{}
	c.warm = map[int]*warmRec{}
	c.histL = 2
	if tier == "thorough" {
		c.histL = 3
	}
	c.nHist = pow(int64(len(c.docs)), c.histL)
	goldErr := c.loadGolden()
	c.e2, c.e3, c.race = nil, nil, nil
	if goldErr == nil && maporder.Available {
		for d := range c.docs {
			for i := 0; i < c.gold.Iters[d]; i++ {
				c.e2 = append(c.e2, e2unit{d, i, -1, false})
			}
		}
		// fresh-process deviations: quick = d1, thorough = d1, d6, d8 (every iteration of a fresh process)
		freshDocs := []string{"d1-anchors"}
		if tier == "thorough" {
			freshDocs = []string{"d1-anchors", "d6-counter-style-AB", "d8-font-face-ahem"}
		}
		for _, name := range freshDocs {
			d := c.docIndex(name)
			for i := 0; i < c.gold.Iters[d]; i++ {
				c.e2 = append(c.e2, e2unit{d, i, -1, true})
			}
		}
		if tier == "thorough" {
			for d := 0; d < 5; d++ {
				for i := 0; i < c.gold.Iters[d]; i++ {
					for j := i + 1; j < c.gold.Iters[d]; j++ {
						c.e2 = append(c.e2, e2unit{d, i, j, false})
					}
				}
			}
		}
	}
	nscen := 8
	if tier == "thorough" {
		nscen = len(scenarios)
	}
	if e3Available {
		for s := 0; s < nscen; s++ {
			for k := 0; k < e3Shards; k++ {
				c.e3 = append(c.e3, e3unit{s, k})
			}
		}
	}
	if os.Getenv("VERIF_RACE_BIN") != "" {
		for s := 0; s < nscen; s++ {
			c.race = append(c.race, s)
		}
	}
	var names []string
	for _, d := range c.docs {
		names = append(names, d.name)
	}
	sp := engine.Space{
		Units: int64(len(c.docs)) + c.nHist + int64(len(c.e2)) + int64(len(c.e3)) + int64(len(c.race)), Chunk: 4, Level: "model_checking", CaseCPUs: 60,
		Rule: "rewrite: every document rendered once and its Document written to three fresh backends in a row, the three call sequences compared; hist: every sequence of renders of length L over the document set, each sequence in its own fresh process, every render compared with the document's fresh-process trace; e2: every map iteration (over a map with ≥ 2 entries) of every document started at every alternative position (thorough: pairs of iterations, reduced alternative set); e3: every interleaving of the concurrent renders of each scenario with at most B preemptions at the scheduling points derived from the current tree; race: free-running -race pass. A case is non-trivial when it compared a complete backend trace.",
		Bounds: map[string]any{"documents": names, "history_length": c.histL, "e2_runtime_overlay": maporder.Available, "e2_units": len(c.e2),
			"e3_instrumented": e3Available, "e3_scenarios": scenarios[:nscen], "e3_preemption_bound": e3Bound(tier), "race_pass": os.Getenv("VERIF_RACE_BIN") != "",
			"controlled_map_iterations_per_document": c.gold.Iters},
		Assumptions: []string{
			"the map model is go1.23's hmap: every start (bucket, offset) the runtime can produce is an alternative (capped at 32 per iteration for maps with more than 4 buckets)",
			"scheduling points are at statement granularity around package-level variables written outside init (found on the current tree), at the mutex shim and at phase boundaries; finer memory-model effects are left to the -race pass",
			"two renders sharing one font configuration or one *tree.HTML are outside the property",
			"hash seeds: one deterministic seed per build (other seeds need another build and are not explored)",
		},
	}
	if goldErr != nil {
		// a failure to get a stable fresh-process baseline is itself the violation; make it visible as unit 0
		c.e3info = goldErr.Error()
	}
	if tier == "quick" {
		sp.BudgetS = 150
	} else {
		sp.BudgetS = 1700
	}
	return sp
}

func (c *check) soloHash(ctx *engine.Ctx, d int) (string, bool) {
	if h, ok := c.solo[d]; ok {
		return h, true
	}
	var tr string
	if !ctx.GuardFail("solo render of "+c.docs[d].name, []string{"solo"}, func() { tr = renderTrace(&c.docs[d]) }) {
		return "", false
	}
	c.solo[d] = hashOf(tr)
	return c.solo[d], true
}

func (c *check) Run(u int64, ctx *engine.Ctx) {
	if c.e3info != "" {
		if u == 0 {
			ctx.Case(true, "golden-failed")
			ctx.Fail(engine.Failure{Clause: "fresh-process", Features: []string{"golden"}, Case: "fresh-process baseline", Detail: c.e3info})
		}
		return
	}
	fam, k := c.family(u)
	switch fam {
	case "rewrite":
		c.runRewrite(int(k), ctx)
	case "e3":
		c.runE3(c.e3[k], ctx)
	case "race":
		c.runRace(c.race[k], ctx)
	case "hist":
		c.runHist(k, ctx)
	default:
		c.runE2(c.e2[k], ctx)
	}
}

// family maps a unit index to its family and the index inside it. Order: schedules, race pass,
// histories, map order (the cheap and most structural families first).
func (c *check) family(u int64) (string, int64) {
	if u < int64(len(c.docs)) {
		return "rewrite", u
	}
	u -= int64(len(c.docs))
	if c.tier != "thorough" {
		// quick: the histories (pairs) are cheap and catch state carried from one render to the next; they come
		// before the schedule shards, which can be slow on a tree that shares more state
		if u < c.nHist {
			return "hist", u
		}
		u -= c.nHist
	}
	if u < int64(len(c.e3)) {
		return "e3", u
	}
	u -= int64(len(c.e3))
	if u < int64(len(c.race)) {
		return "race", u
	}
	u -= int64(len(c.race))
	if c.tier == "thorough" {
		if u < c.nHist {
			return "hist", u
		}
		u -= c.nHist
	}
	return "e2", u
}

func (c *check) histSeq(u int64) []int {
	n := int64(len(c.docs))
	seq := make([]int, c.histL)
	for k := c.histL - 1; k >= 0; k-- {
		seq[k] = int(u % n)
		u /= n
	}
	return seq
}

func (c *check) seqNames(seq []int) string {
	var s []string
	for _, k := range seq {
		s = append(s, c.docs[k].name)
	}
	return strings.Join(s, " → ")
}

// runRewrite: writing a rendered Document must not change it: the second and third output of the same
// Document are the same call sequence as the first.
func (c *check) runRewrite(d int, ctx *engine.Ctx) {
	desc := "rewrite " + c.docs[d].name
	var tr []string
	if !ctx.GuardFail(desc, []string{"rewrite"}, func() { tr = rewriteTraces(&c.docs[d], 3) }) {
		ctx.Case(true, "panic")
		return
	}
	ctx.Trans(int64(len(tr)))
	ctx.Case(true, hashOf(tr[0]))
	for i := 1; i < len(tr); i++ {
		if tr[i] != tr[0] {
			a, b := firstDiffLine(tr[0], tr[i])
			ctx.Fail(engine.Failure{Clause: "rewrite", Features: []string{"rewrite", "doc:" + c.docs[d].name}, Case: desc,
				Detail: fmt.Sprintf("output #%d of the same Document differs from output #1: first %q, now %q", i+1, a, b)})
			break
		}
	}
}

func firstDiffLine(a, b string) (string, string) {
	la, lb := strings.Split(a, "\n"), strings.Split(b, "\n")
	for i := 0; i < len(la) || i < len(lb); i++ {
		var x, y string
		if i < len(la) {
			x = la[i]
		}
		if i < len(lb) {
			y = lb[i]
		}
		if x != y {
			return x, y
		}
	}
	return "", ""
}

func (c *check) runHist(u int64, ctx *engine.Ctx) {
	seq := c.histSeq(u)
	desc := "history " + c.seqNames(seq)
	lines, stderr, err := runChild(seq)
	ctx.Trans(int64(len(seq)))
	if err != nil || len(lines) != len(seq) {
		ctx.Case(true, "child-failed")
		cl, site, msg := "panic", engine.SiteOf(stderr), engine.NormMsg(firstLines(stderr))
		ctx.Fail(engine.Failure{Clause: cl, Site: site, Features: []string{"hist"}, Case: desc, Detail: msg})
		return
	}
	out := ""
	for i, l := range lines {
		out += l.Hash[:8]
		if l.Hash != c.gold.Hash[seq[i]] {
			ctx.Fail(engine.Failure{Clause: "history-dependence", Features: []string{"hist", "doc:" + c.docs[seq[i]].name, "after:" + c.seqNames(seq[:i])},
				Case: desc, Detail: fmt.Sprintf("render #%d (%s) differs from the document's fresh-process trace", i+1, c.docs[seq[i]].name)})
			break
		}
	}
	ctx.Case(true, out)
}

// alternatives returns the r values of all starts the runtime can produce for a map with 2^B buckets.
func alternatives(B int, reduced bool) []uint64 {
	var out []uint64
	nb := 1 << uint(B)
	if reduced {
		for _, off := range []uint64{1, 3, 6} {
			out = append(out, off<<uint(B))
		}
		if nb > 1 {
			out = append(out, uint64(nb-1))
		}
		return out
	}
	total := nb * 8
	step := 1
	if total > 32 {
		step = total / 32
	}
	for k := 1; k < total; k += step {
		bucket, off := uint64(k%nb), uint64(k/nb)
		out = append(out, bucket|off<<uint(B))
	}
	return out
}

func (c *check) warmRecord(ctx *engine.Ctx, d int) *warmRec {
	if w, ok := c.warm[d]; ok {
		return w
	}
	w := &warmRec{}
	ok := ctx.GuardFail("warm record of "+c.docs[d].name, []string{"e2", "record"}, func() {
		renderTrace(&c.docs[d]) // warm-up: one-time initialisation happens here
		maporder.Begin(nil, nil)
		tr := renderTrace(&c.docs[d])
		w.n = maporder.Count()
		for i := 0; i < w.n && i < maporder.LogLen; i++ {
			w.b = append(w.b, uint8(maporder.B(i)))
		}
		if hashOf(tr) != c.gold.Hash[d] {
			ctx.Fail(engine.Failure{Clause: "history-dependence", Features: []string{"e2", "record"}, Case: "warm render of " + c.docs[d].name, Detail: "trace in a warm worker differs from the fresh-process trace"})
		}
	})
	if !ok {
		return nil
	}
	c.warm[d] = w
	return w
}

func opOf(line string) string {
	f := strings.Fields(line)
	if len(f) == 0 {
		return "?"
	}
	return f[0]
}

func (c *check) runE2(e e2unit, ctx *engine.Ctx) {
	d := &c.docs[e.doc]
	if e.fresh {
		B := 0
		if e.i < len(c.gold.B[e.doc]) {
			B = int(c.gold.B[e.doc][e.i])
		}
		for _, v := range alternatives(B, true) {
			desc := fmt.Sprintf("map-order(fresh process) doc=%s iteration=%d start=%d", d.name, e.i, v)
			cmd := exec.Command(os.Args[0], "c15child", "e2", strconv.Itoa(e.doc), strconv.Itoa(e.i), strconv.FormatUint(v, 10))
			cmd.Env = append(os.Environ(), "GOMAXPROCS=1", "GODEBUG=madvdontneed=0")
			var stderr strings.Builder
			cmd.Stderr = &stderr
			out, err := cmd.Output()
			ctx.Trans(1)
			h := strings.TrimSpace(string(out))
			if err != nil || len(h) != 40 {
				ctx.Case(true, "child-failed")
				ctx.Fail(engine.Failure{Clause: "panic", Site: engine.SiteOf(stderr.String()), Features: []string{"e2", "fresh"}, Case: desc, Detail: engine.NormMsg(firstLines(stderr.String()))})
				continue
			}
			ctx.Case(true, h[:8])
			ctx.Count("e2-fresh-renders", 1)
			if h != c.gold.Hash[e.doc] {
				ctx.Fail(engine.Failure{Clause: "map-order-dependence", Features: []string{"e2", "fresh", "doc:" + d.name}, Case: desc,
					Detail: "the backend trace of a fresh process differs from the baseline when this map iteration starts elsewhere"})
			}
		}
		return
	}
	w := c.warmRecord(ctx, e.doc)
	if w == nil {
		ctx.Case(true, "abnormal")
		return
	}
	if e.i >= w.n || (e.j >= 0 && e.j >= w.n) {
		ctx.Count("e2-units-beyond-warm-iteration-count", 1)
		return
	}
	B := func(i int) int {
		if i < len(w.b) {
			return int(w.b[i])
		}
		return 0
	}
	type devs struct{ at, val []uint64 }
	var list []devs
	if e.j < 0 {
		for _, v := range alternatives(B(e.i), false) {
			list = append(list, devs{[]uint64{uint64(e.i)}, []uint64{v}})
		}
	} else {
		for _, v := range alternatives(B(e.i), true) {
			for _, w := range alternatives(B(e.j), true) {
				list = append(list, devs{[]uint64{uint64(e.i), uint64(e.j)}, []uint64{v, w}})
			}
		}
	}
	for _, dv := range list {
		desc := fmt.Sprintf("map-order doc=%s iterations=%v starts=%v", d.name, dv.at, dv.val)
		var tr string
		var n int
		ok := ctx.GuardFail(desc, []string{"e2", "doc:" + d.name}, func() {
			maporder.Begin(dv.at, dv.val)
			tr = renderTrace(d)
			n = maporder.Count()
			maporder.Begin(nil, nil)
		})
		ctx.Trans(1)
		if !ok {
			ctx.Case(true, "abnormal")
			continue
		}
		h := hashOf(tr)
		ctx.Case(true, h[:8])
		ctx.Count("e2-renders", 1)
		if h != c.gold.Hash[e.doc] {
			hint, op := diffHint(c, e.doc, tr)
			ctx.Fail(engine.Failure{Clause: "map-order-dependence", Features: []string{"e2", "doc:" + d.name, "diff:" + op},
				Case: desc, Detail: fmt.Sprintf("the backend trace differs from the baseline when map iteration(s) %v start at %v (controlled iterations: %d)\n%s", dv.at, dv.val, n, hint)})
		}
	}
}

// diffHint shows the first differing line between tr and the baseline trace of the document
// (re-rendered here with default iteration order).
func diffHint(c *check, d int, tr string) (string, string) {
	maporder.Begin(nil, nil)
	base := renderTrace(&c.docs[d])
	a, b := strings.Split(base, "\n"), strings.Split(tr, "\n")
	for i := range a {
		if i >= len(b) || a[i] != b[i] {
			got := "<end>"
			if i < len(b) {
				got = b[i]
			}
			return fmt.Sprintf("first difference at trace line %d:\n  baseline: %s\n  deviated: %s", i+1, a[i], got), opOf(a[i])
		}
	}
	if len(b) > len(a) {
		return "deviated trace is longer: " + b[len(a)], opOf(b[len(a)])
	}
	return "no difference on re-render (baseline itself unstable?)", "unstable"
}

func (c *check) runRace(s int, ctx *engine.Ctx) {
	var idx []string
	for _, n := range scenarios[s] {
		idx = append(idx, strconv.Itoa(c.docIndex(n)))
	}
	desc := "race pass " + strings.Join(scenarios[s], " ∥ ")
	cmd := exec.Command(os.Getenv("VERIF_RACE_BIN"), "c15child", "race", strings.Join(idx, ","))
	cmd.Env = append(os.Environ(), "GOMAXPROCS=8", "GORACE=halt_on_error=0 exitcode=0")
	out, err := cmd.CombinedOutput()
	ctx.Trans(1)
	text := string(out)
	ctx.Count("race-pass-runs", 1)
	if err != nil && !strings.Contains(text, "WARNING: DATA RACE") {
		ctx.Case(true, "race-child-failed")
		ctx.Fail(engine.Failure{Clause: "panic", Site: engine.SiteOf(text), Features: []string{"race"}, Case: desc, Detail: engine.NormMsg(firstLines(text))})
		return
	}
	n := 0
	for _, rep := range strings.Split(text, "WARNING: DATA RACE")[1:] {
		if !strings.Contains(rep, "github.com/benoitkugler/webrender/") {
			continue
		}
		n++
		site := "-"
		for _, line := range strings.Split(rep, "\n") {
			line = strings.TrimSpace(line)
			if strings.HasPrefix(line, "github.com/benoitkugler/webrender/") {
				site = strings.TrimPrefix(line, "github.com/benoitkugler/webrender/")
				if i := strings.Index(site, "("); i > 0 {
					site = site[:i]
				}
				break
			}
		}
		ctx.Fail(engine.Failure{Clause: "race", Site: site, Features: []string{"race"}, Case: desc, Detail: firstLines(rep)})
	}
	ctx.Case(true, fmt.Sprintf("race-reports=%d mismatch=%v", n, strings.Contains(text, "TRACE-MISMATCH")))
	if strings.Contains(text, "TRACE-MISMATCH") {
		ctx.Fail(engine.Failure{Clause: "concurrent-interference", Features: []string{"race", "free-running"}, Case: desc, Detail: "a free-running concurrent render produced a trace different from its solo trace"})
	}
}

func (c *check) Describe(u int64) any {
	fam, k := c.family(u)
	switch fam {
	case "rewrite":
		return map[string]any{"rewrite": c.docs[k].name}
	case "hist":
		return map[string]any{"history": c.seqNames(c.histSeq(k))}
	case "e2":
		e := c.e2[k]
		return map[string]any{"map_order": c.docs[e.doc].name, "iteration": e.i, "second_iteration": e.j, "fresh_process": e.fresh}
	case "e3":
		e := c.e3[k]
		return map[string]any{"schedules_of": scenarios[e.scen], "shard": e.shard}
	default:
		return map[string]any{"race_pass": scenarios[c.race[k]]}
	}
}
