package c15

import (
	"fmt"
	"strconv"
	"strings"
	"sync"
)

// raceChild runs in the -race build: free-running concurrent renders of the scenario's
// documents (real goroutines), each compared with its solo trace.
func raceChild(ds []doc, args []string) int {
	var idx []int
	for _, f := range strings.Split(args[0], ",") {
		k, _ := strconv.Atoi(f)
		idx = append(idx, k)
	}
	// the concurrent rounds come FIRST, in the fresh process, so that lazily initialised shared
	// state is initialised under contention; solo traces are taken afterwards
	const rounds, copies = 6, 2
	got := make([][]string, rounds)
	for r := 0; r < rounds; r++ {
		var wg sync.WaitGroup
		var mu sync.Mutex
		for k, d := range idx {
			for c := 0; c < copies; c++ {
				wg.Add(1)
				go func(k, d int) {
					defer wg.Done()
					defer func() {
						if rec := recover(); rec != nil {
							fmt.Println("PANIC in concurrent render:", rec)
						}
					}()
					h := hashOf(renderTraceOpt(&ds[d], true))
					mu.Lock()
					got[r] = append(got[r], fmt.Sprintf("%d:%s", k, h))
					mu.Unlock()
				}(k, d)
			}
		}
		wg.Wait()
	}
	for k, d := range idx {
		solo := hashOf(renderTraceOpt(&ds[d], true))
		for r := range got {
			for _, g := range got[r] {
				if strings.HasPrefix(g, fmt.Sprintf("%d:", k)) && g != fmt.Sprintf("%d:%s", k, solo) {
					fmt.Println("TRACE-MISMATCH round", r, "doc", ds[d].name)
				}
			}
		}
	}
	fmt.Println("race child done")
	return 0
}
