//go:build !verifrt

package c15

import "verif/internal/engine"

const e3Available = false

func e3Bound(tier string) int                    { return 0 }
func (c *check) runE3(e e3unit, ctx *engine.Ctx) {}
