package c15

import (
	"bytes"
	"fmt"
	"os"
	"strings"

	"github.com/benoitkugler/webrender/utils"

	"verif/internal/rec"
	"verif/internal/render"
)

// doc is one member of the document set D. Every document is built to hit one of the
// sites where map iteration order, package-level state or caches could leak into the output.
type doc struct {
	name    string
	html    string
	fresh   bool                    // needs a private fontconfig copy (@font-face)
	fetcher func() utils.UrlFetcher // per-render fetcher (resources with equal URLs but different bytes)
}

const prelude = `<style>@page{size:100px 60px;margin:5px} html,body{margin:0;font-family:ahem;font-size:10px;line-height:1}</style>`

func readFile(p string) []byte {
	b, err := os.ReadFile(p)
	if err != nil {
		panic("harness: " + err.Error())
	}
	return b
}

func fixedFetcher(files map[string][]byte, mimes map[string]string) func() utils.UrlFetcher {
	return func() utils.UrlFetcher {
		return func(url string) (utils.RemoteRessource, error) {
			if b, ok := files[url]; ok {
				return utils.RemoteRessource{Content: bytes.NewReader(b), MimeType: mimes[url], RedirectedUrl: url}, nil
			}
			if strings.HasPrefix(url, "http://") {
				return utils.RemoteRessource{}, fmt.Errorf("harness: no such resource %s", url)
			}
			return utils.DefaultUrlFetcher(url)
		}
	}
}

func pseudoDoc() string {
	var sb strings.Builder
	sb.WriteString(prelude + `<style>p::before{content:"<" counter(c)} p::after{content:">"} li::marker{content:counter(list-item) "."} p{counter-increment:c}</style>`)
	for i := 0; i < 5; i++ {
		fmt.Fprintf(&sb, "<p>p%c</p>", 'a'+i)
	}
	sb.WriteString("<ul>")
	for i := 0; i < 5; i++ {
		fmt.Fprintf(&sb, "<li>l%c</li>", 'a'+i)
	}
	sb.WriteString("</ul>")
	return sb.String()
}

func docs() []doc {
	png1 := readFile("/repo/resources_test/pattern.png")
	png2 := readFile("/repo/resources_test/icon.png")
	imgDoc := prelude + `<p>ab <img src="http://h/img.png" style="width:10px;height:10px"> cd<span style="float:footnote">fn ef</span></p><table><tr><td>gh<td>ij</table><p>kl<span style="float:footnote">fn mn</span></p>`
	fontDoc := func(file string) string {
		return prelude + `<style>@font-face{font-family:ff;src:url(file://` + file + `)} p{font-family:ff,ahem} div{font-family:ff,ahem;width:10ex;height:2ch;background:lime}</style><p>ab cd</p><p>ef</p><div></div>`
	}
	counterDoc := func(symbols string) string {
		return prelude + `<style>@counter-style z{system:cyclic;symbols:` + symbols + `} li{list-style:z inside} body{hyphens:auto}</style><ol><li>aa<li>bb<li>cc</ol><p lang="en" style="width:60px">hyphenation extraordinary</p>`
	}
	return []doc{
		{name: "d1-anchors", html: prelude + `<p id="a">aa</p><p id="b">bb <a href="#e">le</a></p><p id="c">cc</p><p id="f">ff</p><p><a href="#a">la</a> <a href="#zz">lz</a></p><p style="break-before:page" id="d">dd</p><p id="e">ee</p><p id="a">a2</p>`},
		{name: "d2-broken-out-of-flow", html: `<style>@page{size:100px 40px;margin:0} html,body{margin:0;font-family:ahem;font-size:10px;line-height:1}</style><div style="float:left;width:20px">f1 f2 f3 f4 f5 f6</div><div style="float:right;width:20px">g1 g2 g3 g4 g5 g6</div><div style="position:absolute;top:10px;left:40px;width:20px">h1 h2 h3 h4 h5</div><p>x1 x2</p><p>y1</p>`},
		{name: "d3-strings-targets-bookmarks", html: prelude + `<style>h1,h2{font-size:10px;margin:0;string-set:t content()} h1{bookmark-level:1} h2{bookmark-level:2} .r{position:running(hd)} @page{@top-left{content:element(hd)} @top-center{content:string(t)} @bottom-center{content:counter(page) "/" counter(pages)}} a::after{content:" p" target-counter(attr(href),page) " " target-text(attr(href))}</style><div class="r">run</div><h1 id="x">T1</h1><p><a href="#y">to-y</a> <a href="#x">to-x</a></p><h2 id="y" style="break-before:page">T2</h2><p>zz</p><h1 id="w">T3</h1>`},
		{name: "d4-pseudo-elements", html: pseudoDoc()},
		{name: "d5-page-margin-boxes", html: `<style>@page{size:100px 60px;margin:12px;@top-left{content:"tl"} @top-center{content:"tc"} @top-right{content:"tr"} @bottom-left{content:"bl"} @bottom-center{content:counter(page)} @bottom-right{content:"br"} @left-middle{content:"l"}} @page n{size:80px 50px;@top-center{content:"N"}} @page :first{margin-top:15px} html,body{margin:0;font-family:ahem;font-size:8px;line-height:1}</style><p>aa</p><p style="page:n">bb</p><p style="page:n">cc</p><p style="break-before:page">dd</p>`},
		{name: "d6-counter-style-AB", html: counterDoc(`"A" "B"`)},
		{name: "d6'-counter-style-XYZ", html: counterDoc(`"X" "Y" "Z"`)},
		{name: "d7-img-bytes-1", html: imgDoc, fetcher: fixedFetcher(map[string][]byte{"http://h/img.png": png1}, map[string]string{"http://h/img.png": "image/png"})},
		{name: "d7'-img-bytes-2", html: imgDoc, fetcher: fixedFetcher(map[string][]byte{"http://h/img.png": png2}, map[string]string{"http://h/img.png": "image/png"})},
		{name: "d8-font-face-ahem", html: fontDoc(render.AhemPath), fresh: true},
		{name: "d8'-font-face-weasyprint", html: fontDoc(render.WeasyprintFont), fresh: true},
		{name: "d9-hyphen-hu", html: prelude + `<style>body{hyphens:auto}</style><p lang="hu" style="width:70px">kulissza kulissza asszonnyal</p><p lang="fr" style="width:60px">extraordinairement</p>`},
		{name: "d10-svg-href-chain", html: prelude + `<p>ab <svg xmlns="http://www.w3.org/2000/svg" width="40" height="20"><defs><linearGradient id="base" x1="0" x2="0" y2="1" gradientUnits="userSpaceOnUse" spreadMethod="repeat"><stop offset="0" stop-color="red"/><stop offset="1" stop-color="blue"/></linearGradient><linearGradient id="mid" href="#base"/><linearGradient id="top" href="#mid"/><pattern id="pb" width="4" height="4" patternUnits="userSpaceOnUse"><rect width="2" height="2"/></pattern><pattern id="pm" href="#pb"/><pattern id="pt" href="#pm"/></defs><rect width="20" height="20" fill="url(#top)"/><rect x="20" width="20" height="20" fill="url(#pt)"/></svg> cd</p>`},
		{name: "d11-grid", html: `<style>@page{size:200px 200px;margin:5px} html,body{margin:0;font-family:ahem;font-size:10px;line-height:1}</style><div style="display:grid;grid-template-columns:30px 1fr auto;grid-template-rows:auto 20px;gap:2px"><div style="grid-column:3;grid-row:1">aa</div><div style="grid-column:1;grid-row:2">bb</div><div>cc</div><div style="grid-column:2 / span 2">dd ee</div><div>ff</div></div>`},
		// documents that USE a name defined only by another document: they observe anything that leaks
		{name: "d6''-counter-style-undefined", html: prelude + `<style>li{list-style:z inside} body{hyphens:auto}</style><ol><li>aa<li>bb<li>cc</ol><p lang="en" style="width:60px">hyphenation extraordinary</p>`},
		{name: "d7''-img-missing", html: imgDoc, fetcher: fixedFetcher(map[string][]byte{}, map[string]string{})},
		{name: "d8''-font-face-undefined", html: prelude + `<style>p{font-family:ff,ahem} div{font-family:ff,ahem;width:10ex;height:2ch;background:lime}</style><p>ab cd</p><p>ef</p><div></div>`, fresh: true},
		// SVG text with font properties of its own, and a document that relies on the INITIAL font properties (no font
		// size on the root): anything the first leaves in process-wide tables shows in the second
		{name: "d13-svg-text-fonts", html: prelude + `<p>ab <svg xmlns="http://www.w3.org/2000/svg" width="60" height="30"><text x="2" y="20" font-family="ahem" font-size="12" font-weight="bold" font-style="italic">cd</text><text x="30" y="20" font-size="7">ef</text></svg></p>`},
		{name: "d13''-initial-font-properties", html: `<style>@page{size:200px 80px;margin:5px} html,body{margin:0} p{font-family:ahem;margin:0} div{width:2em;height:1rem;background:lime}</style><p>ab cd</p><div></div><p style="font-size:initial;font-weight:initial">ef</p>`},
		// state that painting could leave in the rendered Document: crop marks (a layer added at paint time), several background layers
		{name: "d12-marks-bleed-layers", html: `<style>@page{size:100px 60px;margin:5px;marks:crop cross;bleed:6px;background:linear-gradient(red,blue) 0 0/80px 50px no-repeat, linear-gradient(lime,green) 0 0/20px 20px no-repeat yellow} html,body{margin:0;font-family:ahem;font-size:10px;line-height:1} div{height:20px;background:linear-gradient(red,blue) 0 0/30px 10px no-repeat, linear-gradient(lime,green) 0 0/10px 20px no-repeat border-box silver;border:2px solid}</style><div>ab</div><p style="break-before:page">cd</p>`},
	}
}

// renderTrace renders document d with its own font configuration and fetcher and returns
// the canonical backend trace.
func renderTrace(d *doc) string { return renderTraceOpt(d, false) }

// renderTraceOpt: noLog leaves the process-wide loggers alone (concurrent renders).
func renderTraceOpt(d *doc, noLog bool) string {
	o := render.Options{HTML: d.html, Engine: "pango", FreshFonts: true, PageBound: 100, BaseURL: "http://h/", NoLogHook: noLog}
	if d.fetcher != nil {
		o.Fetcher = d.fetcher()
	}
	res, err := render.Render(o)
	if err != nil {
		return "load-error: " + err.Error()
	}
	return res.Rec.Trace()
}

// rewriteTraces renders d once and writes the resulting Document n times, each time to a fresh backend.
func rewriteTraces(d *doc, n int) []string {
	o := render.Options{HTML: d.html, Engine: "pango", FreshFonts: true, PageBound: 100, BaseURL: "http://h/"}
	if d.fetcher != nil {
		o.Fetcher = d.fetcher()
	}
	res, err := render.Render(o)
	if err != nil {
		return []string{"load-error: " + err.Error()}
	}
	out := []string{res.Rec.Trace()}
	for i := 1; i < n; i++ {
		r := rec.New()
		res.Doc.Write(r, 1, nil)
		r.Finish()
		out = append(out, r.Trace())
	}
	return out
}
