//go:build verifrt

package c15

import (
	"fmt"
	"os"
	"strings"
	"time"

	"verif/internal/engine"
	"verif/internal/sched"
)

const e3Available = true

func e3Bound(tier string) int {
	if tier == "thorough" {
		return 3
	}
	return 2
}

func (c *check) runE3(e e3unit, ctx *engine.Ctx) {
	names := scenarios[e.scen]
	var idx []int
	for _, n := range names {
		idx = append(idx, c.docIndex(n))
	}
	desc := fmt.Sprintf("schedules %s shard %d/%d", strings.Join(names, " ∥ "), e.shard, e3Shards)
	feats := []string{"e3", "scenario:" + strings.Join(names, "+")}
	// solo traces in this process (no scheduler)
	solo := make([]string, len(idx))
	for k, d := range idx {
		d := d
		if !ctx.GuardFail("solo render of "+c.docs[d].name, feats, func() { solo[k] = hashOf(renderTraceOpt(&c.docs[d], true)) }) {
			ctx.Case(true, "abnormal")
			return
		}
		if solo[k] != c.gold.Hash[d] {
			ctx.Fail(engine.Failure{Clause: "history-dependence", Features: append(feats, "solo"), Case: desc, Detail: "solo trace in the worker differs from the fresh-process trace of " + c.docs[d].name})
		}
	}
	var traces []string
	bodies := func() []func() {
		traces = make([]string, len(idx))
		var bs []func()
		for k, d := range idx {
			k, d := k, d
			bs = append(bs, func() { traces[k] = hashOf(renderTraceOpt(&c.docs[d], true)) })
		}
		return bs
	}
	nfail := 0
	report := func(clause, detail string, x *sched.Execution) {
		nfail++
		if nfail > 3 {
			return
		}
		ctx.Fail(engine.Failure{Clause: clause, Features: feats, Case: fmt.Sprintf("%s schedule=%v", desc, x.Choices()), Detail: detail})
	}
	var rootLabels string
	first := true
	ex := &sched.Explorer{Bound: e3Bound(c.tier), Bodies: bodies, MaxExecs: 4000}
	ex.Filter = func(i, alt int) bool { return (i*7+alt)%e3Shards == e.shard }
	// a shard explores until its execution cap or its time cap, whichever comes first: on a tree where the renders
	// share much more state than the unchanged one (every access is a scheduling point) a single shard would
	// otherwise run for hours and keep the other families from being reached
	shardStart := time.Now()
	shardCap := 90 * time.Second
	if c.tier == "thorough" {
		shardCap = 15 * time.Minute
	}
	ex.Check = func(x *sched.Execution) {
		if time.Since(shardStart) > shardCap && ex.MaxExecs != 1 {
			ex.MaxExecs = 1 // stops after this execution; reported as a capped shard
		}
		isRoot := first
		first = false
		if isRoot {
			var sb strings.Builder
			for _, p := range x.Points {
				sb.WriteString(p.Label + ";")
			}
			rootLabels = sb.String()
		}
		if !isRoot || e.shard == 0 {
			ctx.Case(true, strings.Join(traces, ","))
			ctx.Trans(int64(len(x.Points)))
		}
		switch {
		case x.Diverged != "":
			report("schedule-replay-diverged", x.Diverged, x)
		case x.Horizon:
			report("livelock", "more than the horizon of scheduling points", x)
		case x.Deadlock:
			report("deadlock", fmt.Sprintf("threads %v blocked with no enabled thread", x.Blocked), x)
		}
		for t, p := range x.Panics {
			if p != "" {
				nfail++
				if nfail <= 3 {
					ctx.Fail(engine.Failure{Clause: "panic", Site: engine.SiteOf(p), Features: feats, Case: fmt.Sprintf("%s schedule=%v thread=%d", desc, x.Choices(), t), Detail: engine.NormMsg(p)})
				}
			}
		}
		for _, r := range x.Races {
			nfail++
			if nfail <= 3 {
				ctx.Fail(engine.Failure{Clause: "race", Site: strings.SplitN(r, ":", 2)[0], Features: append(feats, "lockset"), Case: fmt.Sprintf("%s schedule=%v", desc, x.Choices()), Detail: r})
			}
		}
		if x.Deadlock || x.Diverged != "" || x.Horizon {
			return
		}
		for k := range idx {
			if x.Panics[k] == "" && traces[k] != solo[k] {
				report("concurrent-interference", fmt.Sprintf("thread %d (%s): trace differs from its solo trace", k, names[k]), x)
			}
		}
	}
	// one shard is up to MaxExecs complete executions of the scenario: the per-case CPU budget that suits a single
	// render (60 s) is far too small for it (a shard at preemption bound 3 needs several minutes of CPU)
	ctx.SetCaseBudget(3000)
	defer ctx.SetCaseBudget(60)
	ok := ctx.GuardFail(desc, feats, func() {
		if e.shard == 0 {
			// determinism of the harness: the default schedule twice, identical observations
			a := sched.Run(bodies(), nil)
			ta := strings.Join(traces, ",")
			b := sched.Run(bodies(), nil)
			tb := strings.Join(traces, ",")
			if fmt.Sprint(a.Choices()) != fmt.Sprint(b.Choices()) || ta != tb || len(a.Points) != len(b.Points) {
				ctx.Fail(engine.Failure{Clause: "schedule-replay-diverged", Features: feats, Case: desc, Detail: "the default schedule executed twice gave different observations"})
			}
			ctx.Count("e3-points-default-schedule", int64(len(a.Points)))
			if os.Getenv("VERIF_DEBUG") != "" {
				for _, p := range a.Points {
					fmt.Fprintf(os.Stderr, "point t%d %s enabled=%v\n", p.Running, p.Label, p.Enabled)
				}
			}
		}
		ex.Explore()
	})
	_ = ok
	_ = rootLabels
	ctx.Count("e3-executions", ex.Execs)
	if ex.Capped {
		ctx.Count("e3-capped-shards", 1)
	}
}
