package c09

import (
	"fmt"
	"os"
	"sort"
	"strings"
	"testing"
)

func TestDump(t *testing.T) {
	d := os.Getenv("DOC")
	if d == "" {
		t.Skip()
	}
	fmt.Println(d)
	fmt.Println(dumpTree(buildTree(d)))
}

// TestExplore: development census of the failure classes (clause x features) over a unit
// range RANGE=lo:hi; prints "clause\tfeatures\tcount\texample\tdetail" lines.
func TestExplore(t *testing.T) {
	if os.Getenv("EXPLORE") == "" {
		t.Skip()
	}
	c := &check{}
	sp := c.Init(os.Getenv("EXPLORE"), 0)
	lo, hi := int64(0), sp.Units
	fmt.Sscanf(os.Getenv("RANGE"), "%d:%d", &lo, &hi)
	if hi > sp.Units {
		hi = sp.Units
	}
	type tl struct {
		n       int
		ex, det string
	}
	res := map[string]*tl{}
	total := 0
	record := func(html string, ti *treeInfo, feat func(f finding) []string) {
		total++
		for _, f := range ti.finds {
			k := f.clause + "\t" + strings.Join(feat(f), ",")
			e := res[k]
			if e == nil {
				e = &tl{}
				res[k] = e
			}
			e.n++
			if e.ex == "" || len(html) < len(e.ex) {
				e.ex, e.det = html, f.detail
			}
		}
	}
	runDoc := func(dc *docCase) {
		defer func() {
			if r := recover(); r != nil {
				ti := &treeInfo{}
				ti.finds = append(ti.finds, finding{clause: "panic", detail: fmt.Sprint(r)})
				record(dc.html, ti, func(f finding) []string { return dc.featuresOf(1, 2, 3) })
			}
		}()
		root := buildTree(dc.html)
		ti := analyse(root)
		for _, t := range ti.tables {
			ti.checkGrid(t.b)
		}
		dc.checkInput(ti)
		record(dc.html, ti, func(f finding) []string { return append(dc.featuresOf(f.elems...), f.extra...) })
	}
	for u := lo; u < hi; u++ {
		switch {
		case u < c.nA:
			s := u / (nD * nD)
			d1 := disp(u / nD % nD)
			d2 := disp(u % nD)
			for d3 := disp(0); d3 < nDisp; d3++ {
				ds := []disp{d1, d2, d3}
				for _, x := range c.extrasFor(ds, true) {
					runDoc(newDoc(c.shapes3[s], ds, x))
				}
			}
		case u < c.nA+c.nB:
			sk, l, h := c.tableUnit(u - c.nA)
			for idx := l; idx < h; idx++ {
				tc := newTableCase(sk, c.menu, idx)
				root := buildTree(tc.html)
				ti := analyse(root)
				for _, t := range ti.tables {
					ti.checkGrid(t.b)
				}
				tc.check(ti)
				record(tc.html, ti, func(f finding) []string { return tc.feats })
			}
		default:
			v := u - c.nA - c.nB
			s := v / (nD * nD * nD)
			d1 := disp(v / (nD * nD) % nD)
			d2 := disp(v / nD % nD)
			d3 := disp(v % nD)
			k := 0
			for _, d := range []disp{d1, d2, d3} {
				if d != dInline {
					k++
				}
			}
			for d4 := disp(0); d4 < nDisp; d4++ {
				kk := k
				if d4 != dInline {
					kk++
				}
				if kk > 3 {
					break
				}
				ds := []disp{d1, d2, d3, d4}
				for _, x := range c.extrasFor(ds, kk < 3) {
					runDoc(newDoc(c.shapes4[s], ds, x))
				}
			}
		}
	}
	fmt.Printf("CASES\t%d\n", total)
	var ks []string
	for k := range res {
		ks = append(ks, k)
	}
	sort.Strings(ks)
	for _, k := range ks {
		e := res[k]
		fmt.Printf("F\t%s\t%d\t%s\t%s\n", k, e.n, e.ex, strings.ReplaceAll(e.det, "\n", " "))
	}
}

func TestUnits(t *testing.T) {
	for _, tier := range []string{"quick", "thorough"} {
		c := &check{}
		sp := c.Init(tier, 0)
		fmt.Println(tier, "units", sp.Units, "A", c.nA, "B", c.nB, "C", c.nC, sp.Bounds["tables"])
	}
}
