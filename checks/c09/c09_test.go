package c09

import (
	"fmt"
	"os"
	"sort"
	"strings"
	"testing"
)

// TestDump prints the box tree of the document in $DOC (development helper).
func TestDump(t *testing.T) {
	d := os.Getenv("DOC")
	if d == "" {
		t.Skip()
	}
	fmt.Println(d)
	bt := buildDoc(d)
	fmt.Println(dumpTree(bt.root))
	for _, f := range bt.footnotes {
		fmt.Println("footnote:\n" + dumpTree(f))
	}
	if len(bt.footnotes) > 0 {
		fmt.Println("footnote area:\n" + dumpTree(footnoteArea(bt.root, bt.footnotes)))
	}
}

// TestExplore: development census of the failure classes (clause x features) over a unit
// range RANGE=lo:hi; prints "clause\tfeatures\tcount\texample\tdetail" lines.
func TestExplore(t *testing.T) {
	if os.Getenv("EXPLORE") == "" {
		t.Skip()
	}
	c := &check{}
	sp := c.Init(os.Getenv("EXPLORE"), 0)
	lo, hi := int64(0), sp.Units
	fmt.Sscanf(os.Getenv("RANGE"), "%d:%d", &lo, &hi)
	if hi > sp.Units {
		hi = sp.Units
	}
	type tl struct {
		n       int
		ex, det string
	}
	res := map[string]*tl{}
	total := 0
	record := func(html string, ti *treeInfo, feat func(f finding) []string) {
		total++
		for _, f := range ti.finds {
			k := f.clause + "\t" + strings.Join(feat(f), ",")
			e := res[k]
			if e == nil {
				e = &tl{}
				res[k] = e
			}
			e.n++
			if e.ex == "" || len(html) < len(e.ex) {
				e.ex, e.det = html, f.detail
			}
		}
	}
	runDoc := func(dc *docCase) {
		defer func() {
			if r := recover(); r != nil {
				ti := &treeInfo{}
				ti.finds = append(ti.finds, finding{clause: "panic", detail: fmt.Sprint(r)})
				record(dc.html, ti, func(f finding) []string { return dc.featuresOf(1, 2, 3) })
			}
		}()
		ti := analyseDoc(buildDoc(dc.html))
		for _, t := range ti.tables {
			ti.checkGrid(t.b)
		}
		dc.checkInput(ti)
		record(dc.html, ti, func(f finding) []string { return append(dc.featuresOf(f.elems...), f.extra...) })
	}
	for u0 := lo; u0 < hi; u0++ {
		u := u0 - c.nF
		switch {
		case u0 < c.nF:
			s := u0 / nD
			d1 := disp(u0 % nD)
			for d2 := disp(0); d2 < nDisp; d2++ {
				ds := []disp{d1, d2}
				for _, x := range c.extrasFor(ds, true) {
					runDoc(newDoc(c.shapes2[s], ds, x))
				}
			}
		case u < c.nA:
			s := u / (nD * nD)
			d1 := disp(u / nD % nD)
			d2 := disp(u % nD)
			for d3 := disp(0); d3 < nDisp; d3++ {
				ds := []disp{d1, d2, d3}
				for _, x := range c.extrasFor(ds, true) {
					runDoc(newDoc(c.shapes3[s], ds, x))
				}
			}
		case u < c.nA+c.nB:
			sk, l, h := c.tableUnit(u - c.nA)
			for idx := l; idx < h; idx++ {
				tc := newTableCase(sk, c.menu, idx)
				root := buildTree(tc.html)
				ti := analyse(root)
				for _, t := range ti.tables {
					ti.checkGrid(t.b)
				}
				tc.check(ti)
				record(tc.html, ti, func(f finding) []string { return tc.feats })
			}
		default:
			v := u - c.nA - c.nB
			s := v / (nD * nD * nD)
			d1 := disp(v / (nD * nD) % nD)
			d2 := disp(v / nD % nD)
			d3 := disp(v % nD)
			k := 0
			for _, d := range []disp{d1, d2, d3} {
				if d != dInline {
					k++
				}
			}
			for d4 := disp(0); d4 < nDisp; d4++ {
				kk := k
				if d4 != dInline {
					kk++
				}
				if kk > 3 {
					break
				}
				ds := []disp{d1, d2, d3, d4}
				for _, x := range c.extrasFor(ds, kk < 3) {
					runDoc(newDoc(c.shapes4[s], ds, x))
				}
			}
		}
	}
	fmt.Printf("CASES\t%d\n", total)
	var ks []string
	for k := range res {
		ks = append(ks, k)
	}
	sort.Strings(ks)
	for _, k := range ks {
		e := res[k]
		fmt.Printf("F\t%s\t%d\t%s\t%s\n", k, e.n, e.ex, strings.ReplaceAll(e.det, "\n", " "))
	}
}

// ---- unit tests of the reference model ---------------------------------------------------------

func TestForests(t *testing.T) {
	if n := len(forests(3)); n != 5 {
		t.Fatalf("ordered forests of 3 nodes: %d, want 5", n)
	}
	if n := len(forests(4)); n != 14 {
		t.Fatalf("ordered forests of 4 nodes: %d, want 14", n)
	}
}

func TestSlotSim(t *testing.T) {
	if err := slotSimSelfTest(); err != nil {
		t.Fatal(err)
	}
}

// calibrations of the reference (DESIGN Appendix A item 2 and the triage of this check)
func TestReferenceCalibrations(t *testing.T) {
	// a floated table-cell is a block (CSS 2.1 §9.7); a table-row child of a flex container is
	// blockified (Flexbox §4); children of a table-column generate nothing (CSS 2.1 §17.2.1 rule 1.1)
	dc := newDoc([]int{0, 1, 2}, []disp{dFlex, dRow, dCell}, extra{xFloat, 3})
	if dc.nodes[2].cd != dBlock || dc.nodes[3].cd != dBlock || !dc.nodes[3].alive {
		t.Fatalf("blockification: %+v %+v", dc.nodes[2], dc.nodes[3])
	}
	dc = newDoc([]int{0, 1, 2}, []disp{dBlock, dColumn, dBlock}, extra{})
	if !dc.nodes[2].alive || dc.nodes[3].alive || dc.nodes[3].deadWhy != "column-child" || dc.textAlive(2) {
		t.Fatalf("rule 1.1: %+v %+v", dc.nodes[2], dc.nodes[3])
	}
	// a replaced element with display:table-column is an inline-level replaced box, not a column:
	// inside a column group rule 1.2 removes it
	dc = newDoc([]int{0, 1, 2}, []disp{dBlock, dColGroup, dColumn}, extra{xReplaced, 3})
	if dc.nodes[3].alive || dc.nodes[3].deadWhy != "colgroup-child" {
		t.Fatalf("replaced column: %+v", dc.nodes[3])
	}
	// display:none wins over everything; its subtree is dead
	dc = newDoc([]int{0, 1, 2}, []disp{dNone, dBlock, dBlock}, extra{xFloat, 2})
	if dc.nodes[1].alive || dc.nodes[2].alive || dc.nodes[3].deadWhy != "none" {
		t.Fatalf("none: %+v", dc.nodes)
	}
}

// the reference for the symbols added with the 2-element forests
func TestReferenceNewSymbols(t *testing.T) {
	// display:none wins over every property that rewrites display (GCPM footnotes, running elements)
	for _, k := range []extraKind{xFootnote, xFootnoteInline, xRunning, xFloat, xAbs, xFixed} {
		dc := newDoc([]int{0, 1}, []disp{dNone, dBlock}, extra{k, 1})
		if dc.nodes[1].alive || dc.nodes[2].alive || dc.textAlive(1) {
			t.Fatalf("%s + display:none must generate nothing: %+v", extraName[k], dc.nodes[1])
		}
	}
	// footnote-display decides the box of a footnote, whatever display says
	dc := newDoc([]int{0, 0}, []disp{dCell, dInline}, extra{xFootnote, 1})
	if dc.nodes[1].cd != dBlock || !dc.nodes[1].alive {
		t.Fatalf("footnote: %+v", dc.nodes[1])
	}
	dc = newDoc([]int{0, 0}, []disp{dFlex, dInline}, extra{xFootnoteInline, 1})
	if dc.nodes[1].cd != dInline || !dc.nodes[1].alive {
		t.Fatalf("inline footnote: %+v", dc.nodes[1])
	}
	// a replaced element that loads: no child, no pseudo-element; one that fails: the fallback lives
	for _, k := range []extraKind{xReplaced, xObjPng, xSvg} {
		dc = newDoc([]int{0, 1}, []disp{dListItem, dBlock}, extra{k, 1})
		if !dc.nodes[1].alive || !dc.nodes[1].replaced || dc.nodes[2].alive || dc.textAlive(1) || dc.nodes[2].deadWhy != "replaced-child" {
			t.Fatalf("%s: %+v %+v", extraName[k], dc.nodes[1], dc.nodes[2])
		}
	}
	dc = newDoc([]int{0, 1}, []disp{dBlock, dBlock}, extra{xObjBroken, 1})
	if !dc.nodes[1].alive || dc.nodes[1].replaced || !dc.nodes[2].alive || !dc.textAlive(1) {
		t.Fatalf("object-broken: %+v %+v", dc.nodes[1], dc.nodes[2])
	}
	// inside a running element rules 1.1 / 1.2 of CSS 2.1 §17.2.1 are applied later (margin box)
	dc = newDoc([]int{0, 1}, []disp{dBlock, dColumn}, extra{xRunning, 1})
	if !dc.nodes[2].alive || !dc.textAlive(2) {
		t.Fatalf("column inside a running element: %+v", dc.nodes[2])
	}
}
